"""Registry of property checks: one file per property under harness/props/<ID>.py defining PROP = {...}.

PROP keys
  technique, level_text, level_note   -> MANIFEST.json
  rule, assumptions                   -> evidence/<ID>.json
  file_prefixes (optional)            -> which harness files are compiled in (default ["<id>_"]; "shared_" is always added)
  tests: list of
     name   Go test function (TestVerif<ID>_... / FuzzVerif<ID>_...)
     unit   "<module dir>:<package path>"; harness files live in /verif/harness/<module>/<package path>/
     kind   rapid (default) | plain | fuzz
     quick / thorough      rapid case counts per process
     shards / shards_thorough   processes (distinct seeds) per tier (default 1 / 8)
     timeout_quick / timeout_thorough  seconds (default 600 / 3600); expiry = inconclusive (exit 2)
     race   build with -race
     fuzz_secs   native fuzzing time in the thorough tier (kind=fuzz); the seed corpus always runs
     thorough_only
     rapid_checks_per_test  number of rapid.Check calls inside the test function (default 1)
"""
import glob, os, importlib.util

PROPS = {}
NOT_YET = {}
_d = os.path.join(os.path.dirname(os.path.abspath(__file__)), "props")
for _f in sorted(glob.glob(os.path.join(_d, "C*.py"))):
    _spec = importlib.util.spec_from_file_location("prop_" + os.path.basename(_f)[:-3], _f)
    _m = importlib.util.module_from_spec(_spec)
    _spec.loader.exec_module(_m)
    PROPS[os.path.basename(_f)[:-3]] = _m.PROP
