package client

// C05 (send path, client side) — udpConn.Send, reached through the client's real
// udpSessionManager (NewUDP wires SendFunc = io.SendMessage), against a fake udpIO whose
// SendMessage behaves like quic.Conn.SendDatagram with a datagram limit n: a
// message whose wire size exceeds n is refused with
// *quic.DatagramTooLargeError{MaxDatagramPayloadSize: n}, everything else is
// "delivered" (recorded with a private copy of its bytes).
//
// Oracle (written from PROTOCOL.md / the property statement, independent of
// frag.go): what was delivered is either the whole message, or <= 255 fragments
// that all fit n, share one non-zero packet ID, are numbered 0..k-1 of k and
// concatenate to the payload; a message that cannot be sent that way (budget
// <= 0 or more than 255 fragments needed) delivers nothing and must not panic.

import (
	"bytes"
	"errors"
	"fmt"
	"math/rand"
	"testing"

	"github.com/apernet/quic-go"

	"github.com/apernet/hysteria/core/v2/internal/frag"
	"github.com/apernet/hysteria/core/v2/internal/protocol"
	"pgregory.net/rapid"
)

func v05cVarintLen(v uint64) int {
	switch {
	case v <= 63:
		return 1
	case v <= 16383:
		return 2
	case v <= 1073741823:
		return 4
	default:
		return 8
	}
}

func v05cHeaderSize(addrLen int) int { return 8 + v05cVarintLen(uint64(addrLen)) + addrLen }

func v05cPayload(n int, salt uint32) []byte {
	b := make([]byte, n)
	x := salt*2654435761 + 12345
	for i := range b {
		x = x*1664525 + 1013904223
		b[i] = byte(x >> 24)
	}
	return b
}

func v05cAddr(n int, salt int) string {
	const al = "abcdefghijklmnopqrstuvwxyz0123456789.-:"
	b := make([]byte, n)
	for i := range b {
		b[i] = al[(i*7+salt)%len(al)]
	}
	return string(b)
}

type v05cSent struct {
	sid       uint32
	pid       uint16
	fragID    uint8
	fragCount uint8
	addr      string
	data      []byte
	lim       int // the link's datagram limit when this one was accepted
}

// v05cIO implements the client's udpIO.
type v05cIO struct {
	limit     int
	delivered []v05cSent
	refused   int // calls answered with DatagramTooLargeError
	calls     int
	failAt    int // 1-based call index answered with a generic error (0 = never)
	limit2    int // the link's limit from call changeAt on (path MTU change in the middle of a send)
	changeAt  int // 1-based call index (0 = the limit never changes)
	stop      chan struct{}
}

var v05cErrInjected = errors.New("v05: injected send failure")

// ReceiveMessage parks the manager's receive loop until the case is over.
func (f *v05cIO) ReceiveMessage() (*protocol.UDPMessage, error) {
	<-f.stop
	return nil, errors.New("v05: closed")
}

func (f *v05cIO) SendMessage(buf []byte, m *protocol.UDPMessage) error {
	f.calls++
	if f.failAt > 0 && f.calls == f.failAt {
		return v05cErrInjected
	}
	size := v05cHeaderSize(len(m.Addr)) + len(m.Data)
	lim := f.limit
	if f.changeAt > 0 && f.calls >= f.changeAt {
		lim = f.limit2
	}
	if size > lim {
		f.refused++
		return &quic.DatagramTooLargeError{MaxDatagramPayloadSize: int64(lim)}
	}
	f.delivered = append(f.delivered, v05cSent{m.SessionID, m.PacketID, m.FragID, m.FragCount, m.Addr, append([]byte(nil), m.Data...), lim})
	return nil
}

type v05cCase struct {
	payloadLen, addrLen, limit int
	sid                        uint32
	seed                       int64
	failAt                     int
	limit2, changeAt           int
}

func (c v05cCase) String() string {
	s := fmt.Sprintf("payload=%d addr=%d limit=%d (hdr=%d) sid=%d randseed=%d failAt=%d", c.payloadLen, c.addrLen, c.limit, v05cHeaderSize(c.addrLen), c.sid, c.seed, c.failAt)
	if c.changeAt > 0 {
		s += fmt.Sprintf(" limit->%d from link call %d", c.limit2, c.changeAt)
	}
	return s
}

func v05cGen(t *rapid.T, maxPayload int) v05cCase {
	var c v05cCase
	c.addrLen = rapid.OneOf(rapid.IntRange(1, 40), rapid.SampledFrom([]int{1, 62, 63, 64, 65, 255}), rapid.IntRange(1, 300)).Draw(t, "addrLen")
	hdr := v05cHeaderSize(c.addrLen)
	switch rapid.IntRange(0, 5).Draw(t, "mode") {
	case 0: // limit around the header size
		c.limit = hdr + rapid.IntRange(-3, 3).Draw(t, "dl")
		if c.limit < 0 {
			c.limit = 0
		}
		c.payloadLen = rapid.IntRange(1, 700).Draw(t, "payloadLen")
	case 1: // fragment count near 255/256
		budget := rapid.IntRange(1, maxPayload/250).Draw(t, "budget")
		cnt := rapid.IntRange(250, 262).Draw(t, "count")
		c.limit = hdr + budget
		c.payloadLen = budget*cnt + rapid.IntRange(-budget, 1).Draw(t, "dp")
	case 2: // multiples of the budget +-1
		budget := rapid.IntRange(1, 1400).Draw(t, "budget")
		cnt := rapid.IntRange(1, 40).Draw(t, "count")
		c.limit = hdr + budget
		c.payloadLen = budget*cnt + rapid.IntRange(-1, 1).Draw(t, "dp")
	case 3: // realistic datagram limits
		c.limit = rapid.SampledFrom([]int{1200, 1197, 1252, 1350, 1452, 500, 100}).Draw(t, "limit")
		c.payloadLen = rapid.IntRange(1, maxPayload).Draw(t, "payloadLen")
	case 4: // tiny peer-advertised limits, large payloads
		c.limit = rapid.IntRange(0, 64).Draw(t, "limit")
		c.payloadLen = rapid.IntRange(1, 4096).Draw(t, "payloadLen")
	default:
		c.limit = rapid.IntRange(0, 2000).Draw(t, "limit")
		c.payloadLen = rapid.IntRange(1, maxPayload).Draw(t, "payloadLen")
	}
	if c.payloadLen < 1 {
		c.payloadLen = 1
	}
	if c.payloadLen > maxPayload {
		c.payloadLen = maxPayload
	}
	c.sid = rapid.Uint32().Draw(t, "sid")
	c.seed = rapid.Int64().Draw(t, "randseed")
	if rapid.IntRange(0, 9).Draw(t, "injectFailure") == 0 {
		c.failAt = rapid.IntRange(1, 6).Draw(t, "failAt")
	}
	if rapid.IntRange(0, 5).Draw(t, "limitChanges") == 0 {
		// the datagram limit changes after >= 1 fragment is out (call 1 = unfragmented attempt, call 2 = fragment 0)
		b1 := rapid.IntRange(2, 1400).Draw(t, "budget1")
		k := rapid.IntRange(2, 8).Draw(t, "fragments")
		c.payloadLen = b1*(k-1) + rapid.IntRange(1, b1).Draw(t, "lastFragment")
		b2 := rapid.IntRange(1, b1+20).Draw(t, "budget2")
		if minSame := (c.payloadLen + k - 1) / k; minSame <= b1-1 && rapid.IntRange(0, 2).Draw(t, "sameCount") != 0 {
			b2 = rapid.IntRange(minSame, b1-1).Draw(t, "budget2same") // same fragment count, other boundaries
		}
		c.limit, c.limit2 = hdr+b1, hdr+b2
		c.changeAt = 2 + rapid.IntRange(1, k-1).Draw(t, "changeAtFragment")
		c.failAt = 0
	}
	return c
}

// v05cNeed: -1 = fits unfragmented, 0 = cannot be sent (no budget), k>=1 fragments needed otherwise.
func v05cNeed(c v05cCase) int {
	hdr := v05cHeaderSize(c.addrLen)
	if hdr+c.payloadLen <= c.limit {
		return -1
	}
	budget := c.limit - hdr
	if budget <= 0 {
		return 0
	}
	return (c.payloadLen + budget - 1) / budget
}

// v05cCheckDelivered is the oracle over the fake's delivery record.
func v05cCheckDelivered(c v05cCase, addr string, payload []byte, io *v05cIO, ret error, failed bool) error {
	need := v05cNeed(c)
	hdr := v05cHeaderSize(c.addrLen)
	for i, d := range io.delivered {
		if hdr+len(d.data) > d.lim {
			return fmt.Errorf("delivery %d has wire size %d > limit %d", i, hdr+len(d.data), d.lim)
		}
		if d.sid != c.sid || d.addr != addr {
			return fmt.Errorf("delivery %d changed session/address (sid=%d addr=%q)", i, d.sid, d.addr)
		}
	}
	// receiver side: everything the link delivered, in order, through the wire format into the far
	// side's reassembler. Whatever the sender returned, the far side gets the message or nothing.
	changed := c.changeAt > 0 && io.calls >= c.changeAt
	emitted, err := v05cReceive(io)
	if err != nil {
		return err
	}
	for _, e := range emitted {
		if e.SessionID != c.sid || e.Addr != addr || !bytes.Equal(e.Data, payload) {
			return fmt.Errorf("the receiver reassembled a %d-byte message from the %d delivered datagrams that differs from the %d-byte message that was sent (send returned %v)", len(e.Data), len(io.delivered), len(payload), ret)
		}
	}
	if len(emitted) > 1 {
		return fmt.Errorf("the receiver got the message %d times", len(emitted))
	}
	if !failed && !changed && (need == -1 || (need >= 1 && need <= 255)) && len(emitted) != 1 {
		return fmt.Errorf("deliverable message (fragments needed=%d) did not come out of the receiver's reassembler (%d datagrams delivered)", need, len(io.delivered))
	}
	if changed {
		// the link refused a fragment because its limit changed mid-send: the message may be lost or
		// re-sent in any form; only the receiver-side all-or-nothing rule above applies
		return nil
	}
	// failed: an injected environment failure hit one of the sends. The message may then be
	// lost, but whatever was delivered must still be the whole message or a prefix of a
	// well-formed fragment train.
	switch {
	case need == -1:
		if failed {
			if len(io.delivered) > 1 {
				return fmt.Errorf("%d deliveries for an unfragmented message", len(io.delivered))
			}
			return nil
		}
		if len(io.delivered) != 1 {
			return fmt.Errorf("message fits the limit but %d datagrams were delivered", len(io.delivered))
		}
		d := io.delivered[0]
		if d.fragCount > 1 || d.fragID != 0 {
			return fmt.Errorf("unfragmented message sent as fragment %d/%d", d.fragID, d.fragCount)
		}
		if !bytes.Equal(d.data, payload) {
			return fmt.Errorf("unfragmented message delivered with different bytes")
		}
		return nil
	case need == 0 || need > 255:
		if len(io.delivered) != 0 {
			return fmt.Errorf("message cannot be sent (fragments needed=%d) but %d datagrams were delivered", need, len(io.delivered))
		}
		return nil
	}
	// 1 <= need <= 255 fragments (need==1 cannot happen: size > limit implies need >= 2 or budget<=0)
	if len(io.delivered) == 0 && !failed {
		return fmt.Errorf("deliverable message (needs %d fragments) was not sent at all (ret=%v)", need, ret)
	}
	var cat []byte
	for i, d := range io.delivered {
		if d.pid == 0 {
			return fmt.Errorf("fragment %d carries packet ID 0", i)
		}
		if d.pid != io.delivered[0].pid {
			return fmt.Errorf("fragment %d has packet ID %d, fragment 0 has %d", i, d.pid, io.delivered[0].pid)
		}
		if int(d.fragID) != i {
			return fmt.Errorf("delivery %d has FragID %d", i, d.fragID)
		}
		if d.fragCount != io.delivered[0].fragCount {
			return fmt.Errorf("fragments disagree on FragCount (%d vs %d)", d.fragCount, io.delivered[0].fragCount)
		}
		if len(d.data) == 0 {
			return fmt.Errorf("fragment %d is empty (the peer's parser rejects it)", i)
		}
		cat = append(cat, d.data...)
	}
	if failed {
		if !bytes.HasPrefix(payload, cat) {
			return fmt.Errorf("delivered fragments are not a prefix of the payload")
		}
		return nil
	}
	if io.refused != 1 {
		return fmt.Errorf("%d datagrams were refused as too large (only the unfragmented attempt may be)", io.refused)
	}
	if int(io.delivered[0].fragCount) != len(io.delivered) {
		return fmt.Errorf("FragCount=%d but %d fragments delivered", io.delivered[0].fragCount, len(io.delivered))
	}
	if len(io.delivered) > 255 {
		return fmt.Errorf("%d fragments > 255", len(io.delivered))
	}
	if !bytes.Equal(cat, payload) {
		return fmt.Errorf("concatenation of %d fragments (%d bytes) != payload (%d bytes)", len(io.delivered), len(cat), len(payload))
	}
	return nil
}

// v05cReceive feeds the link's deliveries, serialized and parsed back, into one frag.Defragger.
func v05cReceive(io *v05cIO) (out []*protocol.UDPMessage, err error) {
	defer func() {
		if r := recover(); r != nil {
			err = fmt.Errorf("receiver panic: %v", r)
		}
	}()
	d := &frag.Defragger{}
	for i, s := range io.delivered {
		m := &protocol.UDPMessage{SessionID: s.sid, PacketID: s.pid, FragID: s.fragID, FragCount: s.fragCount, Addr: s.addr, Data: s.data}
		buf := make([]byte, m.Size())
		n := m.Serialize(buf)
		if n != len(buf) {
			return nil, fmt.Errorf("delivery %d does not serialize (%d of %d bytes)", i, n, len(buf))
		}
		p, perr := protocol.ParseUDPMessage(buf[:n:n])
		if perr != nil {
			return nil, fmt.Errorf("delivery %d is rejected by the receiver's parser: %v", i, perr)
		}
		if e := d.Feed(p); e != nil {
			out = append(out, e)
		}
	}
	return out, nil
}

func v05cRun(c v05cCase) (io *v05cIO, err error) {
	rand.Seed(c.seed)
	payload := v05cPayload(c.payloadLen, uint32(c.seed))
	addr := v05cAddr(c.addrLen, int(c.sid%39))
	io = &v05cIO{limit: c.limit, failAt: c.failAt, limit2: c.limit2, changeAt: c.changeAt, stop: make(chan struct{})}
	m := newUDPSessionManager(io)
	defer close(io.stop)
	// the session ID is chosen by the manager (1, 2, ...): open (sid mod 3)+1 sessions, use the last
	var conn HyUDPConn
	for i := uint32(0); i <= c.sid%3; i++ {
		conn, err = m.NewUDP()
		if err != nil {
			return io, fmt.Errorf("harness: NewUDP: %v", err)
		}
	}
	c.sid = c.sid%3 + 1
	var ret error
	func() {
		defer func() {
			if r := recover(); r != nil {
				err = fmt.Errorf("panic: %v", r)
			}
		}()
		ret = conn.Send(append([]byte(nil), payload...), addr)
	}()
	if err != nil {
		return io, err
	}
	failed := c.failAt > 0 && io.calls >= c.failAt
	return io, v05cCheckDelivered(c, addr, payload, io, ret, failed)
}

func v05cClasses(c v05cCase, io *v05cIO) (bool, []string) {
	need := v05cNeed(c)
	budget := c.limit - v05cHeaderSize(c.addrLen)
	var cls []string
	switch {
	case need == -1:
		cls = append(cls, "fits")
	case need == 0:
		cls = append(cls, "budget<=0")
	case need > 255:
		cls = append(cls, "need>255")
	default:
		cls = append(cls, "fragmented")
	}
	if need >= 254 && need <= 257 {
		cls = append(cls, "count254..257")
	}
	if c.failAt > 0 && io != nil && io.calls >= c.failAt {
		cls = append(cls, "send-failure-injected")
	}
	if c.changeAt > 0 && io != nil && io.calls >= c.changeAt {
		cls = append(cls, "limit-changed-mid-send")
	}
	nt := need >= 2 || need == 0 || (budget >= -2 && budget <= 2)
	return nt, cls
}

func TestVerifC05_ClientSendPath(t *testing.T) {
	st := newVStats("TestVerifC05_ClientSendPath")
	defer st.Flush()
	rapid.Check(t, func(rt *rapid.T) {
		c := v05cGen(rt, 65535)
		io, err := v05cRun(c)
		nt, cls := v05cClasses(c, io)
		st.Case(nt, fmt.Sprintf("%d/%d/%d/%d/%d/%d", c.payloadLen, c.addrLen, c.limit, c.failAt, c.limit2, c.changeAt), cls, func() string {
			return fmt.Sprintf("%v -> %d delivered, %d refused", c, len(io.delivered), io.refused)
		})
		if err != nil {
			rt.Fatalf("C05 client send path: %v: %v", c, err)
		}
	})
}

// Regression for the repaired uint8 wrap (c559d24) through the send path, and
// "one fresh packet ID": consecutive fragmented sends do not all reuse one ID.
func TestVerifC05_Regress_ClientSendPath(t *testing.T) {
	st := newVStats("TestVerifC05_Regress_ClientSendPath")
	defer st.Flush()
	for i, c := range []v05cCase{
		{payloadLen: 256, addrLen: 1, limit: v05cHeaderSize(1) + 1, sid: 1, seed: 1},
		{payloadLen: 4096, addrLen: 9, limit: v05cHeaderSize(9) + 16, sid: 2, seed: 2},
		{payloadLen: 512, addrLen: 1, limit: v05cHeaderSize(1) + 2, sid: 3, seed: 3},
		{payloadLen: 511, addrLen: 1, limit: v05cHeaderSize(1) + 2, sid: 3, seed: 3},
		{payloadLen: 255, addrLen: 1, limit: v05cHeaderSize(1) + 1, sid: 4, seed: 4},
		{payloadLen: 65535, addrLen: 20, limit: 100, sid: 5, seed: 5},
		// the limit shrinks after fragment 0 is out and gives the same fragment count (3) with other boundaries
		{payloadLen: 2900, addrLen: 9, limit: v05cHeaderSize(9) + 1000, sid: 6, seed: 6, limit2: v05cHeaderSize(9) + 990, changeAt: 3},
		{payloadLen: 2900, addrLen: 9, limit: v05cHeaderSize(9) + 1000, sid: 6, seed: 6, limit2: v05cHeaderSize(9) + 990, changeAt: 4},
		{payloadLen: 2000, addrLen: 9, limit: v05cHeaderSize(9) + 1000, sid: 6, seed: 6, limit2: v05cHeaderSize(9) + 700, changeAt: 3},
	} {
		io, err := v05cRun(c)
		_, cls := v05cClasses(c, io)
		st.Case(true, fmt.Sprintf("regress%d", i), cls, func() string { return fmt.Sprintf("%v -> %d delivered", c, len(io.delivered)) })
		if err != nil {
			t.Fatalf("C05 client send path regression: %v: %v", c, err)
		}
	}
	// freshness: 6 fragmented sends in a row on one session, packet IDs must not all coincide
	rand.Seed(7)
	ids := map[uint16]bool{}
	io := &v05cIO{limit: 60, stop: make(chan struct{})}
	m := newUDPSessionManager(io)
	defer close(io.stop)
	conn, err := m.NewUDP()
	if err != nil {
		t.Fatalf("harness: NewUDP: %v", err)
	}
	for i := 0; i < 6; i++ {
		io.delivered = nil
		if err := conn.Send(v05cPayload(200, uint32(i)), "a:1"); err != nil || len(io.delivered) < 2 {
			t.Fatalf("C05 client send path: fragmented send %d failed: %v (%d delivered)", i, err, len(io.delivered))
		}
		ids[io.delivered[0].pid] = true
	}
	st.Case(true, "fresh-ids", []string{"fresh-ids"}, func() string { return fmt.Sprintf("6 fragmented sends used %d distinct packet IDs", len(ids)) })
	if len(ids) < 2 {
		t.Fatalf("C05 client send path: 6 consecutive fragmented messages all used one packet ID %v (IDs must be fresh per message)", ids)
	}
}
