package client

// C03 — peer-controlled bytes never crash the process (client UDP side).
//
// What the remote *server* controls here: every QUIC datagram arriving at the
// client (udpIOImpl.ReceiveMessage -> ParseUDPMessage -> udpSessionManager.feed ->
// udpConn.Receive -> Defragger) and the datagram limit the client learns through
// quic-go's DatagramTooLargeError (the server's max_datagram_frame_size; 0..~1500)
// that drives udpConn.Send -> frag.FragUDPMessage. The application's own packets
// are <= 4096 - header bytes on the path that reaches the splitter (bigger ones
// are dropped by SendMessage); bigger ones are generated too.
//
// The fake udpIO mirrors udpIOImpl (Serialize into the 4096-byte SendBuf, then
// quic.Conn.SendDatagram with limit n).
//
// Oracle: no panic; afterwards a well-formed message for a live session is still
// delivered by Receive and a small packet is still sent (service continues).

import (
	"bytes"
	"encoding/hex"
	"errors"
	"fmt"
	"io"
	"os"
	"runtime"
	"runtime/debug"
	"strings"
	"sync"
	"testing"
	"time"

	"github.com/apernet/quic-go"

	"github.com/apernet/hysteria/core/v2/internal/protocol"
	"pgregory.net/rapid"
)

func v03Guard(fn func()) (pv any, stack string) {
	defer func() {
		if r := recover(); r != nil {
			pv, stack = r, string(debug.Stack())
		}
	}()
	fn()
	return nil, ""
}

func v03Tight(b []byte) []byte {
	c := make([]byte, len(b))
	copy(c, b)
	return c[:len(c):len(c)]
}

func v03Fill(n int, salt byte) []byte {
	b := make([]byte, n)
	for i := range b {
		b[i] = byte(i)*5 + salt
	}
	return b
}

func v03PutVarint(b []byte, v uint64) []byte {
	switch {
	case v <= 63:
		return append(b, byte(v))
	case v <= 16383:
		return append(b, byte(v>>8)|0x40, byte(v))
	}
	return append(b, byte(v>>24)|0x80, byte(v>>16), byte(v>>8), byte(v))
}

func v03EncUDP(sid uint32, pid uint16, fid, fcnt uint8, addr string, data []byte) []byte {
	b := []byte{byte(sid >> 24), byte(sid >> 16), byte(sid >> 8), byte(sid), byte(pid >> 8), byte(pid), fid, fcnt}
	b = v03PutVarint(b, uint64(len(addr)))
	b = append(b, addr...)
	return append(b, data...)
}

var (
	v03ErrRecvDone = errors.New("v03: connection closed (end of script)")
	v03ErrSendFail = errors.New("v03: connection-level send failure")
)

type v03IO struct {
	mu         sync.Mutex
	limit      int
	failSendAt int
	sendCalls  int
	delivered  [][]byte
	refused    int
	dropped    int

	// live mode
	inbox [][]byte
	gate  chan struct{}
	// close-race live mode: datagrams arrive on a channel; closing it is the connection error
	liveCh chan []byte
}

func (o *v03IO) ReceiveMessage() (*protocol.UDPMessage, error) {
	if o.liveCh != nil {
		for d := range o.liveCh {
			if m, err := protocol.ParseUDPMessage(v03Tight(d)); err == nil {
				return m, nil
			}
		}
		return nil, v03ErrRecvDone
	}
	if o.gate != nil {
		<-o.gate
	}
	for {
		o.mu.Lock()
		if len(o.inbox) == 0 {
			o.mu.Unlock()
			return nil, v03ErrRecvDone
		}
		d := o.inbox[0]
		o.inbox = o.inbox[1:]
		o.mu.Unlock()
		m, err := protocol.ParseUDPMessage(v03Tight(d))
		if err != nil {
			continue
		}
		return m, nil
	}
}

func (o *v03IO) SendMessage(buf []byte, msg *protocol.UDPMessage) error {
	n := msg.Serialize(buf)
	o.mu.Lock()
	defer o.mu.Unlock()
	o.sendCalls++
	if n < 0 {
		o.dropped++
		return nil
	}
	if o.failSendAt > 0 && o.sendCalls == o.failSendAt {
		return v03ErrSendFail
	}
	if n > o.limit {
		o.refused++
		return &quic.DatagramTooLargeError{MaxDatagramPayloadSize: int64(o.limit)}
	}
	o.delivered = append(o.delivered, append([]byte(nil), buf[:n]...))
	return nil
}

type v03Send struct {
	size int
	addr string
}

type v03Case struct {
	limit      int
	failSendAt int
	nconns     int
	dgrams     [][]byte
	sends      []v03Send
	live       bool
}

func (c *v03Case) render() string {
	var sb strings.Builder
	fmt.Fprintf(&sb, "limit=%d failSendAt=%d sessions=1..%d live=%v\n", c.limit, c.failSendAt, c.nconns, c.live)
	for i, d := range c.dgrams {
		if i >= 60 {
			fmt.Fprintf(&sb, "  … %d more datagrams\n", len(c.dgrams)-i)
			break
		}
		fmt.Fprintf(&sb, "  dgram #%d (%d bytes): %s\n", i, len(d), hex.EncodeToString(d[:min(len(d), 40)]))
	}
	for i, s := range c.sends {
		fmt.Fprintf(&sb, "  send #%d: %d bytes to %q\n", i, s.size, s.addr)
	}
	return sb.String()
}

func v03GenCase(rt *rapid.T) *v03Case {
	c := &v03Case{nconns: rapid.IntRange(1, 3).Draw(rt, "nconns"), live: rapid.IntRange(0, 3).Draw(rt, "live") == 0}
	switch rapid.IntRange(0, 3).Draw(rt, "limitShape") {
	case 0:
		c.limit = rapid.IntRange(0, 40).Draw(rt, "limitTiny")
	case 1:
		c.limit = rapid.IntRange(0, 1500).Draw(rt, "limitAny")
	case 2:
		c.limit = rapid.SampledFrom([]int{0, 1, 8, 9, 10, 11, 12, 13, 14, 15, 16, 17, 18, 19, 20, 21, 22, 23, 24, 25}).Draw(rt, "limitEdge")
	default:
		c.limit = rapid.SampledFrom([]int{1150, 1197, 1200, 1252, 1472}).Draw(rt, "limitUsual")
	}
	if rapid.IntRange(0, 9).Draw(rt, "sendFail") == 0 {
		c.failSendAt = rapid.IntRange(1, 6).Draw(rt, "failSendAt")
	}
	type tmpl struct {
		sid uint32
		pid uint16
		cnt uint8
	}
	var tmpls []tmpl
	for k := rapid.IntRange(1, 3).Draw(rt, "ntmpl"); k > 0; k-- {
		tmpls = append(tmpls, tmpl{uint32(rapid.IntRange(1, 3).Draw(rt, "tsid")), uint16(rapid.IntRange(1, 3).Draw(rt, "tpid")),
			uint8(rapid.SampledFrom([]int{2, 2, 3, 4, 255}).Draw(rt, "tcnt"))})
	}
	addrs := []string{"1.2.3.4:53", "x:1", strings.Repeat("L", 300) + ":9"}
	n := rapid.IntRange(1, 30).Draw(rt, "n")
	if rapid.IntRange(0, 39).Draw(rt, "overflow") == 23 {
		n = 1100 // more than the 1024-slot receive channel of one session
	}
	for i := 0; i < n; i++ {
		var raw []byte
		dl := rapid.SampledFrom([]int{1, 1, 2, 7, 100, 1180, 1180, 30000}).Draw(rt, "dlen")
		if n > 100 {
			dl = 1
		}
		switch rapid.IntRange(0, 9).Draw(rt, "kind") {
		case 0, 1, 2, 3:
			tp := rapid.SampledFrom(tmpls).Draw(rt, "tmpl")
			raw = v03EncUDP(tp.sid, tp.pid, uint8(rapid.IntRange(0, int(tp.cnt)-1).Draw(rt, "tfid")), tp.cnt, rapid.SampledFrom(addrs).Draw(rt, "taddr"), v03Fill(dl, byte(i)))
		case 4, 5:
			raw = v03EncUDP(uint32(rapid.SampledFrom([]int{0, 1, 2, 3, 4, 0xffffffff}).Draw(rt, "sid")), uint16(rapid.IntRange(0, 2).Draw(rt, "pid")),
				0, uint8(rapid.IntRange(0, 1).Draw(rt, "cnt01")), rapid.SampledFrom(addrs).Draw(rt, "addr"), v03Fill(dl, byte(i)))
		case 6, 7:
			cnt := uint8(rapid.SampledFrom([]int{0, 1, 2, 3, 128, 255}).Draw(rt, "cnt"))
			fid := uint8(rapid.SampledFrom([]int{0, 1, 2, 3, 127, 128, 254, 255}).Draw(rt, "fid"))
			raw = v03EncUDP(uint32(rapid.IntRange(1, 3).Draw(rt, "sid")), uint16(rapid.IntRange(1, 3).Draw(rt, "pid")), fid, cnt,
				rapid.SampledFrom(addrs).Draw(rt, "addr"), v03Fill(dl, byte(i)))
		case 8:
			raw = v03EncUDP(uint32(rapid.IntRange(1, 3).Draw(rt, "sid")), 0, 0, 1, string(rapid.SliceOfN(rapid.Byte(), 1, 40).Draw(rt, "addrBytes")), v03Fill(dl, byte(i)))
		default:
			if rapid.Bool().Draw(rt, "junk") {
				raw = rapid.SliceOfN(rapid.Byte(), 0, 30).Draw(rt, "bytes")
			} else {
				full := v03EncUDP(1, 1, 0, 1, "a:1", v03Fill(3, 0))
				raw = full[:rapid.IntRange(0, len(full)).Draw(rt, "cut")]
			}
		}
		if n > 100 && len(raw) >= 4 {
			raw[0], raw[1], raw[2], raw[3] = 0, 0, 0, 1 // the flood targets session 1
		}
		c.dgrams = append(c.dgrams, raw)
	}
	if n <= 100 && rapid.IntRange(0, 19).Draw(rt, "bigComplete") == 11 {
		// a complete 255-fragment message with full-size fragments for a live session (~300 KB reassembled)
		cnt := rapid.SampledFrom([]int{255, 255, 128}).Draw(rt, "bigCnt")
		order := make([]int, cnt)
		for i := range order {
			order[i] = i
		}
		for _, f := range rapid.Permutation(order).Draw(rt, "bigOrder") {
			c.dgrams = append(c.dgrams, v03EncUDP(1, 777, uint8(f), uint8(cnt), "big:1", v03Fill(1180, byte(f))))
		}
	}
	for k := rapid.IntRange(0, 5).Draw(rt, "nsends"); k > 0; k-- {
		sz := rapid.SampledFrom([]int{0, 1, 2, 100, 255, 256, 257, 1100, 1200, 1472, 4000, 4077, 4085, 4086, 4087, 4096, 5000, 65507}).Draw(rt, "size")
		if rapid.IntRange(0, 2).Draw(rt, "sizeU") == 0 {
			sz = rapid.IntRange(0, 4096).Draw(rt, "usize")
		}
		c.sends = append(c.sends, v03Send{sz, rapid.SampledFrom([]string{"1.2.3.4:53", "a:1", "example.com:443", strings.Repeat("h", 253) + ":65535"}).Draw(rt, "saddr")})
	}
	return c
}

const v03ProbePID = 61234

func v03Run(c *v03Case) (classes []string, fp string, verr error) {
	o := &v03IO{limit: c.limit, failSendAt: c.failSendAt}
	var m *udpSessionManager
	if c.live {
		// the real constructor: run() consumes ReceiveMessage in its own goroutine
		// (a panic there kills the process; the case is in c03_lastcase.txt)
		o.gate = make(chan struct{})
		o.inbox = append(o.inbox, c.dgrams...)
		// the probe travels with the script: run() ends on the first receive error
		want2 := v03Fill(90, 5)
		o.inbox = append(o.inbox,
			v03EncUDP(1, 0, 0, 1, "probe:53", []byte("probe-one")),
			v03EncUDP(1, v03ProbePID, 1, 2, "probe:53", want2[45:]),
			v03EncUDP(1, v03ProbePID, 0, 2, "probe:53", want2[:45]))
		m = newUDPSessionManager(o)
	} else {
		m = &udpSessionManager{io: o, m: make(map[uint32]*udpConn), nextID: 1}
	}
	var conns []*udpConn
	for i := 0; i < c.nconns; i++ {
		hc, err := m.NewUDP()
		if err != nil {
			return nil, "", fmt.Errorf("NewUDP on a live manager failed: %v", err)
		}
		conns = append(conns, hc.(*udpConn))
	}
	var fps strings.Builder
	queued := 0
	if c.live {
		close(o.gate)
	} else {
		feedAll := func(ds [][]byte, what string) error {
			for i, d := range ds {
				var perr error
				pv, stack := v03Guard(func() {
					var msg *protocol.UDPMessage
					msg, perr = protocol.ParseUDPMessage(v03Tight(d))
					if perr != nil {
						return
					}
					m.feed(msg)
				})
				if pv != nil {
					return fmt.Errorf("client udpSessionManager.feed panicked at %s #%d: %v\n%s%s", what, i, pv, c.render(), stack)
				}
				if perr != nil {
					fps.WriteByte('x')
				} else {
					fps.WriteByte('f')
				}
			}
			return nil
		}
		if err := feedAll(c.dgrams, "datagram"); err != nil {
			return nil, "", err
		}
		want2 := v03Fill(90, 5)
		if err := feedAll([][]byte{
			v03EncUDP(1, 0, 0, 1, "probe:53", []byte("probe-one")),
			v03EncUDP(1, v03ProbePID, 1, 2, "probe:53", want2[45:]),
			v03EncUDP(1, v03ProbePID, 0, 2, "probe:53", want2[:45]),
		}, "probe"); err != nil {
			return nil, "", err
		}
		// closing lets Receive drain what is queued and then report EOF instead of blocking
		for _, cn := range conns {
			_ = cn.Close()
		}
	}
	for _, d := range c.dgrams {
		if len(d) >= 4 && d[0] == 0 && d[1] == 0 && d[2] == 0 && d[3] == 1 {
			queued++
		}
	}
	// drain every session the way the application does (in live mode the channels are
	// closed by run()'s cleanup when the receive error arrives)
	type rx struct {
		data []byte
		addr string
	}
	got := make([][]rx, len(conns))
	for i, cn := range conns {
		var lastErr error
		done := make(chan struct{})
		var pv any
		var stack string
		go func() {
			defer close(done)
			pv, stack = v03Guard(func() {
				for {
					data, addr, err := cn.Receive()
					if err != nil {
						lastErr = err
						return
					}
					if len(data) > 0 {
						_ = data[len(data)-1]
					}
					got[i] = append(got[i], rx{data, addr})
				}
			})
		}()
		select {
		case <-done:
		case <-time.After(60 * time.Second):
			vInconclusive("C03 client: Receive did not reach EOF within 60 s after the session was closed")
		}
		if pv != nil {
			return nil, "", fmt.Errorf("udpConn.Receive panicked on session %d: %v\n%s%s", cn.ID, pv, c.render(), stack)
		}
		if lastErr != io.EOF {
			return nil, "", fmt.Errorf("udpConn.Receive ended with %v instead of EOF\n%s", lastErr, c.render())
		}
	}
	// service continues: both probe messages came out of session 1, in order, after everything hostile
	if queued+3 <= udpMessageChanSize {
		g := got[0]
		ok := len(g) >= 2 && string(g[len(g)-2].data) == "probe-one" && bytes.Equal(g[len(g)-1].data, v03Fill(90, 5)) && g[len(g)-1].addr == "probe:53"
		if !ok {
			return nil, "", fmt.Errorf("service did not continue: the well-formed messages for session 1 sent after the hostile history were not delivered by Receive (delivered %d messages)\n%s", len(g), c.render())
		}
	} else {
		classes = append(classes, "rx:queue-overflow")
	}
	total := 0
	for _, g := range got {
		total += len(g)
	}
	if total > 2 {
		classes = append(classes, "rx:hostile-delivered")
	}
	for _, g := range got {
		for _, x := range g {
			if len(x.data) > 100000 {
				classes = append(classes, "rx:assembled>100KB")
			}
		}
	}
	// send path on a fresh manager/conn (the sessions above are closed now; Send does not check that,
	// exactly like the real udpConn)
	sm := &udpSessionManager{io: o, m: make(map[uint32]*udpConn), nextID: 1}
	hc, _ := sm.NewUDP()
	sc := hc.(*udpConn)
	for i, s := range c.sends {
		before, refusedBefore := len(o.delivered), o.refused
		var serr error
		pv, stack := v03Guard(func() { serr = sc.Send(v03Tight(v03Fill(s.size, 7)), s.addr) })
		if pv != nil {
			return nil, "", fmt.Errorf("udpConn.Send panicked on send #%d (%d bytes to %q, server's datagram limit %d): %v\n%s%s", i, s.size, s.addr, c.limit, pv, c.render(), stack)
		}
		sent := len(o.delivered) - before
		switch {
		case serr != nil:
			classes = append(classes, "tx:error")
			fps.WriteByte('E')
		case o.refused == refusedBefore && sent == 1:
			classes = append(classes, "tx:whole")
			fps.WriteByte('W')
		case sent == 0:
			classes = append(classes, "tx:discarded")
			fps.WriteByte('D')
		case sent >= 200:
			classes = append(classes, "tx:fragmented>=200")
			fps.WriteByte('G')
		default:
			classes = append(classes, "tx:fragmented")
			fps.WriteByte('F')
		}
	}
	o.failSendAt = 0
	before := len(o.delivered)
	var serr error
	pv, stack := v03Guard(func() { serr = sc.Send([]byte("ping"), "9.9.9.9:53") })
	if pv != nil {
		return nil, "", fmt.Errorf("udpConn.Send of a small packet after the history panicked: %v\n%s%s", pv, c.render(), stack)
	}
	wantWire := v03EncUDP(sc.ID, 0, 0, 1, "9.9.9.9:53", []byte("ping"))
	if c.limit >= len(wantWire) && (serr != nil || len(o.delivered) != before+1 || !bytes.Equal(o.delivered[before], wantWire)) {
		return nil, "", fmt.Errorf("service did not continue: a %d-byte message within the limit %d was not sent as is (err=%v)\n%s", len(wantWire), c.limit, serr, c.render())
	}
	if c.live {
		classes = append(classes, "mode:live")
	} else {
		classes = append(classes, "mode:sync")
	}
	return classes, fps.String(), nil
}

// TestVerifC03_Regress_ClientSendFragWrap: the repaired defect (fix c559d24) through udpConn.Send.
func TestVerifC03_Regress_ClientSendFragWrap(t *testing.T) {
	st := newVStats("TestVerifC03_Regress_ClientSendFragWrap")
	defer st.Flush()
	for _, tc := range []struct{ size, limit int }{{4096 - 19, 24}, {4000, 20}, {256, 20}, {1200, 22}} {
		o := &v03IO{limit: tc.limit}
		sm := &udpSessionManager{io: o, m: make(map[uint32]*udpConn), nextID: 1}
		hc, _ := sm.NewUDP()
		pv, stack := v03Guard(func() { _ = hc.Send(v03Fill(tc.size, 1), "1.2.3.4:53") }) // header 19
		st.Case(true, fmt.Sprint(tc), []string{fmt.Sprintf("delivered=%d", len(o.delivered))}, func() string { return fmt.Sprintf("%+v", tc) })
		if pv != nil {
			t.Fatalf("C03: udpConn.Send panicked for a %d-byte packet to 1.2.3.4:53 with server datagram limit %d: %v\n%s", tc.size, tc.limit, pv, stack)
		}
	}
}

func TestVerifC03_ClientUDP(t *testing.T) {
	st := newVStats("TestVerifC03_ClientUDP")
	defer st.Flush()
	rapid.Check(t, func(rt *rapid.T) {
		c := v03GenCase(rt)
		if c.live {
			_ = os.WriteFile("c03_lastcase.txt", []byte(c.render()), 0o644)
		}
		classes, fp, err := v03Run(c)
		nt := false
		for _, cl := range classes {
			if cl == "rx:hostile-delivered" || strings.HasPrefix(cl, "tx:frag") || cl == "tx:discarded" {
				nt = true
			}
		}
		st.Case(nt, fmt.Sprintf("%s|%d|%v", fp, c.limit/8, c.live), classes, c.render)
		if err != nil {
			rt.Fatalf("C03: %v", err)
		}
	})
}

// ---- close race: a server datagram arrives while the application closes that UDP session ----
//
// run() is the only caller of feed(); the application may call HyUDPConn.Close() (and Receive) from any
// goroutine at any time. Goroutine A plays run(): it feeds a generated burst of datagrams for session s in a
// tight loop; goroutine B plays the application: after a drawn number of scheduler yields it closes s
// (optionally a third goroutine sits in Receive, as applications do). Both under recover(). Repeated with
// fresh sessions so that the few-instruction window between "session looked up" and "message queued" is met.

type v03CloseRaceCase struct {
	reps     int
	nmsgs    int
	yields   []int
	receiver []bool
	fragPct  int
	live     bool // the real run() goroutine feeds (a panic there kills the process: see c03_lastcase.txt)
}

func (c *v03CloseRaceCase) render() string {
	return fmt.Sprintf("reps=%d burst=%d datagrams (%d%% fragments) live=%v yields=%v receiver=%v", c.reps, c.nmsgs, c.fragPct, c.live, c.yields, c.receiver)
}

func v03GenCloseRace(rt *rapid.T) *v03CloseRaceCase {
	c := &v03CloseRaceCase{reps: rapid.IntRange(20, 50).Draw(rt, "reps"), nmsgs: rapid.SampledFrom([]int{100, 200, 400, 800}).Draw(rt, "burst"),
		fragPct: rapid.SampledFrom([]int{0, 30, 100}).Draw(rt, "fragPct"), live: rapid.IntRange(0, 7).Draw(rt, "liveRun") == 7}
	for i := 0; i < c.reps; i++ {
		c.yields = append(c.yields, rapid.SampledFrom([]int{0, 1, 2, 3, 5, 8, 13, 21, 34, 55, 89, 144}).Draw(rt, "yields"))
		c.receiver = append(c.receiver, rapid.IntRange(0, 2).Draw(rt, "receiver") == 2)
	}
	return c
}

func v03RunCloseRace(c *v03CloseRaceCase) (hits int, verr error) {
	o := &v03IO{limit: 1200}
	var m *udpSessionManager
	var liveInbox chan []byte
	if c.live {
		liveInbox = make(chan []byte, 1024)
		o.liveCh = liveInbox
		m = newUDPSessionManager(o)
		defer close(liveInbox) // ReceiveMessage then reports an error and run() ends
	} else {
		m = &udpSessionManager{io: o, m: make(map[uint32]*udpConn), nextID: 1}
	}
	for rep := 0; rep < c.reps; rep++ {
		hc, err := m.NewUDP()
		if err != nil {
			return hits, fmt.Errorf("NewUDP failed in repetition %d: %v", rep, err)
		}
		conn := hc.(*udpConn)
		var dgrams [][]byte
		for i := 0; i < c.nmsgs; i++ {
			if (i*37)%100 < c.fragPct {
				dgrams = append(dgrams, v03EncUDP(conn.ID, uint16(1+i/3), uint8(i%3), 3, "r:1", []byte{byte(i)}))
			} else {
				dgrams = append(dgrams, v03EncUDP(conn.ID, 0, 0, 1, "r:1", []byte{byte(i)}))
			}
		}
		start := make(chan struct{})
		var wg sync.WaitGroup
		var apv, bpv, rpv any
		var astack, bstack, rstack string
		wg.Add(2)
		go func() { // run(): ReceiveMessage -> ParseUDPMessage -> feed, one datagram after the other
			defer wg.Done()
			<-start
			if c.live {
				for _, d := range dgrams {
					liveInbox <- d
				}
				return
			}
			apv, astack = v03Guard(func() {
				for _, d := range dgrams {
					msg, perr := protocol.ParseUDPMessage(v03Tight(d))
					if perr != nil {
						panic("race datagram does not parse: " + perr.Error())
					}
					m.feed(msg)
				}
			})
		}()
		go func() { // the application
			defer wg.Done()
			<-start
			for i := 0; i < c.yields[rep]; i++ {
				runtime.Gosched()
			}
			bpv, bstack = v03Guard(func() { _ = hc.Close() })
		}()
		if c.receiver[rep] {
			wg.Add(1)
			go func() {
				defer wg.Done()
				rpv, rstack = v03Guard(func() {
					for {
						if _, _, err := hc.Receive(); err != nil {
							return
						}
					}
				})
			}()
		}
		close(start)
		done := make(chan struct{})
		go func() { wg.Wait(); close(done) }()
		select {
		case <-done:
		case <-time.After(60 * time.Second):
			vInconclusive("C03 client close race: feed/Close/Receive did not return within 60 s")
		}
		for _, x := range []struct {
			who   string
			pv    any
			stack string
		}{{"udpSessionManager.feed (a datagram for the session arrived)", apv, astack}, {"udpConn.Close", bpv, bstack}, {"udpConn.Receive", rpv, rstack}} {
			if x.pv != nil {
				return hits, fmt.Errorf("%s panicked while the application closed the session concurrently (repetition %d, session %d, Close after %d yields): %v\n%s\n%s",
					x.who, rep, conn.ID, c.yields[rep], x.pv, c.render(), x.stack)
			}
		}
		if n := len(conn.ReceiveCh); n > 0 && n < c.nmsgs {
			hits++ // the close really landed inside the burst
		}
	}
	if c.live {
		// let run() finish the bursts: a marker session sees its datagram when everything before it was fed
		hc, err := m.NewUDP()
		if err != nil {
			return hits, fmt.Errorf("service did not continue: NewUDP after the close races: %v", err)
		}
		liveInbox <- v03EncUDP(hc.(*udpConn).ID, 0, 0, 1, "probe:53", []byte("probe-live"))
		got := make(chan string, 1)
		go func() {
			d, _, err := hc.Receive()
			got <- fmt.Sprintf("%s|%v", d, err)
		}()
		select {
		case g := <-got:
			if g != "probe-live|<nil>" {
				return hits, fmt.Errorf("service did not continue: the probe datagram to a fresh session was received as %q\n%s", g, c.render())
			}
		case <-time.After(60 * time.Second):
			vInconclusive("C03 client close race: the probe datagram was not delivered by run() within 60 s")
		}
		return hits, nil
	}
	// service continues
	hc, err := m.NewUDP()
	if err != nil {
		return hits, fmt.Errorf("service did not continue: NewUDP after the close races: %v\n%s", err, c.render())
	}
	pmsg, _ := protocol.ParseUDPMessage(v03Tight(v03EncUDP(hc.(*udpConn).ID, 0, 0, 1, "probe:53", []byte("probe"))))
	var d []byte
	var rerr error
	pv, stack := v03Guard(func() {
		m.feed(pmsg)
		d, _, rerr = hc.Receive()
	})
	if pv != nil || rerr != nil || string(d) != "probe" {
		return hits, fmt.Errorf("service did not continue: a probe datagram to a fresh session after the close races gave %q, %v, panic=%v\n%s%s", d, rerr, pv, c.render(), stack)
	}
	return hits, nil
}

func v03CloseRaceTest(t *testing.T, name string) {
	st := newVStats(name)
	defer st.Flush()
	rapid.Check(t, func(rt *rapid.T) {
		c := v03GenCloseRace(rt)
		if c.live {
			_ = os.WriteFile("c03_lastcase.txt", []byte("close race: "+c.render()), 0o644)
		}
		hits, err := v03RunCloseRace(c)
		classes := []string{"mode:sync"}
		if c.live {
			classes[0] = "mode:live"
		}
		if hits > 0 {
			classes = append(classes, "close-landed-inside-burst")
		}
		st.Case(hits > 0 || c.live, c.render(), classes, c.render)
		if err != nil {
			rt.Fatalf("C03: %v", err)
		}
	})
}

func TestVerifC03_ClientCloseRace(t *testing.T) { v03CloseRaceTest(t, "TestVerifC03_ClientCloseRace") }

// The same under the race detector (registered with "race": True): the runtime reports a channel send that is
// not ordered against close() even when the instruction window is not hit.
func TestVerifC03_ClientCloseRaceDetector(t *testing.T) {
	v03CloseRaceTest(t, "TestVerifC03_ClientCloseRaceDetector")
}
