package client

// C16 — reconnecting client: one live connection, reconnect on loss, Close is final.
//
// Model (written from the property statement, not from reconnect.go):
//   conn ∈ {none, alive, lost(undetected)}, count = successful connects so far,
//   closed = Close() was called. A call
//     * after Close():            fails with ClosedError, configFunc is not invoked;
//     * with conn == none:        is a (re)connect attempt: configFunc is evaluated
//                                 (freshly: the server sees Auth "gen<N>" of the
//                                 newest evaluation), a scripted failure / server down
//                                 makes the call fail and must not reach connectedFunc;
//                                 otherwise it succeeds and connectedFunc gets count+1;
//     * with conn == alive:       does not touch configFunc/ConnFactory; a stream-limit
//                                 error is returned as such and changes nothing;
//     * with conn == lost:        a failing call fails with ClosedError (conn := none) and
//                                 does not itself reconnect; calls that do not need the
//                                 network (UDP(), fast-open TCP()) may still succeed.
//   Census at every quiescent point: at most one ConnFactory socket not yet closed
//   by the client, and never a superseded one; none after Close().

import (
	"fmt"
	"strings"
	"sync"
	"sync/atomic"
	"testing"
	"time"

	"pgregory.net/rapid"
)

type v16TB interface {
	Fatalf(format string, args ...any)
}

const (
	v16None = iota
	v16Alive
	v16Lost
)

var v16StateName = map[int]string{v16None: "none", v16Alive: "alive", v16Lost: "lost"}

type v16Held struct {
	c   interface{ Close() error }
	tcp interface {
		Read([]byte) (int, error)
		Write([]byte) (int, error)
		SetDeadline(time.Time) error
	}
	gen int
}

type v16Run struct {
	tb v16TB
	e  *v16Env
	// model
	closed   bool
	conn     int
	count    int
	serverUp bool
	held     []*v16Held
	// bookkeeping for NT / classes / fingerprint
	ops              []string
	classes          map[string]bool
	kills            int
	successSinceKill bool
	killAfterSuccess int // kills that happened after a successful call on a previous kill's successor
	failedAttempts   int
	closeAfterKill   bool
	detections       int
	reconnects       int
	callsWhileDown   int
	slowLeft         int
	maxDetect        map[string]time.Duration
	lastKillKind     string
	lastKillAt       time.Time
	exhausted        bool
	tcpCallsThisGen  int // TCP() calls served by the current connection (each opens at most one stream)
	idleWaited       bool
	curID            string // server-side id ("gen<N>") of the current connection
	blockedFreed     bool   // the last call blocked and the harness freed a stream slot meanwhile
}

func v16NewRun(tb v16TB) *v16Run {
	return &v16Run{tb: tb, e: v16NewEnv(), classes: map[string]bool{}, maxDetect: map[string]time.Duration{}, slowLeft: 2}
}

func (r *v16Run) class(c string) { r.classes[c] = true }

func (r *v16Run) op(f string, a ...any) {
	s := fmt.Sprintf(f, a...)
	r.ops = append(r.ops, s)
	r.e.logf("OP %s   [model: conn=%s count=%d closed=%v serverUp=%v held=%d]", s, v16StateName[r.conn], r.count, r.closed, r.serverUp, len(r.held))
}

func (r *v16Run) failf(f string, a ...any) {
	r.tb.Fatalf("C16: %s\n  history:%s", fmt.Sprintf(f, a...), r.e.history())
}

func (r *v16Run) quiescent() {
	max := 1
	if r.closed {
		max = 0
	}
	if v := r.e.censusViolation(max); v != "" {
		r.failf("socket census at a quiescent point: %s", v)
	}
}

func (r *v16Run) dropHeld(all bool) {
	keep := r.held[:0]
	for _, h := range r.held {
		if all || h.gen != r.count || r.conn != v16Alive {
			_ = h.c.Close()
		} else {
			keep = append(keep, h)
		}
	}
	r.held = keep
}

func (r *v16Run) liveHeldCount() int {
	n := 0
	for _, h := range r.held {
		if h.gen == r.count {
			n++
		}
	}
	return n
}

func (r *v16Run) unhold(h *v16Held) {
	_ = h.c.Close()
	for i, x := range r.held {
		if x == h {
			r.held = append(r.held[:i], r.held[i+1:]...)
			break
		}
	}
}

func (r *v16Run) liveHeld() *v16Held {
	if r.conn != v16Alive {
		return nil
	}
	for _, h := range r.held {
		if h.gen == r.count {
			return h
		}
	}
	return nil
}

// ------------------------------------------------------------------ ops

func (r *v16Run) start(lazy, fastOpen bool) {
	r.e.fastOpen = fastOpen
	r.e.startServer(0)
	r.serverUp = true
	if lazy {
		r.class("start:lazy")
	} else {
		r.class("start:eager")
	}
	if fastOpen {
		r.class("fastopen")
	}
	r.op("NewReconnectableClient(lazy=%v) fastOpen=%v", lazy, fastOpen)
	pre := r.e.snap()
	type res struct {
		c   Client
		err error
	}
	ch := make(chan res, 1)
	go func() {
		c, err := NewReconnectableClient(r.e.configFunc, r.e.connectedFunc, lazy)
		ch <- res{c, err}
	}()
	var got res
	select {
	case got = <-ch:
	case <-time.After(v16CallWatchdog):
		vInconclusive("C16: NewReconnectableClient did not return")
	}
	post := r.e.snap()
	if lazy {
		if got.err != nil || got.c == nil {
			r.failf("lazy NewReconnectableClient failed: %s", v16ErrStr(got.err))
		}
		if post.cfg != pre.cfg || post.news != pre.news {
			r.failf("lazy start evaluated the configuration / opened a socket before the first call (configFunc calls %d, ConnFactory.New calls %d)", post.cfg-pre.cfg, post.news-pre.news)
		}
		r.conn = v16None
	} else {
		if got.err != nil {
			if v16LooksLikeEnvTrouble(got.err) {
				vInconclusive("C16: eager connect to a healthy server failed: " + got.err.Error())
			}
			r.failf("eager NewReconnectableClient against a healthy server failed: %s", v16ErrStr(got.err))
		}
		r.checkConnected(pre, post, "eager start")
	}
	r.e.mu.Lock()
	r.e.rc = got.c
	r.e.mu.Unlock()
	r.quiescent()
}

// checkConnected: a successful (re)connect must be exactly one fresh evaluation,
// one new socket towards the current server address, one connectedFunc(count+1).
func (r *v16Run) checkConnected(pre, post v16Snap, what string) {
	e := r.e
	if post.cfg-pre.cfg < 1 {
		r.failf("%s: a new connection was needed but configFunc was not evaluated again (calls before %d, after %d)", what, pre.cfg, post.cfg)
	}
	if post.cfg-pre.cfg > 1 {
		vInconclusive("C16: the model does not cover several configFunc evaluations in one call")
	}
	if post.reuse != pre.reuse {
		r.failf("%s: a ConnFactory of an earlier configuration was used again (configuration not freshly evaluated)", what)
	}
	if post.conn-pre.conn != 1 {
		r.failf("%s: connectedFunc was called %d times for one successful connect", what, post.conn-pre.conn)
	}
	e.mu.Lock()
	last := e.connected[len(e.connected)-1]
	lastAuth := ""
	if len(e.auths) > 0 {
		lastAuth = e.auths[len(e.auths)-1]
	}
	lastAddr := ""
	if len(e.newAddrs) > 0 {
		lastAddr = e.newAddrs[len(e.newAddrs)-1]
	}
	srvAddr := e.srvAddr.String()
	e.mu.Unlock()
	if last.count != r.count+1 {
		r.failf("%s: connectedFunc reported count %d, want %d (successful connects so far: %d; failed attempts must not be counted)", what, last.count, r.count+1, r.count)
	}
	if !last.sameRC {
		r.failf("%s: connectedFunc was given a different Client than the reconnectable client", what)
	}
	if post.news-pre.news != 1 {
		r.failf("%s: ConnFactory.New was called %d times for one successful connect", what, post.news-pre.news)
	}
	if want := fmt.Sprintf("gen%d", post.cfg); lastAuth != want {
		r.failf("%s: the server authenticated %q but the newest configuration evaluation is %q (connection not built from the freshly evaluated configuration)", what, lastAuth, want)
	}
	if lastAddr != srvAddr {
		r.failf("%s: socket requested for server %s, current configuration says %s", what, lastAddr, srvAddr)
	}
	r.count++
	r.conn = v16Alive
	r.curID = lastAuth
	r.tcpCallsThisGen = 0
	r.idleWaited = false
	r.exhausted = false
	if r.count > 1 {
		r.reconnects++
		r.class("reconnect-ok")
	}
}

// expectAttemptFailure says whether a connect attempt made now must fail, and why.
// Pipeline order: configFunc, ConnFactory.New, reaching the server, authentication.
func (r *v16Run) expectAttemptFailure() string {
	e := r.e
	e.mu.Lock()
	defer e.mu.Unlock()
	switch {
	case e.cfgFail > 0:
		return "config"
	case e.facFail > 0:
		return "factory"
	case !r.serverUp:
		if e.unreach {
			return "unreachable"
		}
		return "down-timeout"
	case e.authRej > 0:
		return "auth"
	}
	return ""
}

// call performs one TCP()/UDP() call and judges it against the model.
// It returns the result when the call succeeded.
func (r *v16Run) call(kind string) (v16CallRes, bool) { return r.callPatient(kind, 0) }

// callPatient: like call, but if the call is still blocked after freeAfter the
// harness closes one held stream of the current connection (an implementation
// may legitimately wait for a free stream slot instead of failing at once).
func (r *v16Run) callPatient(kind string, freeAfter time.Duration) (v16CallRes, bool) {
	e := r.e
	r.blockedFreed = false
	onBlock := func() {
		if h := r.liveHeld(); h != nil {
			r.blockedFreed = true
			e.logf("   call blocked for %v: harness frees one held stream", freeAfter)
			r.unhold(h)
		}
	}
	stateBefore := r.conn
	mustFail := ""
	if !r.closed && r.conn == v16None {
		mustFail = r.expectAttemptFailure()
	}
	if !r.serverUp {
		r.callsWhileDown++
	}
	if kind == "tcp" {
		r.tcpCallsThisGen++ // reset by checkConnected when this call builds a new connection
	}
	pre := e.snap()
	t0 := time.Now()
	res := v16InvokeEx(e.rc, kind, freeAfter, onBlock)
	dur := time.Since(t0)
	post := e.snap()
	e.logf("   %s() -> %s  (%.0f ms; configFunc +%d, New +%d, connected +%d)", kind, v16ErrStr(res.err), float64(dur.Milliseconds()), post.cfg-pre.cfg, post.news-pre.news, post.conn-pre.conn)
	closeRes := func() {
		if res.tcp != nil {
			_ = res.tcp.Close()
		}
		if res.udp != nil {
			_ = res.udp.Close()
		}
	}
	noReconnect := func(what string) {
		if post.cfg != pre.cfg || post.news != pre.news || post.conn != pre.conn {
			closeRes()
			r.failf("%s: the call (re)connected although it must not: configFunc +%d, ConnFactory.New +%d, connectedFunc +%d", what, post.cfg-pre.cfg, post.news-pre.news, post.conn-pre.conn)
		}
	}
	closedErr := v16IsClosed(res.err)
	limitErr := v16IsStreamLimit(res.err)

	switch {
	case r.closed:
		noReconnect("call after Close()")
		if res.err == nil {
			closeRes()
			r.failf("%s() after Close() succeeded", kind)
		}
		if !closedErr {
			r.failf("%s() after Close() failed with %s, want ClosedError", kind, v16ErrStr(res.err))
		}
		r.class("call-after-close")
		return res, false

	case stateBefore == v16None:
		if post.cfg-pre.cfg < 1 {
			closeRes()
			r.failf("%s() with no live connection did not evaluate configFunc again (calls before %d, after %d; result %s)", kind, pre.cfg, post.cfg, v16ErrStr(res.err))
		}
		if mustFail != "" {
			if post.cfg-pre.cfg > 1 {
				vInconclusive("C16: the model does not cover several configFunc evaluations in one call")
			}
			if res.err == nil {
				closeRes()
				r.failf("%s() succeeded although the connect attempt had to fail (%s)", kind, mustFail)
			}
			if post.conn != pre.conn {
				r.failf("a failed connect attempt (%s) reached connectedFunc", mustFail)
			}
			r.failedAttempts++
			r.class("attempt-fail:" + mustFail)
			return res, false
		}
		if res.err != nil {
			if limitErr && !closedErr && post.conn-pre.conn == 1 {
				// connected, then the stream limit hit on the fresh connection: cannot happen
				// with our server (8 streams) but is not a violation of the statement
				r.checkConnected(pre, post, kind+"() reconnect")
				return res, false
			}
			if v16LooksLikeEnvTrouble(res.err) {
				vInconclusive("C16: connect attempt to a healthy server failed: " + res.err.Error())
			}
			r.failf("%s() with no live connection and a healthy server did not transparently build a new connection: %s", kind, v16ErrStr(res.err))
		}
		r.checkConnected(pre, post, kind+"() reconnect")
		r.successSinceKill = true
		return res, true

	case stateBefore == v16Alive:
		noReconnect("call on a live connection")
		if res.err == nil {
			r.successSinceKill = true
			return res, true
		}
		if closedErr {
			if limitErr {
				r.failf("%s() hit the stream limit (a recoverable error) but reported it as a closed connection: %s", kind, v16ErrStr(res.err))
			}
			// The harness did not kill this connection. Was it lost at all? Ask the
			// server: if it saw the *client* close a live connection (peer close with
			// the client's normal code), the connection was healthy and the client
			// treated some other error as a connection loss and tore it down.
			if healthy, how := e.clientTornDownHealthy(r.curID); healthy {
				ctx := ""
				if n := r.liveHeldCount(); n > 0 || r.exhausted {
					ctx = fmt.Sprintf(" while the harness held %d proxied streams open on it (server stream limit %d): stream limit reached on a healthy connection was treated as connection loss (reconnect triggered)", n, v16MaxStreams)
				}
				r.failf("%s() on a healthy connection returned %s and the client tore the connection down%s; proof of health: the server saw the connection %q end only by the client's own close: %s",
					kind, v16ErrStr(res.err), ctx, r.curID, how)
			} else {
				e.logf("   connection %q was really lost (environment): server says %s", r.curID, how)
			}
			// environment (e.g. starved for longer than the idle timeout).
			// Sound reaction: treat as a detected loss.
			r.class("spurious-loss")
			r.conn = v16None
			r.dropHeld(false)
			return res, false
		}
		if limitErr && kind == "tcp" {
			r.class("stream-limit-as-such")
			return res, false
		}
		r.failf("%s() on a live connection failed with %s (neither ClosedError nor a stream limit)", kind, v16ErrStr(res.err))

	case stateBefore == v16Lost:
		noReconnect("first calls after a connection loss")
		if res.err == nil {
			if kind == "udp" || e.fastOpen {
				r.class("success-on-lost-conn:" + kind) // needs no round trip; loss not yet visible
				return res, true
			}
			closeRes()
			vInconclusive("C16: a TCP round trip succeeded on a connection the harness had killed (" + r.lastKillKind + "): kill ineffective")
		}
		if closedErr {
			if limitErr {
				r.failf("%s() hit the stream limit (a recoverable error) but reported it as a closed connection: %s", kind, v16ErrStr(res.err))
			}
			r.conn = v16None
			r.detections++
			r.class("loss-detected-by:" + kind)
			if d := time.Since(r.lastKillAt); d > r.maxDetect[r.lastKillKind] {
				r.maxDetect[r.lastKillKind] = d
			}
			r.dropHeld(false)
			return res, false
		}
		if limitErr && kind == "tcp" {
			// A lost connection whose loss QUIC has not noticed yet can still answer
			// "stream limit" — but only if the stream credit can be used up. The server
			// grants 8 streams initially (1 used by the authentication request): with
			// at most 6 TCP() calls ever made on this connection credit is guaranteed,
			// so a stream-limit error cannot be genuine: the loss is being reported as
			// a recoverable error and the client will not reconnect.
			if r.tcpCallsThisGen <= 6 {
				r.failf("after the connection was lost (%s%s) %s() reported %s, a recoverable stream-limit error, although only %d TCP() calls were ever made on this connection (server limit %d): the loss must be reported as ClosedError so that the next call reconnects",
					r.lastKillKind, map[bool]string{true: ", then silence past the idle timeout with no call in flight", false: ""}[r.idleWaited], kind, v16ErrStr(res.err), r.tcpCallsThisGen, v16MaxStreams)
			}
			r.class("stream-limit-as-such")
			return res, false
		}
		r.failf("after the connection was lost (%s) %s() failed with %s, want ClosedError", r.lastKillKind, kind, v16ErrStr(res.err))
	}
	return res, false
}

func (r *v16Run) opTCP(hold bool) {
	r.op("tcp(hold=%v)", hold)
	stateBefore := r.conn
	res, ok := r.call("tcp")
	if ok {
		err := v16Echo(res.tcp, byte(len(r.ops)))
		switch {
		case err == nil:
			r.class("tcp-echo-ok")
			r.e.logf("   echo ok")
		case stateBefore == v16Lost:
			r.e.logf("   echo on the lost connection failed as expected: %v", err)
			hold = false
		default:
			// established proxied stream stopped working without a harness kill
			vInconclusive("C16: echo over an established proxied stream failed: " + err.Error())
		}
		if hold && r.conn == v16Alive {
			r.held = append(r.held, &v16Held{c: res.tcp, tcp: res.tcp, gen: r.count})
		} else {
			_ = res.tcp.Close()
		}
	}
	r.quiescent()
}

func (r *v16Run) opUDP() {
	r.op("udp()")
	res, ok := r.call("udp")
	if ok {
		if v16UDPEcho(res.udp) {
			r.class("udp-echo-ok")
		} else {
			r.class("udp-echo-miss")
		}
		_ = res.udp.Close()
	}
	r.quiescent()
}

func (r *v16Run) noteKill(kind string) {
	r.kills++
	if r.successSinceKill && r.kills >= 2 {
		r.killAfterSuccess++
	}
	r.successSinceKill = false
	r.lastKillKind = kind
	r.lastKillAt = time.Now()
	r.conn = v16Lost
	r.class("kill:" + kind)
}

// opKill: precondition conn == alive.
func (r *v16Run) opKill(kind string) {
	r.op("kill(%s)", kind)
	s := r.e.lastSock()
	switch kind {
	case "sock": // the client's transport socket dies under it
		s.killed.Store(true)
		_ = s.under.Close()
		r.e.logf("harness: closed the OS socket under socket#%d", s.id)
	case "blackhole": // silent loss: nothing gets through any more in either direction
		s.mode.Store(v16ModeBlackhole)
		r.e.logf("harness: socket#%d black-holed", s.id)
		r.slowLeft--
	case "kick": // the server closes the connection (CONNECTION_CLOSE from the peer)
		h := r.liveHeld()
		before := r.e.kicked.Load()
		r.e.kick.Store(true)
		_ = h.tcp.SetDeadline(time.Now().Add(v16EchoTimeout))
		_, _ = h.tcp.Write([]byte("kick"))
		buf := make([]byte, 64)
		for {
			if _, err := h.tcp.Read(buf); err != nil {
				break
			}
		}
		r.e.kick.Store(false)
		if r.e.kicked.Load() == before {
			vInconclusive("C16: the server never saw the traffic that should have made it close the connection")
		}
	default:
		panic(kind)
	}
	r.noteKill(kind)
	r.dropHeld(true)
	r.quiescent()
}

func (r *v16Run) opServerDown(fast bool) {
	r.op("serverDown(nextAttemptsFailFast=%v)", fast)
	r.e.stopServer()
	r.serverUp = false
	r.callsWhileDown = 0
	r.e.mu.Lock()
	r.e.unreach = fast
	r.e.mu.Unlock()
	if !fast {
		r.slowLeft--
	}
	if r.conn == v16Alive {
		r.slowLeft-- // noticing takes the idle timeout
		r.noteKill("server-down")
		r.dropHeld(true)
	}
	r.quiescent()
}

func (r *v16Run) opServerUp(samePort bool) {
	r.op("serverUp(samePort=%v)", samePort)
	port := 0
	if samePort {
		port = r.e.srvAddr.Port
	}
	got := r.e.startServer(port)
	switch {
	case samePort && got:
		r.class("server-up:same-port")
	case samePort:
		r.class("server-up:same-port-unavailable")
	default:
		r.class("server-up:new-port")
	}
	r.e.mu.Lock()
	r.e.unreach = false
	r.e.mu.Unlock()
	r.serverUp = true
	r.quiescent()
}

func (r *v16Run) opFailNext(kind string, k int) {
	r.op("failNext(%s,%d)", kind, k)
	r.e.mu.Lock()
	switch kind {
	case "config":
		r.e.cfgFail = k
	case "factory":
		r.e.facFail = k
	case "auth":
		r.e.authRej = k
	}
	r.e.mu.Unlock()
}

func (r *v16Run) pendingFailures() bool {
	r.e.mu.Lock()
	defer r.e.mu.Unlock()
	return r.e.cfgFail > 0 || r.e.facFail > 0 || r.e.authRej > 0
}

func (r *v16Run) opRelease() {
	r.op("releaseHeld(%d)", len(r.held))
	r.dropHeld(true)
}

// opExhaust: precondition conn == alive. Hold proxied streams open until the
// server's stream limit (8) is reached. The harness did not kill the connection
// and the held streams keep it demonstrably busy, so whatever the call does at
// the limit, it must not be treated as a connection loss. Accepted behaviours:
//   - the call returns the stream-limit error as such (and after one stream is
//     freed a later call succeeds on the same connection), or
//   - a patient implementation blocks; the harness frees one held stream after
//     freeAfter and the call then succeeds on the same connection.
//
// Never a ClosedError, never a reconnect (call() proves the health of the
// connection from the server's Disconnect record before calling it a violation).
func (r *v16Run) opExhaust(freeAfter time.Duration) {
	r.op("exhaustStreams(freeIfBlockedFor=%v)", freeAfter)
	gen := r.count
	lost := func(res v16CallRes, ok bool) bool {
		if r.conn == v16Alive && r.count == gen {
			return false
		}
		if ok {
			_ = res.tcp.Close()
		}
		r.e.logf("   connection lost while exhausting streams (environment)")
		r.quiescent()
		return true
	}
	hit, patient := false, false
	for i := 0; i < 6*v16MaxStreams; i++ {
		res, ok := r.callPatient("tcp", freeAfter)
		if lost(res, ok) {
			return
		}
		if ok {
			if err := v16Echo(res.tcp, byte(i)); err != nil {
				vInconclusive("C16: echo over an established proxied stream failed: " + err.Error())
			}
			r.held = append(r.held, &v16Held{c: res.tcp, tcp: res.tcp, gen: r.count})
			if r.blockedFreed {
				patient = true // blocked at the limit, served on the same connection once a slot was free
				break
			}
			continue
		}
		hit = true // call() accepted the error: it is a stream limit reported as such, without reconnect
		break
	}
	if !hit && !patient {
		vInconclusive(fmt.Sprintf("C16: %d proxied streams held open and the server's stream limit (%d) was never reached", len(r.held), v16MaxStreams))
	}
	if patient {
		r.class("exhaust:blocked-then-served-on-same-connection")
		r.class("exhaust:recovered-on-same-connection")
		r.quiescent()
		return
	}
	r.class("exhaust:limit-hit")
	r.exhausted = true
	// a second call while exhausted: still the limit, still the same connection
	res, ok := r.callPatient("tcp", freeAfter)
	if lost(res, ok) {
		return
	}
	if ok {
		_ = res.tcp.Close() // the server may have granted credit meanwhile; fine
	}
	// free one stream, then a call must eventually succeed on the same connection
	if h := r.liveHeld(); h != nil {
		r.unhold(h)
	}
	r.e.logf("   freed one held stream")
	deadline := time.Now().Add(30 * time.Second)
	for {
		res, ok := r.call("tcp")
		if lost(res, ok) {
			return
		}
		if ok {
			if err := v16Echo(res.tcp, 0xEE); err != nil {
				vInconclusive("C16: echo over an established proxied stream failed: " + err.Error())
			}
			_ = res.tcp.Close()
			r.class("exhaust:recovered-on-same-connection")
			r.exhausted = false
			break
		}
		if time.Now().After(deadline) {
			vInconclusive("C16: no stream credit came back within 30 s after a held stream was closed")
		}
		time.Sleep(10 * time.Millisecond)
	}
	r.quiescent()
}

// opIdleWait: after a *silent* loss (black hole, vanished server) nothing is
// called for longer than the idle timeout, so the loss is noticed by QUIC's idle
// timer alone, with no call in flight. The calls after it are judged by the
// ordinary model (state lost: the failing call is ClosedError; then reconnect).
func (r *v16Run) opIdleWait() {
	r.op("idleWait(%v, no call in flight)", v16IdleWait)
	time.Sleep(v16IdleWait)
	r.idleWaited = true
	r.class("silent-idle-wait")
	r.quiescent()
}

func (r *v16Run) silentlyLost() bool {
	return r.conn == v16Lost && !r.idleWaited && (r.lastKillKind == "blackhole" || r.lastKillKind == "server-down")
}

// opCloseWhileConfigParked: precondition conn == none, not closed. A call is
// started; when it is inside configFunc (parked by the harness: "slow DNS")
// Close() is called from another goroutine; configFunc is released after Close
// returned or after a bounded wait (an implementation may make Close wait for
// the call); both are joined. Then: Close is final — no socket open, and a call
// that came back successful although Close had already returned is a violation.
func (r *v16Run) opCloseWhileConfigParked(kind string, wait time.Duration) {
	r.op("closeWhileConfigParked(%s, releaseAfter<=%v)", kind, wait)
	e := r.e
	mustFail := r.expectAttemptFailure()
	if r.kills > 0 {
		r.closeAfterKill = true
	}
	r.class("close-while-config-parked")
	pre := e.snap()
	entered := e.armPark()
	callCh := make(chan v16CallRes, 1)
	go func() { callCh <- v16Invoke(e.rc, kind) }()
	select {
	case <-entered:
	case res := <-callCh:
		e.releasePark()
		if res.tcp != nil {
			_ = res.tcp.Close()
		}
		if res.udp != nil {
			_ = res.udp.Close()
		}
		r.failf("%s() with no live connection returned %s without evaluating configFunc", kind, v16ErrStr(res.err))
	case <-time.After(v16CallWatchdog):
		vInconclusive("C16: configFunc was not entered")
	}
	closeDone := make(chan struct{})
	go func() { _ = e.rc.Close(); close(closeDone) }()
	closeFirst := false
	select {
	case <-closeDone:
		closeFirst = true
		e.logf("   Close() returned while the call was still inside configFunc")
	case <-time.After(wait):
		e.logf("   Close() still blocked after %v (waits for the call): releasing configFunc", wait)
	}
	e.releasePark()
	var res v16CallRes
	select {
	case res = <-callCh:
	case <-time.After(v16CallWatchdog):
		vInconclusive("C16: the call did not return after configFunc was released")
	}
	select {
	case <-closeDone:
	case <-time.After(v16CallWatchdog):
		vInconclusive("C16: Close() did not return")
	}
	post := e.snap()
	e.logf("   %s() -> %s  (configFunc +%d, New +%d, connected +%d)", kind, v16ErrStr(res.err), post.cfg-pre.cfg, post.news-pre.news, post.conn-pre.conn)
	r.closed = true
	if res.tcp != nil {
		_ = res.tcp.Close()
	}
	if res.udp != nil {
		_ = res.udp.Close()
	}
	if closeFirst {
		r.class("close-returned-while-call-in-configFunc")
		if res.err == nil {
			r.failf("Close() returned while a %s() call was evaluating the configuration; the call then connected and returned success AFTER Close() (Close is final: the call must fail)", kind)
		}
	}
	if mustFail != "" && (res.err == nil || post.conn != pre.conn) {
		r.failf("%s() succeeded / reached connectedFunc although the connect attempt had to fail (%s)", kind, mustFail)
	}
	switch post.conn - pre.conn {
	case 0:
	case 1:
		e.mu.Lock()
		last := e.connected[len(e.connected)-1]
		e.mu.Unlock()
		if last.count != r.count+1 {
			r.failf("connectedFunc reported count %d, want %d", last.count, r.count+1)
		}
		r.count++
	default:
		r.failf("connectedFunc was called %d times for one call", post.conn-pre.conn)
	}
	r.conn = v16None
	r.dropHeld(true)
	r.quiescent() // closed: no socket may be open
}

func (r *v16Run) opClose() {
	r.op("Close()")
	if r.kills > 0 {
		r.closeAfterKill = true
	}
	r.class("close-in-state:" + v16StateName[r.conn])
	if r.closed {
		r.class("close-twice")
	}
	pre := r.e.snap()
	done := make(chan error, 1)
	go func() { done <- r.e.rc.Close() }()
	select {
	case <-done:
	case <-time.After(v16CallWatchdog):
		vInconclusive("C16: Close() did not return")
	}
	post := r.e.snap()
	if post.cfg != pre.cfg || post.news != pre.news {
		r.failf("Close() evaluated the configuration / opened a socket")
	}
	r.closed = true
	r.dropHeld(true)
	r.quiescent()
}

func (r *v16Run) finish() {
	// every history ends with Close() and two calls after it
	if !r.closed {
		r.opClose()
	}
	r.opTCP(false)
	r.opUDP()
	r.quiescent()
}

func (r *v16Run) nontrivial() bool {
	return r.killAfterSuccess > 0 || r.failedAttempts > 0 || r.closeAfterKill
}

func (r *v16Run) classList() []string {
	var out []string
	for c := range r.classes {
		out = append(out, c)
	}
	if r.nontrivial() {
		if r.killAfterSuccess > 0 {
			out = append(out, "nt:two-kills-with-success-between")
		}
		if r.failedAttempts > 0 {
			out = append(out, "nt:failed-reconnect-attempt")
		}
		if r.closeAfterKill {
			out = append(out, "nt:close-after-kill")
		}
	}
	return out
}

// ------------------------------------------------------------------ rapid: sequential histories

type v16Choice struct {
	name string
	w    int
}

func v16Pick(rt *rapid.T, label string, cs []v16Choice) string {
	var bag []string
	for _, c := range cs {
		for i := 0; i < c.w; i++ {
			bag = append(bag, c.name)
		}
	}
	return rapid.SampledFrom(bag).Draw(rt, label)
}

func v16Step(rt *rapid.T, r *v16Run) {
	if r.closed {
		switch v16Pick(rt, "op", []v16Choice{{"tcp", 3}, {"udp", 3}, {"close", 1}}) {
		case "tcp":
			r.opTCP(false)
		case "udp":
			r.opUDP()
		case "close":
			r.opClose()
		}
		return
	}
	var cs []v16Choice
	if !r.serverUp {
		if r.callsWhileDown < 2 {
			cs = append(cs, v16Choice{"tcp", 2}, v16Choice{"udp", 1})
		}
		cs = append(cs, v16Choice{"serverUp", 6}, v16Choice{"close", 1})
		if r.silentlyLost() {
			cs = append(cs, v16Choice{"idleWait", 6})
		}
	} else {
		cs = append(cs, v16Choice{"tcp", 6}, v16Choice{"udp", 2}, v16Choice{"close", 1})
		if r.conn == v16Alive {
			cs = append(cs, v16Choice{"kill", 7}, v16Choice{"exhaust", 1})
		}
		if r.conn == v16Lost {
			cs = append(cs, v16Choice{"tcp", 4}) // make detection likely
		}
		if r.silentlyLost() {
			cs = append(cs, v16Choice{"idleWait", 10})
		}
		if r.conn == v16None {
			cs = append(cs, v16Choice{"closeParked", 1})
		}
		cs = append(cs, v16Choice{"serverDown", 2})
		if !r.pendingFailures() {
			cs = append(cs, v16Choice{"failNext", 2})
		}
		if len(r.held) > 0 {
			cs = append(cs, v16Choice{"release", 1})
		}
	}
	switch v16Pick(rt, "op", cs) {
	case "tcp":
		r.opTCP(rapid.Bool().Draw(rt, "hold"))
	case "udp":
		r.opUDP()
	case "close":
		r.opClose()
	case "kill":
		ks := []v16Choice{{"sock", 5}}
		if r.liveHeld() != nil {
			ks = append(ks, v16Choice{"kick", 5})
		}
		if r.slowLeft > 0 {
			ks = append(ks, v16Choice{"blackhole", 1})
		}
		k := v16Pick(rt, "killKind", ks)
		// often script the next attempt(s) to fail right after the kill
		if !r.pendingFailures() && rapid.IntRange(0, 3).Draw(rt, "failAfterKill") == 0 {
			r.opFailNext(rapid.SampledFrom([]string{"config", "factory", "auth"}).Draw(rt, "failKind"), rapid.IntRange(1, 2).Draw(rt, "failK"))
		}
		r.opKill(k)
	case "exhaust":
		// mostly "late" (longer than any sensible internal wait), sometimes soon
		ms := rapid.SampledFrom([]int{300, 1000, 3000, 6000, 6000, 6000}).Draw(rt, "freeIfBlockedForMs")
		r.opExhaust(time.Duration(ms) * time.Millisecond)
	case "serverDown":
		if r.conn == v16Alive && r.slowLeft < 1 {
			r.opTCP(false) // noticing a vanished server costs an idle timeout: budget used up
			return
		}
		fast := true
		need := 1
		if r.conn == v16Alive {
			need = 2
		}
		if r.slowLeft >= need {
			fast = rapid.IntRange(0, 2).Draw(rt, "downSlow") != 0
		}
		r.opServerDown(fast)
	case "serverUp":
		r.opServerUp(rapid.Bool().Draw(rt, "samePort"))
	case "failNext":
		r.opFailNext(rapid.SampledFrom([]string{"config", "factory", "auth"}).Draw(rt, "failKind"), rapid.IntRange(1, 2).Draw(rt, "failK"))
	case "release":
		r.opRelease()
	case "idleWait":
		r.opIdleWait()
	case "closeParked":
		kind := v16Pick(rt, "kind", []v16Choice{{"tcp", 2}, {"udp", 1}})
		ms := rapid.SampledFrom([]int{1, 5, 30}).Draw(rt, "releaseAfterMs")
		r.opCloseWhileConfigParked(kind, time.Duration(ms)*time.Millisecond)
	}
}

func TestVerifC16_Histories(t *testing.T) {
	st := newVStats("TestVerifC16_Histories")
	defer st.Flush()
	var mu sync.Mutex
	maxDetect := map[string]time.Duration{}
	rapid.Check(t, func(rt *rapid.T) {
		r := v16NewRun(rt)
		defer r.e.teardown()
		recorded := false
		record := func() {
			if recorded {
				return
			}
			recorded = true
			st.Case(r.nontrivial(), strings.Join(r.ops, ";"), r.classList(), func() string { return strings.Join(r.ops, " ; ") })
			mu.Lock()
			for k, d := range r.maxDetect {
				if d > maxDetect[k] {
					maxDetect[k] = d
				}
			}
			mu.Unlock()
		}
		defer record()
		lazy := rapid.Bool().Draw(rt, "lazy")
		fastOpen := rapid.IntRange(0, 4).Draw(rt, "fastOpen") == 0
		r.start(lazy, fastOpen)
		n := rapid.IntRange(4, 18).Draw(rt, "steps")
		afterClose := 0
		for i := 0; i < n && afterClose < 3; i++ {
			if r.closed {
				afterClose++
			}
			v16Step(rt, r)
		}
		r.finish()
	})
	for k, d := range maxDetect {
		st.Extra("max_ms_from_kill_to_ClosedError:"+k, d.Milliseconds())
	}
}

// ------------------------------------------------------------------ plain regression tests

// TestVerifC16_Regress_DeadClientSocketClosed: fixed by ba058e1. After a lost
// connection is replaced, the socket of the dead connection must have been closed.
func TestVerifC16_Regress_DeadClientSocketClosed(t *testing.T) {
	st := newVStats("TestVerifC16_Regress_DeadClientSocketClosed")
	defer st.Flush()
	for _, lazy := range []bool{false, true} {
		for _, kill := range []string{"sock", "kick"} {
			r := v16NewRun(t)
			func() {
				defer r.e.teardown()
				// recorded even when the scenario fails (Fatalf runs deferred calls)
				defer func() {
					st.Case(true, strings.Join(r.ops, ";"), r.classList(), func() string { return strings.Join(r.ops, " ; ") })
				}()
				r.start(lazy, false)
				r.opTCP(true)
				r.opKill(kill)
				r.opTCP(false) // fails with ClosedError
				r.opTCP(true)  // reconnects: count 2; socket#1 must be closed now
				r.opKill("sock")
				r.opUDP()
				r.opTCP(false)
				r.opTCP(false)
				if r.count < 2 {
					r.failf("no reconnect happened")
				}
				r.finish()
			}()
		}
	}
}

// TestVerifC16_Regress_StreamLimitRecoverable: fixed by f9cc991. Hitting the
// server's stream limit is reported as such and does not trigger a reconnect.
func TestVerifC16_Regress_StreamLimitRecoverable(t *testing.T) {
	st := newVStats("TestVerifC16_Regress_StreamLimitRecoverable")
	defer st.Flush()
	for i, fastOpen := range []bool{false, true} {
		freeAfter := []time.Duration{6 * time.Second, 3 * time.Second}[i]
		r := v16NewRun(t)
		func() {
			defer r.e.teardown()
			defer func() {
				st.Case(true, strings.Join(r.ops, ";"), r.classList(), func() string { return strings.Join(r.ops, " ; ") })
			}()
			r.start(false, fastOpen)
			r.opTCP(true)
			r.opExhaust(freeAfter)
			if !r.classes["exhaust:recovered-on-same-connection"] {
				vInconclusive("C16: regression scenario did not reach the stream limit and recover" + r.e.history())
			}
			if r.count != 1 {
				r.failf("stream exhaustion led to %d connects", r.count)
			}
			r.opRelease()
			r.finish()
		}()
	}
}

// TestVerifC16_Regress_SilentIdleLoss: a connection that dies silently and is
// declared dead by the idle timer while no call is in flight: the next call
// reports ClosedError (not a recoverable error) and the one after it reconnects.
func TestVerifC16_Regress_SilentIdleLoss(t *testing.T) {
	st := newVStats("TestVerifC16_Regress_SilentIdleLoss")
	defer st.Flush()
	r := v16NewRun(t)
	defer r.e.teardown()
	defer func() {
		st.Case(true, strings.Join(r.ops, ";"), r.classList(), func() string { return strings.Join(r.ops, " ; ") })
	}()
	r.start(false, false)
	r.opTCP(false)
	r.opKill("blackhole")
	r.opIdleWait()
	r.opTCP(false) // must fail with ClosedError
	if r.conn != v16None {
		vInconclusive("C16: the silent loss was not noticed" + r.e.history())
	}
	r.opTCP(false) // reconnects
	if r.count != 2 {
		r.failf("no reconnect after a silent loss")
	}
	r.finish()
}

// TestVerifC16_Regress_CloseDuringConfig: Close() while a (re)connecting call
// is evaluating the configuration is still final.
func TestVerifC16_Regress_CloseDuringConfig(t *testing.T) {
	st := newVStats("TestVerifC16_Regress_CloseDuringConfig")
	defer st.Flush()
	for i := 0; i < 3; i++ {
		r := v16NewRun(t)
		func() {
			defer r.e.teardown()
			defer func() {
				st.Case(true, strings.Join(r.ops, ";"), r.classList(), func() string { return strings.Join(r.ops, " ; ") })
			}()
			switch i {
			case 0: // lazy start, first call
				r.start(true, false)
				r.opCloseWhileConfigParked("tcp", 30*time.Millisecond)
			case 1: // after a noticed loss
				r.start(false, false)
				r.opTCP(false)
				r.opKill("sock")
				r.opTCP(false)
				r.opCloseWhileConfigParked("tcp", 30*time.Millisecond)
			case 2:
				r.start(true, false)
				r.opCloseWhileConfigParked("udp", 5*time.Millisecond)
			}
			r.finish()
		}()
	}
}

// ------------------------------------------------------------------ rapid: concurrent callers (invariant-only oracle)

type v16Phase struct {
	calls     [][]string // per worker: call kinds
	action    string     // none | sock | kick | close
	actionAt  int        // after this many completed calls (of the phase)
	closeHere bool
	park      bool // the next configFunc evaluation of this phase parks until the action has happened
}

func TestVerifC16_Concurrent(t *testing.T) {
	st := newVStats("TestVerifC16_Concurrent")
	defer st.Flush()
	rapid.Check(t, func(rt *rapid.T) {
		workers := rapid.IntRange(2, 4).Draw(rt, "workers")
		nph := rapid.IntRange(1, 3).Draw(rt, "phases")
		lazy := rapid.Bool().Draw(rt, "lazy")
		var phases []v16Phase
		var fp []string
		closedPlanned := false
		for p := 0; p < nph; p++ {
			var ph v16Phase
			total := 0
			for w := 0; w < workers; w++ {
				n := rapid.IntRange(2, 6).Draw(rt, "ncalls")
				ks := make([]string, n)
				for i := range ks {
					ks[i] = v16Pick(rt, "kind", []v16Choice{{"tcp", 3}, {"udp", 1}})
				}
				ph.calls = append(ph.calls, ks)
				total += n
			}
			acts := []v16Choice{{"sock", 4}, {"kick", 3}, {"none", 1}}
			if !closedPlanned {
				acts = append(acts, v16Choice{"close", 1})
			}
			ph.action = v16Pick(rt, "action", acts)
			ph.actionAt = rapid.IntRange(0, total-1).Draw(rt, "actionAt")
			if ph.action == "close" {
				closedPlanned = true
			}
			ph.park = rapid.IntRange(0, 2).Draw(rt, "parkConfig") == 0
			phases = append(phases, ph)
			fp = append(fp, fmt.Sprintf("%s@%d/%d%s", ph.action, ph.actionAt, total, map[bool]string{true: "+park", false: ""}[ph.park]))
		}

		r := v16NewRun(rt)
		e := r.e
		defer e.teardown()
		r.start(lazy, false)
		var closedFlag atomic.Bool // set after Close() returned
		cfgAtClose := -1
		kills := 0
		var viol atomic.Value // string
		setViol := func(s string) { viol.CompareAndSwap(nil, s) }
		classes := map[string]bool{}
		var cmu sync.Mutex
		cls := func(c string) { cmu.Lock(); classes[c] = true; cmu.Unlock() }
		counts := map[string]int{}
		defer func() { // recorded also when the case fails
			s := e.snap()
			cmu.Lock()
			defer cmu.Unlock()
			var cl []string
			for c := range classes {
				cl = append(cl, c)
			}
			cl = append(cl, fmt.Sprintf("workers:%d", workers), fmt.Sprintf("connects:%d", min(s.conn, 4)))
			nt := kills >= 1 && s.conn >= 2
			st.Case(nt, fmt.Sprintf("w%d lazy=%v %s", workers, lazy, strings.Join(fp, ";")), cl, func() string {
				return fmt.Sprintf("workers=%d lazy=%v phases=%s kills=%d connects=%d configCalls=%d", workers, lazy, strings.Join(fp, ";"), kills, s.conn, s.cfg)
			})
		}()

		for pi, ph := range phases {
			e.logf("PHASE %d: %d workers, action %s after %d calls", pi, workers, ph.action, ph.actionAt)
			var completed atomic.Int32
			var wg sync.WaitGroup
			var parkEntered chan struct{}
			if ph.park {
				parkEntered = e.armPark()
			}
			isParked := func() bool {
				select {
				case <-parkEntered: // nil channel (no park): never ready
					return true
				default:
					return false
				}
			}
			for w := 0; w < workers; w++ {
				wg.Add(1)
				go func(w int, kinds []string) {
					defer wg.Done()
					for i, k := range kinds {
						startedAfterClose := closedFlag.Load()
						res := v16Invoke(e.rc, k)
						e.logf("   w%d call %d %s() -> %s", w, i, k, v16ErrStr(res.err))
						switch {
						case res.err == nil:
							if startedAfterClose {
								setViol(fmt.Sprintf("worker %d: %s() started after Close() returned but succeeded", w, k))
							}
							if res.tcp != nil {
								_ = v16Echo(res.tcp, byte(i)) // result irrelevant here: kills happen concurrently
								_ = res.tcp.Close()
							} else {
								_ = res.udp.Send([]byte("x"), "echo.v16.test:53")
								_ = res.udp.Close()
							}
							cls("call-ok")
						case v16IsClosed(res.err):
							if v16IsStreamLimit(res.err) {
								setViol(fmt.Sprintf("worker %d: stream limit reported as closed connection: %s", w, v16ErrStr(res.err)))
							}
							cls("call-closed-error")
						case startedAfterClose:
							setViol(fmt.Sprintf("worker %d: %s() started after Close() returned failed with %s, want ClosedError", w, k, v16ErrStr(res.err)))
						case v16IsStreamLimit(res.err):
							cls("call-stream-limit")
						default:
							// a reconnect attempt whose socket the harness killed during the
							// handshake fails with a connect error: a failed attempt, legal
							cls("call-connect-failed")
							cmu.Lock()
							counts["connectFailed"]++
							cmu.Unlock()
						}
						completed.Add(1)
					}
				}(w, ph.calls[w])
			}
			// the harness's own action, at the drawn point of the phase
			// (a parked configFunc may stall every caller: then act now)
			for int(completed.Load()) < ph.actionAt && !isParked() {
				time.Sleep(200 * time.Microsecond)
			}
			if isParked() {
				cls("action-while-configFunc-parked:" + ph.action)
			}
			switch ph.action {
			case "sock":
				if s := e.lastSock(); s != nil && !s.killed.Load() && s.closes.Load() == 0 {
					s.killed.Store(true)
					_ = s.under.Close()
					e.logf("harness: closed the OS socket under socket#%d", s.id)
					kills++
				}
			case "kick":
				e.kick.Store(true)
				e.logf("harness: next proxied traffic makes the server close the connection")
			case "close":
				e.logf("harness: Close()")
				done := make(chan struct{})
				go func() { _ = e.rc.Close(); close(done) }()
				if isParked() {
					// Close may have to wait for the parked call: bounded wait, then release
					select {
					case <-done:
						cls("close-returned-while-call-in-configFunc")
					case <-time.After(20 * time.Millisecond):
					}
					e.releasePark()
				}
				select {
				case <-done:
				case <-time.After(v16CallWatchdog):
					vInconclusive("C16: Close() did not return")
				}
				cfgAtClose = e.snap().cfg
				closedFlag.Store(true)
				r.closed = true
			}
			e.releasePark()
			wg.Wait()
			e.releasePark() // disarm if no configFunc evaluation happened in this phase
			if e.kick.CompareAndSwap(true, false) {
				e.logf("harness: kick not consumed in this phase")
			} else if ph.action == "kick" {
				kills++
			}
			// quiescent point: all workers joined
			if v := viol.Load(); v != nil {
				r.failf("%s", v.(string))
			}
			r.quiescent()
			if v := v16CheckConnectedLog(e); v != "" {
				r.failf("%s", v)
			}
		}
		// Close is final
		if !r.closed {
			done := make(chan struct{})
			go func() { _ = e.rc.Close(); close(done) }()
			select {
			case <-done:
			case <-time.After(v16CallWatchdog):
				vInconclusive("C16: Close() did not return")
			}
			cfgAtClose = e.snap().cfg
			r.closed = true
			e.logf("harness: final Close()")
		}
		for _, k := range []string{"tcp", "udp"} {
			res := v16Invoke(e.rc, k)
			if res.err == nil || !v16IsClosed(res.err) {
				r.failf("%s() after Close() returned %s, want ClosedError", k, v16ErrStr(res.err))
			}
		}
		if got := e.snap().cfg; got != cfgAtClose {
			r.failf("configFunc was evaluated %d more time(s) after Close() had returned", got-cfgAtClose)
		}
		r.quiescent()
		if v := v16CheckConnectedLog(e); v != "" {
			r.failf("%s", v)
		}
		s := e.snap()
		if s.conn > kills+1+counts["connectFailed"] {
			// more connections than losses the harness caused: the census above is the
			// oracle for dropped-but-open connections; an unexplained extra reconnect
			// with a clean census can only be an environment-caused loss
			cls("more-connects-than-kills")
		}
	})
}

// v16CheckConnectedLog: connect counts are 1,2,3,... (only successes counted),
// every success had its own configuration evaluation and its own socket.
func v16CheckConnectedLog(e *v16Env) string {
	e.mu.Lock()
	defer e.mu.Unlock()
	for i, c := range e.connected {
		if c.count != i+1 {
			return fmt.Sprintf("connectedFunc counts are not 1,2,3,...: call %d reported %d", i+1, c.count)
		}
		if !c.sameRC {
			return "connectedFunc was given a different Client than the reconnectable client"
		}
	}
	if e.cfgCalls < len(e.connected) {
		return fmt.Sprintf("%d successful connects but configFunc was evaluated only %d times", len(e.connected), e.cfgCalls)
	}
	if e.reuse > 0 {
		return "a ConnFactory of an earlier configuration was used again (configuration not freshly evaluated)"
	}
	if len(e.auths) < len(e.connected) {
		// every successful connect was authenticated by the server (the converse need not
		// hold: the harness may kill a socket between the server's accept and the client's success)
		return fmt.Sprintf("server accepted %d authentications, connectedFunc ran %d times", len(e.auths), len(e.connected))
	}
	return ""
}
