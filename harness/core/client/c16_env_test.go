package client

// C16 — reconnecting client: environment for the end-to-end harness.
//
// A real hysteria server (exported API of core/server only) runs in-process on a
// loopback UDP socket with an echo Outbound. The client under test is built by
// NewReconnectableClient with harness closures:
//   * configFunc   counts its invocations, can be scripted to fail the next k
//                  times and returns a *fresh* Config every time; the Auth string
//                  of the Config carries the evaluation number ("gen<N>") so the
//                  server side can tell which evaluation a connection was built from;
//   * ConnFactory  single use (like app/cmd's singleUseConnFactory), counts New(),
//                  wraps every socket it returns in v16Sock, which records Close()
//                  calls made by the code under test (the census) and has a kill
//                  switch operated by the harness (close the underlying socket,
//                  black-hole it, or make writes fail);
//   * connectedFunc records the counts it is given.
// Everything is appended to one sequence-numbered log that is printed on failure.

import (
	"crypto/ecdsa"
	"crypto/elliptic"
	crand "crypto/rand"
	"crypto/tls"
	"crypto/x509"
	"crypto/x509/pkix"
	"errors"
	"fmt"
	"io"
	"math/big"
	"net"
	"strings"
	"sync"
	"sync/atomic"
	"syscall"
	"time"

	"github.com/apernet/quic-go"

	coreErrs "github.com/apernet/hysteria/core/v2/errors"
	"github.com/apernet/hysteria/core/v2/server"
)

// ---------------------------------------------------------------- certificate

var (
	v16CertOnce sync.Once
	v16CertVal  tls.Certificate
)

func v16Cert() tls.Certificate {
	v16CertOnce.Do(func() {
		key, err := ecdsa.GenerateKey(elliptic.P256(), crand.Reader)
		if err != nil {
			vInconclusive("C16: cannot generate key: " + err.Error())
		}
		tmpl := &x509.Certificate{
			SerialNumber: big.NewInt(16),
			Subject:      pkix.Name{CommonName: "verif-c16"},
			NotBefore:    time.Now().Add(-time.Hour),
			NotAfter:     time.Now().Add(24 * time.Hour),
			KeyUsage:     x509.KeyUsageDigitalSignature,
			ExtKeyUsage:  []x509.ExtKeyUsage{x509.ExtKeyUsageServerAuth},
			DNSNames:     []string{"localhost"},
			IPAddresses:  []net.IP{net.IPv4(127, 0, 0, 1)},
		}
		der, err := x509.CreateCertificate(crand.Reader, tmpl, tmpl, &key.PublicKey, key)
		if err != nil {
			vInconclusive("C16: cannot create certificate: " + err.Error())
		}
		v16CertVal = tls.Certificate{Certificate: [][]byte{der}, PrivateKey: key}
	})
	return v16CertVal
}

// ---------------------------------------------------------------- server side fakes

type v16Outbound struct{}

func (v16Outbound) TCP(reqAddr string) (net.Conn, error) {
	a, b := net.Pipe()
	go func() {
		defer b.Close()
		buf := make([]byte, 4096)
		for {
			n, err := b.Read(buf)
			if n > 0 {
				if _, werr := b.Write(buf[:n]); werr != nil {
					return
				}
			}
			if err != nil {
				return
			}
		}
	}()
	return a, nil
}

type v16Dgram struct {
	b    []byte
	addr string
}

type v16EchoUDP struct {
	ch     chan v16Dgram
	closed chan struct{}
	once   sync.Once
}

func (u *v16EchoUDP) ReadFrom(b []byte) (int, string, error) {
	select {
	case d := <-u.ch:
		return copy(b, d.b), d.addr, nil
	case <-u.closed:
		return 0, "", net.ErrClosed
	}
}

func (u *v16EchoUDP) WriteTo(b []byte, addr string) (int, error) {
	d := v16Dgram{b: append([]byte(nil), b...), addr: addr}
	select {
	case u.ch <- d:
	case <-u.closed:
		return 0, net.ErrClosed
	default: // full: drop, as a network would
	}
	return len(b), nil
}

func (u *v16EchoUDP) Close() error {
	u.once.Do(func() { close(u.closed) })
	return nil
}

func (v16Outbound) UDP(reqAddr string) (server.UDPConn, error) {
	return &v16EchoUDP{ch: make(chan v16Dgram, 64), closed: make(chan struct{})}, nil
}

func (v16Outbound) CheckUDP(reqAddr string) error { return nil }

type v16Auth struct{ e *v16Env }

func (a v16Auth) Authenticate(addr net.Addr, auth string, tx uint64) (bool, string) {
	e := a.e
	e.mu.Lock()
	defer e.mu.Unlock()
	if e.authRej > 0 {
		e.authRej--
		e.authRejected++
		e.logfLocked("server: authentication of %q REJECTED (scripted)", auth)
		return false, ""
	}
	e.auths = append(e.auths, auth)
	e.logfLocked("server: authenticated %q", auth)
	return true, auth // the id names the configuration evaluation: Disconnect events can be attributed
}

// v16TL is the TrafficLogger through which the harness makes the *server* close
// the client's QUIC connection (LogTraffic returning false = "kick").
type v16TL struct{ e *v16Env }

func (l v16TL) LogTraffic(id string, tx, rx uint64) bool {
	if l.e.kick.CompareAndSwap(true, false) {
		l.e.kicked.Add(1)
		l.e.logf("server: traffic logger kicks the client (server closes the connection)")
		return false
	}
	return true
}
func (l v16TL) LogOnlineState(id string, online bool)                         {}
func (l v16TL) TraceStream(stream server.HyStream, stats *server.StreamStats) {}
func (l v16TL) UntraceStream(stream server.HyStream)                          {}

// v16EL records why the server saw each authenticated connection end. This is
// the harness's independent evidence about the health of a connection: a
// connection whose end the server observed as "the peer closed it with the
// client's normal close code 0x100" was alive and reachable until the client's
// own Close() — it was not lost.
type v16EL struct{ e *v16Env }

func (l v16EL) Connect(addr net.Addr, id string, tx uint64) {}
func (l v16EL) Disconnect(addr net.Addr, id string, err error) {
	l.e.mu.Lock()
	if l.e.disconnects == nil {
		l.e.disconnects = map[string]error{}
	}
	l.e.disconnects[id] = err
	l.e.logfLocked("server: connection %q ended: %s", id, v16ErrStr(err))
	l.e.mu.Unlock()
}
func (l v16EL) TCPRequest(addr net.Addr, id, reqAddr string)                          {}
func (l v16EL) TCPError(addr net.Addr, id, reqAddr string, err error)                 {}
func (l v16EL) UDPRequest(addr net.Addr, id string, sessionID uint32, reqAddr string) {}
func (l v16EL) UDPError(addr net.Addr, id string, sessionID uint32, err error)        {}

type v16Srv struct {
	s    server.Server
	addr *net.UDPAddr
	done chan struct{}
}

// ---------------------------------------------------------------- client side: sockets with census + kill switch

const (
	v16ModeNormal int32 = iota
	v16ModeBlackhole
	v16ModeUnreach
)

type v16Sock struct {
	e      *v16Env
	id     int // 1-based, order of creation
	cfgGen int // configFunc evaluation this socket's factory came from
	under  *net.UDPConn
	closes atomic.Int32 // Close() calls made by the code under test
	killed atomic.Bool  // harness closed the underlying socket
	mode   atomic.Int32
}

func (s *v16Sock) ReadFrom(b []byte) (int, net.Addr, error) {
	for {
		n, a, err := s.under.ReadFrom(b)
		if err != nil {
			return n, a, err
		}
		if s.mode.Load() == v16ModeBlackhole {
			continue
		}
		return n, a, nil
	}
}

func (s *v16Sock) WriteTo(b []byte, addr net.Addr) (int, error) {
	switch s.mode.Load() {
	case v16ModeBlackhole:
		return len(b), nil
	case v16ModeUnreach:
		return 0, &net.OpError{Op: "write", Net: "udp", Addr: addr, Err: syscall.ENETUNREACH}
	}
	return s.under.WriteTo(b, addr)
}

func (s *v16Sock) Close() error {
	n := s.closes.Add(1)
	s.e.logf("socket#%d: Close() by the client (call %d)", s.id, n)
	return s.under.Close()
}
func (s *v16Sock) LocalAddr() net.Addr                { return s.under.LocalAddr() }
func (s *v16Sock) SetDeadline(t time.Time) error      { return s.under.SetDeadline(t) }
func (s *v16Sock) SetReadDeadline(t time.Time) error  { return s.under.SetReadDeadline(t) }
func (s *v16Sock) SetWriteDeadline(t time.Time) error { return s.under.SetWriteDeadline(t) }

type v16Factory struct {
	e      *v16Env
	cfgGen int
	used   bool
}

var v16ErrFactory = errors.New("v16: scripted ConnFactory failure")

func (f *v16Factory) New(addr net.Addr) (net.PacketConn, error) {
	e := f.e
	e.mu.Lock()
	defer e.mu.Unlock()
	e.newCalls++
	e.newAddrs = append(e.newAddrs, addr.String())
	if f.used {
		e.reuse++
		e.logfLocked("factory(cfg#%d).New: REUSED (configuration was not re-evaluated)", f.cfgGen)
		return nil, errors.New("v16: connection factory already used")
	}
	f.used = true
	if e.facFail > 0 {
		e.facFail--
		e.logfLocked("factory(cfg#%d).New(%s): scripted failure", f.cfgGen, addr)
		return nil, v16ErrFactory
	}
	u, err := net.ListenUDP("udp", &net.UDPAddr{IP: net.IPv4(127, 0, 0, 1)})
	if err != nil {
		vInconclusive("C16: cannot open a client UDP socket: " + err.Error())
	}
	s := &v16Sock{e: e, id: len(e.socks) + 1, cfgGen: f.cfgGen, under: u}
	if e.unreach {
		s.mode.Store(v16ModeUnreach)
	}
	e.socks = append(e.socks, s)
	e.logfLocked("factory(cfg#%d).New(%s) -> socket#%d%s", f.cfgGen, addr, s.id, map[bool]string{true: " (network unreachable)", false: ""}[e.unreach])
	return s, nil
}

// ---------------------------------------------------------------- environment

type v16Connected struct {
	count  int
	sameRC bool
}

type v16Env struct {
	mu  sync.Mutex
	seq int
	log []string

	srv          *v16Srv
	srvAddr      *net.UDPAddr     // address configFunc hands out (current or last server address)
	auths        []string         // accepted Auth strings, in order
	disconnects  map[string]error // server side: why the connection authenticated as <id> ended
	authRej      int              // reject the next k authentications
	authRejected int
	kick         atomic.Bool
	kicked       atomic.Int32

	cfgCalls    int
	cfgFail     int // next k configFunc calls fail
	facFail     int // next k ConnFactory.New calls fail
	newCalls    int
	newAddrs    []string
	reuse       int
	socks       []*v16Sock
	connected   []v16Connected
	parkArmed   bool
	parkEntered chan struct{}
	parkRelease chan struct{}
	unreach     bool // sockets created from now on cannot send (fast "server unreachable")
	fastOpen    bool

	rc Client
}

func v16NewEnv() *v16Env { return &v16Env{} }

func (e *v16Env) logfLocked(f string, a ...any) {
	e.seq++
	e.log = append(e.log, fmt.Sprintf("%3d %s", e.seq, fmt.Sprintf(f, a...)))
}

func (e *v16Env) logf(f string, a ...any) {
	e.mu.Lock()
	e.logfLocked(f, a...)
	e.mu.Unlock()
}

func (e *v16Env) history() string {
	e.mu.Lock()
	defer e.mu.Unlock()
	l := e.log
	if len(l) > 160 {
		l = append(append([]string{}, l[:40]...), append([]string{"    ..."}, l[len(l)-110:]...)...)
	}
	return "\n    " + strings.Join(l, "\n    ")
}

var v16ErrConfig = errors.New("v16: scripted configFunc failure")

func (e *v16Env) configFunc() (*Config, error) {
	e.mu.Lock()
	defer e.mu.Unlock()
	e.cfgCalls++
	n := e.cfgCalls
	if e.parkArmed {
		// harness-owned yield point: "slow configuration evaluation" (DNS...). The
		// harness decides what else happens (Close, other callers) before it goes on.
		e.parkArmed = false
		ent, rel := e.parkEntered, e.parkRelease
		e.logfLocked("configFunc call #%d entered and PARKED by the harness", n)
		e.mu.Unlock()
		close(ent)
		select {
		case <-rel:
		case <-time.After(v16CallWatchdog):
			vInconclusive("C16: parked configFunc was never released")
		}
		e.mu.Lock()
		e.logfLocked("configFunc call #%d released", n)
	}
	if e.cfgFail > 0 {
		e.cfgFail--
		e.logfLocked("configFunc call #%d -> scripted error", n)
		return nil, v16ErrConfig
	}
	e.logfLocked("configFunc call #%d -> fresh Config{ServerAddr:%s Auth:gen%d}", n, e.srvAddr, n)
	return &Config{
		ConnFactory: &v16Factory{e: e, cfgGen: n},
		ServerAddr:  e.srvAddr,
		Auth:        fmt.Sprintf("gen%d", n),
		TLSConfig:   TLSConfig{InsecureSkipVerify: true},
		QUICConfig: QUICConfig{
			MaxIdleTimeout:  4 * time.Second, // smallest values the config accepts:
			KeepAlivePeriod: 2 * time.Second, // silent loss is noticed after <= 4 s
		},
		FastOpen: e.fastOpen,
	}, nil
}

// armPark makes the next configFunc evaluation park until releasePark.
func (e *v16Env) armPark() chan struct{} {
	e.mu.Lock()
	defer e.mu.Unlock()
	e.parkArmed = true
	e.parkEntered = make(chan struct{})
	e.parkRelease = make(chan struct{})
	return e.parkEntered
}

// releasePark disarms the yield point and releases a parked configFunc, if any.
func (e *v16Env) releasePark() {
	e.mu.Lock()
	e.parkArmed = false
	rel := e.parkRelease
	e.parkRelease = nil
	e.mu.Unlock()
	if rel != nil {
		close(rel)
	}
}

func (e *v16Env) connectedFunc(c Client, info *HandshakeInfo, count int) {
	// called by reconnect() with the reconnectable client's mutex held: only record
	e.mu.Lock()
	defer e.mu.Unlock()
	// e.rc is not yet assigned during an eager start (we are still inside NewReconnectableClient)
	e.connected = append(e.connected, v16Connected{count: count, sameRC: e.rc == nil || c == e.rc})
	e.logfLocked("connectedFunc(count=%d)", count)
}

// startServer starts a server on 127.0.0.1:port (0 = any). If the wanted port
// cannot be bound a fresh one is used; configFunc always returns the current address.
func (e *v16Env) startServer(port int) (gotWanted bool) {
	pc, err := net.ListenUDP("udp", &net.UDPAddr{IP: net.IPv4(127, 0, 0, 1), Port: port})
	gotWanted = err == nil
	if err != nil {
		pc, err = net.ListenUDP("udp", &net.UDPAddr{IP: net.IPv4(127, 0, 0, 1), Port: 0})
		if err != nil {
			vInconclusive("C16: cannot bind a server socket: " + err.Error())
		}
	}
	s, err := server.NewServer(&server.Config{
		TLSConfig:     server.TLSConfig{Certificates: []tls.Certificate{v16Cert()}},
		QUICConfig:    server.QUICConfig{MaxIncomingStreams: v16MaxStreams, MaxIdleTimeout: 4 * time.Second},
		Conn:          pc,
		Outbound:      v16Outbound{},
		Authenticator: v16Auth{e},
		TrafficLogger: v16TL{e},
		EventLogger:   v16EL{e},
	})
	if err != nil {
		vInconclusive("C16: cannot create the server: " + err.Error())
	}
	srv := &v16Srv{s: s, addr: pc.LocalAddr().(*net.UDPAddr), done: make(chan struct{})}
	go func() { _ = s.Serve(); close(srv.done) }()
	e.mu.Lock()
	e.srv = srv
	e.srvAddr = srv.addr
	e.logfLocked("harness: server up on %s", srv.addr)
	e.mu.Unlock()
	return gotWanted
}

func (e *v16Env) stopServer() {
	e.mu.Lock()
	srv := e.srv
	e.srv = nil
	e.mu.Unlock()
	if srv == nil {
		return
	}
	_ = srv.s.Close()
	select {
	case <-srv.done:
	case <-time.After(30 * time.Second):
		vInconclusive("C16: server did not stop within 30 s")
	}
	e.logf("harness: server on %s is DOWN", srv.addr)
}

type v16Snap struct {
	cfg, news, conn, reuse, nsocks int
}

func (e *v16Env) snap() v16Snap {
	e.mu.Lock()
	defer e.mu.Unlock()
	return v16Snap{cfg: e.cfgCalls, news: e.newCalls, conn: len(e.connected), reuse: e.reuse, nsocks: len(e.socks)}
}

// census reports the sockets the code under test has not closed: all of them,
// and those that have been superseded by a later socket.
func (e *v16Env) census() (open, supersededOpen []int) {
	e.mu.Lock()
	defer e.mu.Unlock()
	for i, s := range e.socks {
		if s.closes.Load() == 0 {
			open = append(open, s.id)
			if i != len(e.socks)-1 {
				supersededOpen = append(supersededOpen, s.id)
			}
		}
	}
	return
}

// censusViolation waits (generously: closing is allowed to be asynchronous) for
// the census to satisfy the statement and returns "" or what is still wrong.
func (e *v16Env) censusViolation(maxOpen int) string {
	deadline := time.Now().Add(v16CloseGrace)
	for {
		open, sup := e.census()
		if len(open) <= maxOpen && len(sup) == 0 {
			return ""
		}
		if time.Now().After(deadline) {
			e.mu.Lock()
			n := len(e.socks)
			e.mu.Unlock()
			return fmt.Sprintf("of %d sockets obtained from the ConnFactory, %v are still not closed by the client (allowed open: %d; superseded and still open: %v) %v after the call returned",
				n, open, maxOpen, sup, v16CloseGrace)
		}
		time.Sleep(5 * time.Millisecond)
	}
}

func (e *v16Env) lastSock() *v16Sock {
	e.mu.Lock()
	defer e.mu.Unlock()
	if len(e.socks) == 0 {
		return nil
	}
	return e.socks[len(e.socks)-1]
}

// teardown releases everything of the case, whatever state it is in.
func (e *v16Env) teardown() {
	e.mu.Lock()
	rc := e.rc
	e.mu.Unlock()
	if rc != nil {
		done := make(chan struct{})
		go func() { _ = rc.Close(); close(done) }()
		select {
		case <-done:
		case <-time.After(60 * time.Second):
			vInconclusive("C16: Close() of the reconnectable client did not return within 60 s during teardown")
		}
	}
	e.stopServer()
	e.mu.Lock()
	socks := append([]*v16Sock(nil), e.socks...)
	e.mu.Unlock()
	for _, s := range socks {
		_ = s.under.Close()
	}
}

// ---------------------------------------------------------------- error classification

func v16IsClosed(err error) bool {
	var ce coreErrs.ClosedError
	return errors.As(err, &ce)
}

// v16IsStreamLimit: the error chain contains quic-go's stream limit error (pointer or value).
func v16IsStreamLimit(err error) bool {
	var p *quic.StreamLimitReachedError
	if errors.As(err, &p) {
		return true
	}
	var v quic.StreamLimitReachedError
	return errors.As(err, &v)
}

// v16LooksLikeEnvTrouble: a connect attempt that timed out although the server
// was up (overloaded machine) is not evidence about the property.
func v16LooksLikeEnvTrouble(err error) bool {
	var ce coreErrs.ConnectError
	if !errors.As(err, &ce) {
		return false
	}
	m := err.Error()
	return strings.Contains(m, "timeout") || strings.Contains(m, "no recent network activity") || strings.Contains(m, "deadline exceeded")
}

func v16ErrStr(err error) string {
	if err == nil {
		return "nil"
	}
	return fmt.Sprintf("%T(%v)", err, err)
}

// ---------------------------------------------------------------- calls with a watchdog

type v16CallRes struct {
	tcp net.Conn
	udp HyUDPConn
	err error
}

// v16Invoke runs one TCP()/UDP() call of the client. A call may legitimately
// block for the QUIC idle / handshake timeout; far beyond that is "cannot decide".
func v16Invoke(c Client, kind string) v16CallRes { return v16InvokeEx(c, kind, 0, nil) }

// v16InvokeEx: if the call is still blocked after `after` (> 0), onBlock runs once
// (the harness frees a stream slot for a patient implementation) and the wait goes on.
func v16InvokeEx(c Client, kind string, after time.Duration, onBlock func()) v16CallRes {
	ch := make(chan v16CallRes, 1)
	go func() {
		var r v16CallRes
		if kind == "tcp" {
			r.tcp, r.err = c.TCP("echo.v16.test:80")
		} else {
			r.udp, r.err = c.UDP()
		}
		ch <- r
	}()
	if after > 0 && onBlock != nil {
		select {
		case r := <-ch:
			return r
		case <-time.After(after):
			onBlock()
		}
	}
	select {
	case r := <-ch:
		return r
	case <-time.After(v16CallWatchdog):
		vInconclusive(fmt.Sprintf("C16: a %s call did not return within %v", kind, v16CallWatchdog))
	}
	panic("unreachable")
}

// v16ClientTornDownHealthy decides, from the server's point of view, whether the
// connection authenticated as id was alive until the client itself closed it:
// the server then sees a CONNECTION_CLOSE from the peer carrying the client's
// normal close code 0x100. A connection that was really lost (idle timeout,
// dead socket, server-side close) never ends like that: a client closing an
// already dead connection sends nothing. Waits generously for the server to notice.
func (e *v16Env) clientTornDownHealthy(id string) (bool, string) {
	deadline := time.Now().Add(10 * time.Second)
	for {
		e.mu.Lock()
		err, ok := e.disconnects[id]
		e.mu.Unlock()
		if ok {
			// The server reports the result of http3's ServeQUICConn: nil exactly when
			// the connection ended with application error 0x100 (H3 "no error"). The
			// server itself closes with 0x100 only after that returned, a kick uses
			// 0x107, server shutdown / idle timeout / dead peer give other errors: so
			// nil means the client sent CONNECTION_CLOSE(0x100) on a working connection.
			var ae *quic.ApplicationError
			if err == nil || (errors.As(err, &ae) && ae.Remote && ae.ErrorCode == 0x100) {
				return true, "peer closed with application code 0x100 (Disconnect err=" + v16ErrStr(err) + ")"
			}
			return false, v16ErrStr(err)
		}
		if time.Now().After(deadline) {
			return false, "server reported no end of the connection within 10 s"
		}
		time.Sleep(5 * time.Millisecond)
	}
}

// v16Echo writes a few bytes and expects them back (evidence that the
// connection the call was served on really works).
func v16Echo(c net.Conn, tag byte) error {
	_ = c.SetDeadline(time.Now().Add(v16EchoTimeout))
	defer c.SetDeadline(time.Time{})
	msg := []byte{'v', '1', '6', tag, 0, 1, 2, 3, 4, 5, 6, 7}
	if _, err := c.Write(msg); err != nil {
		return err
	}
	got := make([]byte, len(msg))
	if _, err := io.ReadFull(c, got); err != nil {
		return err
	}
	if string(got) != string(msg) {
		return fmt.Errorf("echo mismatch: sent %x got %x", msg, got)
	}
	return nil
}

// v16UDPEcho sends one datagram and waits briefly for its echo; not asserted
// (datagrams are unreliable), only counted.
func v16UDPEcho(u HyUDPConn) bool {
	got := make(chan bool, 1)
	go func() {
		b, _, err := u.Receive()
		got <- err == nil && string(b) == "v16-dgram"
	}()
	deadline := time.After(1500 * time.Millisecond)
	for i := 0; i < 3; i++ {
		if err := u.Send([]byte("v16-dgram"), "echo.v16.test:53"); err != nil {
			break
		}
		select {
		case ok := <-got:
			return ok
		case <-time.After(300 * time.Millisecond):
		case <-deadline:
			return false
		}
	}
	_ = u.Close() // unblocks Receive
	select {
	case ok := <-got:
		return ok
	case <-time.After(10 * time.Second):
		return false
	}
}

const (
	v16MaxStreams   = 8
	v16CloseGrace   = 3 * time.Second
	v16CallWatchdog = 120 * time.Second
	v16EchoTimeout  = 20 * time.Second
	// silent wait after a silent loss: longer than the configured 4 s idle timeout, so
	// that normally the idle timer fires while no call is in flight (if it has not
	// fired yet the next call simply notices the loss itself: both are judged the same)
	v16IdleWait = 5500 * time.Millisecond
)
