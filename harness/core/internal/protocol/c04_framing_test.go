package protocol

// C04 — TCP request/response framing is lossless, exact and bounded.
//
// Oracle: an independent reference decoder (vC04Ref*) written from PROTOCOL.md
// (RFC 9000 varints, limits 2048/2048/4096), used differentially against
// ReadTCPRequest / ReadTCPResponse over a scripted, chunked reader that is not
// an io.ByteReader and never returns more than asked.

import (
	"bytes"
	"fmt"
	"io"
	"runtime"
	"testing"

	"pgregory.net/rapid"
)

const (
	vC04MaxAddr = 2048
	vC04MaxMsg  = 2048
	vC04MaxPad  = 4096
)

// ---- independent varint codec (RFC 9000 section 16) ----

func vC04PutVarint(b []byte, v uint64, width int) []byte {
	switch width {
	case 1:
		return append(b, byte(v))
	case 2:
		return append(b, byte(v>>8)|0x40, byte(v))
	case 4:
		return append(b, byte(v>>24)|0x80, byte(v>>16), byte(v>>8), byte(v))
	default:
		return append(b, byte(v>>56)|0xc0, byte(v>>48), byte(v>>40), byte(v>>32), byte(v>>24), byte(v>>16), byte(v>>8), byte(v))
	}
}

func vC04MinWidth(v uint64) int {
	switch {
	case v <= 63:
		return 1
	case v <= 16383:
		return 2
	case v <= 1073741823:
		return 4
	}
	return 8
}

// returns value, bytes used; n==0 means truncated
func vC04GetVarint(b []byte) (uint64, int) {
	if len(b) == 0 {
		return 0, 0
	}
	n := 1 << (b[0] >> 6)
	if len(b) < n {
		return 0, 0
	}
	v := uint64(b[0] & 0x3f)
	for i := 1; i < n; i++ {
		v = v<<8 | uint64(b[i])
	}
	return v, n
}

type vC04Ref struct {
	kind      string // "ok", "reject", "truncated"
	addr      string // request address or response message
	status    byte
	consumed  int // ok: exact frame length
	rejectEnd int // reject: offset just after the offending length varint
}

func vC04RefRequest(b []byte) vC04Ref {
	off := 0
	al, n := vC04GetVarint(b)
	if n == 0 {
		return vC04Ref{kind: "truncated"}
	}
	off += n
	if al == 0 || al > vC04MaxAddr {
		return vC04Ref{kind: "reject", rejectEnd: off}
	}
	if len(b)-off < int(al) {
		return vC04Ref{kind: "truncated"}
	}
	addr := string(b[off : off+int(al)])
	off += int(al)
	pl, n := vC04GetVarint(b[off:])
	if n == 0 {
		return vC04Ref{kind: "truncated"}
	}
	off += n
	if pl > vC04MaxPad {
		return vC04Ref{kind: "reject", rejectEnd: off}
	}
	if len(b)-off < int(pl) {
		return vC04Ref{kind: "truncated"}
	}
	return vC04Ref{kind: "ok", addr: addr, consumed: off + int(pl)}
}

func vC04RefResponse(b []byte) vC04Ref {
	if len(b) == 0 {
		return vC04Ref{kind: "truncated"}
	}
	st := b[0]
	off := 1
	ml, n := vC04GetVarint(b[off:])
	if n == 0 {
		return vC04Ref{kind: "truncated"}
	}
	off += n
	if ml > vC04MaxMsg {
		return vC04Ref{kind: "reject", rejectEnd: off}
	}
	if len(b)-off < int(ml) {
		return vC04Ref{kind: "truncated"}
	}
	msg := string(b[off : off+int(ml)])
	off += int(ml)
	pl, n := vC04GetVarint(b[off:])
	if n == 0 {
		return vC04Ref{kind: "truncated"}
	}
	off += n
	if pl > vC04MaxPad {
		return vC04Ref{kind: "reject", rejectEnd: off}
	}
	if len(b)-off < int(pl) {
		return vC04Ref{kind: "truncated"}
	}
	return vC04Ref{kind: "ok", addr: msg, status: st, consumed: off + int(pl)}
}

// ---- scripted reader: chunked, not a ByteReader, never returns more than asked ----

type vC04Reader struct {
	data    []byte
	pos     int
	cuts    []int // ascending chunk boundaries (absolute offsets)
	eofWith bool  // deliver io.EOF together with the last bytes (as a QUIC stream does at FIN)
	maxReq  int
	calls   int
}

func (r *vC04Reader) Read(p []byte) (int, error) {
	r.calls++
	if len(p) > r.maxReq {
		r.maxReq = len(p)
	}
	if len(p) == 0 {
		return 0, nil
	}
	if r.pos >= len(r.data) {
		return 0, io.EOF
	}
	end := len(r.data)
	for _, c := range r.cuts {
		if c > r.pos {
			if c < end {
				end = c
			}
			break
		}
	}
	n := end - r.pos
	if n > len(p) {
		n = len(p)
	}
	copy(p, r.data[r.pos:r.pos+n])
	r.pos += n
	if r.pos == len(r.data) && r.eofWith {
		return n, io.EOF
	}
	return n, nil
}

func vC04Cuts(t *rapid.T, n int, around []int) []int {
	if n <= 1 {
		return nil
	}
	mode := rapid.IntRange(0, 4).Draw(t, "cutMode")
	set := map[int]bool{}
	switch mode {
	case 0: // one read delivers everything
	case 1: // byte at a time
		for i := 1; i < n; i++ {
			set[i] = true
		}
	case 2: // cuts right around the interesting offsets (inside varints, at field ends)
		for _, a := range around {
			for d := -2; d <= 2; d++ {
				if c := a + d; c > 0 && c < n && rapid.Bool().Draw(t, "cutAt") {
					set[c] = true
				}
			}
		}
	default:
		k := rapid.IntRange(1, 12).Draw(t, "ncuts")
		for i := 0; i < k; i++ {
			set[rapid.IntRange(1, n-1).Draw(t, "cut")] = true
		}
	}
	var cuts []int
	for i := 1; i < n; i++ {
		if set[i] {
			cuts = append(cuts, i)
		}
	}
	return cuts
}

func vC04Bytes(t *rapid.T, n int, label string) []byte {
	b := make([]byte, n)
	seed := rapid.Uint32().Draw(t, label+"Seed")
	kind := rapid.IntRange(0, 2).Draw(t, label+"Kind")
	x := seed | 1
	for i := range b {
		x = x*1664525 + 1013904223
		switch kind {
		case 0:
			b[i] = byte(x >> 24) // arbitrary bytes incl. 0x00, 0xff, varint-looking prefixes
		case 1:
			b[i] = "abcdefghijklmnopqrstuvwxyz0123456789.-:[]"[(x>>16)%41]
		default:
			b[i] = []byte{0x00, 0x40, 0x80, 0xc0, 0xff, 0x3f, 0x01}[(x>>16)%7]
		}
	}
	return b
}

var vC04Lens = []int{1, 2, 62, 63, 64, 65, 255, 256, 2047, 2048}

func vC04Len(t *rapid.T, label string, min, max int) int {
	if rapid.Bool().Draw(t, label+"Boundary") {
		l := rapid.SampledFrom(vC04Lens).Draw(t, label)
		if l >= min && l <= max {
			return l
		}
	}
	return rapid.IntRange(min, max).Draw(t, label)
}

func vC04Width(t *rapid.T, v uint64, label string) int {
	ws := []int{}
	for _, w := range []int{1, 2, 4, 8} {
		if w >= vC04MinWidth(v) {
			ws = append(ws, w)
		}
	}
	return rapid.SampledFrom(ws).Draw(t, label)
}

func vC04PadLen(t *rapid.T) int {
	if rapid.Bool().Draw(t, "padBoundary") {
		return rapid.SampledFrom([]int{0, 1, 63, 64, 4095, 4096}).Draw(t, "padLen")
	}
	return rapid.IntRange(0, vC04MaxPad).Draw(t, "padLen")
}

type vC04Outcome struct {
	addr     string
	ok       bool
	err      error
	consumed int
	maxReq   int
	alloc    uint64
}

func vC04Run(isReq bool, stream []byte, cuts []int, eofWith bool, measureAlloc bool) (o vC04Outcome, panicked any) {
	r := &vC04Reader{data: stream, cuts: cuts, eofWith: eofWith}
	defer func() {
		if p := recover(); p != nil {
			panicked = p
		}
	}()
	var m0, m1 runtime.MemStats
	if measureAlloc {
		runtime.ReadMemStats(&m0)
	}
	if isReq {
		o.addr, o.err = ReadTCPRequest(r)
	} else {
		o.ok, o.addr, o.err = ReadTCPResponse(r)
	}
	if measureAlloc {
		runtime.ReadMemStats(&m1)
		o.alloc = m1.TotalAlloc - m0.TotalAlloc
	}
	o.consumed, o.maxReq = r.pos, r.maxReq
	return o, nil
}

// vC04Judge compares the real reader's outcome with the reference decoder's.
func vC04Judge(isReq bool, stream []byte, ref vC04Ref, o vC04Outcome, panicked any) error {
	if panicked != nil {
		return fmt.Errorf("panic: %v", panicked)
	}
	switch ref.kind {
	case "ok":
		if o.err != nil {
			return fmt.Errorf("valid frame rejected: %v", o.err)
		}
		if o.addr != ref.addr {
			return fmt.Errorf("decoded %d bytes %q..., want %d bytes %q...", len(o.addr), vC04Clip(o.addr), len(ref.addr), vC04Clip(ref.addr))
		}
		if !isReq && ref.status <= 1 && o.ok != (ref.status == 0) { // other status bytes are outside the protocol
			return fmt.Errorf("status byte %d decoded as ok=%v", ref.status, o.ok)
		}
		if o.consumed != ref.consumed {
			return fmt.Errorf("reader consumed %d bytes of the stream, the frame is exactly %d bytes (stream has %d)", o.consumed, ref.consumed, len(stream))
		}
		if o.maxReq > vC04MaxPad {
			return fmt.Errorf("a single Read asked for %d bytes (> %d)", o.maxReq, vC04MaxPad)
		}
	case "reject":
		if o.err == nil {
			return fmt.Errorf("over-limit/empty length accepted (decoded %d bytes)", len(o.addr))
		}
		if o.consumed > ref.rejectEnd {
			return fmt.Errorf("rejected frame: %d bytes consumed, but the offending length varint ends at %d (declared amount must not be read)", o.consumed, ref.rejectEnd)
		}
		if o.maxReq > vC04MaxPad {
			return fmt.Errorf("rejected frame: a single Read asked for %d bytes", o.maxReq)
		}
		if o.alloc > 1<<20 {
			return fmt.Errorf("rejected frame: %d bytes allocated during the call", o.alloc)
		}
	case "truncated":
		if o.err == nil {
			return fmt.Errorf("truncated frame accepted (decoded %d bytes)", len(o.addr))
		}
		if o.alloc > 1<<20 {
			return fmt.Errorf("truncated frame: %d bytes allocated during the call", o.alloc)
		}
	}
	return nil
}

func vC04Clip(s string) string {
	if len(s) > 24 {
		return s[:24]
	}
	return s
}

// ---------------------------------------------------------------- properties

// Harness-encoded frames, every legal varint width, every chunking, trailing payload.
func TestVerifC04_RoundTripAnyEncoding(t *testing.T) {
	st := newVStats("TestVerifC04_RoundTripAnyEncoding")
	defer st.Flush()
	rapid.Check(t, func(rt *rapid.T) {
		isReq := rapid.Bool().Draw(rt, "isRequest")
		var frame []byte
		var body []byte
		var around []int
		status := byte(0)
		if isReq {
			body = vC04Bytes(rt, vC04Len(rt, "addrLen", 1, vC04MaxAddr), "addr")
		} else {
			status = byte(rapid.IntRange(0, 1).Draw(rt, "status"))
			if rapid.IntRange(0, 5).Draw(rt, "emptyMsg") == 0 {
				body = nil
			} else {
				body = vC04Bytes(rt, vC04Len(rt, "msgLen", 1, vC04MaxMsg), "msg")
			}
			frame = append(frame, status)
		}
		w1 := vC04Width(rt, uint64(len(body)), "lenWidth")
		frame = vC04PutVarint(frame, uint64(len(body)), w1)
		around = append(around, len(frame))
		frame = append(frame, body...)
		around = append(around, len(frame))
		pad := vC04PadLen(rt)
		w2 := vC04Width(rt, uint64(pad), "padWidth")
		frame = vC04PutVarint(frame, uint64(pad), w2)
		around = append(around, len(frame))
		frame = append(frame, vC04Bytes(rt, pad, "pad")...)
		around = append(around, len(frame))
		trail := vC04Bytes(rt, rapid.IntRange(0, 64).Draw(rt, "trailLen"), "trail")
		stream := append(append([]byte{}, frame...), trail...)
		cuts := vC04Cuts(rt, len(stream), around)
		eofWith := rapid.Bool().Draw(rt, "eofWithData")
		var ref vC04Ref
		if isReq {
			ref = vC04RefRequest(stream)
		} else {
			ref = vC04RefResponse(stream)
		}
		if ref.kind != "ok" || ref.consumed != len(frame) || ref.addr != string(body) {
			rt.Fatalf("harness bug: reference decoder disagrees with harness encoder: %+v", ref)
		}
		o, p := vC04Run(isReq, stream, cuts, eofWith, false)
		nonMin := w1 != vC04MinWidth(uint64(len(body))) || w2 != vC04MinWidth(uint64(pad))
		boundary := false
		for _, l := range vC04Lens {
			if len(body) == l {
				boundary = true
			}
		}
		nt := nonMin || boundary || len(cuts) >= 2 || pad == 4096 || pad == 0
		cls := []string{fmt.Sprintf("req=%v", isReq), fmt.Sprintf("w=%d/%d", w1, w2)}
		if len(trail) > 0 {
			cls = append(cls, "trailing-payload")
		}
		if len(cuts) >= 2 {
			cls = append(cls, "chunks>=3")
		}
		if nonMin {
			cls = append(cls, "non-minimal-varint")
		}
		st.Case(nt, fmt.Sprintf("%v/%d/%d/%d/%d/%d/%v", isReq, len(body), pad, w1, w2, len(trail), cuts), cls, func() string {
			return fmt.Sprintf("request=%v len=%d(width %d) pad=%d(width %d) trailing=%d cuts=%v eofWithData=%v", isReq, len(body), w1, pad, w2, len(trail), vC04Head(cuts), eofWith)
		})
		if err := vC04Judge(isReq, stream, ref, o, p); err != nil {
			rt.Fatalf("C04 round-trip (request=%v len=%d width=%d pad=%d width=%d trailing=%d cuts=%v eofWith=%v): %v", isReq, len(body), w1, pad, w2, len(trail), cuts, eofWith, err)
		}
	})
}

func vC04Head(c []int) []int {
	if len(c) > 10 {
		return c[:10]
	}
	return c
}

type vC04CountWriter struct {
	bytes.Buffer
	writes int
}

func (w *vC04CountWriter) Write(p []byte) (int, error) {
	w.writes++
	return w.Buffer.Write(p)
}

// Real writers (padding forced to each value of its range) -> reference decoder and real readers.
func TestVerifC04_RealWriters(t *testing.T) {
	st := newVStats("TestVerifC04_RealWriters")
	defer st.Flush()
	saveReq, saveResp := tcpRequestPadding, tcpResponsePadding
	defer func() { tcpRequestPadding, tcpResponsePadding = saveReq, saveResp }()
	rapid.Check(t, func(rt *rapid.T) {
		isReq := rapid.Bool().Draw(rt, "isRequest")
		var w vC04CountWriter
		var body []byte
		okStatus := true
		pad := 0
		forced := rapid.IntRange(0, 3).Draw(rt, "forcePad") != 0
		if isReq {
			body = vC04Bytes(rt, vC04Len(rt, "addrLen", 1, vC04MaxAddr), "addr")
			if forced {
				pad = rapid.IntRange(saveReq.Min, saveReq.Max-1).Draw(rt, "pad")
				tcpRequestPadding = padding{Min: pad, Max: pad + 1}
			} else {
				tcpRequestPadding = saveReq
			}
			if err := WriteTCPRequest(&w, string(body)); err != nil {
				rt.Fatalf("C04 writer: %v", err)
			}
		} else {
			okStatus = rapid.Bool().Draw(rt, "ok")
			if rapid.IntRange(0, 5).Draw(rt, "emptyMsg") != 0 {
				body = vC04Bytes(rt, vC04Len(rt, "msgLen", 1, vC04MaxMsg), "msg")
			}
			if forced {
				pad = rapid.IntRange(saveResp.Min, saveResp.Max-1).Draw(rt, "pad")
				tcpResponsePadding = padding{Min: pad, Max: pad + 1}
			} else {
				tcpResponsePadding = saveResp
			}
			if err := WriteTCPResponse(&w, okStatus, string(body)); err != nil {
				rt.Fatalf("C04 writer: %v", err)
			}
		}
		wire := w.Bytes()
		frame := wire
		if isReq {
			ft, n := vC04GetVarint(wire)
			if n == 0 || ft != 0x401 {
				rt.Fatalf("C04 writer: request does not start with frame type 0x401 (got %#x)", ft)
			}
			frame = wire[n:]
		}
		var ref vC04Ref
		if isReq {
			ref = vC04RefRequest(frame)
		} else {
			ref = vC04RefResponse(frame)
		}
		if ref.kind != "ok" {
			rt.Fatalf("C04 writer: output is not a valid frame for an independent decoder: %s (len(body)=%d)", ref.kind, len(body))
		}
		if ref.addr != string(body) || ref.consumed != len(frame) {
			rt.Fatalf("C04 writer: independent decoder read %d bytes body / frame %d of %d written", len(ref.addr), ref.consumed, len(frame))
		}
		if !isReq && (ref.status == 0) != okStatus {
			rt.Fatalf("C04 writer: status byte %d for ok=%v", ref.status, okStatus)
		}
		if !isReq && ref.status > 1 {
			rt.Fatalf("C04 writer: status byte %d is neither 0 nor 1", ref.status)
		}
		if forced {
			// padding the writer drew must be what is on the wire: frame = [status] len body padlen pad
			hdr := vC04MinWidth(uint64(len(body))) + len(body)
			if !isReq {
				hdr++
			}
			pl, n := vC04GetVarint(frame[hdr:])
			if n == 0 || int(pl) != pad {
				rt.Fatalf("C04 writer: padding length on the wire %d, writer was forced to %d", pl, pad)
			}
		}
		// and the real reader reads it back, through an adversarial chunking, with payload behind it
		trail := vC04Bytes(rt, rapid.IntRange(0, 32).Draw(rt, "trailLen"), "trail")
		stream := append(append([]byte{}, frame...), trail...)
		cuts := vC04Cuts(rt, len(stream), []int{1, 2, 3, len(frame)})
		o, p := vC04Run(isReq, stream, cuts, rapid.Bool().Draw(rt, "eofWithData"), false)
		cls := []string{fmt.Sprintf("req=%v", isReq), fmt.Sprintf("forcedPad=%v", forced)}
		st.Case(true, fmt.Sprintf("%v/%d/%d/%v", isReq, len(body), pad, cuts), cls, func() string {
			return fmt.Sprintf("request=%v body=%d pad=%d wire=%d bytes in %d Write call(s)", isReq, len(body), pad, len(wire), w.writes)
		})
		if err := vC04Judge(isReq, stream, ref, o, p); err != nil {
			rt.Fatalf("C04 real writer -> real reader (request=%v body=%d pad=%d cuts=%v): %v", isReq, len(body), pad, cuts, err)
		}
	})
}

// Frames whose declared length is over the limit (or an empty address) are refused
// before the declared amount is read or allocated.
func TestVerifC04_Reject(t *testing.T) {
	st := newVStats("TestVerifC04_Reject")
	defer st.Flush()
	rapid.Check(t, func(rt *rapid.T) {
		isReq := rapid.Bool().Draw(rt, "isRequest")
		field := rapid.IntRange(0, 1).Draw(rt, "field") // 0: address/message length, 1: padding length
		limit := uint64(vC04MaxAddr)
		if field == 1 {
			limit = vC04MaxPad
		}
		bad := rapid.SampledFrom([]uint64{limit + 1, limit + 2, 16383, 16384, 65535, 1 << 20, 1<<30 - 1, 1 << 30, 1 << 32, 1<<62 - 1}).Draw(rt, "declared")
		if bad <= limit {
			bad = limit + 1
		}
		if isReq && field == 0 && rapid.IntRange(0, 3).Draw(rt, "empty") == 0 {
			bad = 0
		}
		var frame []byte
		if !isReq {
			frame = append(frame, byte(rapid.IntRange(0, 1).Draw(rt, "status")))
		}
		if field == 0 {
			frame = vC04PutVarint(frame, bad, vC04Width(rt, bad, "w"))
		} else {
			bl := vC04Len(rt, "bodyLen", 1, 300)
			frame = vC04PutVarint(frame, uint64(bl), vC04Width(rt, uint64(bl), "w1"))
			frame = append(frame, vC04Bytes(rt, bl, "body")...)
			frame = vC04PutVarint(frame, bad, vC04Width(rt, bad, "w2"))
		}
		rejectEnd := len(frame)
		// the peer may or may not actually send that much
		avail := rapid.SampledFrom([]int{0, 1, 100, 2048, 2049, 4096, 4097, 70000}).Draw(rt, "available")
		stream := append(frame, vC04Bytes(rt, avail, "rest")...)
		var ref vC04Ref
		if isReq {
			ref = vC04RefRequest(stream)
		} else {
			ref = vC04RefResponse(stream)
		}
		if ref.kind != "reject" || ref.rejectEnd != rejectEnd {
			rt.Fatalf("harness bug: reference says %+v for an over-limit frame (rejectEnd want %d)", ref, rejectEnd)
		}
		cuts := vC04Cuts(rt, len(stream), []int{rejectEnd})
		o, p := vC04Run(isReq, stream, cuts, false, true)
		st.Case(true, fmt.Sprintf("%v/%d/%d/%d/%d", isReq, field, bad, avail, len(cuts)), []string{fmt.Sprintf("req=%v field=%d", isReq, field), fmt.Sprintf("declared=%d", bad)}, func() string {
			return fmt.Sprintf("request=%v field=%d declared=%d available=%d -> err=%v consumed=%d/%d", isReq, field, bad, avail, o.err, o.consumed, rejectEnd)
		})
		if err := vC04Judge(isReq, stream, ref, o, p); err != nil {
			rt.Fatalf("C04 reject (request=%v field=%d declared=%d available=%d): %v", isReq, field, bad, avail, err)
		}
	})
}

// Arbitrary byte strings: differential against the reference decoder (also the native fuzz target's body).
func vC04Differential(stream []byte, isReq bool, cutEvery int, eofWith bool) error {
	var ref vC04Ref
	if isReq {
		ref = vC04RefRequest(stream)
	} else {
		ref = vC04RefResponse(stream)
	}
	var cuts []int
	if cutEvery > 0 {
		for i := cutEvery; i < len(stream); i += cutEvery {
			cuts = append(cuts, i)
		}
	}
	o, p := vC04Run(isReq, stream, cuts, eofWith, false)
	if err := vC04Judge(isReq, stream, ref, o, p); err != nil {
		return fmt.Errorf("%v (reference: %s)", err, ref.kind)
	}
	return nil
}

func TestVerifC04_ArbitraryBytes(t *testing.T) {
	st := newVStats("TestVerifC04_ArbitraryBytes")
	defer st.Flush()
	rapid.Check(t, func(rt *rapid.T) {
		isReq := rapid.Bool().Draw(rt, "isRequest")
		// a plausible prefix (status?, varint) followed by arbitrary bytes
		var b []byte
		if !isReq {
			b = append(b, rapid.Byte().Draw(rt, "status"))
		}
		v := rapid.OneOf(rapid.Uint64Range(0, 70), rapid.Uint64Range(2040, 2056), rapid.Uint64Range(4090, 4100), rapid.Uint64Range(0, 1<<62-1)).Draw(rt, "v")
		b = vC04PutVarint(b, v, vC04Width(rt, v, "w"))
		b = append(b, rapid.SliceOfN(rapid.Byte(), 0, 300).Draw(rt, "tail")...)
		if rapid.Bool().Draw(rt, "truncate") && len(b) > 0 {
			b = b[:rapid.IntRange(0, len(b)).Draw(rt, "truncAt")]
		}
		b = b[:len(b):len(b)]
		cutEvery := rapid.IntRange(0, 9).Draw(rt, "cutEvery")
		var kind string
		if isReq {
			kind = vC04RefRequest(b).kind
		} else {
			kind = vC04RefResponse(b).kind
		}
		st.Case(len(b) > 2, fmt.Sprintf("%v/%x/%d", isReq, b, cutEvery), []string{"ref=" + kind}, func() string {
			return fmt.Sprintf("request=%v bytes=%x cutEvery=%d ref=%s", isReq, vC04ClipB(b), cutEvery, kind)
		})
		if err := vC04Differential(b, isReq, cutEvery, rapid.Bool().Draw(rt, "eofWithData")); err != nil {
			rt.Fatalf("C04 arbitrary bytes (request=%v, %d bytes %x): %v", isReq, len(b), vC04ClipB(b), err)
		}
	})
}

func vC04ClipB(b []byte) []byte {
	if len(b) > 40 {
		return b[:40]
	}
	return b
}

func FuzzVerifC04_Decode(f *testing.F) {
	// seeds: the repo's own vectors plus boundary varints
	f.Add([]byte{0x05, 'a', ':', '8', '0', 'x', 0x00}, uint8(0))
	f.Add([]byte{0x00, 0x00, 0x00}, uint8(1))
	f.Add([]byte{0x01, 0x44, 0x00}, uint8(3))
	f.Add([]byte{0x48, 0x00}, uint8(0))       // 2048, 2-byte
	f.Add([]byte{0x48, 0x01}, uint8(0))       // 2049
	f.Add([]byte{0x80, 0x00, 0x08, 0x00}, uint8(2))
	f.Add([]byte{0xc0, 0, 0, 0, 0, 0, 0x08, 0x01}, uint8(4))
	f.Add([]byte{0x01, 'a', 0x50, 0x00}, uint8(0)) // padding 4096
	f.Add([]byte{0x01, 'a', 0x50, 0x01}, uint8(0)) // padding 4097
	f.Add([]byte{0x00, 0x48, 0x01}, uint8(1))
	f.Fuzz(func(t *testing.T, data []byte, mode uint8) {
		data = data[:len(data):len(data)]
		if err := vC04Differential(data, mode&1 == 0, int(mode>>1)&7, mode&0x10 != 0); err != nil {
			t.Fatalf("C04 fuzz: %v", err)
		}
	})
}
