package protocol

// C03 — peer-controlled bytes never crash the process (frame decoders).
//
// Entry points: ReadTCPRequest / ReadTCPResponse (fed by a QUIC stream: an
// io.Reader that is not an io.ByteReader and delivers arbitrary chunkings) and
// ParseUDPMessage (fed one QUIC datagram; quic-go hands out a slice whose
// capacity equals its length, in principle up to 64 KiB).
//
// Oracle: no panic, the decoder returns a value or an error, and a following
// well-formed frame (written by the harness's own encoder) is still decoded.
// Nothing is asserted about which hostile inputs are accepted.

import (
	"encoding/hex"
	"errors"
	"fmt"
	"io"
	"runtime/debug"
	"testing"

	"pgregory.net/rapid"
)

// ---- helpers ----

// v03Tight returns a private copy whose capacity equals its length.
func v03Tight(b []byte) []byte {
	c := make([]byte, len(b))
	copy(c, b)
	return c[:len(c):len(c)]
}

func v03Guard(fn func()) (pv any, stack string) {
	defer func() {
		if r := recover(); r != nil {
			pv, stack = r, string(debug.Stack())
		}
	}()
	fn()
	return nil, ""
}

func v03Hex(b []byte) string {
	if len(b) > 600 {
		return fmt.Sprintf("%s…(%d bytes total)", hex.EncodeToString(b[:600]), len(b))
	}
	return hex.EncodeToString(b)
}

func v03PutVarint(b []byte, v uint64, width int) []byte {
	switch width {
	case 1:
		return append(b, byte(v)&0x3f)
	case 2:
		return append(b, byte(v>>8)&0x3f|0x40, byte(v))
	case 4:
		return append(b, byte(v>>24)&0x3f|0x80, byte(v>>16), byte(v>>8), byte(v))
	default:
		return append(b, byte(v>>56)&0x3f|0xc0, byte(v>>48), byte(v>>40), byte(v>>32), byte(v>>24), byte(v>>16), byte(v>>8), byte(v))
	}
}

func v03MinWidth(v uint64) int {
	switch {
	case v <= 63:
		return 1
	case v <= 16383:
		return 2
	case v <= 1073741823:
		return 4
	}
	return 8
}

// boundary-biased declared lengths. Nothing between 2^20 and 2^49: on a tree
// that lost a limit check those would be multi-GiB allocations (machine
// trouble, not a verdict); > 2^48 makes makeslice panic, which is the signal.
var v03Lens = []uint64{0, 1, 2, 5, 62, 63, 64, 65, 255, 256, 1199, 1200, 2047, 2048, 2049, 4095, 4096, 4097,
	16383, 16384, 65535, 1 << 20, 1 << 49, 1 << 56, 1<<62 - 1}

func v03GenLen(rt *rapid.T, label string) uint64 {
	if rapid.IntRange(0, 3).Draw(rt, label+"_uniform") == 0 {
		return uint64(rapid.IntRange(0, 5000).Draw(rt, label+"_u"))
	}
	return rapid.SampledFrom(v03Lens).Draw(rt, label)
}

func v03GenWidth(rt *rapid.T, v uint64, label string) int {
	min := v03MinWidth(v)
	ws := []int{}
	for _, w := range []int{1, 2, 4, 8} {
		if w >= min {
			ws = append(ws, w)
		}
	}
	return rapid.SampledFrom(ws).Draw(rt, label)
}

// how many bytes of a declared-length field are really present
func v03GenAvail(rt *rapid.T, declared uint64, label string) int {
	capd := declared
	if capd > 70000 {
		capd = 70000
	}
	switch rapid.IntRange(0, 5).Draw(rt, label+"_mode") {
	case 0:
		return 0
	case 1:
		if capd > 0 {
			return int(capd) - 1
		}
		return 0
	case 2:
		return rapid.IntRange(0, int(capd)).Draw(rt, label+"_part")
	default:
		return int(capd)
	}
}

func v03Fill(n int, salt byte) []byte {
	b := make([]byte, n)
	for i := range b {
		b[i] = byte(i)*7 + salt
	}
	return b
}

// chunked reader: not a ByteReader, never returns more than asked, never (0,nil)
type v03Reader struct {
	data    []byte
	pos     int
	chunk   int  // max bytes per Read (>=1)
	eofWith bool // return io.EOF together with the last bytes
	endErr  error
}

func (r *v03Reader) Read(p []byte) (int, error) {
	if r.pos >= len(r.data) {
		return 0, r.endErr
	}
	if len(p) == 0 {
		return 0, nil
	}
	n := len(r.data) - r.pos
	if n > len(p) {
		n = len(p)
	}
	if n > r.chunk {
		n = r.chunk
	}
	copy(p, r.data[r.pos:r.pos+n])
	r.pos += n
	if r.pos >= len(r.data) && r.eofWith {
		return n, r.endErr
	}
	return n, nil
}

var v03ErrStreamReset = errors.New("v03: stream reset by peer")

func v03ErrClass(err error) string {
	if err == nil {
		return "ok"
	}
	if errors.Is(err, io.ErrUnexpectedEOF) {
		return "err:unexpectedEOF"
	}
	if errors.Is(err, io.EOF) {
		return "err:EOF"
	}
	if errors.Is(err, v03ErrStreamReset) {
		return "err:reset"
	}
	s := err.Error()
	if len(s) > 40 {
		s = s[:40]
	}
	return "err:" + s
}

func v03LenBucket(n int) string {
	switch {
	case n == 0:
		return "0"
	case n < 8:
		return "1-7"
	case n < 64:
		return "8-63"
	case n < 1200:
		return "64-1199"
	case n < 4097:
		return "1200-4096"
	}
	return ">4096"
}

// ---- own encoders (PROTOCOL.md) ----

func v03EncTCPRequest(addr []byte, pad int) []byte {
	b := v03PutVarint(nil, uint64(len(addr)), v03MinWidth(uint64(len(addr))))
	b = append(b, addr...)
	b = v03PutVarint(b, uint64(pad), v03MinWidth(uint64(pad)))
	return append(b, make([]byte, pad)...)
}

func v03EncTCPResponse(status byte, msg []byte, pad int) []byte {
	b := []byte{status}
	b = v03PutVarint(b, uint64(len(msg)), v03MinWidth(uint64(len(msg))))
	b = append(b, msg...)
	b = v03PutVarint(b, uint64(pad), v03MinWidth(uint64(pad)))
	return append(b, make([]byte, pad)...)
}

func v03EncUDP(sid uint32, pid uint16, fid, fcnt uint8, addr, data []byte) []byte {
	b := []byte{byte(sid >> 24), byte(sid >> 16), byte(sid >> 8), byte(sid), byte(pid >> 8), byte(pid), fid, fcnt}
	b = v03PutVarint(b, uint64(len(addr)), v03MinWidth(uint64(len(addr))))
	b = append(b, addr...)
	return append(b, data...)
}

// ---- the "service continues" probes ----

func v03ProbeStream() error {
	want := "continue.example:443"
	got, err := ReadTCPRequest(&v03Reader{data: v03EncTCPRequest([]byte(want), 17), chunk: 3, endErr: io.EOF})
	if err != nil || got != want {
		return fmt.Errorf("well-formed TCPRequest after the hostile input: got %q, %v", got, err)
	}
	ok, msg, err := ReadTCPResponse(&v03Reader{data: v03EncTCPResponse(0, []byte("Connected"), 5), chunk: 2, endErr: io.EOF})
	if err != nil || !ok || msg != "Connected" {
		return fmt.Errorf("well-formed TCPResponse after the hostile input: got %v %q, %v", ok, msg, err)
	}
	return nil
}

func v03ProbeUDP() error {
	m, err := ParseUDPMessage(v03Tight(v03EncUDP(0x01020304, 0x0506, 0, 1, []byte("h:1"), []byte("payload"))))
	if err != nil || m == nil || m.SessionID != 0x01020304 || m.PacketID != 0x0506 || m.FragID != 0 || m.FragCount != 1 ||
		m.Addr != "h:1" || string(m.Data) != "payload" {
		return fmt.Errorf("well-formed UDPMessage after the hostile input: got %+v, %v", m, err)
	}
	return nil
}

// ---- running one input through one entry point ----

// v03RunStream: kind 0 = TCPRequest, 1 = TCPResponse. Returns (outcome class, violation).
func v03RunStream(kind int, data []byte, chunk int, eofWith bool, endErr error) (string, error) {
	if chunk < 1 {
		chunk = 1
	}
	var cls string
	pv, stack := v03Guard(func() {
		r := &v03Reader{data: data, chunk: chunk, eofWith: eofWith, endErr: endErr}
		if kind == 0 {
			addr, err := ReadTCPRequest(r)
			cls = v03ErrClass(err)
			if err == nil && addr == "" {
				cls = "ok-empty"
			}
		} else {
			_, _, err := ReadTCPResponse(r)
			cls = v03ErrClass(err)
		}
	})
	name := []string{"ReadTCPRequest", "ReadTCPResponse"}[kind]
	if pv != nil {
		return "PANIC", fmt.Errorf("%s panicked: %v\nstream bytes (hex, chunk=%d eofWith=%v): %s\n%s", name, pv, chunk, eofWith, v03Hex(data), stack)
	}
	if err := v03ProbeStream(); err != nil {
		return cls, fmt.Errorf("after %s(%s): %v", name, v03Hex(data), err)
	}
	return cls, nil
}

func v03RunUDP(dgram []byte) (string, error) {
	in := v03Tight(dgram)
	var cls string
	pv, stack := v03Guard(func() {
		m, err := ParseUDPMessage(in)
		cls = v03ErrClass(err)
		if err == nil {
			if m == nil {
				cls = "nil-nil"
				return
			}
			// touch everything a caller touches
			_ = m.HeaderSize()
			_ = m.Size()
			buf := make([]byte, MaxUDPSize)
			_ = m.Serialize(buf)
			if len(m.Data) > 0 {
				_ = m.Data[len(m.Data)-1]
			}
		}
	})
	if pv != nil {
		return "PANIC", fmt.Errorf("ParseUDPMessage panicked: %v\ndatagram (hex, cap==len): %s\n%s", pv, v03Hex(dgram), stack)
	}
	if cls == "nil-nil" {
		return cls, fmt.Errorf("ParseUDPMessage returned neither a message nor an error for %s", v03Hex(dgram))
	}
	if err := v03ProbeUDP(); err != nil {
		return cls, fmt.Errorf("after ParseUDPMessage(%s): %v", v03Hex(dgram), err)
	}
	return cls, nil
}

// ---- generators ----

// grammar-aware stream frame: declared lengths vs. bytes really present
func v03GenStreamFrame(rt *rapid.T, kind int) (data []byte, desc string) {
	if rapid.IntRange(0, 7).Draw(rt, "arbitrary") == 0 {
		b := rapid.SliceOfN(rapid.Byte(), 0, 40).Draw(rt, "bytes")
		return b, "arbitrary"
	}
	if kind == 1 {
		data = append(data, rapid.SampledFrom([]byte{0, 1, 2, 0xff}).Draw(rt, "status"))
	}
	l1 := v03GenLen(rt, "len1")
	w1 := v03GenWidth(rt, l1, "w1")
	if rapid.IntRange(0, 15).Draw(rt, "cutVarint1") == 0 && w1 > 1 {
		full := v03PutVarint(nil, l1, w1)
		return append(data, full[:rapid.IntRange(1, w1-1).Draw(rt, "cut1")]...), fmt.Sprintf("len1=%d/w%d cut-in-varint", l1, w1)
	}
	data = v03PutVarint(data, l1, w1)
	a1 := v03GenAvail(rt, l1, "avail1")
	data = append(data, v03Fill(a1, 'a')...)
	desc = fmt.Sprintf("len1=%d/w%d avail=%d", l1, w1, a1)
	if uint64(a1) < l1 {
		return data, desc + " short"
	}
	l2 := v03GenLen(rt, "len2")
	w2 := v03GenWidth(rt, l2, "w2")
	if rapid.IntRange(0, 15).Draw(rt, "cutVarint2") == 0 && w2 > 1 {
		full := v03PutVarint(nil, l2, w2)
		return append(data, full[:rapid.IntRange(1, w2-1).Draw(rt, "cut2")]...), desc + fmt.Sprintf(" pad=%d/w%d cut-in-varint", l2, w2)
	}
	data = v03PutVarint(data, l2, w2)
	a2 := v03GenAvail(rt, l2, "avail2")
	data = append(data, make([]byte, a2)...)
	data = append(data, v03Fill(rapid.IntRange(0, 9).Draw(rt, "trailing"), 'z')...)
	return data, desc + fmt.Sprintf(" pad=%d/w%d avail=%d", l2, w2, a2)
}

func v03GenDatagram(rt *rapid.T) (dgram []byte, desc string) {
	switch rapid.IntRange(0, 9).Draw(rt, "shape") {
	case 0:
		return rapid.SliceOfN(rapid.Byte(), 0, 24).Draw(rt, "bytes"), "arbitrary"
	case 1:
		// every truncation point of a valid message
		full := v03EncUDP(7, 9, 0, 1, v03Fill(rapid.IntRange(1, 70).Draw(rt, "alen"), 'a'), v03Fill(rapid.IntRange(1, 20).Draw(rt, "dlen"), 'd'))
		cut := rapid.IntRange(0, len(full)).Draw(rt, "cut")
		return full[:cut], fmt.Sprintf("valid truncated at %d/%d", cut, len(full))
	}
	hdr := rapid.SliceOfN(rapid.Byte(), 8, 8).Draw(rt, "hdr")
	dgram = append(dgram, hdr...)
	l := v03GenLen(rt, "alen")
	w := v03GenWidth(rt, l, "aw")
	if rapid.IntRange(0, 15).Draw(rt, "cutVarint") == 0 && w > 1 {
		full := v03PutVarint(nil, l, w)
		return append(dgram, full[:rapid.IntRange(1, w-1).Draw(rt, "vcut")]...), fmt.Sprintf("alen=%d/w%d cut-in-varint", l, w)
	}
	dgram = v03PutVarint(dgram, l, w)
	avail := v03GenAvail(rt, l, "aavail")
	dgram = append(dgram, v03Fill(avail, 'a')...)
	dl := 0
	if uint64(avail) >= l {
		dl = rapid.SampledFrom([]int{0, 0, 1, 1, 2, 100, 1100, 1200, 4096, 65535 - 8 - w}).Draw(rt, "dlen")
		if dl > 65535-len(dgram) {
			dl = 65535 - len(dgram)
		}
		if dl < 0 {
			dl = 0
		}
		dgram = append(dgram, v03Fill(dl, 'd')...)
	}
	if len(dgram) > 65535 {
		dgram = dgram[:65535]
	}
	return dgram, fmt.Sprintf("alen=%d/w%d avail=%d data=%d", l, w, avail, dl)
}

// ---- tests ----

func TestVerifC03_StreamFrames(t *testing.T) {
	st := newVStats("TestVerifC03_StreamFrames")
	defer st.Flush()
	rapid.Check(t, func(rt *rapid.T) {
		kind := rapid.IntRange(0, 1).Draw(rt, "kind")
		data, desc := v03GenStreamFrame(rt, kind)
		chunk := rapid.SampledFrom([]int{1, 2, 3, 7, 64, 1 << 20}).Draw(rt, "chunk")
		eofWith := rapid.Bool().Draw(rt, "eofWith")
		endErr := rapid.SampledFrom([]error{io.EOF, io.EOF, v03ErrStreamReset}).Draw(rt, "endErr")
		cls, verr := v03RunStream(kind, data, chunk, eofWith, endErr)
		name := []string{"req", "resp"}[kind]
		// NT: got past the first length varint (anything but a bare EOF on the first read)
		nt := len(data) > 1 && cls != "err:EOF"
		st.Case(nt, fmt.Sprintf("%s|%s|%s|%d", name, cls, desc, chunk), []string{name + ":" + cls},
			func() string { return fmt.Sprintf("%s %s chunk=%d -> %s : %s", name, desc, chunk, cls, v03Hex(data)) })
		if verr != nil {
			rt.Fatalf("C03: %v", verr)
		}
	})
}

func TestVerifC03_UDPMessage(t *testing.T) {
	st := newVStats("TestVerifC03_UDPMessage")
	defer st.Flush()
	rapid.Check(t, func(rt *rapid.T) {
		dgram, desc := v03GenDatagram(rt)
		cls, verr := v03RunUDP(dgram)
		nt := len(dgram) > 8 // past the fixed header: the address-length varint is looked at
		st.Case(nt, fmt.Sprintf("udp|%s|%s|%s", cls, desc, v03LenBucket(len(dgram))), []string{"udp:" + cls},
			func() string { return fmt.Sprintf("udp %s -> %s : %s", desc, cls, v03Hex(dgram)) })
		if verr != nil {
			rt.Fatalf("C03: %v", verr)
		}
	})
}

// FuzzVerifC03_ProtocolDecoders: mode&3 selects the entry point, the rest the chunking.
func FuzzVerifC03_ProtocolDecoders(f *testing.F) {
	// the repo's own vectors (proxy_test.go) and hostile constants
	f.Add([]byte{0x05, 'a', ':', '8', '0', 'x', 0x00}, uint8(0))
	f.Add(v03EncTCPRequest([]byte("google.com:443"), 12), uint8(0))
	f.Add(v03EncTCPResponse(0, []byte("hello"), 3), uint8(1))
	f.Add(v03EncTCPResponse(1, nil, 0), uint8(1))
	f.Add(v03EncUDP(1234, 5, 0, 1, []byte("example.com:53"), []byte("hello")), uint8(2))
	f.Add(v03EncUDP(1, 2, 3, 4, []byte("a"), nil), uint8(2))
	f.Add([]byte{0, 0, 0, 1, 0, 2, 0, 1, 0x48, 0x01}, uint8(2))
	f.Add([]byte{0, 0, 0, 1, 0, 2, 0, 1, 0xff, 0xff, 0xff, 0xff, 0xff, 0xff, 0xff, 0xff, 'x'}, uint8(2))
	f.Add([]byte{0, 0, 0, 1, 0, 2, 0, 1, 0x00, 'x'}, uint8(2))
	f.Add([]byte{0xff, 0xff, 0xff, 0xff, 0xff, 0xff, 0xff, 0xff}, uint8(0))
	f.Add([]byte{0x48, 0x01}, uint8(0))
	f.Add([]byte{0x00, 0xc0, 0, 0, 0, 0, 0, 0x08, 0x01}, uint8(1))
	f.Add([]byte{0x01, 'a', 0x50, 0x01}, uint8(4))
	f.Add([]byte{0x40}, uint8(8))
	f.Add([]byte{}, uint8(2))
	f.Fuzz(func(t *testing.T, data []byte, mode uint8) {
		var err error
		switch mode & 3 {
		case 0, 1:
			chunk := []int{1 << 20, 1, 2, 5}[(mode>>2)&3]
			_, err = v03RunStream(int(mode&3), data, chunk, mode&0x10 != 0, io.EOF)
		default:
			_, err = v03RunUDP(data)
		}
		if err != nil {
			t.Fatalf("C03: %v", err)
		}
	})
}
