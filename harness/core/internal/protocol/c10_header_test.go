package protocol

// C10 (pure layer) — the Hysteria-CC-RX / Hysteria-UDP header codec that carries
// the rate declaration in both directions.
//
// Oracle: decimal rendering / parsing done here with math/big and hand-written
// scanners (PROTOCOL.md: "maximum receive rate in bytes per second", 0 =
// unknown/unlimited, "auto" only from the server). The implementation's
// To/FromHeader functions are never compared with themselves: the encoder is
// checked against the harness's rendering, the decoder against the harness's
// admissible-readings function, and only then the round trip.

import (
	"fmt"
	"math"
	"math/big"
	"net/http"
	"strings"
	"testing"

	"pgregory.net/rapid"
)

const v10pHdrCCRX = "Hysteria-CC-RX"

var v10pBoundaries = []uint64{
	0, 1, 9, 10, 65535, 65536, 65537, 1000000, 1000000000, 1<<32 - 1, 1 << 32, 1<<53 - 1, 1 << 53, 1<<53 + 1,
	1<<62 - 1, 1 << 62, 1<<63 - 1, 1 << 63, 1<<63 + 1, math.MaxUint64 - 1, math.MaxUint64,
	9999999999999999999, 10000000000000000000, 18446744073709551609, 18446744073709551610,
}

func v10pGenU64(t *rapid.T, label string) uint64 {
	switch rapid.IntRange(0, 3).Draw(t, label+"Mode") {
	case 0:
		return rapid.SampledFrom(v10pBoundaries).Draw(t, label)
	case 1: // around a power of two
		p := rapid.IntRange(0, 63).Draw(t, label+"Pow")
		d := rapid.IntRange(-2, 2).Draw(t, label+"Delta")
		return uint64(1)<<uint(p) + uint64(int64(d))
	case 2: // around a power of ten
		v := uint64(1)
		for i := rapid.IntRange(0, 19).Draw(t, label+"Pow10"); i > 0; i-- {
			v *= 10
		}
		return v + uint64(int64(rapid.IntRange(-2, 2).Draw(t, label+"Delta")))
	default:
		return rapid.Uint64().Draw(t, label)
	}
}

func v10pDecimal(v uint64) string { return new(big.Int).SetUint64(v).String() }

// v10pReadings: every reading of a Hysteria-CC-RX value the statement admits.
// auto==true means "server asks for bandwidth detection".
type v10pReading struct {
	auto bool
	n    uint64
}

func v10pStrictDecimal(s string) (n uint64, isDecimal, overflow bool) {
	if s == "" {
		return 0, false, false
	}
	for i := 0; i < len(s); i++ {
		if s[i] < '0' || s[i] > '9' {
			return 0, false, false
		}
	}
	b, ok := new(big.Int).SetString(s, 10)
	if !ok {
		return 0, false, false
	}
	if !b.IsUint64() {
		return 0, true, true
	}
	return b.Uint64(), true, false
}

func v10pReadings(present bool, s string, response bool) []v10pReading {
	if !present {
		return []v10pReading{{n: 0}}
	}
	if response && s == "auto" {
		return []v10pReading{{auto: true}}
	}
	var out []v10pReading
	if response && strings.EqualFold(strings.Trim(s, " \t"), "auto") {
		out = append(out, v10pReading{auto: true})
	}
	if n, ok, of := v10pStrictDecimal(s); ok {
		if of {
			return append(out, v10pReading{n: 0}, v10pReading{n: math.MaxUint64}) // 0 or saturation, nothing else
		}
		return append(out, v10pReading{n: n})
	}
	out = append(out, v10pReading{n: 0}) // unparseable = 0
	// lenient readers (optional whitespace, explicit plus sign) are not a violation
	l := strings.TrimPrefix(strings.Trim(s, " \t"), "+")
	if n, ok, of := v10pStrictDecimal(l); ok && !of {
		out = append(out, v10pReading{n: n})
	}
	return out
}

func v10pAdmits(rs []v10pReading, auto bool, n uint64) bool {
	for _, r := range rs {
		if r.auto == auto && (auto || r.n == n) {
			return true
		}
	}
	return false
}

var v10pOdd = []string{
	"", "abc", "-1", "-0", "1e9", "18446744073709551616", "18446744073709551615 ", " 5", "5 ", "\t70000", "+70000", "0x10000", "65536.0",
	"99999999999999999999999999", "1_000_000", "１２３", "auto", "AUTO", "Auto", "auto ", " auto", "automatic", "aut", "0", "00", "0000065536",
	"65,536", "65536,65537", "NaN", "inf", "١٢٣", "1 000",
}

func v10pGenString(t *rapid.T) (present bool, s string) {
	switch rapid.IntRange(0, 9).Draw(t, "strMode") {
	case 0:
		return false, ""
	case 1, 2, 3:
		return true, rapid.SampledFrom(v10pOdd).Draw(t, "odd")
	case 4: // canonical decimal
		return true, v10pDecimal(v10pGenU64(t, "num"))
	case 5: // leading zeros
		return true, strings.Repeat("0", rapid.IntRange(1, 25).Draw(t, "zeros")) + v10pDecimal(v10pGenU64(t, "num"))
	case 6: // just over 2^64
		b := new(big.Int).SetUint64(math.MaxUint64)
		b.Add(b, big.NewInt(int64(rapid.IntRange(1, 1000).Draw(t, "over"))))
		if rapid.Bool().Draw(t, "times10") {
			b.Mul(b, big.NewInt(10))
		}
		return true, b.String()
	case 7: // decimal with one foreign character somewhere
		d := v10pDecimal(v10pGenU64(t, "num"))
		pos := rapid.IntRange(0, len(d)).Draw(t, "pos")
		ch := rapid.SampledFrom([]string{" ", "\t", "+", "-", ".", "e", "_", "x", "a", ","}).Draw(t, "ch")
		return true, d[:pos] + ch + d[pos:]
	default:
		return true, rapid.StringOfN(rapid.RuneFrom([]rune("0123456789 +-.eaAutoUTOx_,")), 0, 24, -1).Draw(t, "free")
	}
}

func TestVerifC10_HeaderCodec(t *testing.T) {
	st := newVStats("TestVerifC10_HeaderCodec")
	defer st.Flush()
	rapid.Check(t, func(rt *rapid.T) {
		switch rapid.IntRange(0, 3).Draw(rt, "layer") {
		case 0: // client -> server: encode, independent check of the wire text, decode
			rx := v10pGenU64(rt, "rx")
			auth := rapid.SampledFrom([]string{"", "pw", "user:pass", "a b", "ünï"}).Draw(rt, "auth")
			h := http.Header{}
			AuthRequestToHeader(h, AuthRequest{Auth: auth, Rx: rx})
			st.Case(rx != 0, fmt.Sprintf("req/%d", rx), []string{"request round-trip"}, func() string { return fmt.Sprintf("AuthRequest{Rx:%d} -> %q", rx, h.Values(v10pHdrCCRX)) })
			if got := h.Values(v10pHdrCCRX); len(got) != 1 || got[0] != v10pDecimal(rx) {
				rt.Fatalf("C10 codec: AuthRequest{Rx:%d} encoded Hysteria-CC-RX=%q, want [%q]", rx, got, v10pDecimal(rx))
			}
			back := AuthRequestFromHeader(h)
			if back.Rx != rx || back.Auth != auth {
				rt.Fatalf("C10 codec: AuthRequest{Auth:%q Rx:%d} decoded back as {Auth:%q Rx:%d}", auth, rx, back.Auth, back.Rx)
			}
		case 1: // server -> client
			rx := v10pGenU64(rt, "rx")
			auto := rapid.IntRange(0, 3).Draw(rt, "auto") == 0
			udp := rapid.Bool().Draw(rt, "udp")
			h := http.Header{}
			AuthResponseToHeader(h, AuthResponse{UDPEnabled: udp, Rx: rx, RxAuto: auto})
			want := v10pDecimal(rx)
			if auto {
				want = "auto"
			}
			st.Case(rx != 0 || auto, fmt.Sprintf("resp/%d/%v", rx, auto), []string{"response round-trip", fmt.Sprintf("auto=%v", auto)}, func() string {
				return fmt.Sprintf("AuthResponse{Rx:%d RxAuto:%v UDP:%v} -> %q", rx, auto, udp, h.Values(v10pHdrCCRX))
			})
			if got := h.Values(v10pHdrCCRX); len(got) != 1 || got[0] != want {
				rt.Fatalf("C10 codec: AuthResponse{Rx:%d RxAuto:%v} encoded Hysteria-CC-RX=%q, want [%q]", rx, auto, got, want)
			}
			back := AuthResponseFromHeader(h)
			if back.RxAuto != auto || back.UDPEnabled != udp {
				rt.Fatalf("C10 codec: AuthResponse{Rx:%d RxAuto:%v UDP:%v} decoded back as %+v", rx, auto, udp, back)
			}
			if !auto && back.Rx != rx {
				rt.Fatalf("C10 codec: AuthResponse{Rx:%d} decoded back as Rx=%d", rx, back.Rx)
			}
			if auto && back.Rx != 0 {
				// with "auto" no number was transmitted: nothing but 0 can come out
				rt.Fatalf("C10 codec: AuthResponse{RxAuto:true, Rx:%d} decoded back with Rx=%d", rx, back.Rx)
			}
		case 2: // arbitrary text, request direction
			present, s := v10pGenString(rt)
			h := http.Header{}
			if present {
				h.Set(v10pHdrCCRX, s)
			}
			got := AuthRequestFromHeader(h)
			rs := v10pReadings(present, s, false)
			st.Case(present && s != "", "reqstr/"+s, []string{"request decode", v10pClass(present, s, false)}, func() string {
				return fmt.Sprintf("request Hysteria-CC-RX=%q present=%v -> Rx=%d (admissible %v)", s, present, got.Rx, rs)
			})
			if !v10pAdmits(rs, false, got.Rx) {
				rt.Fatalf("C10 codec: request Hysteria-CC-RX=%q (present=%v) decoded as Rx=%d; admissible readings %v", s, present, got.Rx, rs)
			}
		default: // arbitrary text, response direction
			present, s := v10pGenString(rt)
			h := http.Header{}
			if present {
				h.Set(v10pHdrCCRX, s)
			}
			got := AuthResponseFromHeader(h)
			rs := v10pReadings(present, s, true)
			st.Case(present && s != "", "respstr/"+s, []string{"response decode", v10pClass(present, s, true)}, func() string {
				return fmt.Sprintf("response Hysteria-CC-RX=%q present=%v -> Rx=%d RxAuto=%v (admissible %v)", s, present, got.Rx, got.RxAuto, rs)
			})
			if !v10pAdmits(rs, got.RxAuto, got.Rx) {
				rt.Fatalf("C10 codec: response Hysteria-CC-RX=%q (present=%v) decoded as Rx=%d RxAuto=%v; admissible readings %v", s, present, got.Rx, got.RxAuto, rs)
			}
			if got.RxAuto && got.Rx != 0 {
				rt.Fatalf("C10 codec: response Hysteria-CC-RX=%q decoded as RxAuto with Rx=%d", s, got.Rx)
			}
		}
	})
}

func v10pClass(present bool, s string, response bool) string {
	if !present {
		return "missing"
	}
	if response && s == "auto" {
		return "auto"
	}
	if response && strings.EqualFold(strings.Trim(s, " \t"), "auto") {
		return "auto-variant"
	}
	if _, ok, of := v10pStrictDecimal(s); ok {
		if of {
			return "overflow"
		}
		return "decimal"
	}
	return "unparseable"
}
