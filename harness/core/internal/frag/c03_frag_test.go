package frag

// C03 — peer-controlled bytes never crash the process (fragmentation layer).
//
// FragUDPMessage(msg, max): `max` is quic-go's DatagramTooLargeError
// .MaxDatagramPayloadSize, i.e. derived from the *peer's* max_datagram_frame_size
// transport parameter (0 .. ~1500, can be tiny); msg is a reply of up to
// MaxUDPSize (4096) bytes on the real send paths (larger ones are dropped by
// SendMessage before), exercised here up to 65535 "in principle".
// Defragger.Feed: every message comes out of ParseUDPMessage on a datagram with
// cap==len, with arbitrary packet id / fragment id / fragment count sequences.
//
// Oracle: no panic; a value is returned; afterwards a well-formed fragmented
// message with a fresh packet id is still reassembled (service continues).

import (
	"bytes"
	"encoding/hex"
	"fmt"
	"runtime/debug"
	"strings"
	"testing"

	"github.com/apernet/hysteria/core/v2/internal/protocol"
	"pgregory.net/rapid"
)

func v03Guard(fn func()) (pv any, stack string) {
	defer func() {
		if r := recover(); r != nil {
			pv, stack = r, string(debug.Stack())
		}
	}()
	fn()
	return nil, ""
}

func v03Tight(b []byte) []byte {
	c := make([]byte, len(b))
	copy(c, b)
	return c[:len(c):len(c)]
}

func v03Fill(n int, salt byte) []byte {
	b := make([]byte, n)
	for i := range b {
		b[i] = byte(i)*13 + salt
	}
	return b
}

func v03VarintLen(v int) int {
	switch {
	case v <= 63:
		return 1
	case v <= 16383:
		return 2
	}
	return 4
}

func v03HeaderSize(addrLen int) int { return 8 + v03VarintLen(addrLen) + addrLen }

// own UDPMessage encoder (PROTOCOL.md), minimal varint
func v03EncUDP(sid uint32, pid uint16, fid, fcnt uint8, addr string, data []byte) []byte {
	b := []byte{byte(sid >> 24), byte(sid >> 16), byte(sid >> 8), byte(sid), byte(pid >> 8), byte(pid), fid, fcnt}
	l := len(addr)
	switch v03VarintLen(l) {
	case 1:
		b = append(b, byte(l))
	case 2:
		b = append(b, byte(l>>8)|0x40, byte(l))
	default:
		b = append(b, byte(l>>24)|0x80, byte(l>>16), byte(l>>8), byte(l))
	}
	b = append(b, addr...)
	return append(b, data...)
}

// ---- splitter ----

// v03RunFrag returns outcome class and a violation (panic) if any.
func v03RunFrag(payload, addrLen, max int) (string, error) {
	m := &protocol.UDPMessage{SessionID: 1, PacketID: 0x1234, FragID: 0, FragCount: 1,
		Addr: strings.Repeat("a", addrLen), Data: v03Tight(v03Fill(payload, 1))}
	var frags []protocol.UDPMessage
	pv, stack := v03Guard(func() {
		frags = FragUDPMessage(m, max)
		// what both callers do next: serialize each fragment into the 4096-byte send buffer
		buf := make([]byte, protocol.MaxUDPSize)
		for i := range frags {
			_ = frags[i].Serialize(buf)
		}
	})
	if pv != nil {
		return "PANIC", fmt.Errorf("FragUDPMessage panicked: %v\ninput: payload=%d bytes, addr=%d bytes (header %d), max=%d\n%s",
			pv, payload, addrLen, v03HeaderSize(addrLen), max, stack)
	}
	switch {
	case frags == nil:
		if max-v03HeaderSize(addrLen) <= 0 {
			return "discard:no-budget", nil
		}
		return "discard:too-many", nil
	case len(frags) == 1:
		return "whole", nil
	case len(frags) >= 250:
		return "split:250-255", nil
	case len(frags) > 8:
		return "split:9-249", nil
	}
	return "split:2-8", nil
}

// TestVerifC03_Regress_FragCountWrap: the repaired defect (fix c559d24), library-free.
// A reply needing 256 fragments: payload 256, one-byte address (header 10), limit 11.
func TestVerifC03_Regress_FragCountWrap(t *testing.T) {
	st := newVStats("TestVerifC03_Regress_FragCountWrap")
	defer st.Flush()
	for _, c := range [][3]int{{256, 1, 11}, {4096, 14, 24}, {4086, 1, 26}, {257, 1, 11}, {512, 1, 11}, {65535, 1, 11}, {1200, 3, 13}} {
		cls, err := v03RunFrag(c[0], c[1], c[2])
		st.Case(true, fmt.Sprint(c), []string{cls}, func() string { return fmt.Sprintf("payload=%d addr=%d max=%d -> %s", c[0], c[1], c[2], cls) })
		if err != nil {
			t.Fatalf("C03: %v", err)
		}
	}
}

func TestVerifC03_FragNoPanic(t *testing.T) {
	st := newVStats("TestVerifC03_FragNoPanic")
	defer st.Flush()
	rapid.Check(t, func(rt *rapid.T) {
		addrLen := rapid.SampledFrom([]int{1, 3, 14, 21, 63, 64, 255, 2048}).Draw(rt, "addrLen")
		hdr := v03HeaderSize(addrLen)
		var payload, max int
		switch rapid.IntRange(0, 4).Draw(rt, "shape") {
		case 0: // fragment count around the 8-bit edge
			budget := rapid.IntRange(1, 20).Draw(rt, "budget")
			n := rapid.IntRange(250, 262).Draw(rt, "nfrags")
			payload = budget*n - rapid.IntRange(0, budget-1).Draw(rt, "slack")
			max = hdr + budget
		case 1: // budget around zero
			max = hdr + rapid.IntRange(-3, 3).Draw(rt, "delta")
			payload = rapid.SampledFrom([]int{1, 2, 255, 256, 257, 1200, 4096, 65535}).Draw(rt, "payload")
		case 2: // the real send paths: payload <= 4096 - header, limit anything quic-go can report
			payload = rapid.IntRange(0, 4096).Draw(rt, "payload")
			max = rapid.IntRange(0, 1500).Draw(rt, "max")
		case 3: // multiples of 256 fragments (uint8 wrap to 0, 1, ...)
			budget := rapid.IntRange(1, 16).Draw(rt, "budget")
			n := 256*rapid.IntRange(1, 8).Draw(rt, "k") + rapid.IntRange(-1, 2).Draw(rt, "d")
			payload = budget * n
			max = hdr + budget
		default:
			payload = rapid.IntRange(0, 65535).Draw(rt, "payload")
			max = rapid.IntRange(0, 2000).Draw(rt, "max")
		}
		if max < 0 {
			max = 0
		}
		if payload > 65535 {
			payload = 65535
		}
		if payload < 0 {
			payload = 0
		}
		cls, err := v03RunFrag(payload, addrLen, max)
		nt := cls != "whole" // the size test was passed and the splitter proper ran
		st.Case(nt, fmt.Sprintf("%s|%d|%d|%d", cls, payload, addrLen, max), []string{cls},
			func() string { return fmt.Sprintf("payload=%d addr=%d max=%d -> %s", payload, addrLen, max, cls) })
		if err != nil {
			rt.Fatalf("C03: %v", err)
		}
	})
}

// ---- reassembler ----

// v03RunDefrag feeds every datagram that parses (exactly like udpIOImpl.ReceiveMessage:
// parse errors are dropped) and then the probe. Returns classes and a violation.
func v03RunDefrag(dgrams [][]byte) (classes []string, fp string, err error) {
	d := &Defragger{}
	var hist strings.Builder
	fed, out := 0, 0
	var fps strings.Builder
	for i, raw := range dgrams {
		in := v03Tight(raw)
		var res *protocol.UDPMessage
		var perr error
		var m *protocol.UDPMessage
		var cntBefore uint8
		pv, stack := v03Guard(func() {
			m, perr = protocol.ParseUDPMessage(in)
			if perr != nil {
				return
			}
			cntBefore = m.FragCount // Feed rewrites the header of the completing fragment
			res = d.Feed(m)
			if res != nil && len(res.Data) > 0 {
				_ = res.Data[len(res.Data)-1]
			}
		})
		fmt.Fprintf(&hist, "  #%d %s\n", i, hex.EncodeToString(raw[:min(len(raw), 48)]))
		if pv != nil {
			return nil, "", fmt.Errorf("Defragger.Feed panicked at datagram #%d: %v\ndatagram history (hex, first 48 bytes each, cap==len):\n%s%s", i, pv, hist.String(), stack)
		}
		if perr != nil {
			fps.WriteString("x")
			continue
		}
		fed++
		switch {
		case res == nil:
			fps.WriteString("n")
		case cntBefore <= 1 && res == m:
			fps.WriteString("s")
			out++
		default:
			fps.WriteString("A")
			out++
			classes = append(classes, "assembled-from-hostile")
			if len(res.Data) > 100000 {
				classes = append(classes, "assembled>100KB")
			}
		}
	}
	// service continues: a fresh 3-fragment message (reverse order) and a single message
	want := v03Fill(50, 9)
	var got *protocol.UDPMessage
	pv, stack := v03Guard(func() {
		for _, i := range []int{2, 0, 1} {
			lo, hi := i*20, i*20+20
			if hi > len(want) {
				hi = len(want)
			}
			m, perr := protocol.ParseUDPMessage(v03Tight(v03EncUDP(77, 60001, uint8(i), 3, "probe:1", want[lo:hi])))
			if perr != nil {
				panic("probe does not parse: " + perr.Error())
			}
			if r := d.Feed(m); r != nil {
				got = r
			}
		}
	})
	if pv != nil {
		return nil, "", fmt.Errorf("probe after the hostile history panicked: %v\nhistory:\n%s%s", pv, hist.String(), stack)
	}
	if got == nil || !bytes.Equal(got.Data, want) || got.Addr != "probe:1" {
		return nil, "", fmt.Errorf("service did not continue: well-formed 3-fragment message (fresh packet id 60001) after the history was not reassembled (got %+v)\nhistory:\n%s", got, hist.String())
	}
	single, _ := protocol.ParseUDPMessage(v03Tight(v03EncUDP(77, 0, 0, 1, "probe:1", []byte("x"))))
	if r := d.Feed(single); r != single {
		return nil, "", fmt.Errorf("service did not continue: unfragmented message not passed through\nhistory:\n%s", hist.String())
	}
	if fed > 0 {
		classes = append(classes, "fed")
	}
	if out > 0 {
		classes = append(classes, "some-output")
	}
	if fed == 0 {
		classes = append(classes, "nothing-parsed")
	}
	return classes, fps.String(), nil
}

func TestVerifC03_DefragNoPanic(t *testing.T) {
	st := newVStats("TestVerifC03_DefragNoPanic")
	defer st.Flush()
	rapid.Check(t, func(rt *rapid.T) {
		n := rapid.IntRange(1, 40).Draw(rt, "n")
		var dgrams [][]byte
		multi := 0
		// a few concurrent multi-fragment messages the peer keeps coming back to
		type tmpl struct {
			pid uint16
			cnt uint8
		}
		var tmpls []tmpl
		for k := rapid.IntRange(1, 3).Draw(rt, "ntmpl"); k > 0; k-- {
			tmpls = append(tmpls, tmpl{uint16(rapid.SampledFrom([]int{1, 1, 2, 3, 0xffff}).Draw(rt, "tpid")),
				uint8(rapid.SampledFrom([]int{2, 2, 3, 4, 255}).Draw(rt, "tcnt"))})
		}
		for i := 0; i < n; i++ {
			var pid uint16
			var cnt, fid uint8
			if rapid.IntRange(0, 9).Draw(rt, "coherent") < 6 {
				tp := rapid.SampledFrom(tmpls).Draw(rt, "tmpl")
				pid, cnt = tp.pid, tp.cnt
				fid = uint8(rapid.IntRange(0, int(cnt)-1).Draw(rt, "tfid"))
			} else {
				pid = uint16(rapid.SampledFrom([]int{0, 1, 1, 1, 2, 2, 3, 0xffff}).Draw(rt, "pid"))
				cnt = uint8(rapid.SampledFrom([]int{0, 1, 2, 2, 2, 3, 3, 4, 5, 8, 127, 128, 254, 255}).Draw(rt, "cnt"))
				switch rapid.IntRange(0, 5).Draw(rt, "fidmode") {
				case 0:
					fid = uint8(rapid.IntRange(0, 255).Draw(rt, "fid"))
				case 1:
					fid = cnt // one past the end
				case 2:
					fid = cnt - 1
				default:
					if cnt > 0 {
						fid = uint8(rapid.IntRange(0, int(cnt)-1).Draw(rt, "fidIn"))
					}
				}
			}
			if cnt > 1 {
				multi++
			}
			dl := rapid.SampledFrom([]int{1, 1, 2, 7, 100, 1180}).Draw(rt, "dlen")
			raw := v03EncUDP(5, pid, fid, cnt, rapid.SampledFrom([]string{"a:1", "b:2", "cccccccccccccccccccccccc:3"}).Draw(rt, "addr"), v03Fill(dl, byte(i)))
			switch rapid.IntRange(0, 11).Draw(rt, "mangle") {
			case 0:
				raw = raw[:rapid.IntRange(0, len(raw)).Draw(rt, "cut")]
			case 1:
				raw = rapid.SliceOfN(rapid.Byte(), 0, 30).Draw(rt, "junk")
			}
			dgrams = append(dgrams, raw)
		}
		if rapid.IntRange(0, 11).Draw(rt, "bigComplete") == 7 {
			// a complete message at the legal maximum: up to 255 fragments, each filling a datagram
			// (a few 60000-byte ones when the count is small), in any order: 300 KB .. 480 KB reassembled
			cnt := rapid.SampledFrom([]int{255, 255, 254, 200, 128, 8, 2}).Draw(rt, "bigCnt")
			sz := rapid.SampledFrom([]int{1180, 1180, 1, 4000}).Draw(rt, "bigFragSize")
			if cnt <= 8 {
				sz = rapid.SampledFrom([]int{60000, 1180, 65000}).Draw(rt, "bigFragSizeFew")
			}
			order := make([]int, cnt)
			for i := range order {
				order[i] = i
			}
			order = rapid.Permutation(order).Draw(rt, "bigOrder")
			var blk [][]byte
			for _, fidx := range order {
				blk = append(blk, v03EncUDP(5, 40000, uint8(fidx), uint8(cnt), "big:1", v03Fill(sz, byte(fidx))))
			}
			if rapid.Bool().Draw(rt, "bigFirst") {
				dgrams = append(blk, dgrams...)
			} else {
				dgrams = append(dgrams, blk...)
			}
			multi += cnt
		}
		classes, fp, err := v03RunDefrag(dgrams)
		nt := multi >= 2 // at least two fragments of multi-fragment messages reached the reassembler
		st.Case(nt, fp, classes, func() string {
			var sb strings.Builder
			for i, d := range dgrams {
				if i >= 48 {
					fmt.Fprintf(&sb, "… %d more ", len(dgrams)-i)
					break
				}
				sb.WriteString(hex.EncodeToString(d[:min(len(d), 16)]) + " ")
			}
			return sb.String() + "-> " + fp
		})
		if err != nil {
			rt.Fatalf("C03: %v", err)
		}
	})
}

// FuzzVerifC03_Frag: data[0] selects splitter / reassembler.
//
//	splitter:     data[1:3] payload length, data[3] address length selector, data[4:6] max
//	reassembler:  a sequence of length-prefixed (1 byte) datagrams
func FuzzVerifC03_Frag(f *testing.F) {
	f.Add([]byte{0, 0x01, 0x00, 0, 0x00, 0x0b})             // 256 bytes, addr 1, max 11: 256 fragments
	f.Add([]byte{0, 0x10, 0x00, 1, 0x00, 0x18})             // 4096 bytes, tiny limit
	f.Add([]byte{0, 0x04, 0xb0, 2, 0x04, 0xb0})             // whole
	f.Add([]byte{0, 0xff, 0xff, 0, 0x00, 0x00})             // max 0
	f.Add([]byte{0, 0x00, 0x64, 0, 0x00, 0x0a})             // budget 0
	f.Add(append([]byte{1, 13}, v03EncUDP(5, 1, 0, 2, "a:1", []byte("x"))...))
	f.Add(append(append([]byte{1, 13}, v03EncUDP(5, 1, 0, 2, "a:1", []byte("x"))...), append([]byte{13}, v03EncUDP(5, 1, 1, 2, "a:1", []byte("y"))...)...))
	f.Add(append([]byte{1, 13}, v03EncUDP(5, 1, 2, 2, "a:1", []byte("x"))...))
	f.Add(append([]byte{1, 13}, v03EncUDP(5, 1, 255, 255, "a:1", []byte("x"))...))
	f.Add(append([]byte{1, 13}, v03EncUDP(5, 1, 0, 0, "a:1", []byte("x"))...))
	f.Fuzz(func(t *testing.T, data []byte) {
		if len(data) == 0 {
			return
		}
		if data[0]&1 == 0 {
			if len(data) < 6 {
				return
			}
			payload := int(data[1])<<8 | int(data[2])
			addrLen := []int{1, 14, 63, 64, 255, 2048}[int(data[3])%6]
			max := (int(data[4])<<8 | int(data[5])) % 2500
			if _, err := v03RunFrag(payload, addrLen, max); err != nil {
				t.Fatalf("C03: %v", err)
			}
			return
		}
		var dgrams [][]byte
		rest := data[1:]
		for len(rest) > 0 && len(dgrams) < 64 {
			n := int(rest[0])
			rest = rest[1:]
			if n > len(rest) {
				n = len(rest)
			}
			dgrams = append(dgrams, rest[:n])
			rest = rest[n:]
		}
		if _, _, err := v03RunDefrag(dgrams); err != nil {
			t.Fatalf("C03: %v", err)
		}
	})
}
