package frag

// C05 — UDP fragmentation is all-or-nothing and size-bounded (split + reassembly).
// Oracles are written from PROTOCOL.md / the property statement, not from frag.go.

import (
	"bytes"
	"fmt"
	"strings"
	"testing"

	"github.com/apernet/hysteria/core/v2/internal/protocol"
	"pgregory.net/rapid"
)

// ---- independent arithmetic (QUIC varint length, header size) ----

func vVarintLen(v uint64) int {
	switch {
	case v <= 63:
		return 1
	case v <= 16383:
		return 2
	case v <= 1073741823:
		return 4
	default:
		return 8
	}
}

func vHeaderSize(addrLen int) int { return 8 + vVarintLen(uint64(addrLen)) + addrLen }

func vPayload(n int, salt byte) []byte {
	b := make([]byte, n)
	x := uint32(salt)*2654435761 + 12345
	for i := range b {
		x = x*1664525 + 1013904223
		b[i] = byte(x >> 24)
	}
	return b
}

func vAddr(n int, salt byte) string {
	const al = "abcdefghijklmnopqrstuvwxyz0123456789.-:"
	b := make([]byte, n)
	for i := range b {
		b[i] = al[(i*7+int(salt))%len(al)]
	}
	return string(b)
}

// vSafeFrag calls the splitter and converts a panic into an error.
func vSafeFrag(m *protocol.UDPMessage, max int) (out []protocol.UDPMessage, perr error) {
	defer func() {
		if r := recover(); r != nil {
			perr = fmt.Errorf("panic: %v", r)
		}
	}()
	return FragUDPMessage(m, max), nil
}

// vCheckSplit is the validity predicate over the splitter's output.
func vCheckSplit(orig *protocol.UDPMessage, payload []byte, limit int, frags []protocol.UDPMessage) error {
	hdr := vHeaderSize(len(orig.Addr))
	budget := limit - hdr
	need := -1
	if budget > 0 {
		need = (len(payload) + budget - 1) / budget
	}
	if len(frags) == 0 {
		// "not at all" is the only outcome allowed for an undeliverable message; a
		// deliverable one (fits, or splits into <=255 fragments) must not be dropped.
		if hdr+len(payload) <= limit {
			return fmt.Errorf("message of size %d fits limit %d but was discarded", hdr+len(payload), limit)
		}
		if budget > 0 && need <= 255 {
			return fmt.Errorf("message needing %d fragments (budget %d) was discarded", need, budget)
		}
		return nil
	}
	if len(frags) > 255 {
		return fmt.Errorf("%d fragments > 255", len(frags))
	}
	var cat []byte
	for i, f := range frags {
		if f.SessionID != orig.SessionID || f.PacketID != orig.PacketID || f.Addr != orig.Addr {
			return fmt.Errorf("fragment %d changed session/packet/addr", i)
		}
		if len(frags) > 1 {
			if int(f.FragID) != i || int(f.FragCount) != len(frags) {
				return fmt.Errorf("fragment %d has FragID=%d FragCount=%d (want %d/%d)", i, f.FragID, f.FragCount, i, len(frags))
			}
			if len(f.Data) == 0 {
				return fmt.Errorf("fragment %d is empty (the peer's parser rejects it)", i)
			}
		}
		if sz := hdr + len(f.Data); sz > limit {
			return fmt.Errorf("fragment %d has wire size %d > limit %d", i, sz, limit)
		}
		if f.Size() != hdr+len(f.Data) {
			return fmt.Errorf("fragment %d: Size()=%d, independent size=%d", i, f.Size(), hdr+len(f.Data))
		}
		// what is sent must also be what the far side parses
		buf := make([]byte, f.Size())
		if n := f.Serialize(buf); n != len(buf) {
			return fmt.Errorf("fragment %d: Serialize returned %d want %d", i, n, len(buf))
		}
		cat = append(cat, f.Data...)
	}
	if !bytes.Equal(cat, payload) {
		return fmt.Errorf("concatenation of %d fragments (%d bytes) != payload (%d bytes)", len(frags), len(cat), len(payload))
	}
	return nil
}

type vSplitCase struct {
	payloadLen, addrLen, limit int
	sid                        uint32
	pid                        uint16
}

func (c vSplitCase) String() string {
	return fmt.Sprintf("payload=%d addr=%d limit=%d (hdr=%d) sid=%d pid=%d", c.payloadLen, c.addrLen, c.limit, vHeaderSize(c.addrLen), c.sid, c.pid)
}

func vGenSplit(t *rapid.T) vSplitCase {
	var c vSplitCase
	c.addrLen = rapid.OneOf(rapid.IntRange(1, 80), rapid.SampledFrom([]int{1, 62, 63, 64, 65, 255, 2047, 2048}), rapid.IntRange(1, 2048)).Draw(t, "addrLen")
	hdr := vHeaderSize(c.addrLen)
	mode := rapid.IntRange(0, 5).Draw(t, "mode")
	switch mode {
	case 0: // limit around the header size
		c.limit = hdr + rapid.IntRange(-3, 3).Draw(t, "dl")
		if c.limit < 0 {
			c.limit = 0
		}
		c.payloadLen = rapid.IntRange(1, 700).Draw(t, "payloadLen")
	case 1: // fragment count near 255/256
		budget := rapid.IntRange(1, 257).Draw(t, "budget")
		cnt := rapid.IntRange(250, 262).Draw(t, "count")
		c.limit = hdr + budget
		c.payloadLen = budget*cnt + rapid.IntRange(-budget, 1).Draw(t, "dp")
	case 2: // multiples of the budget +-1
		budget := rapid.IntRange(1, 1500).Draw(t, "budget")
		cnt := rapid.IntRange(1, 40).Draw(t, "count")
		c.limit = hdr + budget
		c.payloadLen = budget*cnt + rapid.IntRange(-1, 1).Draw(t, "dp")
	case 3: // realistic datagram limits
		c.limit = rapid.SampledFrom([]int{1200, 1197, 1252, 1350, 1452, 1500, 500, 100}).Draw(t, "limit")
		c.payloadLen = rapid.IntRange(1, 65535).Draw(t, "payloadLen")
	case 4: // tiny limits, large payloads (peer-advertised)
		c.limit = rapid.IntRange(0, 64).Draw(t, "limit")
		c.payloadLen = rapid.IntRange(1, 4096).Draw(t, "payloadLen")
	default:
		c.limit = rapid.IntRange(0, 2000).Draw(t, "limit")
		c.payloadLen = rapid.IntRange(1, 65535).Draw(t, "payloadLen")
	}
	if c.payloadLen < 1 {
		c.payloadLen = 1
	}
	if c.payloadLen > 65535 {
		c.payloadLen = 65535
	}
	c.sid = rapid.Uint32().Draw(t, "sid")
	c.pid = rapid.Uint16().Draw(t, "pid")
	return c
}

func vRunSplit(c vSplitCase) ([]protocol.UDPMessage, []byte, *protocol.UDPMessage, error) {
	payload := vPayload(c.payloadLen, byte(c.pid))
	m := &protocol.UDPMessage{SessionID: c.sid, PacketID: c.pid, FragID: 0, FragCount: 1, Addr: vAddr(c.addrLen, byte(c.sid)), Data: payload}
	keep := *m
	frags, err := vSafeFrag(m, c.limit)
	if err != nil {
		return nil, payload, &keep, err
	}
	return frags, payload, &keep, vCheckSplit(&keep, payload, c.limit, frags)
}

func TestVerifC05_Split(t *testing.T) {
	st := newVStats("TestVerifC05_Split")
	defer st.Flush()
	rapid.Check(t, func(rt *rapid.T) {
		c := vGenSplit(rt)
		frags, _, _, err := vRunSplit(c)
		hdr := vHeaderSize(c.addrLen)
		budget := c.limit - hdr
		need := 0
		if budget > 0 {
			need = (c.payloadLen + budget - 1) / budget
		}
		var cls []string
		switch {
		case hdr+c.payloadLen <= c.limit:
			cls = append(cls, "fits")
		case budget <= 0:
			cls = append(cls, "budget<=0")
		case need > 255:
			cls = append(cls, "need>255")
		default:
			cls = append(cls, "split")
		}
		nt := (need >= 2 && need <= 255) || need > 255 || (budget >= -2 && budget <= 2)
		if need >= 254 && need <= 257 {
			cls = append(cls, "count254..257")
		}
		st.Case(nt, fmt.Sprintf("%d/%d/%d", c.payloadLen, c.addrLen, c.limit), cls, func() string {
			return fmt.Sprintf("%v -> %d fragments", c, len(frags))
		})
		if err != nil {
			rt.Fatalf("C05 split: %v: %v", c, err)
		}
	})
}

// Regression (plain, library-free): a message needing 256.. fragments must be discarded, not crash.
func TestVerifC05_Regress_FragCountWrap(t *testing.T) {
	st := newVStats("TestVerifC05_Regress_FragCountWrap")
	defer st.Flush()
	for _, c := range []vSplitCase{
		{payloadLen: 256, addrLen: 1, limit: vHeaderSize(1) + 1, sid: 1, pid: 1},
		{payloadLen: 4096, addrLen: 9, limit: vHeaderSize(9) + 16, sid: 1, pid: 7},
		{payloadLen: 300, addrLen: 1, limit: vHeaderSize(1) + 1, sid: 1, pid: 2},
		{payloadLen: 511, addrLen: 1, limit: vHeaderSize(1) + 1, sid: 1, pid: 3},
		{payloadLen: 512, addrLen: 1, limit: vHeaderSize(1) + 1, sid: 1, pid: 4},
		{payloadLen: 255, addrLen: 1, limit: vHeaderSize(1) + 1, sid: 1, pid: 5},
	} {
		frags, _, _, err := vRunSplit(c)
		st.Case(true, c.String(), []string{"regress"}, func() string { return fmt.Sprintf("%v -> %d fragments", c, len(frags)) })
		if err != nil {
			t.Fatalf("C05 split regression: %v: %v", c, err)
		}
	}
}

// ---------------------------------------------------------------- reassembly

type vOrigMsg struct {
	sid     uint32
	pid     uint16
	addr    string
	payload []byte
	nfrag   int
}

type vHeld struct {
	msg  int
	data []byte
	step int
}

type vArrival struct {
	msg, frag int // index into originals / fragment index; frag<0: junk fragment (FragID>=FragCount)
}

func vWire(m *protocol.UDPMessage) *protocol.UDPMessage {
	buf := make([]byte, m.Size())
	n := m.Serialize(buf)
	if n != len(buf) {
		panic("serialize size")
	}
	p, err := protocol.ParseUDPMessage(buf[:n:n])
	if err != nil {
		panic("harness produced unparseable fragment: " + err.Error())
	}
	return p
}

func TestVerifC05_Reassembly(t *testing.T) {
	st := newVStats("TestVerifC05_Reassembly")
	defer st.Flush()
	rapid.Check(t, func(rt *rapid.T) {
		nmsg := rapid.IntRange(1, 4).Draw(rt, "nmsg")
		sameCount := rapid.Bool().Draw(rt, "sameCount")
		// distinct packet IDs; besides small ones, IDs that differ from each other in a single bit,
		// only in the high byte or only in the low byte (any hashing/truncation of the ID must keep them apart)
		pids := vGenPIDs(rt, nmsg)
		origs := make([]vOrigMsg, nmsg)
		frags := make([][]protocol.UDPMessage, nmsg)
		cnt0 := rapid.IntRange(1, 6).Draw(rt, "cnt0")
		for i := range origs {
			cnt := cnt0
			if !sameCount {
				cnt = rapid.IntRange(1, 9).Draw(rt, "cnt")
			}
			budget := rapid.IntRange(1, 40).Draw(rt, "budget")
			plen := budget*(cnt-1) + rapid.IntRange(1, budget).Draw(rt, "last")
			o := vOrigMsg{sid: 7, pid: pids[i], addr: vAddr(rapid.IntRange(1, 70).Draw(rt, "addrLen"), byte(i)), payload: vPayload(plen, byte(i+1)), nfrag: cnt}
			origs[i] = o
			// fragments built by the harness itself (contiguous slices, FragID=index)
			for j := 0; j < cnt; j++ {
				lo, hi := j*budget, (j+1)*budget
				if hi > plen {
					hi = plen
				}
				frags[i] = append(frags[i], protocol.UDPMessage{SessionID: o.sid, PacketID: o.pid, FragID: uint8(j), FragCount: uint8(cnt), Addr: o.addr, Data: o.payload[lo:hi]})
			}
		}
		// arrival sequence: per message a permutation with duplicates/drops, then an interleaving
		var seq []vArrival
		mode := rapid.IntRange(0, 2).Draw(rt, "interleave") // 0 strictly message after message, 1 random merge, 2 merge + junk
		per := make([][]vArrival, nmsg)
		dropped := make([]bool, nmsg)
		for i := range origs {
			perm := rapid.Permutation(vIota(origs[i].nfrag)).Draw(rt, "perm")
			for _, j := range perm {
				if origs[i].nfrag > 1 && rapid.IntRange(0, 9).Draw(rt, "drop") == 0 {
					dropped[i] = true
					continue
				}
				per[i] = append(per[i], vArrival{i, j})
				for rapid.IntRange(0, 4).Draw(rt, "dup") == 0 { // duplicate a fragment already sent
					k := rapid.IntRange(0, len(per[i])-1).Draw(rt, "dupOf")
					per[i] = append(per[i], per[i][k])
				}
			}
		}
		if mode == 0 {
			for _, i := range rapid.Permutation(vIota(nmsg)).Draw(rt, "order") {
				seq = append(seq, per[i]...)
			}
		} else {
			idx := make([]int, nmsg)
			for {
				var live []int
				for i := range per {
					if idx[i] < len(per[i]) {
						live = append(live, i)
					}
				}
				if len(live) == 0 {
					break
				}
				i := live[rapid.IntRange(0, len(live)-1).Draw(rt, "pick")]
				// bias towards staying on the same message so completions happen
				burst := rapid.IntRange(1, 4).Draw(rt, "burst")
				for b := 0; b < burst && idx[i] < len(per[i]); b++ {
					seq = append(seq, per[i][idx[i]])
					idx[i]++
				}
				if mode == 2 && rapid.IntRange(0, 3).Draw(rt, "junk") == 0 {
					seq = append(seq, vArrival{i, -1})
				}
			}
		}
		// ---- run against the real reassembler
		d := &Defragger{}
		fed := make([]map[int]bool, nmsg)
		for i := range fed {
			fed[i] = map[int]bool{}
		}
		emitted := make([]int, nmsg)
		var held []vHeld
		// contiguity tracking for the "must be emitted" direction
		runMsg, runSet := -1, map[int]bool{}
		mustEmit := make([]bool, nmsg)
		var trace []string
		for step, a := range seq {
			var in *protocol.UDPMessage
			if a.frag < 0 {
				j := frags[a.msg][0]
				j.FragID = j.FragCount + uint8(rapid.IntRange(0, 3).Draw(rt, "junkID")) // FragID >= FragCount
				if j.FragCount <= 1 {
					j.FragCount, j.FragID = 2, 2
				}
				in = vWire(&j)
			} else {
				in = vWire(&frags[a.msg][a.frag])
				fed[a.msg][a.frag] = true
			}
			trace = append(trace, fmt.Sprintf("m%d.%d", a.msg, a.frag))
			if a.frag >= 0 {
				if runMsg != a.msg {
					runMsg, runSet = a.msg, map[int]bool{}
				}
				runSet[a.frag] = true
				if len(runSet) == origs[a.msg].nfrag {
					mustEmit[a.msg] = true
				}
			} else {
				runMsg, runSet = -1, map[int]bool{} // anything in between breaks the strict run
			}
			var out *protocol.UDPMessage
			func() {
				defer func() {
					if r := recover(); r != nil {
						rt.Fatalf("C05 reassembly: panic at step %d (%v): %v", step, trace, r)
					}
				}()
				out = d.Feed(in)
			}()
			if out == nil {
				continue
			}
			// find the original it claims to be
			match := -1
			for i, o := range origs {
				if out.PacketID == o.pid && out.SessionID == o.sid && out.Addr == o.addr && bytes.Equal(out.Data, o.payload) {
					match = i
				}
			}
			if match < 0 {
				rt.Fatalf("C05 reassembly: step %d emitted a message (pid=%d, %d bytes) that was never sent as one message; arrivals=%v", step, out.PacketID, len(out.Data), trace)
			}
			if len(fed[match]) != origs[match].nfrag {
				rt.Fatalf("C05 reassembly: message m%d emitted after only %d of %d fragments; arrivals=%v", match, len(fed[match]), origs[match].nfrag, trace)
			}
			if a.frag < 0 {
				rt.Fatalf("C05 reassembly: an ill-formed fragment (FragID>=FragCount) produced output; arrivals=%v", trace)
			}
			if out.FragCount > 1 || out.FragID != 0 {
				rt.Fatalf("C05 reassembly: emitted message still marked as fragment %d/%d", out.FragID, out.FragCount)
			}
			emitted[match]++
			// the delivered payload belongs to the receiver from now on: keep the very slice (no copy)
			// and re-check it at the end of the history (it must not alias a buffer the reassembler reuses)
			held = append(held, vHeld{match, out.Data, step})
		}
		for _, h := range held {
			if !bytes.Equal(h.data, origs[h.msg].payload) {
				rt.Fatalf("C05 reassembly: payload of m%d delivered at step %d was modified afterwards (delivered slice aliases reassembler state); arrivals=%v", h.msg, h.step, trace)
			}
		}
		for i := range origs {
			if mustEmit[i] && emitted[i] == 0 {
				rt.Fatalf("C05 reassembly: all %d fragments of m%d arrived back to back (duplicates allowed) but it was never emitted; arrivals=%v", origs[i].nfrag, i, trace)
			}
		}
		multi, nonIdentity := 0, false
		for i := range origs {
			if origs[i].nfrag >= 2 {
				multi++
			}
			for k := 1; k < len(per[i]); k++ {
				if per[i][k].frag < per[i][k-1].frag {
					nonIdentity = true
				}
			}
		}
		var cls []string
		cls = append(cls, fmt.Sprintf("interleave=%d", mode), fmt.Sprintf("msgs=%d", nmsg))
		done := 0
		for i := range emitted {
			if emitted[i] > 0 && origs[i].nfrag >= 2 {
				done++
			}
		}
		if done > 0 {
			cls = append(cls, "reassembled>=1")
		}
		nt := multi >= 1 && nonIdentity
		st.Case(nt, strings.Join(trace, ","), cls, func() string {
			return fmt.Sprintf("msgs=%d counts=%v arrivals=%v emitted=%v", nmsg, vCounts(origs), trace, emitted)
		})
	})
}

func vGenPIDs(rt *rapid.T, n int) []uint16 {
	base := rapid.Uint16().Draw(rt, "pidBase")
	small := rapid.IntRange(0, 2).Draw(rt, "pidSmall") == 0
	seen := map[uint16]bool{}
	var out []uint16
	for len(out) < n {
		var p uint16
		if small {
			p = rapid.Uint16Range(0, 6).Draw(rt, "pid")
		} else {
			switch rapid.IntRange(0, 4).Draw(rt, "pidMode") {
			case 0:
				p = base
			case 1:
				p = base ^ (1 << rapid.IntRange(0, 15).Draw(rt, "pidBit"))
			case 2:
				p = base ^ (uint16(rapid.IntRange(1, 255).Draw(rt, "pidHi")) << 8)
			case 3:
				p = base ^ uint16(rapid.IntRange(1, 255).Draw(rt, "pidLo"))
			default:
				p = rapid.Uint16().Draw(rt, "pidAny")
			}
		}
		if !seen[p] {
			seen[p] = true
			out = append(out, p)
		}
	}
	return out
}

func vIota(n int) []int {
	r := make([]int, n)
	for i := range r {
		r[i] = i
	}
	return r
}

func vCounts(o []vOrigMsg) []int {
	r := make([]int, len(o))
	for i := range o {
		r[i] = o[i].nfrag
	}
	return r
}

// Split -> wire -> any order -> reassemble: the two halves compose to the identity.
func TestVerifC05_RoundTrip(t *testing.T) {
	st := newVStats("TestVerifC05_RoundTrip")
	defer st.Flush()
	rapid.Check(t, func(rt *rapid.T) {
		addrLen := rapid.IntRange(1, 100).Draw(rt, "addrLen")
		hdr := vHeaderSize(addrLen)
		budget := rapid.IntRange(1, 1300).Draw(rt, "budget")
		cnt := rapid.IntRange(2, 255).Draw(rt, "count")
		if budget*cnt > 65535 {
			cnt = 65535 / budget
			if cnt < 2 {
				cnt = 2
				budget = 30000
			}
		}
		plen := budget*(cnt-1) + rapid.IntRange(1, budget).Draw(rt, "last")
		payload := vPayload(plen, byte(cnt))
		m := &protocol.UDPMessage{SessionID: rapid.Uint32().Draw(rt, "sid"), PacketID: rapid.Uint16().Draw(rt, "pid"), FragCount: 1, Addr: vAddr(addrLen, 3), Data: payload}
		keep := *m
		frags, err := vSafeFrag(m, hdr+budget)
		if err != nil {
			rt.Fatalf("C05 roundtrip: %v", err)
		}
		if err := vCheckSplit(&keep, payload, hdr+budget, frags); err != nil {
			rt.Fatalf("C05 roundtrip split: %v", err)
		}
		if len(frags) == 0 {
			rt.Fatalf("C05 roundtrip: deliverable message discarded")
		}
		perm := rapid.Permutation(vIota(len(frags))).Draw(rt, "perm")
		d := &Defragger{}
		var got *protocol.UDPMessage
		emits := 0
		for k, j := range perm {
			out := d.Feed(vWire(&frags[j]))
			if k > 0 && rapid.IntRange(0, 5).Draw(rt, "dup") == 0 { // duplicate of an earlier one
				if o2 := d.Feed(vWire(&frags[perm[rapid.IntRange(0, k-1).Draw(rt, "dupOf")]])); o2 != nil {
					emits++
					got = o2
				}
			}
			if out != nil {
				emits++
				got = out
				if k != len(perm)-1 {
					rt.Fatalf("C05 roundtrip: emitted after %d of %d fragments", k+1, len(perm))
				}
			}
		}
		if emits != 1 || got == nil {
			rt.Fatalf("C05 roundtrip: %d emissions for one message of %d fragments", emits, len(frags))
		}
		if got.SessionID != keep.SessionID || got.Addr != keep.Addr || !bytes.Equal(got.Data, payload) {
			rt.Fatalf("C05 roundtrip: reassembled message differs from the original (%d vs %d bytes)", len(got.Data), len(payload))
		}
		st.Case(len(frags) >= 2, fmt.Sprintf("%d/%d/%v", plen, budget, perm), []string{fmt.Sprintf("frags<=%d", vBucket(len(frags)))}, func() string {
			return fmt.Sprintf("payload=%d budget=%d frags=%d perm(head)=%v", plen, budget, len(frags), perm[:vMin(8, len(perm))])
		})
	})
}

func vBucket(n int) int {
	for _, b := range []int{2, 4, 8, 16, 64, 128, 254, 255} {
		if n <= b {
			return b
		}
	}
	return 999
}

func vMin(a, b int) int {
	if a < b {
		return a
	}
	return b
}
