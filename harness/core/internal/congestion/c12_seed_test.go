package congestion

// C12 (seeding) — the controller is built the way UseBBR builds it,
//     seed = seedPacketSize(conn.InitialPacketSize(), bbr.GetInitialPacketSize(conn.RemoteAddr()))
// and then sees QUIC's own datagram-size sequence: sizes that only GROW, starting from the size
// QUIC itself started at (quic-go mtu_discoverer.go: binary search between the current size and the
// maximum, SetMaxDatagramSize(size) after a probe of that size was acknowledged). The first accepted
// probe may lie BELOW the address-based guess (a connection may start at 1200..1279, e.g. 1250 in
// Chrome-parrot mode, while the guess for a UDP peer is 1280).
// Oracle: no panic; 4*size <= cwnd <= 20000*size; a pacing wait for one datagram never exceeds
// what 65536 B/s needs and is sufficient — after every step of a short send/ack trace.
// Only exported API of package bbr is used (NewBbrSender, GetInitialPacketSize, Clock).

import (
	"fmt"
	"math/rand"
	"net"
	"strings"
	"testing"
	"time"

	"github.com/apernet/hysteria/core/v2/internal/congestion/bbr"
	"github.com/apernet/quic-go/congestion"
	"github.com/apernet/quic-go/monotime"
	"pgregory.net/rapid"
)

type v12sClock struct{ t *int64 }

func (c v12sClock) Now() monotime.Time { return monotime.Time(*c.t) }

type v12sRTT struct{ rtt time.Duration }

func (r *v12sRTT) MinRTT() time.Duration        { return r.rtt }
func (r *v12sRTT) LatestRTT() time.Duration     { return r.rtt }
func (r *v12sRTT) SmoothedRTT() time.Duration   { return r.rtt }
func (r *v12sRTT) MeanDeviation() time.Duration { return r.rtt / 4 }
func (r *v12sRTT) MaxAckDelay() time.Duration   { return 25 * time.Millisecond }
func (r *v12sRTT) PTO(bool) time.Duration       { return 2*r.rtt + 25*time.Millisecond }
func (r *v12sRTT) UpdateRTT(_, _ time.Duration) {}
func (r *v12sRTT) SetMaxAckDelay(time.Duration) {}
func (r *v12sRTT) SetInitialRTT(time.Duration)  {}

// a remote address that is not a *net.UDPAddr (port hopping wraps the address)
type v12sHopAddr struct{ s string }

func (a v12sHopAddr) Network() string { return "udphop" }
func (a v12sHopAddr) String() string  { return a.s }

var v12sAddrs = []struct {
	name string
	addr net.Addr
}{
	{"udp4", &net.UDPAddr{IP: net.IPv4(203, 0, 113, 7), Port: 443}},
	{"udp6", &net.UDPAddr{IP: net.ParseIP("2001:db8::7"), Port: 443}},
	{"udp4mapped", &net.UDPAddr{IP: net.ParseIP("::ffff:203.0.113.7"), Port: 443}},
	{"udp6zone", &net.UDPAddr{IP: net.ParseIP("fe80::1"), Port: 443, Zone: "eth0"}},
	{"udphop", v12sHopAddr{"203.0.113.7:20000-30000"}},
	{"tcp", &net.TCPAddr{IP: net.IPv4(203, 0, 113, 7), Port: 443}},
	{"nil", nil},
}

var v12sProfiles = []bbr.Profile{bbr.ProfileConservative, bbr.ProfileStandard, bbr.ProfileAggressive, ""}

// v12sSearch reproduces the path-MTU binary search: start < accepted sizes <= limit, growing.
// pathMTU decides which probes arrive; `spurious` marks probe indices lost for unrelated reasons.
func v12sSearch(start, limit, pathMTU int64, spurious map[int]bool) (accepted []int64) {
	lo := start
	lost := [3]int64{limit, limit, limit}
	hi := func() int64 { return min(lost[0], min(lost[1], lost[2])) }
	for i := 0; i < 40 && hi()-lo > 21; i++ {
		size := (lo + hi()) / 2
		if size <= lo {
			break
		}
		if size <= pathMTU && !spurious[i] {
			lo = size
			accepted = append(accepted, size)
			for k := range lost {
				if lost[k] < size {
					lost[k] = limit
				}
			}
			continue
		}
		for k := range lost {
			if size < lost[k] {
				copy(lost[k+1:], lost[k:2])
				lost[k] = size
				break
			}
		}
	}
	return accepted
}

type v12sCase struct {
	reported int64 // conn.InitialPacketSize(); 0 = unknown
	addrIdx  int
	profile  bbr.Profile
	steps    []int64 // sizes QUIC reports, growing, all above the size QUIC started at
	rtt      time.Duration
	capBps   int64
	lossy    bool
	ghosts   int
	randSeed int64 // pins the global math/rand BBR draws its PROBE_BW cycle offset from
}

func (c v12sCase) quicStart() int64 {
	if c.reported > 0 {
		return c.reported
	}
	return 1280 // quic-go's default when no size is configured
}

func (c v12sCase) String() string {
	return fmt.Sprintf("conn.InitialPacketSize()=%d remote=%s profile=%q steps=%v rtt=%v capacity=%dB/s lossy=%v unseenInFlight=%d randSeed=%d",
		c.reported, v12sAddrs[c.addrIdx].name, c.profile, c.steps, c.rtt, c.capBps, c.lossy, c.ghosts, c.randSeed)
}

// v12sRun builds the controller like UseBBR and drives a short QUIC-consistent trace. It returns
// an error text for a violation ("" = fine) and the call history.
func v12sRun(c v12sCase) (violation string, history string) {
	var hist []string
	logf := func(f string, a ...any) {
		if len(hist) < 4000 {
			hist = append(hist, fmt.Sprintf(f, a...))
		}
	}
	render := func() string {
		h := hist
		pre := ""
		if len(h) > 60 {
			pre = fmt.Sprintf("(%d earlier calls omitted) ", len(h)-60)
			h = h[len(h)-60:]
		}
		return pre + strings.Join(h, " ; ")
	}
	defer func() {
		if r := recover(); r != nil {
			violation = fmt.Sprintf("controller panicked: %v", r)
			history = render()
		}
	}()
	rand.Seed(c.randSeed) // every case is a pure function of its draws (driver sets GODEBUG=randseednop=0)
	now := int64(time.Hour)
	byAddr := bbr.GetInitialPacketSize(v12sAddrs[c.addrIdx].addr)
	seed := seedPacketSize(congestion.ByteCount(c.reported), byAddr)
	logf("seedPacketSize(%d,%d)=%d", c.reported, byAddr, seed)
	if seed <= 0 {
		return fmt.Sprintf("seedPacketSize(%d,%d) = %d: not a datagram size", c.reported, byAddr, seed), render()
	}
	var cc congestion.CongestionControlEx = bbr.NewBbrSender(v12sClock{&now}, seed, c.profile)
	cc.SetRTTStatsProvider(&v12sRTT{rtt: c.rtt})
	ccSize := int64(seed) // the size the controller was told last
	// The pacer inside the controller starts with its own default datagram size (1280,
	// common.NewPacer) and only learns another one through SetMaxDatagramSize; TimeUntilSend waits
	// for THAT size: lastSentTime + max(1 ms, ceil((pacerSize - budgetAtLastSent) * 1e9 / bandwidth)).
	pacerSize := int64(1280)
	quicSize := c.quicStart() // the size QUIC really uses
	type pkt struct{ pn, size, sent int64 }
	var out []pkt
	inflight := int64(c.ghosts) * quicSize
	for g := 0; g < c.ghosts; g++ {
		out = append(out, pkt{int64(g), quicSize, now - int64(c.rtt)/2})
	}
	pn := int64(c.ghosts)
	check := func(where string) string {
		w := int64(cc.GetCongestionWindow())
		if w < 4*ccSize {
			return fmt.Sprintf("after %s: congestion window %d < 4 datagrams of %d", where, w, ccSize)
		}
		if w > 20000*ccSize {
			return fmt.Sprintf("after %s: congestion window %d > maximum window (20000 datagrams of %d)", where, w, ccSize)
		}
		if !cc.HasPacingBudget(monotime.Time(now)) {
			t := int64(cc.TimeUntilSend(congestion.ByteCount(inflight)))
			if t == 0 || t <= now {
				return fmt.Sprintf("after %s: no pacing budget but the announced time %d is not in the future (now %d)", where, t, now)
			}
			if !cc.HasPacingBudget(monotime.Time(t)) {
				return fmt.Sprintf("after %s: waiting until the announced time does not yield budget for a datagram", where)
			}
			// Observable consequence of "pacing bandwidth >= 65536 B/s": with budgetAtLastSent >= 0 and
			// now >= lastSentTime the wait is at most the time 65536 B/s needs for the largest datagram
			// size the pacer may hold, or the 1 ms pacing granularity. 25 % + 1 ms of slack on top: this is
			// a coarse outside view; the exact floor (bandwidthForPacer >= 65536) is asserted in-package
			// by TestVerifC12_Traces.
			big := max(pacerSize, ccSize, quicSize, 1280)
			if lim := max(int64(time.Millisecond), big*1e9/65536)*5/4 + int64(time.Millisecond); t-now > lim {
				return fmt.Sprintf("after %s: pacing wait %d ns (limit %d) for a datagram of at most %d bytes: pacing bandwidth below 65536 B/s", where, t-now, lim, big)
			}
		}
		return ""
	}
	if v := check("NewBbrSender"); v != "" {
		return v, render()
	}
	stepIdx, probePN := 0, int64(-1)
	lossTick := 0
	for round := 0; round < 6+3*len(c.steps); round++ {
		// ---- send loop (quic-go: CanSend -> HasPacingBudget -> send; sleep until TimeUntilSend)
		budgetPkts := int64(c.capBps) * int64(c.rtt) / 1e9 / quicSize
		budgetPkts = max(4, min(budgetPkts, 300))
		for sent := int64(0); sent < budgetPkts; {
			if !cc.CanSend(congestion.ByteCount(inflight)) {
				break
			}
			if !cc.HasPacingBudget(monotime.Time(now)) {
				if v := check("send loop"); v != "" {
					return v, render()
				}
				now = int64(cc.TimeUntilSend(congestion.ByteCount(inflight)))
				continue
			}
			size := quicSize
			if probePN < 0 && stepIdx < len(c.steps) && round >= 1 { // MTU probe: larger than the current size
				size = c.steps[stepIdx]
				probePN = pn
			}
			inflight += size
			logf("%d OnPacketSent(inflight=%d,pn=%d,size=%d,true)", now, inflight, pn, size)
			cc.OnPacketSent(monotime.Time(now), congestion.ByteCount(inflight), congestion.PacketNumber(pn), congestion.ByteCount(size), true)
			out = append(out, pkt{pn, size, now})
			pn++
			sent++
			if v := check("OnPacketSent"); v != "" {
				return v, render()
			}
		}
		// ---- one RTT later: feedback for everything outstanding
		now += int64(c.rtt)
		if len(out) == 0 {
			continue
		}
		prior := inflight
		var acked []congestion.AckedPacketInfo
		var lost []congestion.LostPacketInfo
		probeAcked := false
		for i, p := range out {
			lossTick++
			// packet-threshold loss needs three later packets acknowledged: never the last three
			if c.lossy && lossTick%7 == 0 && i < len(out)-3 && p.pn != probePN {
				lost = append(lost, congestion.LostPacketInfo{PacketNumber: congestion.PacketNumber(p.pn), BytesLost: congestion.ByteCount(p.size)})
				cc.OnCongestionEvent(congestion.PacketNumber(p.pn), congestion.ByteCount(p.size), congestion.ByteCount(prior))
			} else {
				acked = append(acked, congestion.AckedPacketInfo{PacketNumber: congestion.PacketNumber(p.pn), BytesAcked: congestion.ByteCount(p.size)})
				cc.OnPacketAcked(congestion.PacketNumber(p.pn), congestion.ByteCount(p.size), congestion.ByteCount(prior), monotime.Time(now))
				if p.pn == probePN {
					probeAcked = true
				}
			}
			inflight -= p.size
		}
		out = out[:0]
		logf("%d OnCongestionEventEx(prior=%d,acked=%d pkts,lost=%d pkts)", now, prior, len(acked), len(lost))
		cc.OnCongestionEventEx(congestion.ByteCount(prior), monotime.Time(now), acked, lost)
		if v := check("OnCongestionEventEx"); v != "" {
			return v, render()
		}
		if probeAcked { // handleAckFrame: the MTU estimate grew -> sentPacketHandler.SetMaxDatagramSize
			quicSize = c.steps[stepIdx]
			stepIdx++
			probePN = -1
			logf("%d SetMaxDatagramSize(%d)", now, quicSize)
			cc.SetMaxDatagramSize(congestion.ByteCount(quicSize))
			ccSize, pacerSize = quicSize, quicSize
			if v := check(fmt.Sprintf("SetMaxDatagramSize(%d)", quicSize)); v != "" {
				return v, render()
			}
		}
	}
	return "", render()
}

// Deterministic grid: every reported size x address kind x profile, first accepted probe just
// above QUIC's start size (hence possibly below the address-based guess), then further growth.
func TestVerifC12_SeedGrid(t *testing.T) {
	st := newVStats("TestVerifC12_SeedGrid")
	defer st.Flush()
	for _, rep := range []int64{0, 1200, 1201, 1250, 1252, 1279, 1280, 1281, 1350, 1452} {
		for ai := range v12sAddrs {
			for _, p := range v12sProfiles {
				for _, first := range []int64{1, 12, 30, 101} {
					c := v12sCase{reported: rep, addrIdx: ai, profile: p, rtt: 20 * time.Millisecond, capBps: 2000000, randSeed: 1 + first}
					s0 := c.quicStart()
					last := s0
					for _, s := range []int64{s0 + first, s0 + first + 40, 1452, 1500} {
						if s > last && s <= 1500 {
							c.steps = append(c.steps, s)
							last = s
						}
					}
					v, h := v12sRun(c)
					st.Case(true, c.String(), []string{"remote=" + v12sAddrs[ai].name, fmt.Sprintf("reported=%d", rep)}, func() string { return c.String() })
					if v != "" {
						t.Fatalf("C12 seeding: %s\n case: %s\n history: %s", v, c, h)
					}
				}
			}
		}
	}
}

func TestVerifC12_Seed(t *testing.T) {
	st := newVStats("TestVerifC12_Seed")
	defer st.Flush()
	rapid.Check(t, func(rt *rapid.T) {
		c := v12sCase{}
		c.randSeed = rapid.Int64Range(1, 1<<40).Draw(rt, "randSeed")
		c.reported = rapid.OneOf(
			rapid.SampledFrom([]int64{0, 1200, 1250, 1252, 1280, 1350, 1452}),
			rapid.Int64Range(1200, 1452),
			rapid.Int64Range(1200, 1290),
		).Draw(rt, "reportedInitialSize")
		c.addrIdx = rapid.IntRange(0, len(v12sAddrs)-1).Draw(rt, "remoteAddr")
		c.profile = rapid.SampledFrom(v12sProfiles).Draw(rt, "profile")
		c.rtt = time.Duration(rapid.SampledFrom([]int64{1e6, 5e6, 20e6, 100e6, 300e6}).Draw(rt, "rtt"))
		c.capBps = rapid.SampledFrom([]int64{100000, 1000000, 20000000}).Draw(rt, "capacity")
		c.lossy = rapid.Bool().Draw(rt, "lossy")
		c.ghosts = rapid.SampledFrom([]int{0, 0, 3, 10}).Draw(rt, "unseenInFlight")
		start := c.quicStart()
		switch rapid.IntRange(0, 2).Draw(rt, "sizeSequence") {
		case 0: // the real binary search towards a drawn path MTU
			limit := rapid.SampledFrom([]int64{1452, 1452, 1500, 1300, 1280}).Draw(rt, "searchLimit")
			if limit > start {
				pathMTU := rapid.Int64Range(start, limit).Draw(rt, "pathMTU")
				sp := map[int]bool{}
				for _, i := range rapid.SliceOfN(rapid.IntRange(0, 8), 0, 2).Draw(rt, "spuriousProbeLoss") {
					sp[i] = true
				}
				c.steps = v12sSearch(start, limit, pathMTU, sp)
			}
		case 1: // first accepted probe close above QUIC's start size (the window below the address guess)
			s := start + rapid.Int64Range(1, 90).Draw(rt, "firstStep")
			c.steps = []int64{s}
			for n := rapid.IntRange(0, 3).Draw(rt, "more"); n > 0 && s < 1500; n-- {
				s = min(1500, s+rapid.Int64Range(1, 120).Draw(rt, "step"))
				if s > c.steps[len(c.steps)-1] {
					c.steps = append(c.steps, s)
				}
			}
		default: // no MTU discovery
		}
		v, h := v12sRun(c)
		byAddr := int64(bbr.GetInitialPacketSize(v12sAddrs[c.addrIdx].addr))
		cls := []string{"remote=" + v12sAddrs[c.addrIdx].name}
		below := len(c.steps) > 0 && c.steps[0] < byAddr
		if below {
			cls = append(cls, "firstStepBelowAddressGuess")
		}
		if c.reported == 0 {
			cls = append(cls, "sizeUnknown")
		}
		if start < byAddr {
			cls = append(cls, "quicStartsBelowGuess")
		}
		if start > byAddr {
			cls = append(cls, "quicStartsAboveGuess")
		}
		st.Case(len(c.steps) > 0, c.String(), cls, func() string { return c.String() })
		if v != "" {
			rt.Fatalf("C12 seeding: %s\n case: %s\n history: %s", v, c, h)
		}
	})
}
