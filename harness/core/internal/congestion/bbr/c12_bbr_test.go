package bbr

// C12 — BBR survives any QUIC-consistent event sequence with sane outputs; liveness on a loss-free path.
// Simulator and mini sent-packet handler: c12_sim_test.go.

import (
	"fmt"
	"math"
	"os"
	"sort"
	"strconv"
	"sync"
	"testing"
	"time"

	"github.com/apernet/quic-go/congestion"
	"github.com/apernet/quic-go/monotime"
	"pgregory.net/rapid"
)

func v12LogUniform(t *rapid.T, lo, hi float64, label string) float64 {
	return math.Exp(rapid.Float64Range(math.Log(lo), math.Log(hi)).Draw(t, label))
}

var v12Profiles = []Profile{ProfileConservative, ProfileStandard, ProfileAggressive}

func v12Thorough() bool { return os.Getenv("VERIF_TIER") == "thorough" }

// ---- generator for arbitrary paths / histories

func v12GenCfg(rt *rapid.T) *v12Cfg {
	c := &v12Cfg{}
	c.seed = rapid.Int64Range(1, 1<<40).Draw(rt, "randSeed")
	c.profile = rapid.SampledFrom(v12Profiles).Draw(rt, "profile")
	c.capBps = int64(v12LogUniform(rt, 1e5, 1e9, "capacity"))
	c.rtt = int64(v12LogUniform(rt, 1e6, 3e8, "rtt"))
	flavour := rapid.IntRange(0, 7).Draw(rt, "flavour")
	lowBDP := flavour <= 1
	fastIdle := flavour == 2 // long idle periods on a fast path: pacing bandwidth x idle time beyond 2^63
	if fastIdle {
		c.capBps = int64(v12LogUniform(rt, 2e6, 1e9, "capacityFast"))
		c.rtt = int64(v12LogUniform(rt, 1e6, 2e7, "rttFast"))
	}
	if lowBDP { // the window lives near its 4-datagram floor: BDP of 1..10 packets
		c.capBps = int64(v12LogUniform(rt, 1e5, 3e6, "capacityLow"))
		c.rtt = int64(float64(rapid.IntRange(1, 10).Draw(rt, "bdpPackets")) * 1300 / float64(c.capBps) * 1e9)
		c.rtt = max(c.rtt, 1e6)
	}
	bdp := float64(c.capBps) * float64(c.rtt) / 1e9
	qm := rapid.SampledFrom([]float64{0.25, 1, 1, 4}).Draw(rt, "queueBDP")
	c.queueBytes = int64(math.Max(qm*bdp, 3*1500))
	c.lossInv = rapid.SampledFrom([]int{0, 0, 0, 1000, 100, 20, 5}).Draw(rt, "lossEvery")
	if lowBDP && c.lossInv == 0 {
		c.lossInv = rapid.SampledFrom([]int{0, 100, 20}).Draw(rt, "lossEveryLow")
	}
	budget := 6000
	if v12Thorough() {
		budget = 25000
	}
	c.maxPackets = rapid.IntRange(300, budget).Draw(rt, "maxPackets")
	c.dur = rapid.SampledFrom([]int64{2e9, 12e9, 12e9, 25e9}).Draw(rt, "dur")
	for n := rapid.SampledFrom([]int{0, 0, 1, 2}).Draw(rt, "blackouts"); n > 0; n-- {
		at := rapid.Int64Range(0, c.dur/2).Draw(rt, "blackoutAt")
		ln := int64(v12LogUniform(rt, float64(c.rtt)/2, 4e9, "blackoutLen"))
		c.blackouts = append(c.blackouts, [2]int64{at, ln})
	}
	c.ackEvery = rapid.SampledFrom([]int{1, 2, 2, 4, 10, 32}).Draw(rt, "ackEvery")
	c.ackDelay = rapid.SampledFrom([]int64{1e6, 5e6, 25e6}).Draw(rt, "ackDelay")
	c.aggG = rapid.SampledFrom([]int64{0, 0, 0, 1e6, 5e6, 20e6, 60e6}).Draw(rt, "ackAggregation")
	c.ackLossInv = rapid.SampledFrom([]int{0, 0, 50, 8}).Draw(rt, "ackLossEvery")
	c.reorderInv = rapid.SampledFrom([]int{0, 0, 200, 25}).Draw(rt, "reorderEvery")
	c.ackJitter = rapid.SampledFrom([]int64{0, 0, 1, 1000}).Draw(rt, "ackJitter")
	c.quicSize0 = rapid.SampledFrom([]int64{1200, 1252, 1280}).Draw(rt, "quicInitialSize")
	byAddr := rapid.SampledFrom([]int64{1280, 1280, 1200}).Draw(rt, "sizeByAddr") // GetInitialPacketSize: UDP / other
	c.ccSeed = min(c.quicSize0, byAddr)                                           // seedPacketSize in congestion/utils.go
	c.quicNow = c.quicSize0
	if rapid.IntRange(0, 7).Draw(rt, "mtuDiscoveryBeforeInstall") == 0 {
		c.quicNow = rapid.SampledFrom([]int64{1300, 1366, 1400}).Draw(rt, "quicNow")
	}
	sizes := []int64{1252, 1280, 1350, 1400, 1452}
	cur := c.quicNow
	nraise := rapid.IntRange(0, 3).Draw(rt, "raises")
	if lowBDP && nraise < 2 {
		nraise = 2
	}
	for n := nraise; n > 0; n-- {
		var bigger []int64
		for _, z := range sizes {
			if z > cur {
				bigger = append(bigger, z)
			}
		}
		if len(bigger) == 0 {
			break
		}
		cur = rapid.SampledFrom(bigger).Draw(rt, "raiseTo")
		c.raises = append(c.raises, v12Raise{at: rapid.Int64Range(0, c.dur*2/3).Draw(rt, "raiseAt"), size: cur})
	}
	sort.Slice(c.raises, func(i, j int) bool { return c.raises[i].at < c.raises[j].at })
	for i := range c.raises { // sizes must grow in time order
		if i > 0 && c.raises[i].size <= c.raises[i-1].size {
			c.raises[i].size, c.raises[i-1].size = c.raises[i-1].size, c.raises[i].size
		}
	}
	c.maxPkts = rapid.SampledFrom([]int64{20000, 20000, 20000, 40, 64, 200, 1000}).Draw(rt, "maxWindowPackets")
	if fastIdle {
		c.maxPkts = 20000
		c.blackouts = nil
		if c.lossInv > 0 && c.lossInv < 1000 {
			c.lossInv = 1000
		}
	}
	c.prePackets = rapid.SampledFrom([]int{0, 0, 1, 3, 10, 40}).Draw(rt, "prePackets")
	c.installAt = int64(float64(c.rtt) * rapid.SampledFrom([]float64{0, 0.5, 1, 1.5, 3}).Draw(rt, "installAfterRTTs"))
	c.cold = c.prePackets == 0 && rapid.IntRange(0, 5).Draw(rt, "cold") == 0
	c.start = int64(time.Hour) + rapid.Int64Range(0, int64(100*time.Hour)).Draw(rt, "start")
	c.firstPN = rapid.Int64Range(0, 3000).Draw(rt, "firstPN")
	c.ackOnlyInv = rapid.SampledFrom([]int{0, 0, 40, 5}).Draw(rt, "ackOnlyEvery")
	c.foreignPN = c.firstPN > 10 && rapid.IntRange(0, 9).Draw(rt, "handshakeSpaceAck") == 0
	nph := rapid.IntRange(1, 5).Draw(rt, "phases")
	for i := 0; i < nph; i++ {
		ph := v12Phase{mode: rapid.SampledFrom([]int{0, 0, 0, 1, 2, 2, 3, 4}).Draw(rt, "phaseMode")}
		ph.dur = int64(v12LogUniform(rt, 2*float64(c.rtt), math.Max(200*float64(c.rtt), 3e9), "phaseDur"))
		switch ph.mode {
		case 1:
			if rapid.Bool().Draw(rt, "longIdle") {
				ph.dur = rapid.Int64Range(1e9, 12e9).Draw(rt, "idleDur")
			}
		case 2: // trickle: small writes
			ph.chunk = rapid.Int64Range(50, 3000).Draw(rt, "chunk")
			ph.every = int64(v12LogUniform(rt, 1e5, 2e8, "every"))
		case 4: // receive-only: nothing to send but ACKs for the peer's data
			ph.every = int64(v12LogUniform(rt, 2e5, 5e7, "ackOnlyEvery"))
			ph.dur = ph.every * rapid.Int64Range(3, 400).Draw(rt, "ackOnlyRun")
		case 3: // bursts: large writes, then silence
			ph.chunk = rapid.Int64Range(10000, 2000000).Draw(rt, "burst")
			ph.every = int64(v12LogUniform(rt, 1e7, 3e9, "burstEvery"))
		}
		c.phases = append(c.phases, ph)
	}
	c.phases[len(c.phases)-1].dur = 1 << 50
	if fastIdle {
		c.phases = nil
		total := 0
		for n := rapid.IntRange(1, 2).Draw(rt, "idleRounds"); n > 0; n-- {
			pk := rapid.IntRange(100, budget/4).Draw(rt, "burstPackets")
			total += pk
			c.phases = append(c.phases, v12Phase{mode: 3, chunk: int64(pk) * 1300, every: 1 << 55,
				dur: max(60*c.rtt, int64(float64(pk)*1300/float64(c.capBps)*4e9), 2e8)})
			switch rapid.IntRange(0, 3).Draw(rt, "idleKind") {
			case 0: // 10 s .. 10 min
				c.phases = append(c.phases, v12Phase{mode: 1, dur: int64(v12LogUniform(rt, 1e10, 6e11, "idleSeconds"))})
			case 1: // hours
				c.phases = append(c.phases, v12Phase{mode: 1, dur: rapid.SampledFrom([]int64{3600e9, 36000e9, 144000e9, 360000e9}).Draw(rt, "idleHours")})
			default: // chosen from the pacer's actual rate: bandwidth x idle = k/1000 x 2^63
				c.phases = append(c.phases, v12Phase{mode: 5, chunk: rapid.SampledFrom([]int64{600, 990, 1010, 1050, 1500, 1950, 1999, 2500, 3300, 17400}).Draw(rt, "overflowPermille")})
			}
		}
		c.phases = append(c.phases, v12Phase{mode: 0, dur: 1 << 50})
		c.maxPackets = total + rapid.IntRange(300, 1500).Draw(rt, "tailPackets")
		c.dur = 1 << 58
	}
	return c
}

func TestVerifC12_Traces(t *testing.T) {
	st := newVStats("TestVerifC12_Traces")
	defer st.Flush()
	var mu sync.Mutex
	maxSlots, maxA0 := 0, 0
	rapid.Check(t, func(rt *rapid.T) {
		cfg := v12GenCfg(rt)
		s := v12Run(rt, st, cfg)
		var cls []string
		add := func(c bool, n string) {
			if c {
				cls = append(cls, n)
			}
		}
		add(true, "profile="+string(cfg.profile))
		add(s.sawModes[bbrModeDrain], "DRAIN")
		add(s.sawModes[bbrModeProbeBw], "PROBE_BW")
		add(s.sawModes[bbrModeProbeRtt], "PROBE_RTT")
		add(s.sawRecovery, "recovery")
		add(s.raisesDone > 0, "mtuRaise")
		add(s.raiseInFlight, "mtuRaiseInFlight")
		add(s.ptoFired > 0, "PTO")
		add(s.lossEvents > 0, "lossEvent")
		add(s.tailDrops > 0, "tailDrop")
		add(s.ghostAcks > 0, "ackForUnseenPacket")
		add(cfg.cold, "coldInstall")
		add(float64(cfg.capBps)*float64(cfg.rtt)/1e9 < 13000, "BDP<=10pkts")
		add(cfg.quicNow > cfg.quicSize0, "quicSizeAheadOfController")
		add(cfg.foreignPN, "handshakeSpacePN")
		add(cfg.maxPkts != 20000, "customMaxWindow")
		add(s.cwndAtMax, "cwnd==max")
		add(s.cwndAtMin, "cwnd==min")
		add(cfg.aggG > 0, "ackAggregation")
		add(len(s.silent) > 0 || s.ptoFired > 0, "silentRemoval")
		add(s.pacerChecks > 0, "pacerWaitChecked")
		add(s.pacerSkipped > 0, "pacerCheckSkipped(>62bit)")
		add(s.sentCount >= cfg.maxPackets, "endedByPacketBudget")
		add(s.longIdleEnded, "longIdle(>=10s)")
		add(s.pacerOverflow > 0, "noBudgetBeyond62bit(progressRule)")
		add(s.beyond63 > 0, "pacerConsultedBeyond2^63")
		add(s.overflowIdles > 0, "idleChosenFromPacerRate")
		add(s.longIdleEnded && s.sentCount > s.sentAtIdleEnd, "resumedAfterLongIdle")
		add(s.maxAckOnlyRun >= 10, "ackOnlyRun>=10")
		add(s.maxAckOnlyRun >= 100, "ackOnlyRun>=100")
		if s.gapExcluded > 0 {
			st.Excluded("ACK-only packet beyond a run of 2 (known finding ackonly-gap)")
		}
		nt := s.sawModes[bbrModeProbeBw] || s.sawModes[bbrModeProbeRtt] || s.sawRecovery || s.raiseInFlight
		mu.Lock()
		if s.maxSlots > maxSlots {
			maxSlots = s.maxSlots
			st.Extra("max_connectionStateMap_slots_seen", maxSlots)
		}
		if s.maxA0 > maxA0 {
			maxA0 = s.maxA0
			st.Extra("max_a0Candidates_seen", maxA0)
		}
		mu.Unlock()
		st.Case(nt, cfg.String(), cls, func() string {
			return fmt.Sprintf("%s -> %d controller calls, %d packets, %d PTOs, %d loss events, peak span %d, max slots %d, max a0 %d",
				cfg, s.ncalls, s.sentCount, s.ptoFired, s.lossEvents, s.peakSpan, s.maxSlots, s.maxA0)
		})
	})
}

// ---- liveness cell: loss-free path of fixed capacity, backlogged sender, queue >= 1 BDP

// v12Theta is the utilisation threshold: half of the minimum utilisation measured on the
// unchanged tree. Measurement (3960 paths, 12 seeds, quick packet budget): min 0.8996, p1 0.9317,
// p10 0.9538, median 0.9987, identical minima for the three profiles (the minimum is the PROBE_RTT
// dip of large-BDP paths falling into the measured half). Each run re-measures its own
// distribution into evidence (extra.utilisation_*).
// Batched-ACK cell (one ACK per 8/16 packets or 5/10/25 ms; 1840 paths measured): min 0.9227, i.e.
// above the plain cell's minimum, so the same theta applies. (One ACK per 32/64 packets with a
// 25 ms timer on ~1 ms paths starves even the unchanged sender - min 0.035 - and is not part of the cell.)
const v12Theta = 0.45

func v12GenLive(rt *rapid.T) *v12Cfg {
	c := &v12Cfg{liveness: true}
	c.seed = rapid.Int64Range(1, 1<<40).Draw(rt, "randSeed")
	c.profile = rapid.SampledFrom(v12Profiles).Draw(rt, "profile")
	budget := 60000.0 // packets
	if v12Thorough() {
		budget = 250000
	}
	if rapid.IntRange(0, 3).Draw(rt, "highCapacity") == 0 {
		// high capacity: PROBE_RTT (10 s) is out of the packet budget; at least 60 RTT
		c.capBps = int64(v12LogUniform(rt, 5e6, 2e8, "capacity"))
		maxRTT := math.Min(3e8, budget*1252/(60*float64(c.capBps))*1e9)
		c.rtt = int64(v12LogUniform(rt, 1e6, math.Max(maxRTT, 1.0001e6), "rtt"))
		c.dur = int64(math.Max(60*float64(c.rtt), math.Min(11e9, budget*1252/float64(c.capBps)*1e9)))
	} else {
		c.capBps = int64(v12LogUniform(rt, 1e5, budget*1252/11, "capacity"))
		c.rtt = int64(v12LogUniform(rt, 1e6, 3e8, "rtt"))
		c.dur = int64(math.Max(11e9, 200*float64(c.rtt)))
		if float64(c.dur)/1e9*float64(c.capBps)/1252 > 1.3*budget { // 200 RTT does not fit: shorten the RTT
			c.rtt = int64(1.3 * budget * 1252 / float64(c.capBps) / 200 * 1e9)
			c.dur = int64(math.Max(11e9, 200*float64(c.rtt)))
		}
	}
	bdp := float64(c.capBps) * float64(c.rtt) / 1e9
	qm := rapid.SampledFrom([]float64{1, 2, 4}).Draw(rt, "queueBDP")
	c.queueBytes = int64(math.Max(qm*bdp, 20*1500))
	c.ackEvery = rapid.SampledFrom([]int{1, 2, 2}).Draw(rt, "ackEvery")
	c.ackDelay = 25e6
	if rapid.IntRange(0, 2).Draw(rt, "batchedAcks") == 0 {
		// receiver / network batches acknowledgements: one ACK covers many packets
		c.ackEvery = rapid.SampledFrom([]int{8, 16}).Draw(rt, "ackEveryBatched") // (32+ packets per ACK with a 25 ms timer on 1 ms paths starves even the unchanged sender)
		c.ackDelay = rapid.SampledFrom([]int64{5e6, 10e6, 25e6}).Draw(rt, "ackGrid")
	}
	c.quicSize0 = rapid.SampledFrom([]int64{1200, 1252, 1280}).Draw(rt, "quicInitialSize")
	c.quicNow = c.quicSize0
	c.ccSeed = c.quicSize0
	if rapid.Bool().Draw(rt, "raise") {
		c.raises = []v12Raise{{at: rapid.Int64Range(0, c.dur/3).Draw(rt, "raiseAt"), size: rapid.SampledFrom([]int64{1350, 1452}).Draw(rt, "raiseTo")}}
	}
	c.maxPkts = 20000
	c.prePackets = rapid.SampledFrom([]int{0, 3, 10}).Draw(rt, "prePackets")
	c.installAt = int64(float64(c.rtt) * rapid.SampledFrom([]float64{0, 1, 1.5}).Draw(rt, "installAfterRTTs"))
	c.start = int64(time.Hour) + rapid.Int64Range(0, int64(100*time.Hour)).Draw(rt, "start")
	c.firstPN = rapid.Int64Range(0, 3000).Draw(rt, "firstPN")
	c.phases = []v12Phase{{mode: 0, dur: 1 << 50}}
	c.maxPackets = 1 << 40
	return c
}

func TestVerifC12_Liveness(t *testing.T) {
	st := newVStats("TestVerifC12_Liveness")
	defer st.Flush()
	theta := v12Theta
	if v := os.Getenv("VERIF_C12_THETA"); v != "" { // measurement runs only
		theta, _ = strconv.ParseFloat(v, 64)
	}
	var mu sync.Mutex
	var utils []float64
	minByProfile := map[Profile]float64{}
	flush := func() {
		if len(utils) == 0 {
			return
		}
		u := append([]float64(nil), utils...)
		sort.Float64s(u)
		q := func(p float64) float64 { return math.Round(u[int(p*float64(len(u)-1))]*1e4) / 1e4 }
		st.Extra("utilisation_min", q(0))
		st.Extra("utilisation_p01", q(0.01))
		st.Extra("utilisation_p10", q(0.10))
		st.Extra("utilisation_p50", q(0.50))
		st.Extra("utilisation_paths", len(u))
		st.Extra("theta", theta)
		for p, v := range minByProfile {
			st.Extra("utilisation_min_"+string(p), math.Round(v*1e4)/1e4)
		}
	}
	defer func() { mu.Lock(); flush(); mu.Unlock() }()
	rapid.Check(t, func(rt *rapid.T) {
		cfg := v12GenLive(rt)
		s := v12Run(rt, st, cfg)
		secondHalf := float64(s.delivered - s.deliveredAtHalf)
		util := secondHalf / (float64(cfg.capBps) * float64(cfg.dur/2) / 1e9)
		mu.Lock()
		if fn := os.Getenv("VERIF_C12_UTILLOG"); fn != "" { // measurement runs: one line per path
			if f, err := os.OpenFile(fn, os.O_APPEND|os.O_CREATE|os.O_WRONLY, 0o644); err == nil {
				fmt.Fprintf(f, "%.5f %s\n", util, cfg)
				f.Close()
			}
		}
		utils = append(utils, util)
		if v, ok := minByProfile[cfg.profile]; !ok || util < v {
			minByProfile[cfg.profile] = util
		}
		mu.Unlock()
		cls := []string{"profile=" + string(cfg.profile)}
		if s.sawModes[bbrModeProbeRtt] {
			cls = append(cls, "PROBE_RTT")
		}
		if s.sawModes[bbrModeProbeBw] {
			cls = append(cls, "PROBE_BW")
		}
		if cfg.dur < 10e9 {
			cls = append(cls, "highCapacityShort")
		}
		if s.tailDrops > 0 {
			cls = append(cls, "queueOverflow")
		}
		if s.raisesDone > 0 {
			cls = append(cls, "mtuRaise")
		}
		cls = append(cls, fmt.Sprintf("util>=%.1f", math.Floor(util*10)/10))
		st.Case(true, cfg.String(), cls, func() string {
			return fmt.Sprintf("%s -> utilisation of the second half %.4f (%d packets, %d tail drops)", cfg, util, s.sentCount, s.tailDrops)
		})
		if cfg.ackEvery > 2 {
			cls = append(cls, "batchedAcks")
		}
		if util < theta {
			s.fail("liveness: on a loss-free path of %d B/s (RTT %v, queue %d B) the second half of %v carried %.0f bytes = %.4f of capacity (< theta %.2f)",
				cfg.capBps, time.Duration(cfg.rtt), cfg.queueBytes, time.Duration(cfg.dur), secondHalf, util, theta)
		}
	})
}

// ---- regression: a run of ACK-only packets between two ack-eliciting packets

// A peer that mostly receives sends long runs of ACK-only packets (not ack-eliciting, not
// tracked by the sampler, but each consumes a packet number). The per-packet bookkeeping must
// stay proportional to the packets in flight, not to the packet-number distance.
func v12AckOnlyGapSlots(n int, profile Profile) (slots int, inFlightSpan int64, history string) {
	now := int64(time.Hour)
	rtt := v12NewRTT()
	b := NewBbrSender(v12Clock{&now}, 1252, profile)
	b.SetRTTStatsProvider(rtt)
	b.OnPacketSent(monotime.Time(now), 1252, 0, 1252, true)
	now += int64(20 * time.Millisecond)
	rtt.UpdateRTT(20*time.Millisecond, 0)
	b.OnCongestionEventEx(1252, monotime.Time(now), []congestion.AckedPacketInfo{{PacketNumber: 0, BytesAcked: 1252}}, nil)
	for i := 1; i <= n; i++ {
		now += int64(time.Millisecond)
		b.OnPacketSent(monotime.Time(now), 0, congestion.PacketNumber(i), 40, false)
	}
	now += int64(time.Millisecond)
	b.OnPacketSent(monotime.Time(now), 1252, congestion.PacketNumber(n+1), 1252, true)
	return b.sampler.connectionStateMap.EntrySlotsUsed(), 1,
		fmt.Sprintf("OnPacketSent(pn=0,1252,retransmittable) ; +20ms OnCongestionEventEx(prior=1252, acked=[0:1252]) ; %d x OnPacketSent(pn=1..%d, 40 bytes, NOT retransmittable, inflight=0) ; OnPacketSent(pn=%d,1252,retransmittable, inflight=1252)", n, n, n+1)
}

func TestVerifC12_Regress_AckOnlyGap(t *testing.T) {
	st := newVStats("TestVerifC12_Regress_AckOnlyGap")
	defer st.Flush()
	for _, p := range v12Profiles {
		for _, n := range []int{3, 50, 1000, 20000} {
			slots, span, hist := v12AckOnlyGapSlots(n, p)
			st.Case(true, fmt.Sprintf("%s/%d", p, n), []string{"ackOnlyRun"}, func() string {
				return fmt.Sprintf("profile=%s ackOnlyRun=%d -> %d slots for %d packet in flight", p, n, slots, span)
			})
			if int64(slots) > 2*span+8 {
				t.Fatalf("C12: sampler keeps %d per-packet slots for %d packet in flight (bound 2*span+8) after a run of %d ACK-only packets; profile=%s\n history: %s", slots, span, n, p, hist)
			}
		}
	}
}
