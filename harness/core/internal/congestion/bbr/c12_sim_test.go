package bbr

// C12 — discrete-event bottleneck simulator + mini sent-packet handler.
//
// The handler re-implements, from quic-go's internal/ackhandler/sent_packet_handler.go and
// connection.go (the fork pinned in core/go.mod), exactly the part that talks to a congestion
// controller, so every call the controller sees is one QUIC can produce:
//
//   SentPacket      OnPacketSent(t, bytesInFlight (already including the packet iff ack-eliciting), pn, size, ackEliciting)
//   ReceivedAck     newly acked packets ascending; RTT sample only if the largest acked is newly acked and
//                   ack-eliciting; MaybeExitSlowStart; loss detection (packet threshold 3 minus skipped PNs,
//                   time threshold 9/8 max(latest,smoothed) >= 1 ms) with OnCongestionEvent per lost
//                   non-MTU-probe packet; OnPacketAcked per acked in-flight packet; then ONE
//                   OnCongestionEventEx(priorInFlight, rcvTime, acked, lost) unless both lists are empty;
//                   afterwards SetMaxDatagramSize if an MTU probe was acknowledged (size only grows)
//   loss timer      detectLostPackets, OnCongestionEventEx(prior, now, nil, lost) if any
//   PTO             packet number skipped, two probes; each probe first declares the oldest outstanding
//                   packet lost WITHOUT telling the controller, then sends a packet bypassing window and pacer
//   send loop       SendMode: probes -> CanSend(inflight) -> HasPacingBudget(now) -> send; when pacing limited the
//                   connection sleeps until TimeUntilSend() (0 = "immediately"); ACK-only packets are not
//                   ack-eliciting, consume a packet number and are sent even when limited
//   install         the controller is installed after the handshake: packets it never saw are in flight and
//                   get acknowledged, RTT statistics already exist
//
// No wall clock: bbrSender reads its Clock only in the constructor (virtual here), debug printing is off.

import (
	"container/heap"
	"fmt"
	"math/rand"
	"os"
	"strings"
	"time"

	"github.com/apernet/quic-go/congestion"
	"github.com/apernet/quic-go/monotime"
	"pgregory.net/rapid"
)

type v12Clock struct{ t *int64 }

func (c v12Clock) Now() monotime.Time { return monotime.Time(*c.t) }

// ---- RFC 9002 RTT estimator (own implementation of congestion.RTTStatsProvider)

type v12RTT struct {
	has                                   bool
	min, latest, smoothed, dev, maxAckDel time.Duration
}

func v12NewRTT() *v12RTT {
	return &v12RTT{min: 100 * time.Millisecond, latest: 100 * time.Millisecond, smoothed: 100 * time.Millisecond, maxAckDel: 25 * time.Millisecond}
}
func (r *v12RTT) MinRTT() time.Duration        { return r.min }
func (r *v12RTT) LatestRTT() time.Duration     { return r.latest }
func (r *v12RTT) SmoothedRTT() time.Duration   { return r.smoothed }
func (r *v12RTT) MeanDeviation() time.Duration { return r.dev }
func (r *v12RTT) MaxAckDelay() time.Duration   { return r.maxAckDel }
func (r *v12RTT) PTO(incl bool) time.Duration {
	if !r.has {
		return 200 * time.Millisecond
	}
	p := r.smoothed + max(4*r.dev, time.Millisecond)
	if incl {
		p += r.maxAckDel
	}
	return p
}
func (r *v12RTT) UpdateRTT(sendDelta, ackDelay time.Duration) {
	if sendDelta <= 0 {
		return
	}
	if !r.has || r.min > sendDelta {
		r.min = sendDelta
	}
	sample := sendDelta
	if sample-r.min >= ackDelay {
		sample -= ackDelay
	}
	r.latest = sample
	if !r.has {
		r.has = true
		r.smoothed, r.dev = sample, sample/2
		return
	}
	d := r.smoothed - sample
	if d < 0 {
		d = -d
	}
	r.dev = (3*r.dev + d) / 4
	r.smoothed = (7*r.smoothed + sample) / 8
}
func (r *v12RTT) SetMaxAckDelay(d time.Duration) { r.maxAckDel = d }
func (r *v12RTT) SetInitialRTT(d time.Duration) {
	if !r.has {
		r.smoothed, r.latest = d, d
	}
}

// ---- configuration of one trace

type v12Phase struct {
	dur  int64 // ns
	mode int   // 0 backlogged, 1 idle, 2 trickle, 3 bursts, 4 receive-only (a run of ACK-only packets every `every` ns),
	// 5 idle until pacing bandwidth x time since the last send = chunk/1000 x 2^63 (chosen from the actual pacer rate)
	chunk int64 // bytes per write (trickle/bursts)
	every int64 // ns between writes
}

type v12Raise struct {
	at   int64 // ns after start
	size int64
}

type v12Cfg struct {
	seed       int64
	profile    Profile
	capBps     int64
	rtt        int64
	queueBytes int64
	lossInv    int // mean packets between random losses (0 = none)
	blackouts  [][2]int64
	ackEvery   int
	ackDelay   int64
	aggG       int64
	ackLossInv int
	reorderInv int
	quicSize0  int64
	quicNow    int64 // size QUIC already uses when the controller is installed (>= quicSize0: MTU discovery may have run)
	ccSeed     int64 // datagram size the controller is seeded with
	raises     []v12Raise
	maxPkts    int64 // maximum window in packets (20000 = NewBbrSender)
	prePackets int
	installAt  int64
	cold       bool
	start      int64
	firstPN    int64
	phases     []v12Phase
	maxPackets int
	dur        int64
	ackOnlyInv int
	foreignPN  bool
	ackJitter  int64
	liveness   bool
}

func (c *v12Cfg) String() string {
	return fmt.Sprintf("profile=%s cap=%dB/s rtt=%v queue=%dB lossEvery~%d blackouts=%v ackEvery=%d ackDelay=%v agg=%v ackLossEvery~%d reorderEvery~%d quicSize0=%d quicNow=%d ccSeed=%d raises=%v maxWindowPkts=%d pre=%d installAt=%v cold=%v firstPN=%d phases=%v maxPackets=%d dur=%v ackOnlyEvery~%d foreignPN=%v ackJitter=%d randSeed=%d",
		c.profile, c.capBps, time.Duration(c.rtt), c.queueBytes, c.lossInv, c.blackouts, c.ackEvery, time.Duration(c.ackDelay), time.Duration(c.aggG), c.ackLossInv, c.reorderInv,
		c.quicSize0, c.quicNow, c.ccSeed, c.raises, c.maxPkts, c.prePackets, time.Duration(c.installAt), c.cold, c.firstPN, c.phases, c.maxPackets, time.Duration(c.dur), c.ackOnlyInv, c.foreignPN, c.ackJitter, c.seed)
}

// ---- events

type v12Ev struct {
	t    int64
	seq  int64
	kind uint8 // 0 packet arrives at receiver, 1 ACK frame arrives at sender
	a    int64 // pn / frame index
	b    int64 // size (arrival), 1 = eliciting in c
	c    int64
}
type v12Heap []v12Ev

func (h v12Heap) Len() int { return len(h) }
func (h v12Heap) Less(i, j int) bool {
	if h[i].t != h[j].t {
		return h[i].t < h[j].t
	}
	return h[i].seq < h[j].seq
}
func (h v12Heap) Swap(i, j int) { h[i], h[j] = h[j], h[i] }
func (h *v12Heap) Push(x any)   { *h = append(*h, x.(v12Ev)) }
func (h *v12Heap) Pop() any {
	o := *h
	x := o[len(o)-1]
	*h = o[:len(o)-1]
	return x
}

type v12Pkt struct {
	pn, sendTime, size int64
	eliciting, flight  bool
	mtuProbe           bool
	newSize            int64
}

type v12Frame struct {
	upTo      int32 // arrivals [0,upTo) are covered
	largest   int64
	ackDelay  int64
	delivered bool
}

type v12Call struct {
	op         string
	t          int64
	a, b, c, d int64
	extra      string
	acked      []congestion.AckedPacketInfo
	lost       []congestion.LostPacketInfo
}

// ---- simulator state

type v12Sim struct {
	rt  *rapid.T
	st  *vStats
	cfg *v12Cfg
	now int64
	b   *bbrSender
	rtt *v12RTT

	// sender / handler
	hist             []*v12Pkt // index = pn - histFirst; nil = acked, lost or skipped
	histFirst        int64
	nextPN           int64
	skipped          []int64 // all skipped packet numbers (ascending)
	largestSent      int64
	largestAcked     int64
	largestAckedTim  int64
	inflight         int64
	lossTime         int64
	lastEliciting    int64
	ptoCount         uint
	probesToSend     int
	alarm            int64
	pacingDeadline   int64
	quicSize         int64
	ccMDS            int64
	raiseIdx         int
	probeOutstanding bool
	silent           []int64 // PNs removed from flight without telling the controller
	maxReported      int64
	spanBefore       int64 // span of outstanding packets when the current ACK / timer started to be processed
	lastSendT        int64
	sentCount        int
	ackOnlyCountdown int

	// application
	appAvail  int64
	phaseIdx  int
	phaseEnd  int64
	nextWrite int64

	// path + receiver
	evs              v12Heap
	seq              int64
	busyUntil        int64
	lossCountdown    int
	reorderCountdown int
	ackLossCountdown int
	recvIdx          []int32 // index = pn - cfg.firstPN
	arrivals         int32
	rLargest         int64
	rLargestAt       int64
	rUnacked         int
	rTimer           int64
	frames           []v12Frame
	lastFrameDue     int64
	delivered        int64 // ack-eliciting payload bytes that reached the receiver
	deliveredAtHalf  int64
	halfTaken        bool

	// bookkeeping for oracles / evidence
	calls                     []v12Call
	ncalls                    int
	peakSpan                  int64
	recentSpans               [16]int64 // span just before each of the last 16 feedback events
	recentIdx                 int
	sawModes                  [4]bool
	sawRecovery               bool
	raiseInFlight             bool
	raisesDone                int
	ptoFired                  int
	tailDrops                 int
	probeTries                int
	lossEvents                int
	ghostAcks                 int
	pacerChecks, pacerSkipped int
	pacerOverflow             int // pacer queried with bandwidth x idle beyond 62 bits
	beyond63                  int // pacer consulted with bandwidth x idle >= 2^63
	overflowIdles             int // idle phases long enough for bandwidth x idle >= 2^63
	sentAtIdleEnd             int // packets sent when the last long idle ended
	longIdleEnded             bool
	idleEndAt                 int64
	end                       int64 // end of the trace (extended by adaptive idle phases)
	stuck                     string
	failing                   bool
	knownGap                  bool // known finding "ackonly-gap": long runs of ACK-only packets are excluded by construction
	ackOnlyRun, maxAckOnlyRun int
	gapExcluded               int
	maxSlots                  int
	maxA0                     int
	cwndAtMax, cwndAtMin      bool
}

func (s *v12Sim) log(op string, a, b, c, d int64, extra string) {
	s.ncalls++
	if len(s.calls) >= 400 {
		copy(s.calls, s.calls[200:])
		s.calls = s.calls[:200]
	}
	s.calls = append(s.calls, v12Call{op: op, t: s.now, a: a, b: b, c: c, d: d, extra: extra})
}

// guard runs controller code; a panic inside it is a violation (rapid's own panics pass through)
func (s *v12Sim) guard(where string, f func()) {
	defer func() {
		if r := recover(); r != nil {
			if s.failing {
				panic(r)
			}
			s.fail("controller panicked in %s: %v", where, r)
		}
	}()
	f()
}

func (s *v12Sim) render() string {
	var sb strings.Builder
	fmt.Fprintf(&sb, "%d controller calls in total; last %d:\n", s.ncalls, len(s.calls))
	for _, c := range s.calls {
		switch c.op {
		case "OnPacketSent":
			fmt.Fprintf(&sb, " %d OnPacketSent(inflight=%d,pn=%d,size=%d,retransmittable=%d)\n", c.t, c.a, c.b, c.c, c.d)
		case "OnCongestionEventEx":
			fmt.Fprintf(&sb, " %d OnCongestionEventEx(prior=%d, acked=%s lost=%s)\n", c.t, c.a, v12PNs(c.acked, nil), v12PNs(nil, c.lost))
		default:
			fmt.Fprintf(&sb, " %d %s(%d,%d) %s\n", c.t, c.op, c.a, c.b, c.extra)
		}
	}
	return sb.String()
}

func (s *v12Sim) fail(format string, a ...any) {
	msg := fmt.Sprintf(format, a...)
	state := ""
	if s.b != nil {
		state = fmt.Sprintf("mode=%d recovery=%d cwnd=%d recoveryWindow=%d min=%d max=%d pacingRate=%d maxBw=%d minRtt=%v mds=%d slots=%d a0=%d",
			s.b.mode, s.b.recoveryState, s.b.congestionWindow, s.b.recoveryWindow, s.b.minCongestionWindow, s.b.maxCongestionWindow,
			s.b.pacingRate, s.b.maxBandwidth.GetBest(), s.b.minRtt, s.b.maxDatagramSize,
			s.b.sampler.connectionStateMap.EntrySlotsUsed(), s.b.sampler.a0Candidates.Len())
	}
	full := fmt.Sprintf("C12: %s\n at t=%d (+%v) inflight=%d largestSent=%d largestAcked=%d ccMDS=%d quicSize=%d\n %s\n config: %s\n %s",
		msg, s.now, time.Duration(s.now-s.cfg.start), s.inflight, s.largestSent, s.largestAcked, s.ccMDS, s.quicSize, state, s.cfg, s.render())
	_ = os.WriteFile("c12_last_failure.txt", []byte(full), 0o644)
	if s.st != nil {
		s.st.Case(false, "failed", []string{"FAILED"}, func() string { return msg })
	}
	s.failing = true
	s.rt.Fatalf("%s", full)
}

func (s *v12Sim) draw(label string, lo, hi int) int {
	if hi <= lo {
		return lo
	}
	return rapid.IntRange(lo, hi).Draw(s.rt, label)
}

// geometric-ish gap with the given mean, one rapid draw per event instead of one per packet
func (s *v12Sim) gap(label string, mean int) int {
	if mean <= 0 {
		return 1 << 30
	}
	return s.draw(label, 1, 2*mean-1)
}

// ---- oracles evaluated after every controller call

func (s *v12Sim) lowestOutstanding() (int64, bool) {
	lo, ok := int64(0), false
	for i, p := range s.hist {
		if p != nil && p.flight {
			lo, ok = s.histFirst+int64(i), true
			break
		}
	}
	for _, pn := range s.silent {
		if !ok || pn < lo {
			lo, ok = pn, true
		}
	}
	return lo, ok
}

func (s *v12Sim) span() int64 {
	lo, ok := s.lowestOutstanding()
	if !ok {
		return 0
	}
	return s.largestSent - lo + 1
}

func (s *v12Sim) check(where string) {
	if s.b == nil {
		return
	}
	s.guard("observers after "+where, func() { s.check0(where) })
}

func (s *v12Sim) check0(where string) {
	b := s.b
	mds := s.ccMDS
	w := int64(b.GetCongestionWindow())
	if w < 4*mds {
		s.fail("after %s: congestion window %d < 4 datagrams (%d)", where, w, 4*mds)
	}
	if w > s.cfg.maxPkts*mds {
		s.fail("after %s: congestion window %d > maximum window %d (= %d datagrams of %d)", where, w, s.cfg.maxPkts*mds, s.cfg.maxPkts, mds)
	}
	if w == 4*mds {
		s.cwndAtMin = true
	}
	if w == s.cfg.maxPkts*mds {
		s.cwndAtMax = true
	}
	if bw := int64(b.bandwidthForPacer()); bw < 65536 {
		s.fail("after %s: pacing bandwidth %d B/s < 65536", where, bw)
	}
	sp := s.span()
	if sp > s.peakSpan {
		s.peakSpan = sp
	}
	slots := b.sampler.connectionStateMap.EntrySlotsUsed()
	if slots > s.maxSlots {
		s.maxSlots = slots
	}
	// entries of packets that were acknowledged or lost stay until the next feedback moves past them,
	// so "in flight" means: now, or just before one of the last few feedback events
	ref := sp
	for _, r := range s.recentSpans {
		if r > ref {
			ref = r
		}
	}
	if int64(slots) > 2*ref+8 {
		s.fail("after %s: sampler keeps %d per-packet slots; packets in flight span %d packet numbers now and at most %d just before any of the last 16 feedback events (bound 2*span+8)", where, slots, sp, ref)
	}
	a0 := b.sampler.a0Candidates.Len()
	if a0 > s.maxA0 {
		s.maxA0 = a0
	}
	if int64(a0) > 2*s.peakSpan+8 {
		s.fail("after %s: sampler keeps %d ack-point candidates; the largest span of packets ever in flight was %d (bound 2*peak+8)", where, a0, s.peakSpan)
	}
	s.sawModes[b.mode] = true
	if b.InRecovery() {
		s.sawRecovery = true
	}
	s.checkPacer(where)
}

// pacer progress (C11 iv): applicable while rate x gap stays inside 62 bits
func (s *v12Sim) checkPacer(where string) (wake int64, limited bool) {
	b := s.b
	now := monotime.Time(s.now)
	bw := uint64(b.bandwidthForPacer())
	if s.lastSendT != 0 && float64(bw)*float64(s.now-s.lastSendT) >= 9.223372036854775807e18 {
		s.beyond63++ // evidence: the pacer was consulted with bandwidth x idle >= 2^63
	}
	if b.HasPacingBudget(now) {
		return 0, false
	}
	w := int64(b.TimeUntilSend(congestion.ByteCount(s.inflight)))
	if s.lastSendT != 0 && bw > 0 && uint64(s.now-s.lastSendT) >= (uint64(1)<<62)/bw {
		// bandwidth x idle time no longer fits 62 bits (long idle on a fast connection). The exact
		// announced time is not asserted there, only progress: quic-go re-arms a timer that is in the
		// past immediately, so the sender must have budget for a datagram at the latest after the
		// time one datagram takes at the pacing bandwidth (+1 ms granularity).
		s.pacerOverflow++
		g := int64(uint64(s.ccMDS)*1000000000/bw) + int64(time.Millisecond)
		if w > s.now && b.HasPacingBudget(monotime.Time(w)) {
			return w, true
		}
		if !b.HasPacingBudget(monotime.Time(s.now + g)) {
			s.fail("after %s: idle for %v at pacing bandwidth %d B/s: HasPacingBudget(now)=false, TimeUntilSend()=%d is not a usable future time (now %d) and there is still no budget %v later: the send loop can never send again",
				where, time.Duration(s.now-s.lastSendT), bw, w, s.now, time.Duration(g))
		}
		return s.now + g, true
	}
	s.pacerChecks++
	if w == 0 {
		s.fail("after %s: HasPacingBudget(now)=false but TimeUntilSend()=0 (quic-go sends 'immediately' and spins)", where)
	}
	if w <= s.now {
		s.fail("after %s: HasPacingBudget(now)=false but the announced time %d is not in the future", where, w)
	}
	if !b.HasPacingBudget(monotime.Time(w)) {
		s.fail("after %s: waiting until the announced time %d does not yield budget for a full datagram", where, w)
	}
	return w, true
}

// ---- controller wrapper

func (s *v12Sim) ccSent(p *v12Pkt) {
	s.lastSendT = s.now
	if s.b == nil {
		return
	}
	r := int64(0)
	if p.eliciting {
		r = 1
	}
	s.log("OnPacketSent", s.inflight, p.pn, p.size, r, "")
	s.guard("OnPacketSent", func() {
		s.b.OnPacketSent(monotime.Time(s.now), congestion.ByteCount(s.inflight), congestion.PacketNumber(p.pn), congestion.ByteCount(p.size), p.eliciting)
	})
	s.check("OnPacketSent")
}

func (s *v12Sim) install() {
	c := s.cfg
	rand.Seed(c.seed)
	clk := v12Clock{&s.now}
	s.guard("NewBbrSender", func() {
		if c.maxPkts == int64(congestion.MaxCongestionWindowPackets) {
			s.b = NewBbrSender(clk, congestion.ByteCount(c.ccSeed), c.profile)
		} else {
			s.b = newBbrSender(clk, congestion.ByteCount(c.ccSeed), initialCongestionWindowPackets*congestion.ByteCount(c.ccSeed),
				congestion.ByteCount(c.maxPkts*c.ccSeed), c.profile)
		}
		s.b.SetRTTStatsProvider(s.rtt)
	})
	s.ccMDS = c.ccSeed
	s.log("install", c.ccSeed, s.inflight, 0, 0, fmt.Sprintf("profile=%s minRTT=%v", c.profile, s.rtt.MinRTT()))
	s.check("install")
}

// ---- sent packet handler

func (s *v12Sim) histAppend(p *v12Pkt) {
	if len(s.hist) == 0 {
		s.histFirst = p.pn
	}
	for s.histFirst+int64(len(s.hist)) < p.pn {
		s.hist = append(s.hist, nil)
	}
	s.hist = append(s.hist, p)
}

func (s *v12Sim) histTrim() {
	i := 0
	for i < len(s.hist) && s.hist[i] == nil {
		i++
	}
	if i > 0 {
		s.hist = s.hist[i:]
		s.histFirst += int64(i)
	}
	if len(s.hist) == 0 {
		s.hist = s.hist[:0]
	}
}

func (s *v12Sim) hasOutstanding() bool {
	for _, p := range s.hist {
		if p != nil && p.flight {
			return true
		}
	}
	return false
}

func (s *v12Sim) skipPN() {
	s.skipped = append(s.skipped, s.nextPN)
	s.nextPN++
}

func (s *v12Sim) sendPacket(size int64, eliciting, mtuProbe bool, newSize int64) {
	if eliciting {
		s.ackOnlyRun = 0
	} else {
		if s.knownGap && s.ackOnlyRun >= 2 {
			s.gapExcluded++
			return
		}
		s.ackOnlyRun++
		if s.ackOnlyRun > s.maxAckOnlyRun {
			s.maxAckOnlyRun = s.ackOnlyRun
		}
	}
	// random packet-number skipping (anti optimistic-ACK), about every few hundred packets
	if s.sentCount > 0 && s.sentCount%311 == 0 && (len(s.skipped) == 0 || s.skipped[len(s.skipped)-1] != s.nextPN-1) {
		s.skipPN()
	}
	p := &v12Pkt{pn: s.nextPN, sendTime: s.now, size: size, eliciting: eliciting, mtuProbe: mtuProbe, newSize: newSize}
	s.nextPN++
	s.largestSent = p.pn
	s.sentCount++
	if eliciting {
		s.lastEliciting = s.now
		s.inflight += size
		p.flight = true
		if s.probesToSend > 0 {
			s.probesToSend--
		}
	}
	s.histAppend(p) // (quic-go adds it to the history after OnPacketSent; the order is invisible to the controller)
	s.ccSent(p)
	s.pathSend(p)
	if eliciting {
		s.setTimer()
	}
}

func (s *v12Sim) skippedBetween(lo, hi int64) int64 { // skipped PNs p with lo < p < hi
	n := int64(0)
	for i := len(s.skipped) - 1; i >= 0; i-- {
		p := s.skipped[i]
		if p <= lo {
			break
		}
		if p < hi {
			n++
		}
	}
	return n
}

// detectLostPackets; returns the lost list for OnCongestionEventEx
func (s *v12Sim) detectLost() []congestion.LostPacketInfo {
	s.lossTime = 0
	maxRTT := max(s.rtt.LatestRTT(), s.rtt.SmoothedRTT())
	lossDelay := max(time.Duration(float64(maxRTT)*9.0/8), time.Millisecond)
	lostSendTime := s.now - int64(lossDelay)
	prior := s.inflight
	var lost []congestion.LostPacketInfo
	for i, p := range s.hist {
		pn := s.histFirst + int64(i)
		if pn > s.largestAcked {
			break
		}
		if p == nil {
			continue
		}
		isLost := false
		if p.sendTime <= lostSendTime {
			isLost = true
		} else if (s.largestAcked-pn)-s.skippedBetween(pn, s.largestAcked) >= 3 {
			isLost = true
		} else if s.lossTime == 0 {
			s.lossTime = p.sendTime + int64(lossDelay)
		}
		if !isLost {
			continue
		}
		s.hist[i] = nil
		if p.eliciting && p.flight {
			s.inflight -= p.size
			p.flight = false
			s.appAvail += p.size // frames are queued for retransmission
			if p.mtuProbe {
				s.probeOutstanding = false
				s.appAvail -= p.size
			} else if s.b != nil {
				s.guard("OnCongestionEvent", func() {
					s.b.OnCongestionEvent(congestion.PacketNumber(pn), congestion.ByteCount(p.size), congestion.ByteCount(prior))
				})
			}
			lost = append(lost, congestion.LostPacketInfo{PacketNumber: congestion.PacketNumber(pn), BytesLost: congestion.ByteCount(p.size)})
		}
	}
	s.histTrim()
	return lost
}

func (s *v12Sim) ccEventEx(prior int64, acked []congestion.AckedPacketInfo, lost []congestion.LostPacketInfo) {
	if len(acked)+len(lost) == 0 {
		return
	}
	for _, a := range acked {
		if int64(a.PacketNumber) > s.maxReported {
			s.maxReported = int64(a.PacketNumber)
		}
	}
	for _, l := range lost {
		if int64(l.PacketNumber) > s.maxReported {
			s.maxReported = int64(l.PacketNumber)
		}
	}
	if len(lost) > 0 {
		s.lossEvents++
	}
	// packets that silently left the flight are obsolete once feedback has moved past them
	k := 0
	for _, pn := range s.silent {
		if pn >= s.maxReported-2 {
			s.silent[k] = pn
			k++
		}
	}
	s.silent = s.silent[:k]
	if s.b == nil {
		return
	}
	// harness self-check: the event must be QUIC-consistent
	var ab, lb int64
	for i, a := range acked {
		ab += int64(a.BytesAcked)
		if i > 0 && acked[i-1].PacketNumber >= a.PacketNumber || int64(a.PacketNumber) > s.largestSent {
			vInconclusive("harness bug: acked list not ascending / beyond largest sent")
		}
	}
	for i, l := range lost {
		lb += int64(l.BytesLost)
		if i > 0 && lost[i-1].PacketNumber >= l.PacketNumber || int64(l.PacketNumber) > s.largestSent {
			vInconclusive("harness bug: lost list not ascending / beyond largest sent")
		}
	}
	if prior-ab-lb != s.inflight || s.inflight < 0 {
		vInconclusive(fmt.Sprintf("harness bug: priorInFlight %d - acked %d - lost %d != bytes in flight %d", prior, ab, lb, s.inflight))
	}
	s.log("OnCongestionEventEx", prior, 0, 0, 0, "")
	s.recentSpans[s.recentIdx%len(s.recentSpans)] = s.spanBefore
	s.recentIdx++
	lc := &s.calls[len(s.calls)-1]
	lc.acked = append([]congestion.AckedPacketInfo(nil), acked...)
	lc.lost = append([]congestion.LostPacketInfo(nil), lost...)
	s.guard("OnCongestionEventEx", func() {
		s.b.OnCongestionEventEx(congestion.ByteCount(prior), monotime.Time(s.now), acked, lost)
	})
	s.check("OnCongestionEventEx")
}

func v12PNs(a []congestion.AckedPacketInfo, l []congestion.LostPacketInfo) string {
	var sb strings.Builder
	sb.WriteByte('[')
	n := len(a) + len(l)
	for i := 0; i < n; i++ {
		var pn, sz int64
		if a != nil {
			pn, sz = int64(a[i].PacketNumber), int64(a[i].BytesAcked)
		} else {
			pn, sz = int64(l[i].PacketNumber), int64(l[i].BytesLost)
		}
		if n > 12 && i >= 5 && i < n-5 {
			if i == 5 {
				fmt.Fprintf(&sb, "...%d more... ", n-10)
			}
			continue
		}
		fmt.Fprintf(&sb, "%d:%d ", pn, sz)
	}
	sb.WriteByte(']')
	return sb.String()
}

func (s *v12Sim) covered(pn int64, f *v12Frame) bool {
	i := pn - s.cfg.firstPN
	if i < 0 || i >= int64(len(s.recvIdx)) {
		return false
	}
	r := s.recvIdx[i]
	return r >= 0 && r < f.upTo
}

func (s *v12Sim) receivedAck(f *v12Frame) {
	if f.largest > s.largestSent {
		vInconclusive("harness bug: ACK for an unsent packet")
	}
	prior := s.inflight
	s.spanBefore = s.span()
	var newly []*v12Pkt
	hasEliciting := false
	for i, p := range s.hist {
		pn := s.histFirst + int64(i)
		if pn > f.largest {
			break
		}
		if p == nil || !s.covered(pn, f) {
			continue
		}
		newly = append(newly, p)
		if p.eliciting {
			hasEliciting = true
		}
		s.hist[i] = nil
	}
	if len(newly) == 0 {
		return
	}
	s.histTrim()
	if last := newly[len(newly)-1]; last.pn == f.largest && hasEliciting {
		ackDelay := min(time.Duration(f.ackDelay), s.rtt.MaxAckDelay())
		if s.largestAckedTim == 0 || last.sendTime >= s.largestAckedTim {
			s.rtt.UpdateRTT(time.Duration(s.now-last.sendTime), ackDelay)
			s.largestAckedTim = last.sendTime
		}
		if s.b != nil {
			s.guard("MaybeExitSlowStart", func() { s.b.MaybeExitSlowStart() })
		}
	}
	if f.largest > s.largestAcked {
		s.largestAcked = f.largest
	}
	lost := s.detectLost()
	var acked []congestion.AckedPacketInfo
	var raisedTo int64
	for _, p := range newly {
		if p.flight {
			if s.b != nil {
				s.guard("OnPacketAcked", func() {
					s.b.OnPacketAcked(congestion.PacketNumber(p.pn), congestion.ByteCount(p.size), congestion.ByteCount(prior), monotime.Time(s.now))
				})
			}
			acked = append(acked, congestion.AckedPacketInfo{PacketNumber: congestion.PacketNumber(p.pn), BytesAcked: congestion.ByteCount(p.size)})
			s.inflight -= p.size
			p.flight = false
			if p.sendTime < s.cfg.start+s.cfg.installAt {
				s.ghostAcks++
			}
		}
		if p.mtuProbe {
			s.probeOutstanding = false
			if p.newSize > raisedTo {
				raisedTo = p.newSize
			}
		}
	}
	s.ccEventEx(prior, acked, lost)
	s.ptoCount = 0
	s.probesToSend = 0
	s.setTimer()
	if raisedTo > s.quicSize {
		s.quicSize = raisedTo
		s.probeTries = 0
		if s.b != nil {
			if s.inflight > 0 {
				s.raiseInFlight = true
			}
			s.raisesDone++
			s.log("SetMaxDatagramSize", raisedTo, 0, 0, 0, "")
			s.guard("SetMaxDatagramSize", func() { s.b.SetMaxDatagramSize(congestion.ByteCount(raisedTo)) })
			s.ccMDS = raisedTo
			s.check("SetMaxDatagramSize")
		}
	}
}

func (s *v12Sim) setTimer() {
	if !s.hasOutstanding() {
		s.alarm = 0
		return
	}
	if s.lossTime != 0 {
		s.alarm = s.lossTime
		return
	}
	pto := s.rtt.PTO(true) << s.ptoCount
	if pto > 60*time.Second || pto <= 0 {
		pto = 60 * time.Second
	}
	s.alarm = s.lastEliciting + int64(pto)
}

func (s *v12Sim) onAlarm() {
	if s.lossTime != 0 {
		prior := s.inflight
		s.spanBefore = s.span()
		lost := s.detectLost()
		s.ccEventEx(prior, nil, lost)
		s.setTimer()
		return
	}
	if !s.hasOutstanding() {
		s.setTimer()
		return
	}
	s.ptoCount++
	s.ptoFired++
	s.probesToSend += 2
	s.skipPN() // elicits an immediate ACK
	s.setTimer()
}

// QueueProbePacket + PTO probe: the oldest outstanding packet leaves the flight silently
func (s *v12Sim) sendProbe() {
	size := int64(40)
	for i, p := range s.hist {
		if p != nil && p.flight {
			s.hist[i] = nil
			s.inflight -= p.size
			p.flight = false
			s.silent = append(s.silent, p.pn)
			if p.mtuProbe {
				s.probeOutstanding = false
			} else {
				size = min(p.size, s.quicSize)
			}
			s.log("(silent) QueueProbePacket", p.pn, p.size, 0, 0, "")
			break
		}
	}
	s.histTrim()
	s.sendPacket(size, true, false, 0)
}

const (
	v12SendAny = iota
	v12SendAck
	v12SendPacing
	v12SendPTO
)

func (s *v12Sim) sendMode() (m int) {
	if s.probesToSend > 0 {
		return v12SendPTO
	}
	s.guard("CanSend/HasPacingBudget", func() {
		if s.lastSendT != 0 && float64(s.b.bandwidthForPacer())*float64(s.now-s.lastSendT) >= 9.223372036854775807e18 {
			s.beyond63++
		}
		switch {
		case !s.b.CanSend(congestion.ByteCount(s.inflight)):
			m = v12SendAck
		case !s.b.HasPacingBudget(monotime.Time(s.now)):
			m = v12SendPacing
		default:
			m = v12SendAny
		}
	})
	return m
}

func (s *v12Sim) maybeAckOnly() {
	if s.cfg.ackOnlyInv == 0 {
		return
	}
	s.ackOnlyCountdown--
	if s.ackOnlyCountdown > 0 {
		return
	}
	s.ackOnlyCountdown = s.gap("ackOnlyGap", s.cfg.ackOnlyInv)
	s.sendPacket(int64(s.draw("ackOnlySize", 25, 60)), false, false, 0)
}

func (s *v12Sim) mtuProbeDue() (int64, bool) {
	for !s.probeOutstanding && s.raiseIdx < len(s.cfg.raises) {
		r := s.cfg.raises[s.raiseIdx]
		if r.size <= s.quicSize || s.probeTries >= 3 { // nothing to gain / gave up after three lost probes
			s.raiseIdx++
			s.probeTries = 0
			continue
		}
		if s.now-s.cfg.start < r.at {
			return 0, false
		}
		s.probeTries++
		return r.size, true
	}
	return 0, false
}

func (s *v12Sim) trySend() {
	if s.b == nil {
		return
	}
	s.pacingDeadline = 0
	for guard := 0; guard < 200000; guard++ {
		if s.sentCount >= s.cfg.maxPackets {
			return
		}
		switch s.sendMode() {
		case v12SendPTO:
			s.sendProbe()
		case v12SendAck:
			s.maybeAckOnly()
			return
		case v12SendPacing:
			if s.appAvail <= 0 {
				return
			}
			var w int64
			s.guard("TimeUntilSend", func() { w, _ = s.checkPacer("send loop") })
			if w <= s.now { // cannot happen: checkPacer fails or returns a future time
				w = s.now + 1000
			}
			s.pacingDeadline = w
			s.maybeAckOnly()
			return
		default:
			if ns, due := s.mtuProbeDue(); due {
				s.probeOutstanding = true
				s.sendPacket(ns, true, true, ns)
				continue
			}
			if s.appAvail <= 0 {
				return
			}
			size := min(s.quicSize, s.appAvail)
			if size < 30 {
				size = 30
			}
			s.appAvail -= size
			if s.appAvail < 0 {
				s.appAvail = 0
			}
			s.sendPacket(size, true, false, 0)
		}
	}
	s.fail("send loop did not terminate at one instant (200000 iterations)")
}

// ---- path and receiver

func (s *v12Sim) inBlackout(t int64) bool {
	for _, b := range s.cfg.blackouts {
		if t >= s.cfg.start+b[0] && t < s.cfg.start+b[0]+b[1] {
			return true
		}
	}
	return false
}

func (s *v12Sim) pathSend(p *v12Pkt) {
	c := s.cfg
	if s.inBlackout(s.now) {
		return
	}
	if c.lossInv > 0 {
		s.lossCountdown--
		if s.lossCountdown <= 0 {
			s.lossCountdown = s.gap("lossGap", c.lossInv)
			return
		}
	}
	backlog := int64(0)
	if s.busyUntil > s.now {
		backlog = int64(float64(s.busyUntil-s.now) * float64(c.capBps) / 1e9)
	}
	if backlog > c.queueBytes { // tail drop: the queue holds queueBytes (plus the packet in service)
		s.tailDrops++
		return
	}
	start := max(s.now, s.busyUntil)
	s.busyUntil = start + p.size*1000000000/c.capBps
	arrive := s.busyUntil + c.rtt/2
	if c.reorderInv > 0 {
		s.reorderCountdown--
		if s.reorderCountdown <= 0 {
			s.reorderCountdown = s.gap("reorderGap", c.reorderInv)
			arrive += int64(s.draw("reorderDelay", 1, int(c.rtt/2+1000)))
		}
	}
	e := int64(0)
	if p.eliciting {
		e = 1
	}
	s.seq++
	heap.Push(&s.evs, v12Ev{t: arrive, seq: s.seq, kind: 0, a: p.pn, b: p.size, c: e})
}

func (s *v12Sim) receiverArrive(pn, size int64, eliciting bool) {
	i := pn - s.cfg.firstPN
	for int64(len(s.recvIdx)) <= i {
		s.recvIdx = append(s.recvIdx, -1)
	}
	if s.recvIdx[i] >= 0 {
		return
	}
	s.recvIdx[i] = s.arrivals
	s.arrivals++
	outOfOrder := pn != s.rLargest+1
	if pn > s.rLargest {
		s.rLargest, s.rLargestAt = pn, s.now
	}
	if !eliciting {
		return
	}
	s.delivered += size
	s.rUnacked++
	if outOfOrder || s.rUnacked >= s.cfg.ackEvery {
		s.receiverAck()
		return
	}
	if s.rTimer == 0 {
		s.rTimer = s.now + s.cfg.ackDelay
	}
}

func (s *v12Sim) receiverAck() {
	s.rUnacked, s.rTimer = 0, 0
	c := s.cfg
	if c.ackLossInv > 0 {
		s.ackLossCountdown--
		if s.ackLossCountdown <= 0 {
			s.ackLossCountdown = s.gap("ackLossGap", c.ackLossInv)
			return
		}
	}
	if s.inBlackout(s.now) {
		return
	}
	due := s.now + c.rtt - c.rtt/2
	if c.aggG > 0 { // the reverse path releases ACKs in batches
		due = (due/c.aggG + 1) * c.aggG
	}
	if due <= s.lastFrameDue { // frames stay in order; optional sub-microsecond spacing inside a batch
		due = s.lastFrameDue + c.ackJitter
	}
	s.lastFrameDue = due
	s.frames = append(s.frames, v12Frame{upTo: s.arrivals, largest: s.rLargest, ackDelay: s.now - s.rLargestAt})
	s.seq++
	heap.Push(&s.evs, v12Ev{t: due, seq: s.seq, kind: 1, a: int64(len(s.frames) - 1)})
}

// ---- application

func (s *v12Sim) enterPhase() {
	for s.phaseIdx < len(s.cfg.phases) {
		ph := s.cfg.phases[s.phaseIdx]
		s.phaseEnd = s.now + ph.dur
		switch ph.mode {
		case 0:
			s.appAvail = 1 << 50
			s.nextWrite = 0
		case 1:
			if s.appAvail > 1<<40 {
				s.appAvail = 0
			}
			s.nextWrite = 0
		case 4:
			if s.appAvail > 1<<40 {
				s.appAvail = 0
			}
			s.nextWrite = s.now + ph.every
		case 5:
			if s.appAvail > 1<<40 {
				s.appAvail = 0
			}
			s.nextWrite = 0
			bw := float64(65536)
			if s.b != nil {
				s.guard("bandwidthForPacer", func() { bw = float64(s.b.bandwidthForPacer()) })
			}
			gap := float64(ph.chunk) / 1000 * 9.223372036854775807e18 / bw
			if gap > 3e17 { // ~9.5 years
				gap = 3e17
			}
			s.phaseEnd = max(s.now+int64(time.Second), s.lastSendT+int64(gap))
			s.end += s.phaseEnd - s.now
			s.overflowIdles++
		default:
			if s.appAvail > 1<<40 {
				s.appAvail = 0
			}
			s.appAvail += ph.chunk
			s.nextWrite = s.now + ph.every
		}
		return
	}
	s.phaseEnd = 0
}

// ---- main loop

func v12Run(rt *rapid.T, st *vStats, cfg *v12Cfg) (s *v12Sim) {
	s = &v12Sim{rt: rt, st: st, cfg: cfg, now: cfg.start, rtt: v12NewRTT(), nextPN: cfg.firstPN, largestAcked: -1, largestSent: -1,
		rLargest: cfg.firstPN - 1, quicSize: cfg.quicNow, maxReported: -1, knownGap: vKnown("ackonly-gap")}
	s.lossCountdown = s.gap("lossGap0", cfg.lossInv)
	s.reorderCountdown = s.gap("reorderGap0", cfg.reorderInv)
	s.ackLossCountdown = s.gap("ackLossGap0", cfg.ackLossInv)
	s.ackOnlyCountdown = s.gap("ackOnlyGap0", cfg.ackOnlyInv)
	if !cfg.cold {
		// handshake already gave RTT samples (quic-go measures from Initial/Handshake ACKs)
		s.rtt.UpdateRTT(time.Duration(cfg.rtt+int64(cfg.prePackets)*1000), 0)
	}
	// packets sent before the controller is installed
	for i := 0; i < cfg.prePackets; i++ {
		s.sendPacket(s.quicSize, true, false, 0)
	}
	installed := false
	s.end = cfg.start + cfg.dur
	half := cfg.start + cfg.dur/2
	idleSpins := 0
	for steps := 0; ; steps++ {
		if !installed && s.now >= cfg.start+cfg.installAt {
			installed = true
			s.install()
			s.enterPhase()
			if cfg.foreignPN { // a late Handshake-space ACK: other packet number space, not ack-eliciting
				s.log("OnPacketSent", s.inflight, 3, 45, 0, "(handshake space)")
				s.guard("OnPacketSent", func() {
					s.b.OnPacketSent(monotime.Time(s.now), congestion.ByteCount(s.inflight), 3, 45, false)
				})
				s.lastSendT = s.now
				s.check("OnPacketSent(handshake space)")
			}
			s.trySend()
		}
		// next event
		next := int64(0)
		pick := func(t int64) {
			if t != 0 && (next == 0 || t < next) {
				next = t
			}
		}
		if len(s.evs) > 0 {
			pick(s.evs[0].t)
		}
		pick(s.alarm)
		pick(s.rTimer)
		if installed {
			if s.appAvail > 0 && s.sentCount < cfg.maxPackets {
				pick(s.pacingDeadline)
			}
			pick(s.phaseEnd)
			pick(s.nextWrite)
			if s.raiseIdx < len(cfg.raises) && !s.probeOutstanding && s.now < cfg.start+cfg.raises[s.raiseIdx].at {
				pick(cfg.start + cfg.raises[s.raiseIdx].at)
			}
		} else {
			pick(cfg.start + cfg.installAt)
		}
		if next == 0 {
			if installed && s.appAvail > 0 && s.sentCount < cfg.maxPackets {
				s.stuck = fmt.Sprintf("data available (%d bytes), %d bytes in flight, nothing scheduled: the sender can never send again", s.appAvail, s.inflight)
				s.fail("deadlock: %s", s.stuck)
			}
			break
		}
		if next < s.now {
			next = s.now
		}
		if next == s.now {
			idleSpins++
			if idleSpins > 5000000 {
				s.fail("simulation makes no progress in time")
			}
		} else {
			idleSpins = 0
		}
		if next >= s.end || steps > 40000000 {
			s.now = min(next, s.end)
			break
		}
		s.now = next
		if !s.halfTaken && s.now >= half {
			s.halfTaken, s.deliveredAtHalf = true, s.delivered
		}
		// receiver / path events due now
		for len(s.evs) > 0 && s.evs[0].t <= s.now {
			e := heap.Pop(&s.evs).(v12Ev)
			if e.kind == 0 {
				s.receiverArrive(e.a, e.b, e.c == 1)
			} else {
				f := s.frames[e.a]
				s.receivedAck(&f)
				if installed {
					s.trySend()
				}
			}
		}
		if s.rTimer != 0 && s.rTimer <= s.now {
			s.receiverAck()
		}
		if s.alarm != 0 && s.alarm <= s.now {
			s.onAlarm()
		}
		if installed {
			if s.phaseEnd != 0 && s.phaseEnd <= s.now {
				if prev := cfg.phases[s.phaseIdx]; prev.mode == 5 || (prev.mode == 1 && prev.dur >= int64(10*time.Second)) {
					s.longIdleEnded, s.sentAtIdleEnd, s.idleEndAt = true, s.sentCount, s.now
				}
				s.phaseIdx++
				s.enterPhase()
			}
			if s.nextWrite != 0 && s.nextWrite <= s.now {
				ph := cfg.phases[s.phaseIdx]
				if ph.mode == 4 {
					if s.sentCount < cfg.maxPackets {
						s.sendPacket(int64(25+s.sentCount%30), false, false, 0)
					}
				} else {
					s.appAvail += ph.chunk
				}
				s.nextWrite = s.now + ph.every
			}
			s.trySend()
		}
		if s.sentCount >= cfg.maxPackets && len(s.evs) == 0 && s.rTimer == 0 { // packet budget used up and nothing left on the path
			break
		}
	}
	if !s.halfTaken {
		s.deliveredAtHalf = s.delivered
	}
	if s.longIdleEnded && s.appAvail > 0 && s.sentAtIdleEnd < cfg.maxPackets && s.sentCount == s.sentAtIdleEnd && s.now-s.idleEndAt > int64(2*time.Second) {
		s.fail("after a long idle period data has been available for %v, %d bytes in flight, yet not a single packet was sent", time.Duration(s.now-s.idleEndAt), s.inflight)
	}
	return s
}
