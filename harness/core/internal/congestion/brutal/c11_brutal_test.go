package brutal

// C11 — Brutal: bounded above, never stalled.
//
// Pure single-threaded simulation on a virtual monotime clock. The sender is driven with the
// call discipline of quic-go's sent-packet handler / send loop (read from
// internal/ackhandler/sent_packet_handler.go and connection.go):
//   SendMode: CanSend(bytesInFlight) -> HasPacingBudget(now) -> send, else sleep until TimeUntilSend();
//   SentPacket: OnPacketSent(now, bytesInFlight incl. this packet if ack-eliciting, pn, size, ackEliciting);
//   ReceivedAck: OnPacketAcked per packet, OnCongestionEvent per loss, then one
//   OnCongestionEventEx(priorInFlight, now, acked, lost) with at least one list non-empty;
//   ACK-only and PTO probe packets are sent without consulting the pacing gate;
//   SetMaxDatagramSize only after an MTU probe raised the size.
// Oracles come from the property statement (leaky-bucket replay, reference ack-rate window,
// "the announced wake-up time is sufficient"), never from brutal.go / pacer.go.

import (
	"fmt"
	"math"
	"strings"
	"testing"
	"time"

	"github.com/apernet/quic-go/congestion"
	"github.com/apernet/quic-go/monotime"
	"pgregory.net/rapid"
)

// ---- fake RTT provider (the only environment Brutal has)

type v11RTT struct{ srtt time.Duration }

func (r *v11RTT) MinRTT() time.Duration         { return r.srtt }
func (r *v11RTT) LatestRTT() time.Duration      { return r.srtt }
func (r *v11RTT) SmoothedRTT() time.Duration    { return r.srtt }
func (r *v11RTT) MeanDeviation() time.Duration  { return r.srtt / 2 }
func (r *v11RTT) MaxAckDelay() time.Duration    { return 25 * time.Millisecond }
func (r *v11RTT) PTO(bool) time.Duration        { return 3*r.srtt + 25*time.Millisecond }
func (r *v11RTT) UpdateRTT(_, _ time.Duration)  {}
func (r *v11RTT) SetMaxAckDelay(time.Duration)  {}
func (r *v11RTT) SetInitialRTT(t time.Duration) {}

// ---- call log (rendered only on failure)

type v11Call struct {
	op      string
	t       int64
	a, b, c int64
}

func v11Render(calls []v11Call) string {
	var sb strings.Builder
	lo := 0
	if len(calls) > 80 {
		lo = len(calls) - 80
		fmt.Fprintf(&sb, "(%d earlier calls omitted) ", lo)
	}
	for _, c := range calls[lo:] {
		switch c.op {
		case "Sent", "SentBypass":
			fmt.Fprintf(&sb, "%s@%d(size=%d,inflight=%d,pn=%d) ", c.op, c.t, c.a, c.b, c.c)
		case "EventEx":
			fmt.Fprintf(&sb, "EventEx@%d(acked=%d,lost=%d,prior=%d) ", c.t, c.a, c.b, c.c)
		default:
			fmt.Fprintf(&sb, "%s@%d(%d) ", c.op, c.t, c.a)
		}
	}
	return sb.String()
}

// ---- independent models

type v11Send struct {
	t, bytes, excess int64
	paced            bool
}

// leaky bucket draining at R bytes/s: closed-interval rate conformance in O(n)
func v11Conformance(sends []v11Send, R, burst float64) (int, float64) {
	level, peak := 0.0, 0.0
	var last int64
	first := true
	for i, s := range sends {
		if !s.paced {
			continue
		}
		if !first {
			level -= R * float64(s.t-last) / 1e9
			if level < 0 {
				level = 0
			}
		}
		first, last = false, s.t
		level += float64(s.bytes - s.excess)
		if level > peak {
			peak = level
		}
		if level > burst*(1+1e-9)+2 {
			return i, peak
		}
	}
	return -1, peak
}

// reference loss-compensation factor: acked/(acked+lost) over the last k whole-second buckets
// ending at the second of the most recent event; >= 50 samples, clamped at 0.8.
type v11AckModel struct {
	buckets map[int64][2]uint64
}

func (m *v11AckModel) add(sec int64, acked, lost int) {
	b := m.buckets[sec]
	b[0] += uint64(acked)
	b[1] += uint64(lost)
	m.buckets[sec] = b
}

func (m *v11AckModel) window(cur int64, k int64) (a, l uint64) {
	for s := cur - k + 1; s <= cur; s++ {
		b := m.buckets[s]
		a += b[0]
		l += b[1]
	}
	return
}

func v11Factor(a, l uint64, disabled bool) float64 {
	if disabled || a+l < 50 {
		return 1
	}
	r := float64(a) / float64(a+l)
	if r < 0.8 {
		return 0.8
	}
	return r
}

func v11LogUniform(t *rapid.T, lo, hi float64, label string) float64 {
	return math.Exp(rapid.Float64Range(math.Log(lo), math.Log(hi)).Draw(t, label))
}

var v11Sizes = []int64{1200, 1252, 1280, 1350, 1452, 1500}

// ---- the simulated connection

type v11Sim struct {
	rt       *rapid.T
	st       *vStats
	b        *BrutalSender
	rtt      *v11RTT
	bps      int64
	disabled bool
	now      int64
	lastSent int64
	mds      int64
	maxMds   int64
	pn       int64
	inflight int64
	out      []int64 // sizes of outstanding ack-eliciting packets, oldest first
	sends    []v11Send
	calls    []v11Call
	model    v11AckModel
	lastSec  int64 // second of the last congestion event (-1: none yet)

	waits, raises, bypass, events, cwndLimited, clipped  int
	overflowIdles, overflowChecks                        int
	sawClamp, sawCompensate, sawFew, sawIdle, ceilCorner bool
}

func (s *v11Sim) fail(format string, a ...any) {
	if s.st != nil { // account the failing case before Fatalf (it never reaches the st.Case at the end)
		s.st.Case(false, "failed", []string{"FAILED"}, func() string { return fmt.Sprintf(format, a...) })
	}
	s.rt.Fatalf("C11: %s\n bps=%d lossCompensationDisabled=%v mds=%d srtt=%v now=%d inflight=%d ackRate=%v pacer{budgetAtLastSent,lastSentTime}\n history: %s",
		fmt.Sprintf(format, a...), s.bps, s.disabled, s.mds, s.rtt.srtt, s.now, s.inflight, s.b.ackRate, v11Render(s.calls))
}

func (s *v11Sim) gapLimit() int64 {
	// statement: "within the range where rate x gap fits 63 bits"; one bit of margin.
	bwMax := uint64(float64(s.bps)/0.8) + 1
	return int64((uint64(1) << 62) / bwMax)
}

func (s *v11Sim) advance(dt int64) {
	if dt < 0 {
		dt = 0
	}
	if s.lastSent != 0 {
		if lim := s.lastSent + s.gapLimit() - 1; s.now+dt > lim {
			dt = lim - s.now
			if dt < 0 {
				dt = 0
			}
			s.clipped++
		}
	}
	if dt >= int64(5*time.Second) {
		s.sawIdle = true
	}
	s.now += dt
}

// invariants (ii range), (iii) and (iv) — evaluated after every step
func (s *v11Sim) check() (wake int64, limited bool) {
	b := s.b
	if r := b.ackRate; !(r >= 0.8 && r <= 1) {
		s.fail("loss-compensation factor %v outside [0.8,1]", r)
	}
	if s.disabled && b.ackRate != 1 {
		s.fail("loss compensation disabled but factor is %v", b.ackRate)
	}
	if w := int64(b.GetCongestionWindow()); w < s.mds {
		s.fail("congestion window %d below one datagram (%d)", w, s.mds)
	}
	if !b.CanSend(0) {
		s.fail("CanSend(0) is false: the sender can never send again")
	}
	now := monotime.Time(s.now)
	if b.HasPacingBudget(now) {
		return 0, false
	}
	w := b.TimeUntilSend(congestion.ByteCount(s.inflight))
	s.calls = append(s.calls, v11Call{"TimeUntilSend", s.now, int64(w), 0, 0})
	if bw := int64(float64(s.bps) / b.ackRate); s.lastSent != 0 && uint64(s.now-s.lastSent) >= (uint64(1)<<62)/uint64(bw) {
		// beyond the statement's 63-bit range: progress only (no rate bound, no exact wake-up time)
		s.overflowChecks++
		g := s.mds*1000000000/bw + 1000000
		if int64(w) > s.now && b.HasPacingBudget(w) {
			return int64(w), true
		}
		if !b.HasPacingBudget(monotime.Time(s.now + g)) {
			s.fail("idle for %d ns at %d B/s: HasPacingBudget(now)=false, TimeUntilSend()=%d is not a usable future time and there is still no budget %d ns later: the sender can never send again", s.now-s.lastSent, bw, int64(w), g)
		}
		return s.now + g, true
	}
	if w.IsZero() {
		s.fail("HasPacingBudget(now)=false but TimeUntilSend()=0: quic-go treats 0 as 'send immediately' and spins")
	}
	if int64(w) <= s.now {
		s.fail("HasPacingBudget(now)=false but the announced time %d is not after now", int64(w))
	}
	if !b.HasPacingBudget(w) {
		s.fail("waiting until the announced time %d does not yield budget for a full datagram", int64(w))
	}
	return int64(w), true
}

func (s *v11Sim) sendPacket(size int64, ackEliciting, paced bool) {
	s.pn++
	if s.pn%97 == 0 { // packet-number skipping (anti optimistic-ack)
		s.pn++
	}
	if ackEliciting {
		s.inflight += size
		s.out = append(s.out, size)
	}
	ex := int64(0)
	if size > s.mds {
		ex = size - s.mds
	}
	s.b.OnPacketSent(monotime.Time(s.now), congestion.ByteCount(s.inflight), congestion.PacketNumber(s.pn), congestion.ByteCount(size), ackEliciting)
	s.lastSent = s.now
	s.sends = append(s.sends, v11Send{s.now, size, ex, paced})
	op := "Sent"
	if !paced {
		op = "SentBypass"
	}
	s.calls = append(s.calls, v11Call{op, s.now, size, s.inflight, s.pn})
}

// the quic-go send loop
func (s *v11Sim) sendLoop(n, maxWaits int, followWaits bool) {
	w8 := 0
	for sent := 0; sent < n; {
		if !s.b.CanSend(congestion.ByteCount(s.inflight)) {
			s.cwndLimited++
			return
		}
		if w, limited := s.check(); limited {
			if !followWaits || w8 >= maxWaits {
				return
			}
			w8++
			s.waits++
			j := rapid.SampledFrom([]int64{0, 0, 0, 1, 777, 1000000, 2500000}).Draw(s.rt, "jitter")
			s.now = w
			s.advance(j)
			continue
		}
		size := s.mds
		if rapid.IntRange(0, 4).Draw(s.rt, "partial") == 0 {
			size = rapid.Int64Range(1, s.mds).Draw(s.rt, "size")
		}
		s.sendPacket(size, true, true)
		sent++
	}
}

// one ACK frame's worth of feedback, as ReceivedAck delivers it
func (s *v11Sim) ackLoss(nAck, nLoss int) {
	if nAck+nLoss > len(s.out) {
		// split what is outstanding in the same proportion
		tot := nAck + nLoss
		if tot == 0 || len(s.out) == 0 {
			return
		}
		nLoss = nLoss * len(s.out) / tot
		nAck = len(s.out) - nLoss
	}
	if nAck+nLoss == 0 {
		return // quic-go never reports an event with both lists empty
	}
	prior := s.inflight
	acked := make([]congestion.AckedPacketInfo, 0, nAck)
	lost := make([]congestion.LostPacketInfo, 0, nLoss)
	// oldest packets are the lost ones (packet threshold), the rest acked; PNs are informational for Brutal
	base := s.pn - int64(len(s.out))
	for i := 0; i < nLoss; i++ {
		sz := s.out[i]
		lost = append(lost, congestion.LostPacketInfo{PacketNumber: congestion.PacketNumber(base + int64(i)), BytesLost: congestion.ByteCount(sz)})
		s.b.OnCongestionEvent(congestion.PacketNumber(base+int64(i)), congestion.ByteCount(sz), congestion.ByteCount(prior))
		s.inflight -= sz
	}
	for i := nLoss; i < nLoss+nAck; i++ {
		sz := s.out[i]
		acked = append(acked, congestion.AckedPacketInfo{PacketNumber: congestion.PacketNumber(base + int64(i)), BytesAcked: congestion.ByteCount(sz)})
		s.b.OnPacketAcked(congestion.PacketNumber(base+int64(i)), congestion.ByteCount(sz), congestion.ByteCount(prior), monotime.Time(s.now))
		s.inflight -= sz
	}
	s.out = s.out[nLoss+nAck:]
	s.b.OnCongestionEventEx(congestion.ByteCount(prior), monotime.Time(s.now), acked, lost)
	s.events++
	s.calls = append(s.calls, v11Call{"EventEx", s.now, int64(nAck), int64(nLoss), prior})
	// ---- (ii) reference: "acked/(acked+lost) over roughly the last five seconds"
	sec := s.now / int64(time.Second)
	s.model.add(sec, nAck, nLoss)
	s.lastSec = sec
	a5, l5 := s.model.window(sec, 5)
	a6, l6 := s.model.window(sec, 6)
	f5, f6 := v11Factor(a5, l5, s.disabled), v11Factor(a6, l6, s.disabled)
	got := s.b.ackRate
	if math.Abs(got-f5) > 1e-12 && math.Abs(got-f6) > 1e-12 {
		s.fail("loss-compensation factor is %v; reference over the last 5 one-second buckets: acked=%d lost=%d -> %v; over 6: acked=%d lost=%d -> %v",
			got, a5, l5, f5, a6, l6, f6)
	}
	if !s.disabled {
		switch {
		case a5+l5 < 50:
			s.sawFew = true
		case l5 > 0 && float64(a5)/float64(a5+l5) < 0.8:
			s.sawClamp = true
		case l5 > 0:
			s.sawCompensate = true
		}
	}
}

func v11RunCase(rt *rapid.T, st *vStats) {
	bps := int64(rapid.OneOf(
		rapid.Just(float64(65536)),
		rapid.Just(float64(5e9)),
		rapid.Custom(func(t *rapid.T) float64 { return v11LogUniform(t, 65536, 5e9, "bps") }),
		rapid.Custom(func(t *rapid.T) float64 { return v11LogUniform(t, 65536, 4e6, "bpsLow") }),
	).Draw(rt, "bpsPick"))
	if bps < 65536 {
		bps = 65536
	}
	disabled := rapid.IntRange(0, 4).Draw(rt, "disableLossCompensation") == 0
	s := &v11Sim{rt: rt, st: st, bps: bps, disabled: disabled, mds: 1280, maxMds: 1280, lastSec: -1}
	s.model.buckets = map[int64][2]uint64{}
	s.rtt = &v11RTT{}
	s.b = NewBrutalSender(uint64(bps), disabled)
	s.b.SetRTTStatsProvider(s.rtt)
	s.now = int64(time.Hour) + rapid.Int64Range(0, int64(240*time.Hour)).Draw(rt, "start")
	s.pn = rapid.Int64Range(0, 5000).Draw(rt, "firstPN")
	drawRTT := func() time.Duration {
		return rapid.SampledFrom([]time.Duration{0, 100 * time.Microsecond, time.Millisecond, 10 * time.Millisecond, 40 * time.Millisecond,
			100 * time.Millisecond, 100 * time.Millisecond, 300 * time.Millisecond, 300 * time.Millisecond, time.Second, 2 * time.Second}).Draw(rt, "srtt")
	}
	s.rtt.srtt = drawRTT()
	// the controller is installed after the handshake: packets it never saw may be in flight
	for g := rapid.IntRange(0, 40).Draw(rt, "ghostInFlight"); g > 0; g-- {
		s.out = append(s.out, 1200)
		s.inflight += 1200
	}
	if rapid.IntRange(0, 2).Draw(rt, "setInitialSize") == 0 {
		s.mds = rapid.SampledFrom(v11Sizes).Draw(rt, "size0")
		if s.mds > s.maxMds {
			s.maxMds = s.mds
		}
		s.b.SetMaxDatagramSize(congestion.ByteCount(s.mds))
		s.calls = append(s.calls, v11Call{"SetMaxDatagramSize", s.now, s.mds, 0, 0})
	}
	s.check()
	nops := rapid.IntRange(20, 400).Draw(rt, "nops")
	kinds := make([]byte, 0, nops)
	lossPick := func() float64 {
		return rapid.SampledFrom([]float64{0, 0, 0.01, 0.05, 0.1, 0.19, 0.2, 0.21, 0.3, 0.6, 1}).Draw(rt, "lossFrac")
	}
	for i := 0; i < nops; i++ {
		k := rapid.IntRange(0, 12).Draw(rt, "op")
		kinds = append(kinds, byte('a'+k))
		switch k {
		case 0: // advance, 1 us .. 10 s
			s.advance(int64(v11LogUniform(rt, 1e3, 1e10, "dt")))
		case 1: // sub-millisecond step
			s.advance(rapid.Int64Range(0, 1500000).Draw(rt, "dtSmall"))
		case 2, 3: // send loop
			s.sendLoop(rapid.IntRange(1, 80).Draw(rt, "n"), rapid.IntRange(0, 10).Draw(rt, "maxWaits"), true)
		case 4: // ack / loss batch
			tot := rapid.IntRange(1, 150).Draw(rt, "batch")
			nl := int(float64(tot) * lossPick())
			s.ackLoss(tot-nl, nl)
		case 5: // pump: rounds of (send, wait about one RTT, feedback for everything outstanding)
			rounds := rapid.IntRange(1, 12).Draw(rt, "rounds")
			lf := lossPick()
			per := rapid.IntRange(5, 60).Draw(rt, "perRound")
			for r := 0; r < rounds; r++ {
				s.sendLoop(per, 6, true)
				s.advance(int64(s.rtt.srtt) + rapid.Int64Range(0, int64(300*time.Millisecond)).Draw(rt, "ackDelay"))
				nl := int(math.Round(float64(len(s.out)) * lf))
				s.ackLoss(len(s.out)-nl, nl)
				s.check()
			}
		case 6: // feedback exactly around a whole-second boundary
			sec := int64(time.Second)
			next := (s.now/sec + 1) * sec
			s.advance(next - s.now + rapid.SampledFrom([]int64{-1, 0, 1}).Draw(rt, "edge"))
			tot := rapid.IntRange(1, 80).Draw(rt, "batch")
			nl := int(float64(tot) * lossPick())
			s.ackLoss(tot-nl, nl)
		case 7: // idle gap longer than the sampling window
			s.advance(rapid.Int64Range(int64(4*time.Second), int64(13*time.Second)).Draw(rt, "idle"))
		case 8: // MTU probe + datagram size increase
			var bigger []int64
			for _, z := range v11Sizes {
				if z > s.mds {
					bigger = append(bigger, z)
				}
			}
			if len(bigger) == 0 {
				break
			}
			ns := rapid.SampledFrom(bigger).Draw(rt, "newSize")
			if s.b.CanSend(congestion.ByteCount(s.inflight)) && s.b.HasPacingBudget(monotime.Time(s.now)) && rapid.Bool().Draw(rt, "probe") {
				s.sendPacket(ns, true, true)
			}
			s.mds = ns
			if ns > s.maxMds {
				s.maxMds = ns
			}
			s.b.SetMaxDatagramSize(congestion.ByteCount(ns))
			s.calls = append(s.calls, v11Call{"SetMaxDatagramSize", s.now, ns, 0, 0})
			s.raises++
		case 9: // RTT estimate moves
			s.rtt.srtt = drawRTT()
			s.calls = append(s.calls, v11Call{"srtt", s.now, int64(s.rtt.srtt), 0, 0})
		case 10: // ACK-only packet (not ack-eliciting) or PTO probe: bypasses the pacing gate
			if rapid.IntRange(0, 3).Draw(rt, "pto") == 0 {
				s.sendPacket(rapid.Int64Range(40, s.mds).Draw(rt, "ptoSize"), true, false)
			} else {
				s.sendPacket(rapid.Int64Range(25, 70).Draw(rt, "ackOnlySize"), false, false)
			}
			s.bypass++
		case 12: // idle so long that rate x idle leaves the 63-bit range; afterwards only progress is required
			if s.lastSent == 0 || rapid.IntRange(0, 5).Draw(rt, "overflowIdle") != 0 {
				break
			}
			f := rapid.SampledFrom([]float64{0.3, 0.6, 1.02, 1.5, 1.98, 2.6, 3.4, 17.3}).Draw(rt, "overflowFactor")
			target := s.lastSent + int64(f*9.223372036854775807e18/(float64(s.bps)/s.b.ackRate))
			if target > s.now && target-s.lastSent < 3e17 {
				s.now = target
				s.overflowIdles++
				s.sawIdle = true
			}
		case 11: // backlog: long send loop that follows every announced wake-up
			s.sendLoop(rapid.IntRange(20, 200).Draw(rt, "n"), 60, true)
		}
		s.check()
	}
	// ---- (i) rate conformance: bytes released by pacing <= burst + (bps/0.8) x interval
	R := float64(bps) / 0.8
	burst := math.Max(0.004*R, float64(10*s.maxMds))
	if idx, peak := v11Conformance(s.sends, R, burst); idx >= 0 {
		s.fail("rate conformance: paced bytes over a closed interval ending at send #%d (t=%d) exceed burst %.0f + rate/0.8=%.0f B/s x interval (leaky-bucket level %.0f)",
			idx, s.sends[idx].t, burst, R, peak)
	}
	var cls []string
	add := func(c bool, n string) {
		if c {
			cls = append(cls, n)
		}
	}
	add(s.waits > 0, "pacerWait")
	add(s.sawClamp, "loss>20%(clamp)")
	add(s.sawCompensate, "loss(0,20%]")
	add(s.sawFew, "<50samples")
	add(s.disabled, "compensationDisabled")
	add(s.raises > 0, "sizeRaise")
	add(s.sawIdle, "gap>=5s")
	add(s.cwndLimited > 0, "cwndLimited")
	add(s.bypass > 0, "bypassSend")
	add(s.clipped > 0, "advanceClippedTo62bit")
	add(s.overflowIdles > 0, "idleBeyond62bit")
	add(s.overflowChecks > 0, "noBudgetBeyond62bit(progressRule)")
	add(bps < 1280000, "bps<1.28MB/s")
	nt := (s.sawClamp || s.sawCompensate) && s.waits > 0
	st.Case(nt, fmt.Sprintf("%d/%d/%s", bps, s.now, kinds), cls, func() string {
		return fmt.Sprintf("bps=%d disabled=%v ops=%s sends=%d events=%d waits=%d final ackRate=%v", bps, disabled, kinds, len(s.sends), s.events, s.waits, s.b.ackRate)
	})
}

func TestVerifC11_BrutalSendLoop(t *testing.T) {
	st := newVStats("TestVerifC11_BrutalSendLoop")
	defer st.Flush()
	rapid.Check(t, func(rt *rapid.T) { v11RunCase(rt, st) })
}

// "Never stalled" in the sustained sense of the title ("sends at the configured rate"): a
// backlogged sender that sleeps exactly until each announced time and whose window is not
// binding releases at least the configured rate, whatever the loss feedback says.
func TestVerifC11_SustainedRate(t *testing.T) {
	st := newVStats("TestVerifC11_SustainedRate")
	defer st.Flush()
	minRatio := math.Inf(1)
	rapid.Check(t, func(rt *rapid.T) {
		bps := int64(v11LogUniform(rt, 65536, 5e9, "bps"))
		if bps < 65536 {
			bps = 65536
		}
		disabled := rapid.IntRange(0, 5).Draw(rt, "disableLossCompensation") == 0
		loss := rapid.SampledFrom([]float64{0, 0.02, 0.1, 0.2, 0.35, 0.6}).Draw(rt, "loss")
		mds := rapid.SampledFrom(v11Sizes).Draw(rt, "size")
		maxPackets := rapid.IntRange(2000, 30000).Draw(rt, "maxPackets")
		s := &v11Sim{rt: rt, st: st, bps: bps, disabled: disabled, mds: 1280, maxMds: 1500, lastSec: -1}
		s.model.buckets = map[int64][2]uint64{}
		// RTT large enough that 2 x bps x RTT comfortably exceeds burst + rate x RTT
		srtt := 50 * time.Millisecond
		if need := time.Duration(float64(40*1500) / float64(bps) * float64(time.Second)); need > srtt {
			srtt = need
		}
		s.rtt = &v11RTT{srtt: srtt}
		s.b = NewBrutalSender(uint64(bps), disabled)
		s.b.SetRTTStatsProvider(s.rtt)
		s.b.SetMaxDatagramSize(congestion.ByteCount(mds))
		s.mds = mds
		s.now = int64(time.Hour) + rapid.Int64Range(0, int64(time.Hour)).Draw(rt, "start")
		type fb struct {
			at   int64
			lost bool
		}
		var pending []fb // feedback due, in send order (constant RTT => in order)
		var firstWait, bytesAfter, lastWait, bytesAtLastWait int64
		packetsAtLastWait := 0
		packets, wakes, afterPackets, cwndBlocked := 0, 0, 0, 0
		lossAcc := 0.0
		deadline := s.now + int64(30*time.Second)
		deliver := func() {
			na, nl := 0, 0
			for len(pending) > 0 && pending[0].at <= s.now {
				if pending[0].lost {
					nl++
				} else {
					na++
				}
				pending = pending[1:]
			}
			if na+nl == 0 {
				return
			}
			// ackLoss declares the oldest nl lost: proportions are what matters to Brutal
			s.ackLoss(na, nl)
		}
		for packets < maxPackets && s.now < deadline {
			deliver()
			if !s.b.CanSend(congestion.ByteCount(s.inflight)) {
				cwndBlocked++
				if len(pending) == 0 {
					s.fail("window-limited with nothing in flight")
				}
				s.now = pending[0].at
				continue
			}
			if w, limited := s.check(); limited {
				if firstWait == 0 {
					firstWait = s.now
				}
				// at a wait the bucket holds less than one datagram: everything accrued so far was released
				lastWait, bytesAtLastWait, packetsAtLastWait = s.now, bytesAfter, afterPackets
				wakes++
				// feedback that is due before the wake-up is processed first (quic-go re-queries after each ACK)
				if len(pending) > 0 && pending[0].at < w {
					s.now = pending[0].at
					continue
				}
				s.now = w
				continue
			}
			s.sendPacket(mds, true, true)
			packets++
			if firstWait != 0 {
				bytesAfter += mds
				afterPackets++
			}
			lossAcc += loss
			lost := false
			if lossAcc >= 1 {
				lossAcc--
				lost = true
			}
			pending = append(pending, fb{s.now + int64(srtt), lost})
		}
		span := lastWait - firstWait
		ideal := float64(bps) * float64(span) / 1e9
		bytesAfter, afterPackets = bytesAtLastWait, packetsAtLastWait
		nt := firstWait != 0 && afterPackets >= 200 && wakes >= 20 && cwndBlocked == 0
		ratio := 0.0
		if nt {
			ratio = (float64(bytesAfter) + float64(mds)) / ideal
			if ratio < minRatio {
				minRatio = ratio
				st.Extra("min_sustained_over_configured_rate", minRatio)
			}
			if ratio < 0.97 {
				s.fail("backlogged sender following every announced wake-up released %d bytes in %d ns after the first wait = %.4f x the configured rate (loss feedback %.0f%%, %d packets, %d wake-ups)",
					bytesAfter, span, ratio, loss*100, afterPackets, wakes)
			}
		}
		if cwndBlocked > 0 {
			st.Excluded("window became binding (lower bound not evaluated)")
		}
		cls := []string{fmt.Sprintf("loss=%.0f%%", loss*100)}
		if disabled {
			cls = append(cls, "compensationDisabled")
		}
		st.Case(nt, fmt.Sprintf("%d/%d/%v/%d", bps, mds, loss, maxPackets), cls, func() string {
			return fmt.Sprintf("bps=%d mds=%d loss=%.2f packets=%d wakes=%d ratio=%.4f ackRate=%v", bps, mds, loss, packets, wakes, ratio, s.b.ackRate)
		})
	})
}
