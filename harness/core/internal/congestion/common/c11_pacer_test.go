package common

// C11 (pacer alone) — token bucket: bounded above, and the announced wake-up time is sufficient.
//
// The Pacer is driven directly with an arbitrary (changing) bandwidth source, the way both
// Brutal and BBR use it, on a virtual monotime clock. Oracles are written from the property
// statement: an independent leaky-bucket replay of the send log (rate conformance) and the
// "waiting until the announced time yields budget for a full datagram" predicate.

import (
	"fmt"
	"math"
	"strings"
	"testing"
	"time"

	"github.com/apernet/quic-go/congestion"
	"github.com/apernet/quic-go/monotime"
	"pgregory.net/rapid"
)

type v11pSend struct {
	t      int64
	bytes  int64
	excess int64 // bytes above the datagram size known at send time (MTU probe)
	paced  bool  // released by the pacing gate (budget >= one datagram); bypass sends are not counted
}

type v11pCall struct {
	op   string
	t    int64
	a, b int64
}

func v11pRender(calls []v11pCall) string {
	var sb strings.Builder
	lo := 0
	if len(calls) > 70 {
		lo = len(calls) - 70
		fmt.Fprintf(&sb, "(%d earlier calls omitted) ", lo)
	}
	for _, c := range calls[lo:] {
		fmt.Fprintf(&sb, "%s@%d(%d,%d) ", c.op, c.t, c.a, c.b)
	}
	return sb.String()
}

// v11pConformance replays the paced sends through an independent leaky bucket draining at
// rate R (bytes/s): for every closed interval [t_i,t_j] the paced bytes must be
// <= burst + R*(t_j-t_i) (+ the part of MTU probes above the datagram size).
// Returns the index of the first offending send or -1, and the peak level seen.
func v11pConformance(sends []v11pSend, R float64, burst float64) (int, float64) {
	level, peak := 0.0, 0.0
	var last int64
	first := true
	for i, s := range sends {
		if !s.paced {
			continue
		}
		if !first {
			level -= R * float64(s.t-last) / 1e9
			if level < 0 {
				level = 0
			}
		}
		first = false
		last = s.t
		level += float64(s.bytes - s.excess)
		if level > peak {
			peak = level
		}
		if level > burst*(1+1e-9)+2 {
			return i, peak
		}
	}
	return -1, peak
}

func v11pLogUniform(t *rapid.T, lo, hi float64, label string) float64 {
	return math.Exp(rapid.Float64Range(math.Log(lo), math.Log(hi)).Draw(t, label))
}

var v11pSizes = []int64{1200, 1252, 1280, 1350, 1452, 1500}

func TestVerifC11_Pacer(t *testing.T) {
	st := newVStats("TestVerifC11_Pacer")
	defer st.Flush()
	rapid.Check(t, func(rt *rapid.T) {
		// ---- drawn configuration
		bwMax := int64(rapid.OneOf(
			rapid.Just(float64(65536)),
			rapid.Just(float64(6250000000)),
			rapid.Custom(func(t *rapid.T) float64 { return v11pLogUniform(t, 65536, 6.25e9, "bwMax") }),
			rapid.Custom(func(t *rapid.T) float64 { return v11pLogUniform(t, 65536, 2e6, "bwMaxLow") }),
		).Draw(rt, "bwMaxPick"))
		if bwMax < 65536 {
			bwMax = 65536
		}
		bw := bwMax
		p := NewPacer(func() congestion.ByteCount { return congestion.ByteCount(bw) })
		mds := int64(1280)
		maxMds := mds
		if rapid.Bool().Draw(rt, "setInitialSize") {
			mds = rapid.SampledFrom(v11pSizes).Draw(rt, "size0")
			p.SetMaxDatagramSize(congestion.ByteCount(mds))
			if mds > maxMds {
				maxMds = mds
			}
		}
		now := rapid.Int64Range(1, int64(300*time.Hour)).Draw(rt, "start")
		var lastSent int64
		var sends []v11pSend
		var calls []v11pCall
		waits, raises, bypass, bwChanges, capped, overflowIdles, overflowChecks := 0, 0, 0, 0, 0, 0, 0
		ceilCorner := false
		gapLimit := func() int64 { // largest (now-lastSent) allowed: rate x gap stays within 62 bits
			return int64((uint64(1) << 62) / uint64(bwMax))
		}
		advance := func(dt int64) {
			if dt < 0 {
				dt = 0
			}
			if lastSent != 0 {
				if lim := lastSent + gapLimit() - 1; now+dt > lim {
					dt = lim - now
					if dt < 0 {
						dt = 0
					}
					capped++
				}
			}
			now += dt
		}
		fail := func(format string, a ...any) {
			st.Case(false, "failed", []string{"FAILED"}, func() string { return fmt.Sprintf(format, a...) })
			rt.Fatalf("C11 pacer: %s\n bwMax=%d bw=%d mds=%d now=%d lastSent=%d budgetAtLastSent=%d\n history: %s",
				fmt.Sprintf(format, a...), bwMax, bw, mds, now, int64(p.lastSentTime), int64(p.budgetAtLastSent), v11pRender(calls))
		}
		// (iv): whenever there is no budget for a full datagram, the announced time is non-zero,
		// in the future, and waiting until then yields budget for a full datagram.
		checkWait := func() (w int64, limited bool) {
			if int64(p.Budget(monotime.Time(now))) >= mds {
				return 0, false
			}
			wt := p.TimeUntilSend()
			calls = append(calls, v11pCall{"TimeUntilSend", now, int64(wt), 0})
			if lastSent != 0 && uint64(now-lastSent) >= (uint64(1)<<62)/uint64(bw) {
				// outside the statement's range (rate x gap beyond 62 bits): progress only. quic-go re-arms
				// a timer in the past immediately, so budget must exist at the latest after the time one
				// datagram takes at the current bandwidth (+1 ms granularity).
				overflowChecks++
				g := mds*1000000000/bw + 1000000
				if int64(wt) > now && int64(p.Budget(wt)) >= mds {
					return int64(wt), true
				}
				if got := int64(p.Budget(monotime.Time(now + g))); got < mds {
					fail("idle for %d ns at %d B/s: Budget(now)=%d, TimeUntilSend()=%d is not a usable future time and Budget(now+%d)=%d is still below one datagram %d: the sender can never send again",
						now-lastSent, bw, int64(p.Budget(monotime.Time(now))), int64(wt), g, got, mds)
				}
				return now + g, true
			}
			if wt.IsZero() {
				fail("Budget(now)=%d < datagram %d but TimeUntilSend()=0 (send loop would spin)", int64(p.Budget(monotime.Time(now))), mds)
			}
			if int64(wt) <= now {
				fail("Budget(now)=%d < datagram %d but TimeUntilSend()=%d is not after now", int64(p.Budget(monotime.Time(now))), mds, int64(wt))
			}
			if got := int64(p.Budget(wt)); got < mds {
				fail("waiting until the announced time %d yields budget %d < one datagram %d", int64(wt), got, mds)
			}
			need := mds - int64(p.budgetAtLastSent)
			if need > 0 && (need*1000000000)%bw != 0 && need*1000000000/bw >= 1000000 {
				ceilCorner = true
			}
			return int64(wt), true
		}
		send := func(size int64, paced bool) {
			ex := int64(0)
			if size > mds {
				ex = size - mds
			}
			p.SentPacket(monotime.Time(now), congestion.ByteCount(size))
			lastSent = now
			sends = append(sends, v11pSend{now, size, ex, paced})
			calls = append(calls, v11pCall{map[bool]string{true: "Sent", false: "SentBypass"}[paced], now, size, 0})
		}
		nops := rapid.IntRange(20, 300).Draw(rt, "nops")
		var kinds []byte
		for i := 0; i < nops; i++ {
			k := rapid.IntRange(0, 10).Draw(rt, "op")
			kinds = append(kinds, byte('0'+k))
			switch k {
			case 0, 1: // advance
				advance(int64(v11pLogUniform(rt, 1, 1e10, "dt")))
			case 2, 3, 4: // quic-go send loop: send while there is budget, else sleep until the announced time
				n := rapid.IntRange(1, 120).Draw(rt, "n")
				maxWaits := rapid.IntRange(0, 12).Draw(rt, "maxWaits")
				w8 := 0
				for sent := 0; sent < n; {
					if w, limited := checkWait(); limited {
						if w8 >= maxWaits {
							break
						}
						w8++
						waits++
						j := rapid.SampledFrom([]int64{0, 0, 0, 1, 999, 1000000, 3000000}).Draw(rt, "jitter")
						now = w
						advance(j)
						continue
					}
					size := mds
					if rapid.IntRange(0, 3).Draw(rt, "partial") == 0 {
						size = rapid.Int64Range(1, mds).Draw(rt, "size")
					}
					send(size, true)
					sent++
				}
			case 5: // bandwidth change (ack-rate / estimate update)
				bw = int64(v11pLogUniform(rt, 65536, float64(bwMax), "bw"))
				if bw > bwMax {
					bw = bwMax
				}
				if bw < 65536 {
					bw = 65536
				}
				if rapid.IntRange(0, 3).Draw(rt, "backToMax") == 0 {
					bw = bwMax
				}
				bwChanges++
				calls = append(calls, v11pCall{"bw", now, bw, 0})
			case 6: // datagram size increase, preceded by an MTU probe when the gate is open
				var bigger []int64
				for _, s := range v11pSizes {
					if s > mds {
						bigger = append(bigger, s)
					}
				}
				if len(bigger) == 0 {
					break
				}
				ns := rapid.SampledFrom(bigger).Draw(rt, "newSize")
				if _, limited := checkWait(); !limited && rapid.Bool().Draw(rt, "probe") {
					send(ns, true)
				}
				mds = ns
				if mds > maxMds {
					maxMds = mds
				}
				p.SetMaxDatagramSize(congestion.ByteCount(mds))
				calls = append(calls, v11pCall{"SetMaxDatagramSize", now, mds, 0})
				raises++
			case 7: // ACK-only / PTO packet: sent regardless of the pacing gate
				size := rapid.Int64Range(20, 80).Draw(rt, "ackOnly")
				if rapid.IntRange(0, 3).Draw(rt, "pto") == 0 {
					size = mds
				}
				send(size, false)
				bypass++
			case 8: // long idle period
				advance(rapid.Int64Range(int64(5*time.Second), int64(20*time.Second)).Draw(rt, "idle"))
			case 10: // idle so long that bandwidth x idle leaves the 63-bit range (progress-only beyond it)
				if lastSent == 0 || rapid.IntRange(0, 5).Draw(rt, "overflowIdle") != 0 {
					break
				}
				f := rapid.SampledFrom([]float64{0.3, 0.6, 1.02, 1.5, 1.98, 2.6, 3.4, 17.3}).Draw(rt, "overflowFactor")
				target := lastSent + int64(f*9.223372036854775807e18/float64(bw))
				if target > now && target-lastSent < 3e17 {
					now = target
					overflowIdles++
				}
			case 9: // sub-millisecond step
				advance(rapid.Int64Range(0, 1500000).Draw(rt, "dtSmall"))
			}
			checkWait()
		}
		// (i) rate conformance over the whole log
		R := float64(bwMax)
		burst := math.Max(0.004*R, float64(10*maxMds))
		if idx, peak := v11pConformance(sends, R, burst); idx >= 0 {
			fail("rate conformance: paced bytes over a closed interval ending at send #%d (t=%d) exceed burst %.0f + %.0f B/s x interval (leaky-bucket level %.0f)", idx, sends[idx].t, burst, R, peak)
		}
		var cls []string
		if waits > 0 {
			cls = append(cls, "waited")
		}
		if raises > 0 {
			cls = append(cls, "sizeRaise")
		}
		if bypass > 0 {
			cls = append(cls, "bypassSend")
		}
		if bwChanges > 0 {
			cls = append(cls, "bwChange")
		}
		if capped > 0 {
			cls = append(cls, "advanceClippedTo62bit")
		}
		if overflowIdles > 0 {
			cls = append(cls, "idleBeyond62bit")
		}
		if overflowChecks > 0 {
			cls = append(cls, "noBudgetBeyond62bit(progressRule)")
		}
		if ceilCorner {
			cls = append(cls, "ceilMatters(>1ms,remainder)")
		}
		if bwMax < 1280000 {
			cls = append(cls, "bw<1.28MB/s")
		}
		st.Case(waits > 0 && len(sends) >= 10, fmt.Sprintf("%d/%d/%s", bwMax, now, kinds), cls, func() string {
			return fmt.Sprintf("bwMax=%d ops=%s sends=%d waits=%d raises=%d bypass=%d", bwMax, kinds, len(sends), waits, raises, bypass)
		})
	})
}
