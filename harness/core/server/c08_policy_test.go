package server

// C08 — every UDP datagram's destination passes the outbound policy.
// Uses the engine and fakes of c07_engine_test.go: the policy is a generated
// deny-set over destination strings, enforced by the fake outbound in UDP()
// (first destination = the dial) and CheckUDP() (every later destination).
// The model's oracle: a WriteTo on the session's socket happens if and only if
// the datagram is complete, the session has a socket and the policy allows the
// destination (or the hook rewrote the session, then always, to the rewritten
// address); replies of a rewritten session are reported from the original address.

import (
	"fmt"
	"strings"
	"testing"
	"time"

	"pgregory.net/rapid"
)

type v08Gen struct {
	rt     *rapid.T
	cfg    v07Cfg
	ops    []v07Op
	msgSeq int
	pool   int
	nSess  int
	seen   map[int]bool
	// statistics of the generated destination sequence
	deniedAfterAllowed int
	sawAllowed         bool
	batch              int
	sessUsed           map[int]bool
	mixedBlocks        int
}

func (g *v08Gen) note(s, dest int) {
	if !g.cfg.deny[dest] {
		g.sawAllowed = true
	} else if g.sawAllowed {
		g.deniedAfterAllowed++
	}
	g.seen[dest] = true
	g.sessUsed[s] = true
}

// plain: one unfragmented datagram.
func (g *v08Gen) plain(s, dest int) {
	g.note(s, dest)
	size := rapid.IntRange(8, 40).Draw(g.rt, "dgSize")
	g.ops = append(g.ops, v07Op{kind: v07OpData, s: s, dest: dest, msgSeq: g.msgSeq, total: size, lo: 0, hi: size, fragCount: 1, noWait: true})
	g.msgSeq++
	g.batch++
}

// mixedBlock: one fragmented datagram whose fragments carry DIFFERENT destination addresses (the client
// controls every fragment's address field), with unfragmented datagrams of the same session in between.
func (g *v08Gen) mixedBlock(s int) {
	nf := rapid.IntRange(2, 3).Draw(g.rt, "mixedFragments")
	bounds := []int{0}
	for i := 0; i < nf; i++ {
		sz := rapid.IntRange(1, 20).Draw(g.rt, "fragSize")
		if i == 0 && sz < 8 {
			sz = 8
		}
		bounds = append(bounds, bounds[i]+sz)
	}
	order := rapid.Permutation(v07Iota(nf)).Draw(g.rt, "arrivalOrder")
	// which arrival position carries a denied address: first, last, middle, or a random mix
	pat := rapid.IntRange(0, 3).Draw(g.rt, "deniedPosition")
	seq := g.msgSeq
	g.msgSeq++
	for pos, fid := range order {
		denied := false
		switch pat {
		case 0:
			denied = pos == 0
		case 1:
			denied = pos == nf-1
		case 2:
			denied = pos == nf/2
		default:
			denied = rapid.Bool().Draw(g.rt, "deniedHere")
		}
		dest := g.pick(denied)
		g.note(s, dest)
		g.ops = append(g.ops, v07Op{kind: v07OpData, s: s, dest: dest, msgSeq: seq, total: bounds[nf], lo: bounds[fid], hi: bounds[fid+1],
			pid: uint16(seq%65000) + 1, fragID: uint8(fid), fragCount: uint8(nf), noWait: true})
		g.batch++
		if pos < nf-1 {
			for k := rapid.IntRange(0, 2).Draw(g.rt, "between"); k > 0; k-- {
				if rapid.IntRange(0, 3).Draw(g.rt, "betweenDenied") == 0 {
					g.plain(s, g.pick(true))
				} else {
					g.plain(s, g.pick(false))
				}
			}
		}
	}
	g.mixedBlocks++
	if g.batch >= 48 {
		g.sync()
	}
}

func (g *v08Gen) datagram(s, dest int) {
	g.note(s, dest)
	size := rapid.IntRange(8, 40).Draw(g.rt, "dgSize")
	if rapid.IntRange(0, 19).Draw(g.rt, "fragmented") == 0 {
		// two fragments, the policy applies to the reassembled datagram
		cut := rapid.IntRange(1, size-1).Draw(g.rt, "cut")
		order := rapid.Bool().Draw(g.rt, "swap")
		a := v07Op{kind: v07OpData, s: s, dest: dest, msgSeq: g.msgSeq, total: size, lo: 0, hi: cut, pid: uint16(g.msgSeq%65000) + 1, fragID: 0, fragCount: 2, noWait: true}
		b := a
		b.lo, b.hi, b.fragID = cut, size, 1
		if order {
			a, b = b, a
		}
		g.ops = append(g.ops, a, b)
	} else {
		g.ops = append(g.ops, v07Op{kind: v07OpData, s: s, dest: dest, msgSeq: g.msgSeq, total: size, lo: 0, hi: size, fragCount: 1, noWait: true})
	}
	g.msgSeq++
	g.batch++
	if g.batch >= 48 {
		g.sync()
	}
}

func (g *v08Gen) sync() {
	g.ops = append(g.ops, v07Op{kind: v07OpSync})
	g.batch = 0
}

func (g *v08Gen) sess() int {
	if g.nSess == 1 {
		return 0
	}
	return rapid.IntRange(0, g.nSess-1).Draw(g.rt, "session")
}

func (g *v08Gen) pick(denied bool) int {
	var c []int
	for d := 0; d < g.pool; d++ {
		if g.cfg.deny[d] == denied {
			c = append(c, d)
		}
	}
	return c[rapid.IntRange(0, len(c)-1).Draw(g.rt, "pick")]
}

func v08GenCase(rt *rapid.T) (v07Cfg, []v07Op, *v08Gen) {
	g := &v08Gen{rt: rt, seen: map[int]bool{}, sessUsed: map[int]bool{}}
	mode := rapid.IntRange(0, 3).Draw(rt, "mode") // 0 small pool, 1 alternate, 2 overflow the decision cache, 3 overflow + repeats after eviction
	switch mode {
	case 0, 1:
		g.pool = rapid.IntRange(2, 12).Draw(rt, "pool")
		g.nSess = rapid.IntRange(1, 3).Draw(rt, "sessions")
	default:
		g.pool = rapid.IntRange(258, 400).Draw(rt, "pool")
		g.nSess = rapid.SampledFrom([]int{1, 1, 1, 2}).Draw(rt, "sessions")
	}
	// all sessions of the connection use the same destination strings (shared = true)
	g.cfg = v07Cfg{idle: 10 * time.Second, limit: rapid.SampledFrom([]int{1200, 64}).Draw(rt, "datagramLimit"), shared: true,
		sids:     rapid.SliceOfNDistinct(rapid.SampledFrom(v07SidPool), g.nSess, g.nSess, rapid.ID[uint32]).Draw(rt, "sessionIDs"),
		randSeed: rapid.Int64().Draw(rt, "randSeed")}
	if g.nSess == 1 {
		if rapid.IntRange(0, 3).Draw(rt, "hook") == 0 {
			g.cfg.hookMode = 1
		}
	} else {
		g.cfg.hookMode = rapid.SampledFrom([]int{0, 2, 2, 2, 1}).Draw(rt, "hookMode") // 2: only odd session indexes are rewritten
	}
	// the policy may also reject the address the hook rewrites a session to
	g.cfg.denyRewrite = make([]bool, g.nSess)
	for s := range g.cfg.denyRewrite {
		if g.cfg.hookRewrites(s) {
			g.cfg.denyRewrite[s] = rapid.IntRange(0, 3).Draw(rt, "rewriteTargetDenied") == 0
		}
	}
	// policy: arbitrary deny-set with at least one allowed and one denied destination
	pct := rapid.SampledFrom([]int{5, 20, 50, 80}).Draw(rt, "denyPercent")
	g.cfg.deny = make([]bool, g.pool)
	for d := range g.cfg.deny {
		g.cfg.deny[d] = rapid.IntRange(0, 99).Draw(rt, "deny") < pct
	}
	g.cfg.deny[rapid.IntRange(0, g.pool-1).Draw(rt, "forceDenied")] = true
	if d := rapid.IntRange(0, g.pool-1).Draw(rt, "forceAllowed"); g.cfg.deny[d] {
		g.cfg.deny[d] = false
		n := 0
		for _, x := range g.cfg.deny {
			if x {
				n++
			}
		}
		if n == 0 {
			g.cfg.deny[(d+1)%g.pool] = true
		}
	}
	// first destination of the first session: allowed or denied
	firstDenied := rapid.Bool().Draw(rt, "firstDenied")
	s0 := g.sess()
	if rapid.IntRange(0, 2).Draw(rt, "startWithMixedFragments") == 0 {
		g.mixedBlock(s0) // across session establishment: fragments arrive before/around the dial
	}
	g.datagram(s0, g.pick(firstDenied))
	if firstDenied && rapid.Bool().Draw(rt, "firstDeniedTwice") {
		g.datagram(s0, g.pick(true))
	}
	switch mode {
	case 0:
		n := rapid.IntRange(3, 60).Draw(rt, "n")
		for i := 0; i < n; i++ {
			if rapid.IntRange(0, 9).Draw(rt, "mixed") == 0 {
				g.mixedBlock(g.sess())
				continue
			}
			g.datagram(g.sess(), rapid.IntRange(0, g.pool-1).Draw(rt, "dest"))
		}
	case 1:
		n := rapid.IntRange(3, 30).Draw(rt, "n")
		d, a := g.pick(true), g.pick(false)
		for i := 0; i < n; i++ {
			if rapid.IntRange(0, 9).Draw(rt, "mixed") == 0 {
				g.mixedBlock(g.sess())
				continue
			}
			switch rapid.IntRange(0, 3).Draw(rt, "alt") {
			case 0:
				g.datagram(g.sess(), a)
			case 1:
				g.datagram(g.sess(), d)
			case 2:
				g.datagram(g.sess(), g.pick(false))
			default:
				g.datagram(g.sess(), g.pick(true))
			}
		}
	default:
		// one session walks over more distinct destinations than the decision cache holds, then comes back
		start := rapid.IntRange(0, g.pool-1).Draw(rt, "start")
		n := rapid.IntRange(257, g.pool).Draw(rt, "distinct")
		other := (s0 + 1) % g.nSess
		for i := 0; i < n; i++ {
			g.datagram(s0, (start+i)%g.pool)
			if mode == 3 && rapid.IntRange(0, 15).Draw(rt, "interleaveDenied") == 0 {
				g.datagram(s0, g.pick(true))
			}
			if other != s0 && rapid.IntRange(0, 30).Draw(rt, "otherSession") == 0 {
				g.datagram(other, rapid.IntRange(0, g.pool-1).Draw(rt, "dest"))
			}
		}
		m := rapid.IntRange(5, 80).Draw(rt, "after")
		for i := 0; i < m; i++ {
			switch rapid.IntRange(0, 3).Draw(rt, "afterKind") {
			case 0:
				g.datagram(s0, g.pick(true))
			case 1:
				g.datagram(s0, (start+rapid.IntRange(0, 20).Draw(rt, "early"))%g.pool) // used >= 256 destinations ago
			case 2:
				g.datagram(g.sess(), g.pick(false))
			default:
				g.datagram(g.sess(), rapid.IntRange(0, g.pool-1).Draw(rt, "dest"))
			}
		}
	}
	g.sync()
	// replies: with a hook rewrite they must be reported from the original address
	for i, n := 0, rapid.IntRange(0, 3).Draw(rt, "replies"); i < n; i++ {
		g.ops = append(g.ops, v07Op{kind: v07OpReply, s: g.sess(), dest: rapid.IntRange(0, g.pool-1).Draw(rt, "from"), size: rapid.IntRange(8, 300).Draw(rt, "replySize")})
	}
	// sometimes let the sessions expire and start again with other first destinations
	if rapid.IntRange(0, 3).Draw(rt, "restart") == 0 {
		g.ops = append(g.ops, v07Op{kind: v07OpAdvance, dur: g.cfg.idle + time.Second + time.Millisecond})
		if rapid.Bool().Draw(rt, "restartWithMixedFragments") {
			g.mixedBlock(g.sess())
		}
		n := rapid.IntRange(1, 20).Draw(rt, "n2")
		for i := 0; i < n; i++ {
			g.datagram(g.sess(), rapid.IntRange(0, g.pool-1).Draw(rt, "dest"))
		}
		g.sync()
	}
	// long destination names: all destinations of the case share a prefix of >= 64 bytes and differ only
	// in the tail (drawn last so that earlier draw positions stay where they were)
	if rapid.IntRange(0, 3).Draw(rt, "longNames") == 0 {
		g.cfg.longPfx = v07LongPrefix(rapid.SampledFrom([]int{64, 65, 128, 255, 300, 1000}).Draw(rt, "commonPrefixBytes"))
	}
	return g.cfg, g.ops, g
}

func TestVerifC08_Policy(t *testing.T) {
	st := newVStats("TestVerifC08_Policy")
	defer st.Flush()
	maxCache := 0
	defer func() { st.Extra("max_distinct_destinations_in_one_session", maxCache) }()
	rapid.Check(t, func(rt *rapid.T) {
		cfg, ops, g := v08GenCase(rt)
		res, h := v07RunCase(t, cfg, ops)
		if len(g.seen) > maxCache {
			maxCache = len(g.seen)
		}
		var cls []string
		rewritten, rewrittenDenied := false, false
		for s := range cfg.sids {
			if g.sessUsed[s] && cfg.hookRewrites(s) {
				rewritten = true
				rewrittenDenied = rewrittenDenied || cfg.denyRewrite[s]
			}
		}
		switch {
		case cfg.hookMode == 0:
			cls = append(cls, "hook-off")
		case cfg.hookMode == 2:
			cls = append(cls, "hook-rewrites-some-sessions")
		default:
			cls = append(cls, "hook-rewrites-all-sessions")
		}
		if rewrittenDenied {
			cls = append(cls, "rewrite-target-denied")
		}
		if len(g.sessUsed) >= 2 {
			cls = append(cls, "sessions>=2")
		}
		if cfg.longPfx != "" {
			cls = append(cls, fmt.Sprintf("long-names-common-prefix=%d", len(cfg.longPfx)))
		}
		if g.mixedBlocks > 0 {
			cls = append(cls, "fragments-with-different-addresses")
		}
		if res.m != nil && res.m.nMixedForwarded > 0 {
			cls = append(cls, "mixed-address-message-forwarded")
		}
		if len(g.seen) > 256 {
			cls = append(cls, "distinct>256")
		}
		if g.deniedAfterAllowed > 0 {
			cls = append(cls, "denied-after-allowed")
		}
		if cfg.deny[ops[0].dest] {
			cls = append(cls, "first-denied")
		} else {
			cls = append(cls, "first-allowed")
		}
		if res.m != nil {
			if res.m.nDenied > 0 {
				cls = append(cls, "policy-rejected-a-datagram")
			}
			if res.m.nForwarded > 0 {
				cls = append(cls, "datagram-forwarded")
			}
			if res.m.nReplies > 0 {
				cls = append(cls, "reply-delivered")
			}
			if res.m.nReuse > 0 {
				cls = append(cls, "session-restarted")
			}
		}
		nt := g.deniedAfterAllowed > 0 && (len(g.seen) > 256 || rewritten)
		var fp strings.Builder
		fmt.Fprintf(&fp, "%d/%d/%v/%d|", cfg.hookMode, len(cfg.deny), cfg.denyRewrite, len(cfg.longPfx))
		for _, o := range ops {
			if o.kind == v07OpData {
				fmt.Fprintf(&fp, "%d.%d%v,", o.s, o.dest, cfg.deny[o.dest])
			}
		}
		st.Case(nt, fp.String(), cls, func() string {
			var l []string
			for i, o := range ops {
				if o.kind == v07OpData && i < 40 {
					l = append(l, fmt.Sprintf("s%d>d%d:%s", o.s, o.dest, map[bool]string{true: "deny", false: "allow"}[cfg.deny[o.dest]]))
				}
			}
			return fmt.Sprintf("%v distinct=%d datagrams=%d: %s ...", cfg, len(g.seen), g.msgSeq, strings.Join(l, " "))
		})
		if res.violation != "" {
			rt.Fatalf("C08: %s%s", res.violation, res.render(cfg, h))
		}
	})
}

// Scripted (plain): the two scenarios of udp_acl_test.go plus cache overflow and hook rewrite.
func TestVerifC08_Scripted(t *testing.T) {
	st := newVStats("TestVerifC08_Scripted")
	defer st.Flush()
	dg := func(seq, dest int) v07Op {
		return v07Op{kind: v07OpData, s: 0, dest: dest, msgSeq: seq, total: 16, lo: 0, hi: 16, fragCount: 1, noWait: true}
	}
	for hook := 0; hook <= 1; hook++ {
		deny := make([]bool, 300)
		deny[1], deny[7], deny[299] = true, true, true
		cfg := v07Cfg{idle: 10 * time.Second, limit: 1200, hookMode: hook, deny: deny, sids: []uint32{77}, randSeed: 1}
		var overflow []v07Op
		seq := 0
		for _, d := range []int{0, 1, 0, 1, 7} {
			overflow = append(overflow, dg(seq, d))
			seq++
		}
		for d := 0; d < 300; d++ {
			overflow = append(overflow, dg(seq, d))
			seq++
			if d%40 == 39 {
				overflow = append(overflow, v07Op{kind: v07OpSync})
			}
		}
		for _, d := range []int{1, 0, 7, 2, 299, 1, 298} {
			overflow = append(overflow, dg(seq, d))
			seq++
		}
		overflow = append(overflow, v07Op{kind: v07OpSync}, v07Op{kind: v07OpReply, s: 0, dest: 5, size: 20})
		scripts := map[string][]v07Op{
			"allowed-then-denied": {dg(0, 0), dg(1, 1), dg(2, 0), dg(3, 1), {kind: v07OpSync}},
			"denied-first":        {dg(0, 1), dg(1, 1), dg(2, 0), dg(3, 7), dg(4, 2), {kind: v07OpSync}},
			"cache-overflow":      overflow,
		}
		for name, ops := range scripts {
			res, h := v07RunCase(t, cfg, ops)
			st.Case(true, fmt.Sprintf("%s/%d", name, hook), []string{name}, func() string { return fmt.Sprintf("%s hook=%d", name, hook) })
			if res.violation != "" {
				t.Fatalf("C08 scripted %q: %s%s", name, res.violation, res.render(cfg, h))
			}
			want := map[string][2]int{"allowed-then-denied": {2, 2}, "denied-first": {2, 1}, "cache-overflow": {0, 0}}[name]
			if hook == 0 && name != "cache-overflow" && (res.m.nForwarded != want[0] || res.m.nDenied != want[1]) {
				t.Fatalf("C08 scripted %q: harness expectation off: forwarded=%d denied=%d want %v%s", name, res.m.nForwarded, res.m.nDenied, want, res.render(cfg, h))
			}
		}
	}
	// several sessions on one connection using the same destination strings; the hook rewrites only the odd one
	dgs := func(s, seq, dest int) v07Op {
		o := dg(seq, dest)
		o.s = s
		return o
	}
	deny := make([]bool, 4)
	deny[1] = true
	for name, sc := range map[string]struct {
		cfg          v07Cfg
		ops          []v07Op
		fwd, refused int
	}{
		// session index 1 is rewritten: its denied original address d1 must not become "allowed" for session index 0
		"hooked-session-then-unhooked-to-its-original": {v07Cfg{idle: 10 * time.Second, limit: 1200, hookMode: 2, deny: deny, sids: []uint32{77, 78}, shared: true, denyRewrite: []bool{false, false}, randSeed: 1},
			[]v07Op{dgs(1, 0, 1), dgs(1, 1, 1), dgs(0, 2, 0), dgs(0, 3, 1), dgs(0, 4, 0), dgs(1, 5, 2), {kind: v07OpSync}}, 5, 1},
		// fragments of one datagram carrying different addresses: denied one first (before the dial), the allowed one last
		"mixed-address-fragments-across-dial": {v07Cfg{idle: 10 * time.Second, limit: 1200, deny: deny, sids: []uint32{9}, shared: true, denyRewrite: []bool{false}, randSeed: 1},
			[]v07Op{{kind: v07OpData, s: 0, dest: 1, msgSeq: 0, total: 20, lo: 0, hi: 10, pid: 1, fragID: 0, fragCount: 2, noWait: true}, dgs(0, 1, 0),
				{kind: v07OpData, s: 0, dest: 0, msgSeq: 0, total: 20, lo: 10, hi: 20, pid: 1, fragID: 1, fragCount: 2, noWait: true}, dgs(0, 2, 2),
				{kind: v07OpData, s: 0, dest: 0, msgSeq: 3, total: 20, lo: 10, hi: 20, pid: 4, fragID: 1, fragCount: 2, noWait: true},
				{kind: v07OpData, s: 0, dest: 1, msgSeq: 3, total: 20, lo: 0, hi: 10, pid: 4, fragID: 0, fragCount: 2, noWait: true}, {kind: v07OpSync}}, 3, 0},
		// the hook rewrites to an address the policy rejects: nothing may be forwarded, the original is not a fallback
		"rewrite-target-denied": {v07Cfg{idle: 10 * time.Second, limit: 1200, hookMode: 1, deny: deny, sids: []uint32{5}, shared: true, denyRewrite: []bool{true}, randSeed: 1},
			[]v07Op{dgs(0, 0, 0), dgs(0, 1, 0), dgs(0, 2, 2), dgs(0, 3, 1), {kind: v07OpSync}}, 0, 0},
	} {
		res, h := v07RunCase(t, sc.cfg, sc.ops)
		st.Case(true, name, []string{name}, func() string { return name })
		if res.violation != "" {
			t.Fatalf("C08 scripted %q: %s%s", name, res.violation, res.render(sc.cfg, h))
		}
		if res.m.nForwarded != sc.fwd || res.m.nDenied != sc.refused {
			t.Fatalf("C08 scripted %q: harness expectation off: forwarded=%d refused=%d want %d/%d%s", name, res.m.nForwarded, res.m.nDenied, sc.fwd, sc.refused, res.render(sc.cfg, h))
		}
	}
}
