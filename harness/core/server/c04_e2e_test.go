package server

// C04 end to end: a raw QUIC client writes [0x401][addr len][addr][pad len][padding][payload] on a
// proxy stream of an authenticated connection, choosing any legal varint width for the frame type
// and for each length field, any legal padding length, and any split of the bytes into writes.
// The real server must dial exactly that address and the echo target must receive exactly the
// payload (first payload byte not swallowed, nothing of the frame leaking into the payload); the
// TCPResponse coming back must decode under the harness's own reader with the echo right behind it.
// Reuses the raw-client kit of the C01 harness (c01_helpers_test.go).

import (
	"bytes"
	"context"
	"fmt"
	"io"
	"testing"
	"time"

	"pgregory.net/rapid"
)

type vC04E2EReq struct {
	addr               string
	wType, wAddr, wPad int
	pad                int
	payload            []byte
	cuts               []int
}

func (r vC04E2EReq) String() string {
	return fmt.Sprintf("addrLen=%d widths(type/addr/pad)=%d/%d/%d pad=%d payload=%d cuts=%v", len(r.addr), r.wType, r.wAddr, r.wPad, r.pad, len(r.payload), r.cuts)
}

func vC04E2EWidth(t *rapid.T, v uint64, label string) int {
	var ws []int
	for _, w := range []int{1, 2, 4, 8} {
		if w >= v01MinWidth(v) {
			ws = append(ws, w)
		}
	}
	return rapid.SampledFrom(ws).Draw(t, label)
}

func TestVerifC04_E2EFrameOnRealStream(t *testing.T) {
	st := newVStats("TestVerifC04_E2EFrameOnRealStream")
	defer st.Flush()
	rapid.Check(t, func(rt *rapid.T) {
		nreq := rapid.IntRange(1, 4).Draw(rt, "nreq")
		reqs := make([]vC04E2EReq, nreq)
		for i := range reqs {
			r := &reqs[i]
			alen := rapid.SampledFrom([]int{0, 0, 0, 40, 49, 50, 240, 2020}).Draw(rt, "addrExtra")
			host := fmt.Sprintf("c0-op%d", i)
			for len(host) < alen {
				host += "x"
			}
			r.addr = host + ".test:80"
			r.wType = vC04E2EWidth(rt, 0x401, "wType")
			r.wAddr = vC04E2EWidth(rt, uint64(len(r.addr)), "wAddr")
			r.pad = rapid.SampledFrom([]int{0, 1, 2, 63, 64, 65, 300, 1023, 4095, 4096}).Draw(rt, "pad")
			r.wPad = vC04E2EWidth(rt, uint64(r.pad), "wPad")
			plen := rapid.SampledFrom([]int{1, 2, 7, 8, 63, 64, 500, 1200, 3000}).Draw(rt, "payloadLen")
			r.payload = make([]byte, plen)
			seed := rapid.IntRange(0, 250).Draw(rt, "salt")
			for j := range r.payload {
				r.payload[j] = byte((j*31 + seed*7 + 1) % 251) // includes bytes that look like varints / frame types
			}
			ncut := rapid.IntRange(0, 3).Draw(rt, "ncut")
			for k := 0; k < ncut; k++ {
				r.cuts = append(r.cuts, rapid.IntRange(1, 40).Draw(rt, "cut"))
			}
		}
		env := v01NewEnv(v01EnvCfg{GoodTokens: []string{"tok"}, UseTL: rapid.Bool().Draw(rt, "trafficLogger")})
		defer env.Close()
		var cl *v01Client
		var err error
		for attempt := 0; attempt < 3; attempt++ {
			if cl, err = v01Dial(env, 0); err == nil {
				break
			}
		}
		if err != nil {
			vInconclusive("C04 e2e: " + err.Error())
		}
		defer func() { cl.Close(); cl.release() }()
		resp := cl.do(v01AuthReq("a0", "tok#c0-auth", "0", "pppp"))
		if resp.Err != nil {
			vInconclusive("C04 e2e: auth request failed: " + resp.Err.Error())
		}
		if resp.Status != 233 {
			rt.Fatalf("C04 e2e: harness could not authenticate (status %d)", resp.Status)
		}
		nonMin := false
		for i, r := range reqs {
			head := v01PutVarint(nil, 0x401, r.wType)
			head = v01PutVarint(head, uint64(len(r.addr)), r.wAddr)
			head = append(head, r.addr...)
			head = v01PutVarint(head, uint64(r.pad), r.wPad)
			for k := 0; k < r.pad; k++ {
				head = append(head, byte(0x40+k%64))
			}
			if r.wType != v01MinWidth(0x401) || r.wAddr != v01MinWidth(uint64(len(r.addr))) || r.wPad != v01MinWidth(uint64(r.pad)) {
				nonMin = true
			}
			wire := append(append([]byte(nil), head...), r.payload...)
			ctx, cancel := context.WithTimeout(context.Background(), v01ReqTimeout)
			str, err := cl.qc.OpenStreamSync(ctx)
			cancel()
			if err != nil {
				vInconclusive("C04 e2e: cannot open a stream: " + err.Error())
			}
			_ = str.SetDeadline(time.Now().Add(v01ReqTimeout))
			// write in pieces: cut points are relative to the END of the head (so they fall around the frame/payload border)
			pos := 0
			for _, c := range r.cuts {
				at := len(head) - 20 + c
				if at <= pos || at >= len(wire) {
					continue
				}
				if _, err := str.Write(wire[pos:at]); err != nil {
					rt.Fatalf("C04 e2e: request %d (%v): write failed: %v", i, r, err)
				}
				pos = at
			}
			if _, err := str.Write(wire[pos:]); err != nil {
				rt.Fatalf("C04 e2e: request %d (%v): write failed: %v", i, r, err)
			}
			status, msg, err := v01ReadTCPResponse(str)
			if err != nil {
				if cl.dead() {
					rt.Fatalf("C04 e2e: request %d (%v): the server killed the connection instead of answering a legal TCPRequest: %v", i, r, cl.deathCause())
				}
				rt.Fatalf("C04 e2e: request %d (%v): no decodable TCPResponse: %v", i, r, err)
			}
			if status != 0 {
				rt.Fatalf("C04 e2e: request %d (%v): server answered error %q to a legal TCPRequest", i, r, msg)
			}
			echo := make([]byte, len(r.payload))
			if _, err := io.ReadFull(str, echo); err != nil {
				rt.Fatalf("C04 e2e: request %d (%v): echo of the payload did not come back (%v): payload bytes were swallowed by frame parsing", i, r, err)
			}
			if !bytes.Equal(echo, r.payload) {
				d := 0
				for d < len(echo) && echo[d] == r.payload[d] {
					d++
				}
				rt.Fatalf("C04 e2e: request %d (%v): target received bytes that differ from the payload at offset %d (got %x.., want %x..)", i, r, d, echo[d:min(d+8, len(echo))], r.payload[d:min(d+8, len(echo))])
			}
			if n := env.log.count("OutTCP", r.addr); n != 1 {
				rt.Fatalf("C04 e2e: request %d (%v): outbound dialled %d times for the exact address sent (want 1): the address was not read back identical", i, r, n)
			}
			str.CancelRead(0)
			_ = str.Close()
		}
		cls := []string{fmt.Sprintf("reqs=%d", nreq)}
		if nonMin {
			cls = append(cls, "non-minimal-varint")
		}
		st.Case(true, fmt.Sprint(reqs), cls, func() string { return fmt.Sprint(reqs) })
	})
}
