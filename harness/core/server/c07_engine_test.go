package server

// C07 / C08 — engine shared by the server UDP session manager checks.
//
// The real udpSessionManager runs inside a testing/synctest bubble against
// harness-owned fakes for its whole environment (udpIO, UDPConn, udpEventLogger).
// The fakes (1) append every environment call to one sequence-numbered event log
// with its virtual time, (2) inject faults, (3) park the calling goroutine at the
// call sites where the implementation holds no lock (SendMessage, WriteTo,
// CheckUDP, udpEventLogger.Close) until the generated schedule releases it.
// UDP(), Hook(), udpEventLogger.New() and UDPConn.Close() are called under
// udpSessionEntry.connLock and therefore never park.
//
// The oracle is a model (v07Model) that replays the event log: it is written from
// the property statements, not from udp.go. It knows nothing about the session
// table, the sweeper or the decision cache; it only sees what crossed the
// environment boundary and when.

import (
	"bytes"
	"encoding/binary"
	"errors"
	"fmt"
	"math/rand"
	"runtime"
	"sort"
	"strings"
	"sync"
	"testing"
	"testing/synctest"
	"time"

	"github.com/apernet/quic-go"

	"github.com/apernet/hysteria/core/v2/internal/protocol"
)

// ------------------------------------------------------------------ operations

type v07OpKind int

const (
	v07OpData        v07OpKind = iota // client datagram (complete or one fragment)
	v07OpReply                        // a packet arrives on the session's current outbound socket
	v07OpAdvance                      // virtual time passes
	v07OpDialFail                     // next UDP() fails
	v07OpHookFail                     // next Hook() fails
	v07OpWriteFail                    // next WriteTo fails
	v07OpReadFail                     // ReadFrom on the session's current socket fails
	v07OpSendFail                     // next SendMessage of the session fails
	v07OpParkSend                     // next SendMessage of the session parks
	v07OpReleaseSend                  // release the oldest parked SendMessage of the session (ok / error)
	v07OpParkFeeder                   // next WriteTo (which=1), CheckUDP (2) or either (3) parks the receive loop
	v07OpReleaseFeeder
	v07OpParkLog // next udpEventLogger.Close of the session parks
	v07OpReleaseLog
	v07OpConnLost // the client connection ends
	v07OpSync     // quiescent point only
)

type v07Op struct {
	kind  v07OpKind
	s     int // session index into cfg.sids
	dest  int // destination index
	size  int // reply size
	dur   time.Duration
	fail  bool
	which int
	// datagram
	msgSeq    int // number of the client message this datagram belongs to
	total     int // payload size of the whole message
	lo, hi    int // this datagram carries payload[lo:hi]
	pid       uint16
	fragID    uint8
	fragCount uint8
	noWait    bool // do not wait for quiescence after this op (batches)
}

func (o v07Op) String() string {
	switch o.kind {
	case v07OpData:
		if o.fragCount <= 1 {
			return fmt.Sprintf("datagram(s%d d%d msg%d %dB)", o.s, o.dest, o.msgSeq, o.total)
		}
		return fmt.Sprintf("fragment(s%d d%d msg%d pid%d %d/%d [%d:%d] of %dB)", o.s, o.dest, o.msgSeq, o.pid, o.fragID, o.fragCount, o.lo, o.hi, o.total)
	case v07OpReply:
		return fmt.Sprintf("reply(s%d from d%d %dB)", o.s, o.dest, o.size)
	case v07OpAdvance:
		return fmt.Sprintf("advance(%v)", o.dur)
	case v07OpDialFail:
		return "dialFails(next)"
	case v07OpHookFail:
		return "hookFails(next)"
	case v07OpWriteFail:
		return "writeToFails(next)"
	case v07OpReadFail:
		return fmt.Sprintf("readFromFails(s%d)", o.s)
	case v07OpSendFail:
		return fmt.Sprintf("sendFails(s%d next)", o.s)
	case v07OpParkSend:
		return fmt.Sprintf("parkSend(s%d)", o.s)
	case v07OpReleaseSend:
		return fmt.Sprintf("releaseSend(s%d fail=%v)", o.s, o.fail)
	case v07OpParkFeeder:
		return fmt.Sprintf("parkFeeder(%s)", [...]string{"?", "WriteTo", "CheckUDP", "either"}[o.which&3])
	case v07OpReleaseFeeder:
		return "releaseFeeder"
	case v07OpParkLog:
		return fmt.Sprintf("parkLogClose(s%d)", o.s)
	case v07OpReleaseLog:
		return "releaseLogClose"
	case v07OpConnLost:
		if o.size > 0 {
			return fmt.Sprintf("connectionLost(up to %d queued datagrams are still delivered)", o.size)
		}
		return "connectionLost"
	case v07OpSync:
		return "sync"
	}
	return "?"
}

type v07Cfg struct {
	idle     time.Duration
	limit    int      // datagram limit of the fake SendMessage
	hookMode int      // 0 off, 1 rewrite every session, 2 rewrite odd session indexes
	deny     []bool   // deny[dest] (nil = everything allowed)
	sids     []uint32 // session index -> wire session ID
	randSeed int64
	// shared: destination strings do not carry the session index, so several sessions talk to the very
	// same address strings (C08: decision caches keyed by address). The fakes then attribute UDP()/Hook()
	// to the session of the datagram the receive loop was handed last (feeding is one goroutine).
	shared      bool
	denyRewrite []bool // denyRewrite[s]: the policy rejects the address the hook rewrites session s to
	// phase: virtual time that passes before the manager starts, so that the sweeper's ticks (and every
	// later instant) are not aligned to whole wall-clock seconds (the bubble's clock starts at a whole second)
	phase time.Duration
	// longPfx: common prefix (>= 64 bytes) of every destination string of the case ("" = short names)
	longPfx string
}

func (c v07Cfg) addr(s, dest int) string {
	if c.shared {
		return c.longPfx + v07Addr(0, dest)
	}
	return c.longPfx + v07Addr(s, dest)
}

// v07LongPrefix: n bytes of host-name labels, "long-" first, ending in a dot. Destinations of one case
// then share their first n bytes and differ only in the tail.
func v07LongPrefix(n int) string {
	b := []byte("long-")
	for i := 0; len(b) < n; i++ {
		if i%10 == 9 || len(b) == n-1 {
			b = append(b, '.')
		} else {
			b = append(b, byte('a'+i%26))
		}
	}
	if b[len(b)-2] == '.' {
		b[len(b)-2] = 'z'
	}
	return string(b)
}

func (c v07Cfg) String() string {
	nd := 0
	for _, d := range c.deny {
		if d {
			nd++
		}
	}
	return fmt.Sprintf("idle=%v limit=%d hook=%d sids=%v denied=%d/%d sharedDestinations=%v rewriteTargetDenied=%v startPhase=%v randseed=%d", c.idle, c.limit, c.hookMode, c.sids, nd, len(c.deny), c.shared, c.denyRewrite, c.phase, c.randSeed)
}

func v07Addr(s, dest int) string    { return fmt.Sprintf("s%d.d%d.test:%d", s, dest, 1000+dest%50000) }
func v07RewrittenAddr(s int) string { return fmt.Sprintf("s%d.x.test:9", s) }

// v07ParseAddr returns the session index and destination index (-1 = rewritten target) of a harness address.
func v07ParseAddr(a string) (s, dest int, ok bool) {
	if strings.HasPrefix(a, "long-") {
		if i := strings.LastIndex(a, ".s"); i >= 0 {
			a = a[i+1:]
		}
	}
	var port int
	if n, _ := fmt.Sscanf(a, "s%d.d%d.test:%d", &s, &dest, &port); n == 3 {
		return s, dest, true
	}
	if n, _ := fmt.Sscanf(a, "s%d.x.test:9", &s); n == 1 {
		return s, -1, true
	}
	return 0, 0, false
}

func (c v07Cfg) allowed(addr string) bool {
	_, d, ok := v07ParseAddr(addr)
	if !ok {
		return false
	}
	if d < 0 {
		s, _, _ := v07ParseAddr(addr)
		return s >= len(c.denyRewrite) || !c.denyRewrite[s]
	}
	return d >= len(c.deny) || !c.deny[d]
}

func (c v07Cfg) hookRewrites(s int) bool {
	return c.hookMode == 1 || (c.hookMode == 2 && s%2 == 1)
}

// payloads carry their identity: 0xA5, kind, number(4), size(2), then a filler derived from the number.
func v07Payload(kind byte, num, size int) []byte {
	if size < 8 {
		size = 8
	}
	b := make([]byte, size)
	b[0], b[1] = 0xA5, kind
	binary.BigEndian.PutUint32(b[2:], uint32(num))
	binary.BigEndian.PutUint16(b[6:], uint16(size))
	x := uint32(num)*2654435761 + uint32(kind)
	for i := 8; i < size; i++ {
		x = x*1664525 + 1013904223
		b[i] = byte(x >> 24)
	}
	return b
}

func v07Tag(kind byte, b []byte) int {
	if len(b) < 8 || b[0] != 0xA5 || b[1] != kind {
		return -1
	}
	return int(binary.BigEndian.Uint32(b[2:]))
}

func v07VarintLen(v uint64) int {
	switch {
	case v <= 63:
		return 1
	case v <= 16383:
		return 2
	case v <= 1073741823:
		return 4
	default:
		return 8
	}
}

func v07WireSize(addrLen, dataLen int) int {
	return 8 + v07VarintLen(uint64(addrLen)) + addrLen + dataLen
}

// ------------------------------------------------------------------ event log

type v07EvKind int

const (
	v07EvRecvWait v07EvKind = iota
	v07EvRecv
	v07EvRecvErr
	v07EvHook
	v07EvLogNew
	v07EvDial
	v07EvCheck
	v07EvCheckPark
	v07EvWrite
	v07EvWriteErr
	v07EvWriteClosed
	v07EvWritePark
	v07EvRead
	v07EvReadErr
	v07EvReadClosed
	v07EvSendOK
	v07EvSendTooLarge
	v07EvSendErr
	v07EvSendPark
	v07EvSockClose
	v07EvLogClose
	v07EvLogCloseRet
	v07EvSendDropped
)

var v07EvNames = [...]string{"RecvWait", "Recv", "RecvErr", "Hook", "LogNew", "UDP", "CheckUDP", "CheckUDP-parked", "WriteTo", "WriteTo-err", "WriteTo-closed", "WriteTo-parked",
	"ReadFrom", "ReadFrom-err", "ReadFrom-closed", "Send", "Send-toolarge", "Send-err", "Send-parked", "SockClose", "LogClose", "LogClose-return", "Send-dropped(does not fit the caller's buffer)"}

type v07Ev struct {
	k     v07EvKind
	at    time.Duration
	sid   uint32
	sock  int
	msg   int // index into h.msgs
	pkt   int // index into h.pkts
	addr  string
	addr2 string
	ok    bool
	park  bool
	pid   uint16
	fid   uint8
	fcnt  uint8
	data  []byte
	loop  *byte // SendMessage: identity of the caller's message buffer (one per reply loop)
}

func (e v07Ev) String() string {
	s := fmt.Sprintf("@%v %s", e.at, v07EvNames[e.k])
	switch e.k {
	case v07EvRecv:
		s += fmt.Sprintf(" dg#%d sid=%d pid=%d frag=%d/%d %s %dB", e.msg, e.sid, e.pid, e.fid, e.fcnt, e.addr, len(e.data))
	case v07EvHook:
		s += fmt.Sprintf(" %s -> %s ok=%v", e.addr, e.addr2, e.ok)
	case v07EvLogNew:
		s += fmt.Sprintf(" sid=%d %s", e.sid, e.addr)
	case v07EvDial:
		s += fmt.Sprintf(" %s -> sock%d ok=%v", e.addr, e.sock, e.ok)
	case v07EvCheck, v07EvCheckPark:
		s += fmt.Sprintf(" %s allow=%v", e.addr, e.ok)
	case v07EvWrite, v07EvWriteErr, v07EvWriteClosed, v07EvWritePark:
		s += fmt.Sprintf(" sock%d -> %s %dB (client msg tag %d)", e.sock, e.addr, len(e.data), v07Tag('D', e.data))
	case v07EvRead:
		s += fmt.Sprintf(" sock%d pkt%d from %s", e.sock, e.pkt, e.addr)
	case v07EvReadErr, v07EvReadClosed, v07EvSockClose:
		s += fmt.Sprintf(" sock%d", e.sock)
	case v07EvSendOK, v07EvSendTooLarge, v07EvSendErr, v07EvSendPark, v07EvSendDropped:
		s += fmt.Sprintf(" sid=%d pid=%d frag=%d/%d from %s %dB (pkt tag %d)", e.sid, e.pid, e.fid, e.fcnt, e.addr, len(e.data), e.pkt)
	case v07EvLogClose:
		s += fmt.Sprintf(" sid=%d err=%v parked=%v", e.sid, !e.ok, e.park)
	case v07EvLogCloseRet:
		s += fmt.Sprintf(" sid=%d", e.sid)
	}
	return s
}

// ------------------------------------------------------------------ fakes

type v07InMsg struct {
	n       int
	op      v07Op
	sid     uint32
	addr    string
	full    []byte // payload of the whole client message
	data    []byte // payload carried by this datagram
	tainted bool
	mixed   bool // the fragments of this client message carry different destination addresses
}

type v07Pkt struct {
	n          int
	sock       int
	from       string
	data       []byte
	err        bool // an injected ReadFrom error, not a packet
	read       bool
	deliveries int
	mayLose    bool
}

type v07Parked struct {
	sid uint32
	ch  chan error
	pkt int
}

var (
	v07ErrClosed   = errors.New("v07: use of closed socket")
	v07ErrInjected = errors.New("v07: injected fault")
	v07ErrLost     = errors.New("v07: connection lost")
	v07ErrDenied   = errors.New("v07: rejected by outbound policy")
)

type v07H struct {
	cfg v07Cfg
	t0  time.Time

	mu    sync.Mutex
	ev    []v07Ev
	socks []*v07Sock
	msgs  []*v07InMsg
	pkts  []*v07Pkt

	inbox  chan *v07InMsg
	lostCh chan struct{}
	lost   bool
	// lostDrain: datagrams still handed out by ReceiveMessage after the connection was lost
	lostDrain int
	curS      int // session index of the datagram handed to the receive loop last

	dialFail, hookFail, writeFail bool
	sendFail                      map[uint32]bool
	parkSendArmed                 map[uint32]bool
	parkedSends                   []*v07Parked
	feederArm                     int
	feederParked                  *v07Parked
	logArm                        map[uint32]bool
	logParked                     *v07Parked
}

func (h *v07H) now() time.Duration { return time.Since(h.t0) }

// log appends under h.mu (callers hold it).
func (h *v07H) logLocked(e v07Ev) {
	e.at = h.now()
	h.ev = append(h.ev, e)
}

// ---- udpIO

type v07IO struct{ h *v07H }

func (io *v07IO) ReceiveMessage() (*protocol.UDPMessage, error) {
	h := io.h
	h.mu.Lock()
	h.logLocked(v07Ev{k: v07EvRecvWait})
	lost := h.lost
	var drained *v07InMsg
	if lost && h.lostDrain > 0 {
		// like quic-go's datagram queue: datagrams that arrived before the connection died are
		// still handed out after it died
		select {
		case drained = <-h.inbox:
			h.lostDrain--
		default:
		}
	}
	if lost && drained == nil {
		h.logLocked(v07Ev{k: v07EvRecvErr})
	}
	h.mu.Unlock()
	if lost && drained == nil {
		return nil, v07ErrLost
	}
	if drained != nil {
		m := drained
		h.mu.Lock()
		h.curS = m.op.s
		h.logLocked(v07Ev{k: v07EvRecv, msg: m.n, sid: m.sid, pid: m.op.pid, fid: m.op.fragID, fcnt: m.op.fragCount, addr: m.addr, data: m.data})
		h.mu.Unlock()
		return &protocol.UDPMessage{SessionID: m.sid, PacketID: m.op.pid, FragID: m.op.fragID, FragCount: m.op.fragCount, Addr: m.addr, Data: append([]byte(nil), m.data...)}, nil
	}
	select {
	case m := <-h.inbox:
		h.mu.Lock()
		h.curS = m.op.s
		h.logLocked(v07Ev{k: v07EvRecv, msg: m.n, sid: m.sid, pid: m.op.pid, fid: m.op.fragID, fcnt: m.op.fragCount, addr: m.addr, data: m.data})
		h.mu.Unlock()
		// what the real udpIOImpl hands over: a freshly parsed message with its own buffer
		return &protocol.UDPMessage{SessionID: m.sid, PacketID: m.op.pid, FragID: m.op.fragID, FragCount: m.op.fragCount, Addr: m.addr, Data: append([]byte(nil), m.data...)}, nil
	case <-h.lostCh:
		h.mu.Lock()
		h.logLocked(v07Ev{k: v07EvRecvErr})
		h.mu.Unlock()
		return nil, v07ErrLost
	}
}

func (io *v07IO) SendMessage(buf []byte, m *protocol.UDPMessage) error {
	h := io.h
	data := append([]byte(nil), m.Data...)
	pkt := -1
	if m.FragID == 0 {
		pkt = v07Tag('R', data)
	}
	e := v07Ev{sid: m.SessionID, pid: m.PacketID, fid: m.FragID, fcnt: m.FragCount, addr: m.Addr, data: data, pkt: pkt}
	if len(buf) > 0 {
		e.loop = &buf[0]
	}
	h.mu.Lock()
	if v07WireSize(len(m.Addr), len(data)) > len(buf) {
		// what the real udpIOImpl does first: Serialize into the caller's buffer; no room = silent drop
		e.k = v07EvSendDropped
		h.logLocked(e)
		h.mu.Unlock()
		return nil
	}
	if v07WireSize(len(m.Addr), len(data)) > h.cfg.limit {
		e.k = v07EvSendTooLarge
		h.logLocked(e)
		h.mu.Unlock()
		return &quic.DatagramTooLargeError{MaxDatagramPayloadSize: int64(h.cfg.limit)}
	}
	if h.parkSendArmed[m.SessionID] {
		delete(h.parkSendArmed, m.SessionID)
		p := &v07Parked{sid: m.SessionID, ch: make(chan error, 1), pkt: pkt}
		h.parkedSends = append(h.parkedSends, p)
		e.k = v07EvSendPark
		h.logLocked(e)
		h.mu.Unlock()
		err := <-p.ch // no implementation lock is held here
		h.mu.Lock()
		if err != nil {
			e.k = v07EvSendErr
			h.logLocked(e)
			h.mu.Unlock()
			return err
		}
	}
	defer h.mu.Unlock()
	if h.lost {
		e.k = v07EvSendErr
		h.logLocked(e)
		return v07ErrLost
	}
	if h.sendFail[m.SessionID] {
		delete(h.sendFail, m.SessionID)
		e.k = v07EvSendErr
		h.logLocked(e)
		return v07ErrInjected
	}
	e.k = v07EvSendOK
	h.logLocked(e)
	return nil
}

// ownerOf: session index an address passed to Hook()/UDP() belongs to (callers hold h.mu).
func (h *v07H) ownerOf(addr string) (int, bool) {
	s, d, ok := v07ParseAddr(addr)
	if h.cfg.shared && (!ok || d >= 0) {
		return h.curS, true
	}
	return s, ok
}

func (io *v07IO) Hook(data []byte, reqAddr *string) error { // called under connLock: never parks
	h := io.h
	h.mu.Lock()
	defer h.mu.Unlock()
	e := v07Ev{k: v07EvHook, addr: *reqAddr, addr2: *reqAddr, ok: true}
	if h.hookFail {
		h.hookFail = false
		e.ok = false
		h.logLocked(e)
		return v07ErrInjected
	}
	if s, ok := h.ownerOf(*reqAddr); ok && h.cfg.hookRewrites(s) {
		*reqAddr = v07RewrittenAddr(s)
		e.addr2 = *reqAddr
	}
	h.logLocked(e)
	return nil
}

func (io *v07IO) UDP(reqAddr string) (UDPConn, error) { // called under connLock: never parks
	h := io.h
	h.mu.Lock()
	defer h.mu.Unlock()
	e := v07Ev{k: v07EvDial, addr: reqAddr, sock: -1}
	if o, ok := h.ownerOf(reqAddr); ok {
		e.pkt = o // owner session index
	} else {
		e.pkt = -1
	}
	if h.dialFail {
		h.dialFail = false
		h.logLocked(e)
		return nil, v07ErrInjected
	}
	if !h.cfg.allowed(reqAddr) {
		h.logLocked(e)
		return nil, v07ErrDenied
	}
	s := &v07Sock{h: h, id: len(h.socks), dialAddr: reqAddr, in: make(chan *v07Pkt, 256), closedCh: make(chan struct{})}
	s.owner, _ = h.ownerOf(reqAddr)
	h.socks = append(h.socks, s)
	e.sock, e.ok = s.id, true
	h.logLocked(e)
	return s, nil
}

func (io *v07IO) CheckUDP(reqAddr string) error {
	h := io.h
	h.mu.Lock()
	allow := h.cfg.allowed(reqAddr)
	e := v07Ev{k: v07EvCheck, addr: reqAddr, ok: allow}
	if h.feederArm&2 != 0 && h.feederParked == nil {
		h.feederArm = 0
		p := &v07Parked{ch: make(chan error, 1)}
		h.feederParked = p
		e.k = v07EvCheckPark
		h.logLocked(e)
		h.mu.Unlock()
		<-p.ch
		h.mu.Lock()
		e.k = v07EvCheck
	}
	h.logLocked(e)
	h.mu.Unlock()
	if !allow {
		return v07ErrDenied
	}
	return nil
}

// ---- UDPConn

type v07Sock struct {
	h          *v07H
	id         int
	dialAddr   string
	owner      int // session index the socket was dialed for
	in         chan *v07Pkt
	closedCh   chan struct{}
	closeCount int
	closedAt   time.Duration
}

func (s *v07Sock) isClosed() bool {
	select {
	case <-s.closedCh:
		return true
	default:
		return false
	}
}

func (s *v07Sock) ReadFrom(b []byte) (int, string, error) {
	h := s.h
	var p *v07Pkt
	// deterministic priority: a closed socket fails even when packets are queued
	if s.isClosed() {
		p = nil
	} else {
		select {
		case p = <-s.in:
		default:
			select {
			case p = <-s.in:
			case <-s.closedCh:
			}
		}
	}
	h.mu.Lock()
	defer h.mu.Unlock()
	if p == nil {
		h.logLocked(v07Ev{k: v07EvReadClosed, sock: s.id})
		return 0, "", v07ErrClosed
	}
	if p.err {
		h.logLocked(v07Ev{k: v07EvReadErr, sock: s.id})
		return 0, "", v07ErrInjected
	}
	n := copy(b, p.data)
	p.read = true
	h.logLocked(v07Ev{k: v07EvRead, sock: s.id, pkt: p.n, addr: p.from})
	return n, p.from, nil
}

func (s *v07Sock) WriteTo(b []byte, addr string) (int, error) {
	h := s.h
	e := v07Ev{sock: s.id, addr: addr, data: append([]byte(nil), b...)}
	h.mu.Lock()
	if h.feederArm&1 != 0 && h.feederParked == nil && !s.isClosed() {
		h.feederArm = 0
		p := &v07Parked{ch: make(chan error, 1)}
		h.feederParked = p
		e.k = v07EvWritePark
		h.logLocked(e)
		h.mu.Unlock()
		<-p.ch // the receive loop is stuck in the socket write; no implementation lock is held
		h.mu.Lock()
	}
	defer h.mu.Unlock()
	if s.isClosed() {
		e.k = v07EvWriteClosed
		h.logLocked(e)
		return 0, v07ErrClosed
	}
	if h.writeFail {
		h.writeFail = false
		e.k = v07EvWriteErr
		h.logLocked(e)
		return 0, v07ErrInjected
	}
	e.k = v07EvWrite
	h.logLocked(e)
	return len(b), nil
}

func (s *v07Sock) Close() error { // called under connLock: never parks
	h := s.h
	h.mu.Lock()
	defer h.mu.Unlock()
	s.closeCount++
	h.logLocked(v07Ev{k: v07EvSockClose, sock: s.id})
	if s.closeCount == 1 {
		s.closedAt = h.now()
		close(s.closedCh)
	}
	return nil
}

// ---- udpEventLogger

type v07Logger struct{ h *v07H }

func (l *v07Logger) New(sessionID uint32, reqAddr string) { // called under connLock: never parks
	h := l.h
	h.mu.Lock()
	h.logLocked(v07Ev{k: v07EvLogNew, sid: sessionID, addr: reqAddr})
	h.mu.Unlock()
}

func (l *v07Logger) Close(sessionID uint32, err error) {
	h := l.h
	h.mu.Lock()
	e := v07Ev{k: v07EvLogClose, sid: sessionID, ok: err == nil}
	if h.logArm[sessionID] && h.logParked == nil {
		delete(h.logArm, sessionID)
		p := &v07Parked{sid: sessionID, ch: make(chan error, 1)}
		h.logParked = p
		e.park = true
		h.logLocked(e)
		h.mu.Unlock()
		<-p.ch // a slow event logger; no implementation lock is held
		h.mu.Lock()
		h.logLocked(v07Ev{k: v07EvLogCloseRet, sid: sessionID})
		h.mu.Unlock()
		return
	}
	h.logLocked(e)
	h.mu.Unlock()
}

// ------------------------------------------------------------------ model

type v07Inst struct {
	sid         uint32
	ord         int // 1 = first session with this ID, 2 = first reuse, ...
	sock        int // -1: no outbound socket yet
	created     time.Duration
	lastAny     time.Duration   // last traffic of any kind (for "must be closed")
	fwd         []time.Duration // creation time + times of traffic that was actually forwarded (for "must be kept")
	fault       bool
	closeLogged bool
	closing     bool // Close logged, the logger has not returned yet
	finished    bool
	orig        string
	override    string
	got         map[int]map[uint8]bool
	closedIdle  bool
}

type v07Feed struct {
	msg      *v07InMsg
	inst     *v07Inst
	at       time.Duration
	complete bool
	hadSock  bool
	window   bool
	hookErr  bool
	hookIn   string
	hookOut  string
	dialSeen bool
	dialOK   bool
	writes   int
	lost     int
	checks   int
	done     bool
}

// v07FragKey: fragments are grouped the way the far side can (session, packet ID); the
// sender's message buffer additionally tells two reply loops of a reused ID apart.
type v07FragKey struct {
	loop *byte
	sid  uint32
	pid  uint16
}

type v07Stall struct{ from, to time.Duration } // to<0: still parked

type v07Model struct {
	cfg      v07Cfg
	h        *v07H
	next     int // next event to replay
	cur      map[uint32]*v07Inst
	old      map[uint32]*v07Inst // an instance replaced while its Close was still parked
	all      []*v07Inst
	bySock   map[int]*v07Inst
	closes   map[int]int // socket -> Close() calls replayed so far
	feed     *v07Feed
	lost     bool
	stalls   []v07Stall
	frags    map[v07FragKey]map[uint8][]byte
	fragCnt  map[v07FragKey]uint8
	fragAddr map[v07FragKey]string

	// statistics for the NT rule / evidence
	nMixedForwarded                                                                              int
	nExpired, nFault, nReuse, nLateRelease, nForwarded, nDenied, nReplies, nFragReplies, nWindow int
	sessionsSeen                                                                                 map[uint32]bool
	maxCheckBurst                                                                                int
}

func v07NewModel(cfg v07Cfg, h *v07H) *v07Model {
	return &v07Model{cfg: cfg, h: h, cur: map[uint32]*v07Inst{}, old: map[uint32]*v07Inst{}, bySock: map[int]*v07Inst{}, closes: map[int]int{},
		frags: map[v07FragKey]map[uint8][]byte{}, fragCnt: map[v07FragKey]uint8{}, fragAddr: map[v07FragKey]string{}, sessionsSeen: map[uint32]bool{}}
}

func (m *v07Model) logParked() bool {
	return len(m.stalls) > 0 && m.stalls[len(m.stalls)-1].to < 0
}

func (m *v07Model) stalledBetween(a, b time.Duration) time.Duration {
	var tot time.Duration
	for _, s := range m.stalls {
		lo, hi := s.from, s.to
		if hi < 0 || hi > b {
			hi = b
		}
		if lo < a {
			lo = a
		}
		if hi > lo {
			tot += hi - lo
		}
	}
	return tot
}

// mayClose: the statement allows closing a session at time `at` when the connection is
// gone, after a fault on that session, or when the session has been without (forwarded)
// traffic for the idle timeout at some moment u and the close happens within one sweep
// interval of u (time during which the environment's event logger blocked does not count).
func (m *v07Model) mayClose(in *v07Inst, at time.Duration) (bool, string) {
	if m.lost {
		return true, "lost"
	}
	if in.fault {
		return true, "fault"
	}
	f := append([]time.Duration(nil), in.fwd...)
	sort.Slice(f, func(i, j int) bool { return f[i] < f[j] })
	for i := range f {
		end := at
		if i+1 < len(f) && f[i+1] < at {
			end = f[i+1]
		}
		if f[i] > at {
			break
		}
		if end-f[i] >= m.cfg.idle {
			u := end
			if at-u-m.stalledBetween(u, at) <= v07IdleSweep {
				return true, "idle"
			}
		}
	}
	return false, ""
}

const v07IdleSweep = 1 * time.Second // "within one sweep interval": the statement's figure, not read from udp.go

func (m *v07Model) newInst(sid uint32, at time.Duration) *v07Inst {
	ord := 1
	for _, o := range m.all {
		if o.sid == sid {
			ord++
		}
	}
	in := &v07Inst{sid: sid, ord: ord, sock: -1, created: at, lastAny: at, fwd: []time.Duration{at}, got: map[int]map[uint8]bool{}}
	m.all = append(m.all, in)
	m.cur[sid] = in
	if ord > 1 {
		m.nReuse++
	}
	return in
}

func (m *v07Model) finish(in *v07Inst) {
	in.finished, in.closing = true, false
	if m.cur[in.sid] == in {
		delete(m.cur, in.sid)
	}
	if m.old[in.sid] == in {
		delete(m.old, in.sid)
	}
}

func (m *v07Model) finalizeFeed() string {
	f := m.feed
	if f == nil || f.done {
		return ""
	}
	f.done = true
	if f.msg.mixed && !f.window {
		if f.writes == 1 {
			f.inst.fwd = append(f.inst.fwd, f.at)
			m.nForwarded++
			m.nMixedForwarded++
		}
		return "" // no exact-count expectation for a message without one agreed destination
	}
	if f.window || f.msg.tainted {
		return ""
	}
	if !f.complete {
		return "" // a forwarded incomplete datagram was already reported at the write
	}
	in := f.inst
	if !f.hadSock && !f.hookErr && !f.dialSeen {
		return fmt.Sprintf("(c) complete datagram dg#%d for session %d, which has no outbound socket, did not trigger UDP()", f.msg.n, f.msg.sid)
	}
	sockOK := f.hadSock || f.dialOK
	allowed := in.override != "" || m.cfg.allowed(f.msg.addr)
	if sockOK && allowed {
		if f.writes+f.lost != 1 {
			return fmt.Sprintf("complete datagram dg#%d (session %d, %s, policy allows) was not forwarded: %d socket writes", f.msg.n, f.msg.sid, f.msg.addr, f.writes+f.lost)
		}
	}
	if f.writes == 1 {
		in.fwd = append(in.fwd, f.at)
		m.nForwarded++
	}
	if sockOK && !allowed {
		m.nDenied++
	}
	return ""
}

func (m *v07Model) deliver(sid uint32, addr string, data []byte, frag bool) string {
	n := v07Tag('R', data)
	if n < 0 || n >= len(m.h.pkts) {
		return fmt.Sprintf("a message that was never read from an outbound socket was sent to the client (sid=%d from=%s %dB)", sid, addr, len(data))
	}
	p := m.h.pkts[n]
	if !bytes.Equal(p.data, data) {
		return fmt.Sprintf("pkt%d came back with different bytes (%dB sent, %dB injected)", n, len(data), len(p.data))
	}
	if !p.read {
		return fmt.Sprintf("pkt%d was sent to the client but never read from its socket", n)
	}
	p.deliveries++
	if p.deliveries > 1 {
		return fmt.Sprintf("(a) pkt%d injected on sock%d was sent to the client %d times", n, p.sock, p.deliveries)
	}
	in := m.bySock[p.sock]
	if in == nil {
		return fmt.Sprintf("harness: sock%d has no owner", p.sock)
	}
	if sid != in.sid {
		return fmt.Sprintf("(a) pkt%d was read from sock%d, which belongs to session %d, but came back tagged with session %d", n, p.sock, in.sid, sid)
	}
	want := p.from
	if in.override != "" {
		want = in.orig
	}
	if addr != want {
		return fmt.Sprintf("pkt%d (session %d, hook override=%q) was reported from %q, want %q", n, sid, in.override, addr, want)
	}
	m.nReplies++
	if frag {
		m.nFragReplies++
	}
	return ""
}

// step replays one event; a non-empty result is a violation.
func (m *v07Model) step(e v07Ev) string {
	h := m.h
	switch e.k {
	case v07EvRecvWait:
		return m.finalizeFeed()
	case v07EvRecvErr:
		if v := m.finalizeFeed(); v != "" {
			return v
		}
		m.lost = true
	case v07EvRecv:
		if v := m.finalizeFeed(); v != "" {
			return v
		}
		msg := h.msgs[e.msg]
		m.sessionsSeen[msg.sid] = true
		in := m.cur[msg.sid]
		f := &v07Feed{msg: msg, at: e.at}
		if in != nil && in.closing {
			// the session's close is in progress (event logger has not returned): the datagram may be
			// dropped or may start a fresh session; the model accepts either
			f.window = true
			msg.tainted = true
			m.nWindow++
			for _, o := range h.msgs {
				if o.op.msgSeq == msg.op.msgSeq {
					o.tainted = true
				}
			}
		} else {
			if in == nil {
				in = m.newInst(msg.sid, e.at)
			}
			in.lastAny = e.at
			if msg.op.fragCount <= 1 {
				f.complete = true
			} else {
				g := in.got[msg.op.msgSeq]
				if g == nil {
					g = map[uint8]bool{}
					in.got[msg.op.msgSeq] = g
				}
				if !g[msg.op.fragID] {
					g[msg.op.fragID] = true
					f.complete = len(g) == int(msg.op.fragCount)
				}
			}
		}
		f.inst = in
		f.hadSock = in.sock >= 0
		m.feed = f
	case v07EvHook:
		if m.feed != nil && !m.feed.done {
			m.feed.hookIn = e.addr
			if !e.ok {
				m.feed.hookErr = true
				m.feed.inst.fault = true
				m.nFault++
			} else {
				m.feed.hookOut = e.addr2
			}
		}
	case v07EvLogNew:
	case v07EvDial:
		s, ok := e.pkt, e.pkt >= 0
		if !ok || s >= len(m.cfg.sids) {
			return fmt.Sprintf("UDP() called with an address no datagram carried: %q", e.addr)
		}
		sid := m.cfg.sids[s]
		in := m.cur[sid]
		f := m.feed
		if f != nil && !f.done && f.msg.sid == sid {
			f.dialSeen, f.dialOK = true, e.ok
		}
		if in != nil && in.closing {
			// a socket is being opened while the session's close is in progress: the model treats it
			// as a fresh session; if the implementation forgets it, (d) reports the socket at the end
			m.old[sid] = in
			delete(m.cur, sid)
			in = m.newInst(sid, e.at)
			if f != nil && !f.done && f.msg.sid == sid {
				f.inst = in
			}
		}
		if in == nil {
			in = m.newInst(sid, e.at)
			if f != nil && !f.done && f.msg.sid == sid && f.inst != nil && f.inst.finished {
				// the session was closed after the datagram was handed over and before it was looked at:
				// the datagram starts a fresh session
				f.inst = in
			}
		}
		if !e.ok {
			in.fault = true
			m.nFault++
			return ""
		}
		if in.sock >= 0 && m.closes[in.sock] == 0 {
			return fmt.Sprintf("(a) a second outbound socket (sock%d) was opened for session %d while its socket sock%d is still open", e.sock, sid, in.sock)
		}
		in.sock = e.sock
		m.bySock[e.sock] = in
		if f != nil && !f.done && f.msg.sid == sid {
			// the session is rewritten iff the hook changed the address and that address was dialed
			switch {
			case f.hookOut != "":
				in.orig = f.hookIn
				if f.hookOut != f.hookIn && e.addr == f.hookOut {
					in.override = e.addr
				}
			default:
				in.orig = f.msg.addr
				if e.addr != f.msg.addr && !f.msg.mixed {
					in.override = e.addr
				}
			}
		}
	case v07EvCheck:
		if m.feed != nil && !m.feed.done {
			m.feed.checks++
		}
	case v07EvCheckPark, v07EvWritePark, v07EvSendPark, v07EvSendTooLarge, v07EvReadClosed:
	case v07EvWrite, v07EvWriteErr, v07EvWriteClosed:
		f := m.feed
		if f == nil || f.done {
			return fmt.Sprintf("a datagram was written to sock%d (%s) although no client datagram is being processed", e.sock, e.addr)
		}
		in := f.inst
		owner := m.bySock[e.sock]
		if e.k == v07EvWriteClosed {
			// nothing left the server; tolerated for a session whose close is in progress or done
			if owner != nil && owner.sid != f.msg.sid {
				return fmt.Sprintf("(a) datagram dg#%d of session %d was written to sock%d of session %d", f.msg.n, f.msg.sid, e.sock, owner.sid)
			}
			f.lost++
			return ""
		}
		if owner == nil || owner.sid != f.msg.sid {
			os := uint32(0)
			if owner != nil {
				os = owner.sid
			}
			return fmt.Sprintf("(a) datagram dg#%d of session %d was written to sock%d, which belongs to session %d", f.msg.n, f.msg.sid, e.sock, os)
		}
		if f.window && owner != in {
			in = owner
		}
		if e.sock != in.sock {
			return fmt.Sprintf("(a) datagram dg#%d of session %d left through sock%d, the session's current socket is sock%d", f.msg.n, f.msg.sid, e.sock, in.sock)
		}
		if !f.complete && !f.msg.tainted {
			return fmt.Sprintf("datagram dg#%d (fragment %d/%d of an incomplete message) was forwarded", f.msg.n, f.msg.op.fragID, f.msg.op.fragCount)
		}
		if !bytes.Equal(e.data, f.msg.full) {
			return fmt.Sprintf("datagram dg#%d was forwarded with different bytes (%dB written, message has %dB, tag %d)", f.msg.n, len(e.data), len(f.msg.full), v07Tag('D', e.data))
		}
		if in.override != "" {
			if e.addr != in.override {
				return fmt.Sprintf("hook: session %d was rewritten to %q but dg#%d was sent to %q", f.msg.sid, in.override, f.msg.n, e.addr)
			}
			if !m.cfg.allowed(e.addr) {
				return fmt.Sprintf("dg#%d was forwarded to the hook-rewritten destination %q, which the outbound policy rejects", f.msg.n, e.addr)
			}
		} else {
			// a message whose fragments disagree on the address has no single "own" destination:
			// whichever one the server picks must pass the policy (checked below)
			if e.addr != f.msg.addr && !f.msg.mixed {
				return fmt.Sprintf("dg#%d is addressed to %q but was sent to %q (session not rewritten by the hook)", f.msg.n, f.msg.addr, e.addr)
			}
			if !m.cfg.allowed(e.addr) {
				return fmt.Sprintf("dg#%d was forwarded to %q, which the outbound policy rejects", f.msg.n, e.addr)
			}
		}
		if e.k == v07EvWriteErr {
			f.lost++
			in.fault = true
			m.nFault++
			return ""
		}
		f.writes++
		if f.writes > 1 {
			return fmt.Sprintf("datagram dg#%d was forwarded %d times", f.msg.n, f.writes)
		}
	case v07EvRead:
		in := m.bySock[e.sock]
		if in != nil {
			in.fwd = append(in.fwd, e.at)
			if m.cur[in.sid] == in {
				in.lastAny = e.at
			}
		}
	case v07EvReadErr:
		if in := m.bySock[e.sock]; in != nil {
			in.fault = true
			m.nFault++
		}
	case v07EvSendErr:
		m.nFault++
		hit := false
		if e.pkt >= 0 && e.pkt < len(h.pkts) {
			if in := m.bySock[h.pkts[e.pkt].sock]; in != nil {
				in.fault, hit = true, true
			}
		}
		if !hit {
			if in := m.cur[e.sid]; in != nil {
				in.fault = true
			}
		}
		for _, p := range h.pkts {
			if in := m.bySock[p.sock]; p.read && p.deliveries == 0 && in != nil && in.sid == e.sid {
				p.mayLose = true
			}
		}
	case v07EvSendOK:
		if e.fcnt <= 1 {
			return m.deliver(e.sid, e.addr, e.data, false)
		}
		key := v07FragKey{e.loop, e.sid, e.pid}
		if m.fragCnt[key] != e.fcnt || m.frags[key] == nil {
			m.frags[key], m.fragCnt[key], m.fragAddr[key] = map[uint8][]byte{}, e.fcnt, e.addr
		}
		if e.fid >= e.fcnt {
			return fmt.Sprintf("fragment %d/%d sent to the client", e.fid, e.fcnt)
		}
		m.frags[key][e.fid] = e.data
		if len(m.frags[key]) == int(e.fcnt) {
			var cat []byte
			for i := 0; i < int(e.fcnt); i++ {
				cat = append(cat, m.frags[key][uint8(i)]...)
			}
			delete(m.frags, key)
			return m.deliver(e.sid, m.fragAddr[key], cat, true)
		}
	case v07EvSockClose:
		m.closes[e.sock]++
		if m.closes[e.sock] > 1 {
			return fmt.Sprintf("(d) sock%d was closed more than once", e.sock)
		}
		in := m.bySock[e.sock]
		if in != nil && !in.closeLogged && !in.finished {
			if ok, _ := m.mayClose(in, e.at); !ok {
				return fmt.Sprintf("(b) sock%d of session %d was closed at %v although the session had traffic %v ago (idle timeout %v, no fault)", e.sock, in.sid, e.at, e.at-v07Max(in.fwd), m.cfg.idle)
			}
		}
	case v07EvLogClose:
		in := m.cur[e.sid]
		if in == nil || in.closeLogged {
			return fmt.Sprintf("(d) Close was reported for session %d, which has no open session (double close or a stale exit hitting a reused ID)", e.sid)
		}
		ok, why := m.mayClose(in, e.at)
		if !ok {
			return fmt.Sprintf("(b) session %d was closed at %v although it had traffic %v ago (idle timeout %v, no fault)", e.sid, e.at, e.at-v07Max(in.fwd), m.cfg.idle)
		}
		if why == "idle" {
			m.nExpired++
			in.closedIdle = true
		}
		in.closeLogged = true
		if e.park {
			in.closing = true
			m.stalls = append(m.stalls, v07Stall{e.at, -1})
		} else {
			m.finish(in)
		}
	case v07EvLogCloseRet:
		if m.logParked() {
			m.stalls[len(m.stalls)-1].to = e.at
		}
		if in := m.old[e.sid]; in != nil {
			m.finish(in)
		} else if in := m.cur[e.sid]; in != nil && in.closing {
			m.finish(in)
		}
	}
	return ""
}

func v07Max(d []time.Duration) time.Duration {
	var x time.Duration
	for _, v := range d {
		if v > x {
			x = v
		}
	}
	return x
}

// replay consumes the new events of the log.
func (m *v07Model) replay() string {
	m.h.mu.Lock()
	defer m.h.mu.Unlock()
	for ; m.next < len(m.h.ev); m.next++ {
		if v := m.step(m.h.ev[m.next]); v != "" {
			v = fmt.Sprintf("%s  [at event %d: %s]", v, m.next, m.h.ev[m.next])
			m.next++
			return v
		}
	}
	return ""
}

// quiesce: checks that hold at every quiescent point (all goroutines durably blocked).
func (m *v07Model) quiesce(now time.Duration) string {
	h := m.h
	h.mu.Lock()
	defer h.mu.Unlock()
	for _, in := range m.all {
		if in.finished {
			if in.sock >= 0 && h.socks[in.sock].closeCount == 0 {
				return fmt.Sprintf("(d) session %d was closed (Close reported) but its socket sock%d is still open", in.sid, in.sock)
			}
			continue
		}
		if in.closing || m.logParked() {
			continue
		}
		if in.sock >= 0 && h.socks[in.sock].closeCount > 0 {
			return fmt.Sprintf("sock%d of session %d is closed but the session itself was not closed (later datagrams go to a dead socket)", in.sock, in.sid)
		}
		if idle := now - in.lastAny; idle > m.cfg.idle+v07IdleSweep {
			return fmt.Sprintf("(b) session %d has had no traffic in either direction for %v (idle timeout %v + one sweep interval) and is still open", in.sid, idle, m.cfg.idle)
		}
	}
	return ""
}

// final: after the connection ended and everything parked was released.
func (m *v07Model) final(count int, runReturned bool) string {
	h := m.h
	h.mu.Lock()
	defer h.mu.Unlock()
	if !runReturned {
		return "Run() did not return after the client connection ended"
	}
	for _, s := range h.socks {
		if s.closeCount != 1 {
			return fmt.Sprintf("(d) sock%d (opened for %s) was closed %d times by the time the connection ended", s.id, s.dialAddr, s.closeCount)
		}
	}
	for _, in := range m.all {
		if !in.closeLogged {
			return fmt.Sprintf("(d) session %d (instance %d) was never reported closed", in.sid, in.ord)
		}
	}
	if count != 0 {
		return fmt.Sprintf("(d) Count() == %d after Run returned", count)
	}
	for _, p := range h.pkts {
		if p.err {
			continue
		}
		if p.read && p.deliveries == 0 && !p.mayLose {
			return fmt.Sprintf("(a) pkt%d (%dB from %s) was read from sock%d but never reached the client, although no send failed", p.n, len(p.data), p.from, p.sock)
		}
	}
	return ""
}

// ------------------------------------------------------------------ goroutine census

// v07Leaked returns the stacks of goroutines of the current synctest bubble other
// than the caller and synctest's own two goroutines.
var v07StackBuf = make([]byte, 1<<19) // only used by the bubble's main goroutine, one case at a time

func v07Leaked() []string {
	buf := v07StackBuf
	n := runtime.Stack(buf, true)
	blocks := strings.Split(string(buf[:n]), "\n\n")
	if len(blocks) == 0 {
		return nil
	}
	tag := ""
	if i := strings.Index(blocks[0], "synctest bubble "); i >= 0 {
		j := strings.IndexAny(blocks[0][i:], "]\n")
		if j > 0 {
			tag = blocks[0][i : i+j]
		}
	}
	if tag == "" {
		return nil
	}
	var out []string
	for _, b := range blocks[1:] {
		head, _, _ := strings.Cut(b, "\n")
		if !strings.Contains(head, tag+"]") && !strings.Contains(head, tag+",") {
			continue
		}
		if strings.Contains(b, "internal/synctest.Run(") || strings.Contains(b, "testing/synctest.testingSynctestTest(") {
			continue
		}
		out = append(out, b)
	}
	return out
}

// v07InBubble runs body in a fresh synctest bubble. If body returns true the
// bubble is abandoned (its main goroutine blocks forever on a channel from outside
// the bubble, so virtual time stops and leaked goroutines cannot spin); a panic of
// synctest itself (deadlock at bubble exit) is returned as text.
func v07InBubble(outer *testing.T, body func() bool) string {
	done := make(chan string, 2)
	never := make(chan struct{})
	go func() {
		defer func() {
			if r := recover(); r != nil {
				done <- fmt.Sprint(r)
			}
		}()
		synctest.Test(outer, func(t *testing.T) {
			if body() {
				done <- ""
				<-never
			}
		})
		done <- ""
	}()
	return <-done
}

// ------------------------------------------------------------------ executor

type v07Result struct {
	violation string
	history   []string
	m         *v07Model
	skipped   int
	executed  int
	kinds     string
}

func (r *v07Result) render(cfg v07Cfg, h *v07H) string {
	var b strings.Builder
	fmt.Fprintf(&b, "\n  config: %v\n  operations:\n", cfg)
	for _, l := range r.history {
		b.WriteString("    " + l + "\n")
	}
	if h != nil {
		h.mu.Lock()
		ev := h.ev
		from := 0
		if len(ev) > 160 {
			from = len(ev) - 160
			fmt.Fprintf(&b, "  environment calls (last 160 of %d):\n", len(ev))
		} else {
			b.WriteString("  environment calls:\n")
		}
		for i := from; i < len(ev); i++ {
			if ev[i].k == v07EvRecvWait {
				continue
			}
			fmt.Fprintf(&b, "    %3d %s\n", i, ev[i])
		}
		h.mu.Unlock()
	}
	return b.String()
}

// v07Execute runs one generated history. It must be called from inside a bubble.
func v07Execute(cfg v07Cfg, ops []v07Op) (res *v07Result, h *v07H, abandon bool) {
	rand.Seed(cfg.randSeed) // GODEBUG=randseednop=0: pins the packet IDs drawn by sendMessageAutoFrag
	h = &v07H{cfg: cfg, t0: time.Now(), inbox: make(chan *v07InMsg, len(ops)+1), lostCh: make(chan struct{}),
		sendFail: map[uint32]bool{}, parkSendArmed: map[uint32]bool{}, logArm: map[uint32]bool{}}
	m := v07NewModel(cfg, h)
	res = &v07Result{m: m}
	if cfg.phase > 0 {
		time.Sleep(cfg.phase)
	}
	sm := newUDPSessionManager(&v07IO{h}, &v07Logger{h}, cfg.idle)
	runDone := make(chan error, 1)
	go func() { runDone <- sm.Run() }()
	synctest.Wait()

	fullOf := map[int][]byte{}
	destsOf := map[int]map[int]bool{}
	for _, op := range ops {
		if op.kind == v07OpData {
			if destsOf[op.msgSeq] == nil {
				destsOf[op.msgSeq] = map[int]bool{}
			}
			destsOf[op.msgSeq][op.dest] = true
		}
	}
	curSock := func(s int) *v07Sock { // latest socket opened for the session index
		h.mu.Lock()
		defer h.mu.Unlock()
		for i := len(h.socks) - 1; i >= 0; i-- {
			if h.socks[i].owner == s {
				return h.socks[i]
			}
		}
		return nil
	}
	check := func() bool {
		if v := m.replay(); v != "" {
			res.violation = v
			return false
		}
		if v := m.quiesce(h.now()); v != "" {
			res.violation = v
			return false
		}
		return true
	}
	lostIssued := false
	var kinds []byte
	for i, op := range ops {
		note := ""
		switch op.kind {
		case v07OpData:
			if lostIssued {
				note = "skipped (connection already lost)"
				break
			}
			full := fullOf[op.msgSeq]
			if full == nil {
				full = v07Payload('D', op.msgSeq, op.total)
				fullOf[op.msgSeq] = full
			}
			msg := &v07InMsg{op: op, sid: cfg.sids[op.s], addr: cfg.addr(op.s, op.dest), full: full, data: full[op.lo:op.hi], mixed: len(destsOf[op.msgSeq]) > 1}
			h.mu.Lock()
			msg.n = len(h.msgs)
			h.msgs = append(h.msgs, msg)
			h.mu.Unlock()
			h.inbox <- msg
			note = fmt.Sprintf("dg#%d", msg.n)
		case v07OpReply:
			s := curSock(op.s)
			if s == nil || s.isClosed() {
				note = "skipped (session has no open socket)"
				break
			}
			h.mu.Lock()
			p := &v07Pkt{n: len(h.pkts), sock: s.id, from: cfg.addr(op.s, op.dest)}
			p.data = v07Payload('R', p.n, op.size)
			// a datagram that does not fit the server's 4096-byte buffers may be dropped, never altered
			if v07WireSize(len(p.from), len(p.data)) > 4096 {
				p.mayLose = true
			}
			// what cannot be fragmented into <= 255 pieces is legitimately dropped (C05)
			if sz := v07WireSize(len(p.from), len(p.data)); sz > cfg.limit {
				fromLen := len(p.from)
				if in := m.bySock[s.id]; in != nil && in.override != "" {
					fromLen = len(in.orig)
				}
				budget := cfg.limit - v07WireSize(fromLen, 0)
				if budget <= 0 || (len(p.data)+budget-1)/budget > 255 {
					p.mayLose = true
				}
			}
			h.pkts = append(h.pkts, p)
			h.mu.Unlock()
			select {
			case s.in <- p:
				note = fmt.Sprintf("pkt%d -> sock%d", p.n, s.id)
			default:
				p.mayLose = true
				note = "skipped (socket queue full)"
			}
		case v07OpAdvance:
			time.Sleep(op.dur)
		case v07OpDialFail:
			h.mu.Lock()
			h.dialFail = true
			h.mu.Unlock()
		case v07OpHookFail:
			h.mu.Lock()
			h.hookFail = true
			h.mu.Unlock()
		case v07OpWriteFail:
			h.mu.Lock()
			h.writeFail = true
			h.mu.Unlock()
		case v07OpReadFail:
			s := curSock(op.s)
			if s == nil || s.isClosed() {
				note = "skipped (session has no open socket)"
				break
			}
			h.mu.Lock()
			p := &v07Pkt{n: len(h.pkts), sock: s.id, err: true}
			h.pkts = append(h.pkts, p)
			h.mu.Unlock()
			select {
			case s.in <- p:
				note = fmt.Sprintf("error -> sock%d", s.id)
			default:
				note = "skipped (socket queue full)"
			}
		case v07OpSendFail:
			h.mu.Lock()
			h.sendFail[cfg.sids[op.s]] = true
			h.mu.Unlock()
		case v07OpParkSend:
			h.mu.Lock()
			h.parkSendArmed[cfg.sids[op.s]] = true
			h.mu.Unlock()
		case v07OpReleaseSend:
			h.mu.Lock()
			var p *v07Parked
			for j, q := range h.parkedSends {
				if q.sid == cfg.sids[op.s] {
					p = q
					h.parkedSends = append(h.parkedSends[:j], h.parkedSends[j+1:]...)
					break
				}
			}
			h.mu.Unlock()
			if p == nil {
				note = "skipped (nothing parked)"
				break
			}
			if p.pkt >= 0 && p.pkt < len(h.pkts) {
				if in := m.bySock[h.pkts[p.pkt].sock]; in != nil && in.finished {
					m.nLateRelease++
					note = "(its session is already closed)"
				}
			}
			if op.fail {
				p.ch <- v07ErrInjected
			} else {
				p.ch <- nil
			}
		case v07OpParkFeeder:
			h.mu.Lock()
			h.feederArm = op.which
			h.mu.Unlock()
		case v07OpReleaseFeeder:
			h.mu.Lock()
			p := h.feederParked
			h.feederParked = nil
			h.mu.Unlock()
			if p == nil {
				note = "skipped (receive loop not parked)"
				break
			}
			if f := m.feed; f != nil && f.inst != nil && f.inst.finished {
				m.nLateRelease++
				note = "(its session is already closed)"
			}
			p.ch <- nil
		case v07OpParkLog:
			h.mu.Lock()
			h.logArm[cfg.sids[op.s]] = true
			h.mu.Unlock()
		case v07OpReleaseLog:
			h.mu.Lock()
			p := h.logParked
			h.logParked = nil
			h.mu.Unlock()
			if p == nil {
				note = "skipped (logger not parked)"
				break
			}
			p.ch <- nil
		case v07OpConnLost:
			if lostIssued {
				note = "skipped"
				break
			}
			lostIssued = true
			synctest.Wait() // never race the loss against queued datagrams
			h.mu.Lock()
			h.lost = true
			h.lostDrain = op.size // queued datagrams (the receive loop is parked) are still delivered
			h.mu.Unlock()
			close(h.lostCh)
		case v07OpSync:
		}
		if strings.HasPrefix(note, "skipped") {
			res.skipped++
		} else {
			res.executed++
			kinds = append(kinds, byte('a'+int(op.kind)))
		}
		if len(res.history) < 400 {
			res.history = append(res.history, fmt.Sprintf("%3d @%-8v %v %s", i, h.now(), op, note))
		}
		if op.noWait {
			continue
		}
		synctest.Wait()
		if !check() {
			break
		}
	}
	res.kinds = string(kinds)

	// ---- the client connection ends; everything parked is released; nothing may be left
	if !lostIssued {
		synctest.Wait()
		h.mu.Lock()
		h.lost = true
		h.mu.Unlock()
		close(h.lostCh)
	}
	// everything parked is released ONE AT A TIME with a quiescent point in between: releasing the
	// sweeper and the receive loop together would let them race for real (outside the harness's control)
	for round := 0; round < 256; round++ {
		synctest.Wait()
		h.mu.Lock()
		var p *v07Parked
		switch {
		case h.logParked != nil:
			p, h.logParked = h.logParked, nil
		case h.feederParked != nil:
			p, h.feederParked = h.feederParked, nil
		case len(h.parkedSends) > 0:
			p, h.parkedSends = h.parkedSends[0], h.parkedSends[1:]
		}
		h.logArm, h.feederArm = map[uint32]bool{}, 0
		h.parkSendArmed = map[uint32]bool{}
		h.mu.Unlock()
		if p == nil {
			break
		}
		p.ch <- nil // a released SendMessage then fails with "connection lost"
	}
	synctest.Wait()
	returned := false
	select {
	case <-runDone:
		returned = true
	default:
	}
	if res.violation == "" {
		if v := m.replay(); v != "" {
			res.violation = v
		} else if v := m.final(sm.Count(), returned); v != "" {
			res.violation = v
		}
	}
	res.history = append(res.history, fmt.Sprintf("    @%-8v connection ended, everything released", h.now()))
	if leaked := v07Leaked(); len(leaked) > 0 {
		if res.violation == "" {
			res.violation = fmt.Sprintf("(d) %d goroutine(s) of the session manager are still alive after the connection ended and all sockets were released:\n%s", len(leaked), strings.Join(leaked, "\n\n"))
		}
		return res, h, true
	}
	return res, h, false
}

// v07RunCase runs a history in its own bubble and returns the result.
func v07RunCase(t *testing.T, cfg v07Cfg, ops []v07Op) (*v07Result, *v07H) {
	var res *v07Result
	var h *v07H
	pm := v07InBubble(t, func() bool {
		var abandon bool
		res, h, abandon = v07Execute(cfg, ops)
		return abandon
	})
	if res == nil {
		res = &v07Result{}
	}
	if pm != "" && res.violation == "" {
		res.violation = "synctest: " + pm + " (a goroutine of the session manager was left behind)"
	}
	return res, h
}
