package server

// C07 — complementary check WITHOUT synctest: a slow dial (request hook or outbound
// UDP()) racing the closers of the session manager.
//
// The synctest engine cannot park UDP()/Hook(): on the unchanged tree they run under
// udpSessionEntry.connLock, and a closer blocked on that mutex is not "durably
// blocked". Here real goroutines are used and every decision is synchronised by
// channels, never by the wall clock:
//
//	G1  feeds the case's datagrams one by one through m.feed (what Run's loop does);
//	    the fake Hook()/UDP() of a chosen datagram blocks on a harness channel;
//	G2… closers drawn from {m.cleanup(false) = what Run does at connection loss,
//	    m.cleanup(true) with a negative idle timeout = the sweeper finding every entry idle}
//	    run while the dial is in flight (then the harness yields a drawn number of
//	    times and releases the dial), or right after the release, or from before the feed.
//
// All goroutines are joined, m.cleanup(false) ends the connection, and the end-state
// oracle of C07 is evaluated on what the fakes recorded: every socket ever returned by
// UDP() was closed exactly once and its reader has returned, Count()==0, Close events
// match sessions, datagrams only left through the session's newest open socket, and a
// datagram fed with no closer running was forwarded exactly once.

import (
	"bytes"
	"errors"
	"fmt"
	"runtime"
	"strings"
	"sync"
	"testing"
	"time"

	"github.com/apernet/hysteria/core/v2/internal/protocol"
	"pgregory.net/rapid"
)

type v07rEv struct {
	k    byte // F feed start, f feed end, H hook ok, h hook failed, N logger New, D dial ok, d dial failed, W write ok, w write on closed socket, X socket Close, C logger Close, S send
	step int
	sid  uint32
	sock int
	addr string
	data []byte
}

type v07rArm struct {
	where   int // 1 Hook, 2 UDP
	entered chan struct{}
	release chan bool // true: the call succeeds
}

type v07rSock struct {
	env        *v07rEnv
	id         int
	s          int // session index parsed from the dial address
	closedCh   chan struct{}
	closeCount int
	readerGone chan struct{}
	goneOnce   sync.Once
}

type v07rEnv struct {
	mu           sync.Mutex
	sids         []uint32
	hookMode     int
	log          []v07rEv
	socks        []*v07rSock
	arm          *v07rArm
	failNextDial bool
	curStep      int
}

func (e *v07rEnv) add(ev v07rEv) { // callers hold e.mu
	ev.step = e.curStep
	e.log = append(e.log, ev)
}

type v07rIO struct{ e *v07rEnv }

func (io *v07rIO) ReceiveMessage() (*protocol.UDPMessage, error) {
	return nil, errors.New("v07r: unused")
}
func (io *v07rIO) CheckUDP(string) error { return nil }
func (io *v07rIO) SendMessage(buf []byte, m *protocol.UDPMessage) error {
	io.e.mu.Lock()
	io.e.add(v07rEv{k: 'S', sid: m.SessionID})
	io.e.mu.Unlock()
	return nil
}

func (io *v07rIO) Hook(data []byte, reqAddr *string) error {
	e := io.e
	e.mu.Lock()
	a := e.arm
	if a != nil && a.where == 1 {
		e.arm = nil
	} else {
		a = nil
	}
	e.mu.Unlock()
	ok := true
	if a != nil {
		close(a.entered)
		ok = <-a.release // a slow request hook
	}
	e.mu.Lock()
	defer e.mu.Unlock()
	if !ok {
		e.add(v07rEv{k: 'h', addr: *reqAddr})
		return v07ErrInjected
	}
	if s, _, pok := v07ParseAddr(*reqAddr); pok && (e.hookMode == 1 || (e.hookMode == 2 && s%2 == 1)) {
		*reqAddr = v07RewrittenAddr(s)
	}
	e.add(v07rEv{k: 'H', addr: *reqAddr})
	return nil
}

func (io *v07rIO) UDP(reqAddr string) (UDPConn, error) {
	e := io.e
	e.mu.Lock()
	a := e.arm
	if a != nil && a.where == 2 {
		e.arm = nil
	} else {
		a = nil
	}
	e.mu.Unlock()
	ok := true
	if a != nil {
		close(a.entered)
		ok = <-a.release // a slow outbound dial (DNS resolution, socket setup)
	}
	e.mu.Lock()
	defer e.mu.Unlock()
	if e.failNextDial {
		e.failNextDial = false
		ok = false
	}
	if !ok {
		e.add(v07rEv{k: 'd', addr: reqAddr})
		return nil, v07ErrInjected
	}
	s, _, _ := v07ParseAddr(reqAddr)
	sk := &v07rSock{env: e, id: len(e.socks), s: s, closedCh: make(chan struct{}), readerGone: make(chan struct{})}
	e.socks = append(e.socks, sk)
	e.add(v07rEv{k: 'D', addr: reqAddr, sock: sk.id})
	return sk, nil
}

func (s *v07rSock) ReadFrom(b []byte) (int, string, error) {
	<-s.closedCh
	s.goneOnce.Do(func() { close(s.readerGone) })
	return 0, "", v07ErrClosed
}

func (s *v07rSock) WriteTo(b []byte, addr string) (int, error) {
	e := s.env
	e.mu.Lock()
	defer e.mu.Unlock()
	if s.closeCount > 0 {
		e.add(v07rEv{k: 'w', sock: s.id, addr: addr})
		return 0, v07ErrClosed
	}
	e.add(v07rEv{k: 'W', sock: s.id, addr: addr, data: append([]byte(nil), b...)})
	return len(b), nil
}

func (s *v07rSock) Close() error {
	e := s.env
	e.mu.Lock()
	defer e.mu.Unlock()
	s.closeCount++
	e.add(v07rEv{k: 'X', sock: s.id})
	if s.closeCount == 1 {
		close(s.closedCh)
	}
	return nil
}

type v07rLogger struct{ e *v07rEnv }

func (l *v07rLogger) New(id uint32, addr string) {
	l.e.mu.Lock()
	l.e.add(v07rEv{k: 'N', sid: id, addr: addr})
	l.e.mu.Unlock()
}

func (l *v07rLogger) Close(id uint32, err error) {
	l.e.mu.Lock()
	l.e.add(v07rEv{k: 'C', sid: id})
	l.e.mu.Unlock()
}

type v07rStep struct {
	s, dest int
	block   int   // 0 no, 1 in Hook, 2 in UDP
	fail    bool  // the (blocked or next) dial fails
	closers []int // 1 cleanup(false), 2 cleanup(true)
	order   int   // 0 closers start while the dial is blocked, then yields, then release; 1 release, then closers; 2 closers start before the feed
	yields  int
	// filled while running
	entered bool
	quiet   bool
}

func (st v07rStep) String() string {
	b := [...]string{"", " blockHook", " blockUDP"}[st.block]
	f := ""
	if st.fail {
		f = " dialFails"
	}
	var c []string
	for _, k := range st.closers {
		c = append(c, [...]string{"", "cleanup(false)", "cleanup(true)"}[k])
	}
	cs := ""
	if len(c) > 0 {
		cs = fmt.Sprintf(" closers=%v order=%s yields=%d", c, [...]string{"during-dial", "after-release", "before-feed"}[st.order], st.yields)
	}
	return fmt.Sprintf("dg(s%d d%d%s%s%s)", st.s, st.dest, b, f, cs)
}

func v07rGen(rt *rapid.T) (nSess, hookMode int, sids []uint32, steps []v07rStep) {
	nSess = rapid.IntRange(1, 3).Draw(rt, "sessions")
	hookMode = rapid.SampledFrom([]int{0, 0, 1, 2}).Draw(rt, "hookMode")
	sids = rapid.SliceOfNDistinct(rapid.SampledFrom(v07SidPool), nSess, nSess, rapid.ID[uint32]).Draw(rt, "sessionIDs")
	n := rapid.IntRange(1, 10).Draw(rt, "steps")
	for i := 0; i < n; i++ {
		st := v07rStep{s: rapid.IntRange(0, nSess-1).Draw(rt, "session"), dest: rapid.IntRange(0, 2).Draw(rt, "dest")}
		switch rapid.IntRange(0, 9).Draw(rt, "kind") {
		case 0, 1, 2: // plain datagram
		case 3: // dial failure without a race
			st.fail = true
		case 4: // closer between datagrams (ID reuse afterwards)
			st.closers = []int{rapid.IntRange(1, 2).Draw(rt, "closer")}
			st.order = 1
		default: // the race
			st.block = rapid.IntRange(1, 2).Draw(rt, "blockWhere")
			st.fail = rapid.IntRange(0, 4).Draw(rt, "fail") == 0
			nc := rapid.IntRange(1, 2).Draw(rt, "closers")
			for j := 0; j < nc; j++ {
				st.closers = append(st.closers, rapid.IntRange(1, 2).Draw(rt, "closer"))
			}
			st.order = rapid.SampledFrom([]int{0, 0, 0, 1, 2}).Draw(rt, "order")
			st.yields = rapid.SampledFrom([]int{0, 1, 3, 20, 200, 2000}).Draw(rt, "yields")
		}
		steps = append(steps, st)
	}
	return
}

// v07rRun executes one case and returns a violation text ("" = none) and the rendered log.
func v07rRun(nSess, hookMode int, sids []uint32, steps []v07rStep) (string, string) {
	env := &v07rEnv{sids: sids, hookMode: hookMode}
	// negative idle timeout: cleanup(true) finds every entry idle without any clock dependence
	m := newUDPSessionManager(&v07rIO{env}, &v07rLogger{env}, -1)
	payload := func(i int) []byte { return v07Payload('D', i, 16+i) }
	goAhead := make(chan int)
	stepDone := make(chan struct{})
	g1 := make(chan struct{})
	go func() { // G1: the receive loop's feeding
		defer close(g1)
		for i := range goAhead {
			st := steps[i]
			env.mu.Lock()
			env.curStep = i
			env.add(v07rEv{k: 'F', sid: sids[st.s]})
			env.mu.Unlock()
			m.feed(&protocol.UDPMessage{SessionID: sids[st.s], FragCount: 1, Addr: v07Addr(st.s, st.dest), Data: append([]byte(nil), payload(i)...)})
			env.mu.Lock()
			env.add(v07rEv{k: 'f', sid: sids[st.s]})
			env.mu.Unlock()
			stepDone <- struct{}{}
		}
	}()
	startCloser := func(kind int) chan struct{} {
		done := make(chan struct{})
		go func() {
			defer close(done)
			if kind == 1 {
				m.cleanup(false)
			} else {
				m.cleanup(true)
			}
		}()
		return done
	}
	for i := range steps {
		st := &steps[i]
		st.quiet = true
		var arm *v07rArm
		env.mu.Lock()
		if st.block != 0 {
			arm = &v07rArm{where: st.block, entered: make(chan struct{}), release: make(chan bool, 1)}
		}
		env.arm = arm
		env.failNextDial = st.fail && st.block == 0
		env.mu.Unlock()
		var cl []chan struct{}
		if st.order == 2 && len(st.closers) > 0 {
			st.quiet = false
			for _, k := range st.closers {
				cl = append(cl, startCloser(k))
			}
		}
		goAhead <- i
		finished := false
		if arm != nil {
			select {
			case <-arm.entered:
				st.entered = true
			case <-stepDone:
				finished = true // no dial was needed: the session already has a socket
			}
		} else {
			<-stepDone
			finished = true
		}
		if st.entered {
			switch st.order {
			case 0:
				st.quiet = st.quiet && len(st.closers) == 0
				for _, k := range st.closers {
					cl = append(cl, startCloser(k))
				}
				v07rYield(st.yields, cl)
				arm.release <- !st.fail
			case 1:
				arm.release <- !st.fail
				st.quiet = st.quiet && len(st.closers) == 0
				for _, k := range st.closers {
					cl = append(cl, startCloser(k))
				}
			default:
				v07rYield(st.yields, cl)
				arm.release <- !st.fail
			}
			<-stepDone
		} else if finished && st.order != 2 {
			// nothing raced: run the closers one after another between two datagrams
			for _, k := range st.closers {
				<-startCloser(k)
			}
		}
		for _, c := range cl {
			<-c
		}
		env.mu.Lock()
		env.arm, env.failNextDial = nil, false
		env.mu.Unlock()
	}
	close(goAhead)
	<-g1
	m.cleanup(false) // the client connection ends
	count := m.Count()

	// ---- oracle
	env.mu.Lock()
	log := append([]v07rEv(nil), env.log...)
	socks := append([]*v07rSock(nil), env.socks...)
	closes := make([]int, len(socks))
	for i, s := range socks {
		closes[i] = s.closeCount
	}
	env.mu.Unlock()
	render := func() string {
		var b strings.Builder
		fmt.Fprintf(&b, "\n  sessions=%v hook=%d\n  steps:\n", sids, hookMode)
		for i, st := range steps {
			fmt.Fprintf(&b, "    %d %v entered=%v\n", i, st, st.entered)
		}
		b.WriteString("  environment calls (F/f feed start/end, H/h hook ok/failed, N New, D/d dial ok/failed, W write, w write on closed socket, X socket Close, C Close event):\n   ")
		for _, e := range log {
			switch e.k {
			case 'F', 'f':
				fmt.Fprintf(&b, " %c%d", e.k, e.step)
			case 'D', 'W', 'w', 'X':
				fmt.Fprintf(&b, " %c(sock%d)", e.k, e.sock)
			case 'N', 'C':
				fmt.Fprintf(&b, " %c(sid %d)", e.k, e.sid)
			default:
				fmt.Fprintf(&b, " %c", e.k)
			}
		}
		return b.String() + "\n"
	}
	for i, n := range closes {
		if n != 1 {
			return fmt.Sprintf("(d) sock%d (session index %d) was closed %d times by the time the connection ended and every closer returned", i, socks[i].s, n), render()
		}
	}
	for i, s := range socks {
		select {
		case <-s.readerGone:
		case <-time.After(30 * time.Second):
			vInconclusive(fmt.Sprintf("C07 dial race: the reader of closed sock%d did not return within 30s", i))
		}
	}
	if count != 0 {
		return fmt.Sprintf("(d) Count() == %d after the connection ended", count), render()
	}
	// writes: only through the session's newest socket, own bytes, right address, at most once per datagram
	newest := map[int]int{} // session index -> newest socket
	writesOf := map[int]int{}
	dialFailed := map[int]bool{}
	for _, e := range log {
		switch e.k {
		case 'D':
			newest[socks[e.sock].s] = e.sock
		case 'd', 'h':
			dialFailed[e.step] = true
		case 'W':
			st := steps[e.step]
			if socks[e.sock].s != st.s {
				return fmt.Sprintf("(a) datagram %d of session index %d was written to sock%d of session index %d", e.step, st.s, e.sock, socks[e.sock].s), render()
			}
			if nw, ok := newest[st.s]; !ok || nw != e.sock {
				return fmt.Sprintf("(a)/(c) datagram %d left through sock%d although sock%d is the session's newest socket", e.step, e.sock, nw), render()
			}
			if !bytes.Equal(e.data, payload(e.step)) {
				return fmt.Sprintf("datagram %d was forwarded with different bytes", e.step), render()
			}
			want := v07Addr(st.s, st.dest)
			if hookMode == 1 || (hookMode == 2 && st.s%2 == 1) {
				want = v07RewrittenAddr(st.s)
			}
			if e.addr != want {
				return fmt.Sprintf("datagram %d was sent to %q, want %q", e.step, e.addr, want), render()
			}
			writesOf[e.step]++
			if writesOf[e.step] > 1 {
				return fmt.Sprintf("datagram %d was forwarded %d times", e.step, writesOf[e.step]), render()
			}
		}
	}
	for i, st := range steps {
		if st.quiet && !dialFailed[i] && writesOf[i] != 1 {
			return fmt.Sprintf("datagram %d (session index %d) was fed while no closer was running and its dial did not fail, but it was forwarded %d times", i, st.s, writesOf[i]), render()
		}
		if dialFailed[i] && writesOf[i] != 0 {
			return fmt.Sprintf("datagram %d was forwarded although its dial failed", i), render()
		}
	}
	// Close events: every New is followed by its own Close; never more Close events than sessions can have existed
	for _, sid := range sids {
		feeds, nClose, open := 0, 0, 0
		for _, e := range log {
			if e.sid != sid {
				continue
			}
			switch e.k {
			case 'F':
				feeds++
			case 'N':
				open++
			case 'C':
				nClose++
				if open > 0 {
					open--
				}
			}
		}
		if open != 0 {
			return fmt.Sprintf("(d) %d session(s) with ID %d were announced (New) but never reported closed", open, sid), render()
		}
		if nClose > feeds {
			return fmt.Sprintf("(d) %d Close events for ID %d although only %d datagrams (so at most %d sessions) existed", nClose, sid, feeds, feeds), render()
		}
	}
	return "", render()
}

// v07rYield gives the closers a chance to run (and to finish, where the implementation lets them).
func v07rYield(n int, cl []chan struct{}) {
	for j := 0; j < n; j++ {
		all := true
		for _, c := range cl {
			select {
			case <-c:
			default:
				all = false
			}
		}
		if all && len(cl) > 0 {
			return
		}
		runtime.Gosched()
	}
}

func TestVerifC07_DialRacingClose(t *testing.T) { v07rTest(t, "TestVerifC07_DialRacingClose") }

// Same check in a binary built with -race (thorough tier).
func TestVerifC07_DialRacingCloseRace(t *testing.T) { v07rTest(t, "TestVerifC07_DialRacingCloseRace") }

func v07rTest(t *testing.T, name string) {
	st := newVStats(name)
	defer st.Flush()
	rapid.Check(t, func(rt *rapid.T) {
		nSess, hookMode, sids, steps := v07rGen(rt)
		v, hist := v07rRun(nSess, hookMode, sids, steps)
		var cls []string
		raced := false
		var fp strings.Builder
		fmt.Fprintf(&fp, "%d/%d|", nSess, hookMode)
		for _, s := range steps {
			fmt.Fprintf(&fp, "%d.%d.%v.%v.%d.%d;", s.s, s.block, s.fail, s.closers, s.order, s.yields)
			if s.entered && len(s.closers) > 0 {
				raced = true
				cls = append(cls, fmt.Sprintf("closer-%s", [...]string{"during-dial", "after-release", "before-feed"}[s.order]),
					[...]string{"", "slow-hook", "slow-UDP"}[s.block])
				for _, k := range s.closers {
					cls = append(cls, [...]string{"", "race:cleanup(false)", "race:cleanup(true)"}[k])
				}
				if s.fail {
					cls = append(cls, "raced-dial-fails")
				}
			}
		}
		if nSess >= 2 {
			cls = append(cls, "sessions>=2")
		}
		st.Case(raced, fp.String(), v07Uniq(cls), func() string {
			var l []string
			for _, s := range steps {
				l = append(l, s.String())
			}
			return strings.Join(l, " ")
		})
		if v != "" {
			rt.Fatalf("C07 dial racing close: %s%s", v, hist)
		}
	})
}
