package server

// C03 — peer-controlled bytes never crash the process (server UDP relay).
//
// What the remote client controls here: every QUIC datagram (parsed by
// udpIOImpl.ReceiveMessage -> ParseUDPMessage -> udpSessionManager.feed), and the
// datagram size limit the server learns through quic-go's DatagramTooLargeError
// (the client's max_datagram_frame_size transport parameter; 0 .. ~1500) that
// drives sendMessageAutoFrag -> frag.FragUDPMessage for every reply. Replies are
// <= MaxUDPSize (4096) bytes read from the outbound socket.
//
// The fake udpIO mirrors udpIOImpl: SendMessage serialises into the caller's
// 4096-byte buffer (too big = silent drop) and then behaves like
// quic.Conn.SendDatagram with limit n (bigger = *quic.DatagramTooLargeError{n}).
//
// Oracle: no panic (recovered in the synchronous test; in the live test a panic
// in a goroutine kills the process, which the driver reports — the case being run
// is in c03_lastcase.txt); afterwards a well-formed message on a fresh session is
// relayed to its outbound socket and its reply is sent (service continues).

import (
	"bytes"
	"encoding/hex"
	"errors"
	"fmt"
	"os"
	"runtime/debug"
	"strings"
	"sync"
	"testing"
	"time"

	"github.com/apernet/quic-go"

	"github.com/apernet/hysteria/core/v2/internal/protocol"
	"pgregory.net/rapid"
)

func v03Guard(fn func()) (pv any, stack string) {
	defer func() {
		if r := recover(); r != nil {
			pv, stack = r, string(debug.Stack())
		}
	}()
	fn()
	return nil, ""
}

func v03Tight(b []byte) []byte {
	c := make([]byte, len(b))
	copy(c, b)
	return c[:len(c):len(c)]
}

func v03Fill(n int, salt byte) []byte {
	b := make([]byte, n)
	for i := range b {
		b[i] = byte(i)*11 + salt
	}
	return b
}

func v03PutVarint(b []byte, v uint64) []byte {
	switch {
	case v <= 63:
		return append(b, byte(v))
	case v <= 16383:
		return append(b, byte(v>>8)|0x40, byte(v))
	case v <= 1073741823:
		return append(b, byte(v>>24)|0x80, byte(v>>16), byte(v>>8), byte(v))
	}
	return append(b, byte(v>>56)|0xc0, byte(v>>48), byte(v>>40), byte(v>>32), byte(v>>24), byte(v>>16), byte(v>>8), byte(v))
}

func v03EncUDP(sid uint32, pid uint16, fid, fcnt uint8, addr string, data []byte) []byte {
	b := []byte{byte(sid >> 24), byte(sid >> 16), byte(sid >> 8), byte(sid), byte(pid >> 8), byte(pid), fid, fcnt}
	b = v03PutVarint(b, uint64(len(addr)))
	b = append(b, addr...)
	return append(b, data...)
}

// ---- fakes ----

var (
	v03ErrClosed   = errors.New("v03: conn closed")
	v03ErrDenied   = errors.New("v03: denied by policy")
	v03ErrDial     = errors.New("v03: dial failed")
	v03ErrHook     = errors.New("v03: hook failed")
	v03ErrSendFail = errors.New("v03: connection-level send failure")
	v03ErrRecvDone = errors.New("v03: connection closed (end of script)")
)

type v03Reply struct {
	data  []byte
	rAddr string
}

type v03Conn struct {
	io      *v03IO
	addr    string
	written [][]byte
	wAddrs  []string
	script  []v03Reply // live test: what the outbound socket "receives"
	inRead  bool
	closed  bool
	closeCh chan struct{}
	// sync test: the harness can make the parked outbound socket deliver a packet or fail
	inject    chan v03Reply
	failRead  chan struct{}
	sawClosed bool // the reply loop has come back to the closed socket (and exits)
}

var v03ErrSocketRead = errors.New("v03: outbound socket read error (ICMP unreachable)")

func (c *v03Conn) ReadFrom(b []byte) (int, string, error) {
	c.io.mu.Lock()
	if len(c.script) > 0 && !c.closed {
		r := c.script[0]
		c.script = c.script[1:]
		c.io.mu.Unlock()
		n := copy(b, r.data) // a UDP socket truncates to the buffer
		return n, r.rAddr, nil
	}
	c.inRead = true
	c.io.cond.Broadcast()
	c.io.mu.Unlock()
	select {
	case <-c.closeCh:
		c.io.mu.Lock()
		c.sawClosed = true
		c.io.mu.Unlock()
		return 0, "", v03ErrClosed
	case <-c.failRead:
		return 0, "", v03ErrSocketRead
	case r := <-c.inject:
		return copy(b, r.data), r.rAddr, nil
	}
}

func (c *v03Conn) WriteTo(b []byte, addr string) (int, error) {
	c.io.maybePark("write") // called by Feed without any implementation lock held
	c.io.mu.Lock()
	defer c.io.mu.Unlock()
	c.written = append(c.written, append([]byte(nil), b...))
	c.wAddrs = append(c.wAddrs, addr)
	return len(b), nil
}

func (c *v03Conn) Close() error {
	c.io.mu.Lock()
	defer c.io.mu.Unlock()
	if !c.closed {
		c.closed = true
		close(c.closeCh)
		c.io.cond.Broadcast()
	}
	return nil
}

type v03IO struct {
	mu   sync.Mutex
	cond *sync.Cond

	limit      int // peer's datagram payload limit
	failSendAt int // 1-based SendMessage call answered with a generic error (0 = never)

	sendCalls int
	delivered [][]byte
	refused   int
	dropped   int
	conns     []*v03Conn
	scripts   [][]v03Reply // live: script for the k-th created conn

	// live: inbound datagrams
	inbox       [][]byte
	recvWaiting bool
	finish      bool
	gaveUp      bool

	// yield point owned by the harness: the next call of the armed kind ("check" = CheckUDP,
	// "send" = SendMessage, "write" = outbound WriteTo; all made without implementation locks)
	// parks until released, so that a concurrent close can be placed exactly there
	parkKind string
	parked   chan struct{}
	release  chan struct{}
	// one-shot: the next SendMessage for this session fails (connection-level error)
	failSIDArmed bool
	failSID      uint32
	sendErrs     int
}

func (io *v03IO) arm(kind string) {
	io.mu.Lock()
	io.parkKind, io.parked, io.release = kind, make(chan struct{}), make(chan struct{})
	io.mu.Unlock()
}

func (io *v03IO) maybePark(kind string) {
	io.mu.Lock()
	if io.parkKind != kind {
		io.mu.Unlock()
		return
	}
	io.parkKind = "" // one shot
	parked, release := io.parked, io.release
	io.mu.Unlock()
	close(parked)
	select {
	case <-release:
	case <-time.After(60 * time.Second):
		vInconclusive("C03 server: a parked environment call (" + kind + ") was not released within 60 s")
	}
}

func v03NewIO(limit int) *v03IO {
	io := &v03IO{limit: limit}
	io.cond = sync.NewCond(&io.mu)
	return io
}

// ReceiveMessage mirrors udpIOImpl.ReceiveMessage (no traffic logger): unparsable datagrams are skipped.
func (io *v03IO) ReceiveMessage() (*protocol.UDPMessage, error) {
	for {
		io.mu.Lock()
		for len(io.inbox) == 0 && !io.finish {
			io.recvWaiting = true
			io.cond.Broadcast()
			io.cond.Wait()
		}
		if len(io.inbox) == 0 {
			io.mu.Unlock()
			return nil, v03ErrRecvDone
		}
		io.recvWaiting = false
		d := io.inbox[0]
		io.inbox = io.inbox[1:]
		io.mu.Unlock()
		m, err := protocol.ParseUDPMessage(v03Tight(d))
		if err != nil {
			continue
		}
		return m, nil
	}
}

func (io *v03IO) SendMessage(buf []byte, msg *protocol.UDPMessage) error {
	io.maybePark("send")
	n := msg.Serialize(buf)
	io.mu.Lock()
	defer io.mu.Unlock()
	io.sendCalls++
	if n < 0 {
		io.dropped++
		return nil
	}
	if io.failSendAt > 0 && io.sendCalls == io.failSendAt {
		io.sendErrs++
		return v03ErrSendFail
	}
	if io.failSIDArmed && msg.SessionID == io.failSID {
		io.failSIDArmed = false
		io.sendErrs++
		return v03ErrSendFail
	}
	if n > io.limit {
		io.refused++
		return &quic.DatagramTooLargeError{MaxDatagramPayloadSize: int64(io.limit)}
	}
	io.delivered = append(io.delivered, append([]byte(nil), buf[:n]...))
	return nil
}

func (io *v03IO) Hook(data []byte, reqAddr *string) error {
	switch {
	case strings.HasPrefix(*reqAddr, "rewrite"):
		*reqAddr = "rewritten:2"
	case strings.HasPrefix(*reqAddr, "hookfail"):
		return v03ErrHook
	}
	if len(data) > 0 {
		_ = data[len(data)-1]
	}
	return nil
}

func (io *v03IO) UDP(reqAddr string) (UDPConn, error) {
	if strings.HasPrefix(reqAddr, "dialfail") {
		return nil, v03ErrDial
	}
	io.mu.Lock()
	defer io.mu.Unlock()
	c := &v03Conn{io: io, addr: reqAddr, closeCh: make(chan struct{}), inject: make(chan v03Reply, 4), failRead: make(chan struct{})}
	if k := len(io.conns); k < len(io.scripts) {
		c.script = io.scripts[k]
	}
	io.conns = append(io.conns, c)
	return c, nil
}

func (io *v03IO) CheckUDP(reqAddr string) error {
	io.maybePark("check")
	if strings.HasPrefix(reqAddr, "deny") {
		return v03ErrDenied
	}
	return nil
}

type v03EventLog struct {
	mu        sync.Mutex
	news, cls int
}

func (l *v03EventLog) New(sessionID uint32, reqAddr string) { l.mu.Lock(); l.news++; l.mu.Unlock() }
func (l *v03EventLog) Close(sessionID uint32, err error)    { l.mu.Lock(); l.cls++; l.mu.Unlock() }

// ---- case generation ----

type v03Case struct {
	limit      int
	failSendAt int
	dgrams     [][]byte
	replies    []v03Reply   // sync test: replies pushed through sendMessageAutoFrag
	scripts    [][]v03Reply // live test: per created outbound socket
	shape      string
	races      []v03Race // sync test: a close placed inside an environment call
}

// v03Race: while Feed / receiveLoop of session sid is parked inside `park`, the session is closed by `closeBy`.
type v03Race struct {
	sid     uint32
	park    string // check | write | send
	closeBy string // cleanup-all | idle-sweep | read-error | send-error
}

var v03Addrs = []string{"a:1", "a:1", "b:22", "deny:1", "rewrite:1", "dialfail:1", "hookfail:1", "[::1]:53", strings.Repeat("L", 300) + ":9"}

func v03GenReply(rt *rapid.T, label string) v03Reply {
	dl := rapid.SampledFrom([]int{0, 1, 2, 100, 255, 256, 257, 1100, 1200, 1472, 4000, 4085, 4086, 4096, 5000}).Draw(rt, label+"_len")
	if rapid.IntRange(0, 2).Draw(rt, label+"_u") == 0 {
		dl = rapid.IntRange(0, 4096).Draw(rt, label+"_ulen")
	}
	ra := rapid.SampledFrom([]string{"1.2.3.4:53", "9:9", "[2001:db8::1]:65535", strings.Repeat("r", 70) + ":1"}).Draw(rt, label+"_raddr")
	return v03Reply{data: v03Fill(dl, 3), rAddr: ra}
}

func v03GenCase(rt *rapid.T, live bool) *v03Case {
	c := &v03Case{}
	// the limit quic-go reports: tiny values are the interesting ones
	switch rapid.IntRange(0, 4).Draw(rt, "limitShape") {
	case 0:
		c.limit = rapid.IntRange(0, 40).Draw(rt, "limitTiny")
	case 1:
		c.limit = rapid.IntRange(0, 1500).Draw(rt, "limitAny")
	case 2:
		c.limit = rapid.SampledFrom([]int{0, 1, 8, 9, 10, 11, 19, 20, 21, 22, 23, 24, 25, 26, 27, 28, 29, 30, 31, 32}).Draw(rt, "limitEdge")
	default:
		c.limit = rapid.SampledFrom([]int{1150, 1197, 1200, 1252, 1350, 1472}).Draw(rt, "limitUsual")
	}
	if rapid.IntRange(0, 9).Draw(rt, "sendFail") == 0 {
		c.failSendAt = rapid.IntRange(1, 6).Draw(rt, "failSendAt")
	}
	maxN := 30
	if live {
		maxN = 12
	}
	n := rapid.IntRange(1, maxN).Draw(rt, "n")
	c.shape = "mixed"
	if !live && rapid.IntRange(0, 24).Draw(rt, "aclFlood") == 13 {
		// > 256 distinct addresses on one session: the per-session decision cache must evict, not grow or crash
		c.shape = "acl-flood"
		for i := 0; i < 300; i++ {
			c.dgrams = append(c.dgrams, v03EncUDP(1, 0, 0, 1, fmt.Sprintf("h%d:%d", i, i+1), []byte{byte(i)}))
		}
	}
	type tmpl struct {
		sid  uint32
		pid  uint16
		cnt  uint8
		addr string
	}
	var tmpls []tmpl
	for k := rapid.IntRange(1, 3).Draw(rt, "ntmpl"); k > 0; k-- {
		tmpls = append(tmpls, tmpl{uint32(rapid.SampledFrom([]int{1, 1, 2, 3}).Draw(rt, "tsid")), uint16(rapid.IntRange(1, 3).Draw(rt, "tpid")),
			uint8(rapid.SampledFrom([]int{2, 2, 3, 4, 255}).Draw(rt, "tcnt")), rapid.SampledFrom(v03Addrs).Draw(rt, "taddr")})
	}
	for i := 0; i < n; i++ {
		var raw []byte
		dl := rapid.SampledFrom([]int{1, 1, 2, 7, 100, 1180, 1180, 1180, 1, 2, 7, 100, 1180, 1180, 1180, 60000}).Draw(rt, "dlen")
		switch rapid.IntRange(0, 9).Draw(rt, "kind") {
		case 0, 1, 2, 3: // a fragment of one of the running messages
			tp := rapid.SampledFrom(tmpls).Draw(rt, "tmpl")
			raw = v03EncUDP(tp.sid, tp.pid, uint8(rapid.IntRange(0, int(tp.cnt)-1).Draw(rt, "tfid")), tp.cnt, tp.addr, v03Fill(dl, byte(i)))
		case 4, 5: // unfragmented message
			raw = v03EncUDP(uint32(rapid.SampledFrom([]int{1, 2, 3, 0xffffffff}).Draw(rt, "sid")), uint16(rapid.IntRange(0, 2).Draw(rt, "pid")),
				0, uint8(rapid.IntRange(0, 1).Draw(rt, "cnt01")), rapid.SampledFrom(v03Addrs).Draw(rt, "addr"), v03Fill(dl, byte(i)))
		case 6, 7: // arbitrary fragment header
			cnt := uint8(rapid.SampledFrom([]int{0, 1, 2, 3, 128, 255}).Draw(rt, "cnt"))
			fid := uint8(rapid.SampledFrom([]int{0, 1, 2, 3, 127, 128, 254, 255}).Draw(rt, "fid"))
			raw = v03EncUDP(uint32(rapid.IntRange(1, 3).Draw(rt, "sid")), uint16(rapid.IntRange(1, 3).Draw(rt, "pid")), fid, cnt,
				rapid.SampledFrom(v03Addrs).Draw(rt, "addr"), v03Fill(dl, byte(i)))
		case 8: // address bytes that are not text
			raw = v03EncUDP(uint32(rapid.IntRange(1, 3).Draw(rt, "sid")), 0, 0, 1, string(rapid.SliceOfN(rapid.Byte(), 1, 40).Draw(rt, "addrBytes")), v03Fill(dl, byte(i)))
		default: // not a message at all / truncated
			if rapid.Bool().Draw(rt, "junk") {
				raw = rapid.SliceOfN(rapid.Byte(), 0, 30).Draw(rt, "bytes")
			} else {
				full := v03EncUDP(1, 1, 0, 1, "a:1", v03Fill(3, 0))
				raw = full[:rapid.IntRange(0, len(full)).Draw(rt, "cut")]
			}
		}
		c.dgrams = append(c.dgrams, raw)
	}
	if !live {
		if rapid.IntRange(0, 19).Draw(rt, "bigComplete") == 11 {
			// a complete message of the maximum fragment count with full-size fragments (~300 KB reassembled)
			cnt := rapid.SampledFrom([]int{255, 255, 128, 64}).Draw(rt, "bigCnt")
			sid := uint32(rapid.IntRange(1, 3).Draw(rt, "bigSid"))
			order := rapid.Permutation(v03Iota(cnt)).Draw(rt, "bigOrder")
			for _, f := range order {
				c.dgrams = append(c.dgrams, v03EncUDP(sid, 777, uint8(f), uint8(cnt), "a:1", v03Fill(1180, byte(f))))
			}
			c.shape += "+big-complete"
		}
		for k := rapid.IntRange(0, 2).Draw(rt, "nraces"); k > 0; k-- {
			rc := v03Race{sid: uint32(rapid.SampledFrom([]int{0xACE00001, 0xACE00002, 1, 2}).Draw(rt, "raceSid")),
				park: rapid.SampledFrom([]string{"check", "check", "write", "send"}).Draw(rt, "racePark")}
			if rc.park == "send" {
				rc.closeBy = rapid.SampledFrom([]string{"cleanup-all", "idle-sweep"}).Draw(rt, "raceCloseS")
			} else {
				rc.closeBy = rapid.SampledFrom([]string{"cleanup-all", "idle-sweep", "read-error", "send-error"}).Draw(rt, "raceClose")
			}
			c.races = append(c.races, rc)
		}
	}
	if live {
		for k := rapid.IntRange(0, 3).Draw(rt, "nscripts"); k > 0; k-- {
			var s []v03Reply
			for j := rapid.IntRange(0, 3).Draw(rt, "nreplies"); j > 0; j-- {
				s = append(s, v03GenReply(rt, "reply"))
			}
			c.scripts = append(c.scripts, s)
		}
	} else {
		for k := rapid.IntRange(0, 5).Draw(rt, "nreplies"); k > 0; k-- {
			c.replies = append(c.replies, v03GenReply(rt, "reply"))
		}
	}
	return c
}

func v03Iota(n int) []int {
	x := make([]int, n)
	for i := range x {
		x[i] = i
	}
	return x
}

func (c *v03Case) render() string {
	var sb strings.Builder
	fmt.Fprintf(&sb, "limit=%d failSendAt=%d shape=%s\n", c.limit, c.failSendAt, c.shape)
	for i, rc := range c.races {
		fmt.Fprintf(&sb, "  race #%d (after the datagrams and replies): session %#x parked in %s while closed by %s\n", i, rc.sid, rc.park, rc.closeBy)
	}
	for i, d := range c.dgrams {
		if i >= 40 {
			fmt.Fprintf(&sb, "  … %d more datagrams\n", len(c.dgrams)-i)
			break
		}
		fmt.Fprintf(&sb, "  dgram #%d (%d bytes): %s\n", i, len(d), hex.EncodeToString(d[:min(len(d), 40)]))
	}
	for i, r := range c.replies {
		fmt.Fprintf(&sb, "  reply #%d: %d bytes from %q\n", i, len(r.data), r.rAddr)
	}
	for k, s := range c.scripts {
		for i, r := range s {
			fmt.Fprintf(&sb, "  socket %d reply #%d: %d bytes from %q\n", k, i, len(r.data), r.rAddr)
		}
	}
	return sb.String()
}

// ---- synchronous run ----

const v03ProbeSID = 0xC0FFEE01

func v03RunSync(c *v03Case) (classes []string, fp string, verr error) {
	io := v03NewIO(c.limit)
	io.failSendAt = c.failSendAt
	ev := &v03EventLog{}
	m := newUDPSessionManager(io, ev, time.Hour)
	defer func() {
		if pv, stack := v03Guard(func() { m.cleanup(false) }); pv != nil && verr == nil {
			verr = fmt.Errorf("session cleanup panicked: %v\n%s%s", pv, c.render(), stack)
		}
	}()
	var fps strings.Builder
	parsed := 0
	for i, d := range c.dgrams {
		var perr error
		pv, stack := v03Guard(func() {
			var msg *protocol.UDPMessage
			msg, perr = protocol.ParseUDPMessage(v03Tight(d))
			if perr != nil {
				return // udpIOImpl.ReceiveMessage drops it
			}
			m.feed(msg)
		})
		if pv != nil {
			return nil, "", fmt.Errorf("udpSessionManager.feed panicked at datagram #%d: %v\n%s%s", i, pv, c.render(), stack)
		}
		if perr != nil {
			fps.WriteByte('x')
		} else {
			parsed++
			fps.WriteByte('f')
		}
	}
	// replies: what receiveLoop does for every packet read from the outbound socket
	msgBuf := make([]byte, protocol.MaxUDPSize)
	udpBuf := make([]byte, protocol.MaxUDPSize)
	for i, r := range c.replies {
		n := copy(udpBuf, r.data)
		msg := &protocol.UDPMessage{SessionID: 1, PacketID: 0, FragID: 0, FragCount: 1, Addr: r.rAddr, Data: udpBuf[:n]}
		before, refusedBefore := len(io.delivered), io.refused
		var serr error
		pv, stack := v03Guard(func() { serr = sendMessageAutoFrag(io, msgBuf, msg) })
		if pv != nil {
			return nil, "", fmt.Errorf("sendMessageAutoFrag panicked on reply #%d (%d bytes from %q, peer limit %d): %v\n%s%s", i, len(r.data), r.rAddr, c.limit, pv, c.render(), stack)
		}
		sent := len(io.delivered) - before
		switch {
		case serr != nil:
			classes = append(classes, "reply:error")
			fps.WriteByte('E')
		case io.refused == refusedBefore && sent == 1:
			classes = append(classes, "reply:whole")
			fps.WriteByte('W')
		case sent == 0:
			classes = append(classes, "reply:discarded")
			fps.WriteByte('D')
		case sent >= 200:
			classes = append(classes, "reply:fragmented>=200")
			fps.WriteByte('G')
		default:
			classes = append(classes, "reply:fragmented")
			fps.WriteByte('F')
		}
	}
	for i, rc := range c.races {
		cls, err := v03RunRace(m, io, rc, i, c)
		if err != nil {
			return nil, "", err
		}
		classes = append(classes, cls)
		fps.WriteString("R" + cls)
	}
	// service continues
	want1, want2 := []byte("probe-one"), v03Fill(90, 5)
	pv, stack := v03Guard(func() {
		for _, d := range [][]byte{
			v03EncUDP(v03ProbeSID, 0, 0, 1, "probe:53", want1),
			v03EncUDP(v03ProbeSID, 4242, 1, 2, "probe:53", want2[45:]),
			v03EncUDP(v03ProbeSID, 4242, 0, 2, "probe:53", want2[:45]),
		} {
			msg, perr := protocol.ParseUDPMessage(v03Tight(d))
			if perr != nil {
				panic("probe does not parse: " + perr.Error())
			}
			m.feed(msg)
		}
	})
	if pv != nil {
		return nil, "", fmt.Errorf("well-formed message after the hostile history panicked: %v\n%s%s", pv, c.render(), stack)
	}
	var probe *v03Conn
	io.mu.Lock()
	for _, cn := range io.conns {
		if cn.addr == "probe:53" {
			probe = cn
		}
	}
	var got [][]byte
	if probe != nil {
		got = probe.written
	}
	io.mu.Unlock()
	if probe == nil || len(got) != 2 || !bytes.Equal(got[0], want1) || !bytes.Equal(got[1], want2) {
		return nil, "", fmt.Errorf("service did not continue: a fresh session's well-formed messages were not relayed after the hostile history (outbound got %d packets)\n%s", len(got), c.render())
	}
	// and its reply goes out when it fits the peer's limit
	reply := &protocol.UDPMessage{SessionID: v03ProbeSID, FragCount: 1, Addr: "9.9.9.9:53", Data: []byte("pong")}
	io.mu.Lock()
	io.failSendAt = 0
	before := len(io.delivered)
	io.mu.Unlock()
	var serr error
	pv, stack = v03Guard(func() { serr = sendMessageAutoFrag(io, msgBuf, reply) })
	if pv != nil {
		return nil, "", fmt.Errorf("reply on the fresh session panicked: %v\n%s%s", pv, c.render(), stack)
	}
	wantWire := v03EncUDP(v03ProbeSID, 0, 0, 1, "9.9.9.9:53", []byte("pong"))
	if c.limit >= len(wantWire) {
		if serr != nil || len(io.delivered) != before+1 || !bytes.Equal(io.delivered[before], wantWire) {
			return nil, "", fmt.Errorf("service did not continue: a %d-byte reply within the peer limit %d was not sent as is (err=%v, sent %d)\n%s", len(wantWire), c.limit, serr, len(io.delivered)-before, c.render())
		}
	}
	if parsed > 0 {
		classes = append(classes, "dgram:parsed")
	}
	if len(io.conns) > 1 {
		classes = append(classes, "sessions-dialed")
	}
	classes = append(classes, "shape:"+c.shape)
	return classes, fps.String(), nil
}

// v03RunRace places a session close exactly inside an environment call made on behalf of that session.
func v03RunRace(m *udpSessionManager, io *v03IO, rc v03Race, idx int, c *v03Case) (string, error) {
	feedOne := func(addr string, data []byte) (any, string) {
		return v03Guard(func() {
			msg, perr := protocol.ParseUDPMessage(v03Tight(v03EncUDP(rc.sid, 0, 0, 1, addr, data)))
			if perr != nil {
				panic("race message does not parse: " + perr.Error())
			}
			m.feed(msg)
		})
	}
	// make sure the session exists and is dialed
	if pv, stack := feedOne("race-a:1", []byte("warm-up")); pv != nil {
		return "", fmt.Errorf("udpSessionManager.feed panicked on the race warm-up message: %v\n%s%s", pv, c.render(), stack)
	}
	m.mutex.RLock()
	entry := m.m[rc.sid]
	m.mutex.RUnlock()
	var cn *v03Conn
	if entry != nil {
		entry.connLock.Lock()
		if entry.conn != nil && !entry.closed {
			cn, _ = entry.conn.(*v03Conn)
		}
		usable := entry.OverrideAddr == ""
		entry.connLock.Unlock()
		if !usable {
			cn = nil
		}
	}
	if cn == nil {
		return "race:skipped", nil
	}
	io.mu.Lock()
	errsBefore := io.sendErrs
	io.mu.Unlock()
	io.arm(rc.park)
	parked, release := io.parked, io.release
	done := make(chan struct{})
	var gpv any
	var gstack string
	switch rc.park {
	case "check": // destination not yet in the session's decision cache -> CheckUDP
		go func() { defer close(done); gpv, gstack = feedOne(fmt.Sprintf("race-b%d:1", idx), []byte("racing")) }()
	case "write": // cached destination -> straight to WriteTo
		go func() { defer close(done); gpv, gstack = feedOne("race-a:1", []byte("racing")) }()
	default: // a reply arrives on the outbound socket -> receiveLoop -> SendMessage
		close(done)
		cn.inject <- v03Reply{data: []byte("pong"), rAddr: "9.9.9.9:53"}
	}
	select {
	case <-parked:
	case <-time.After(60 * time.Second):
		vInconclusive(fmt.Sprintf("C03 server race: the environment call to park in was not reached within 60 s (%+v)", rc))
	}
	waitClosed := func() {
		deadline := time.Now().Add(60 * time.Second)
		for {
			io.mu.Lock()
			cl := cn.closed
			io.mu.Unlock()
			if cl {
				return
			}
			if time.Now().After(deadline) {
				vInconclusive(fmt.Sprintf("C03 server race: the session was not closed within 60 s after its socket failed (%+v) inRead=%v", rc, cn.inRead))
			}
			time.Sleep(20 * time.Microsecond)
		}
	}
	cpv, cstack := v03Guard(func() {
		switch rc.closeBy {
		case "cleanup-all":
			m.cleanup(false)
		case "idle-sweep": // what idleCleanupLoop does once the idle timeout has elapsed
			old := m.idleTimeout
			m.idleTimeout = -1
			m.cleanup(true)
			m.idleTimeout = old
		case "read-error":
			close(cn.failRead)
			waitClosed()
		case "send-error":
			io.mu.Lock()
			io.failSIDArmed, io.failSID = true, rc.sid
			io.mu.Unlock()
			cn.inject <- v03Reply{data: []byte("x"), rAddr: "9.9.9.9:53"}
			waitClosed()
		}
	})
	close(release)
	select {
	case <-done:
	case <-time.After(60 * time.Second):
		vInconclusive("C03 server race: feed did not return within 60 s after being released")
	}
	if rc.park == "send" {
		// the released reply loop must have finished its send before the history goes on
		deadline := time.Now().Add(60 * time.Second)
		for {
			io.mu.Lock()
			saw := cn.sawClosed || io.sendErrs > errsBefore // back at the closed socket, or left through a send error
			io.mu.Unlock()
			if saw {
				break
			}
			if time.Now().After(deadline) {
				vInconclusive("C03 server race: the reply loop did not come back to its closed socket within 60 s")
			}
			time.Sleep(20 * time.Microsecond)
		}
	}
	io.mu.Lock()
	io.failSIDArmed = false
	io.mu.Unlock()
	desc := fmt.Sprintf("race #%d: session %#x parked in %s, closed by %s", idx, rc.sid, rc.park, rc.closeBy)
	if cpv != nil {
		return "", fmt.Errorf("closing the session panicked (%s): %v\n%s%s", desc, cpv, c.render(), cstack)
	}
	if gpv != nil {
		return "", fmt.Errorf("udpSessionManager.feed panicked after the session was closed under it (%s): %v\n%s%s", desc, gpv, c.render(), gstack)
	}
	return "race:" + rc.park + "/" + rc.closeBy, nil
}

// TestVerifC03_Regress_ServerReplyFragWrap: the repaired defect (fix c559d24) through the
// server's reply path: a 4096-byte reply and a peer whose datagram limit leaves a few bytes per fragment.
func TestVerifC03_Regress_ServerReplyFragWrap(t *testing.T) {
	st := newVStats("TestVerifC03_Regress_ServerReplyFragWrap")
	defer st.Flush()
	for _, tc := range []struct{ size, limit int }{{4096 - 19, 24}, {4000, 20}, {256, 20}, {1200, 22}, {4077, 34}} {
		io := v03NewIO(tc.limit)
		msg := &protocol.UDPMessage{SessionID: 1, FragCount: 1, Addr: "1.2.3.4:53", Data: v03Fill(tc.size, 1)} // header 19
		pv, stack := v03Guard(func() { _ = sendMessageAutoFrag(io, make([]byte, protocol.MaxUDPSize), msg) })
		st.Case(true, fmt.Sprint(tc), []string{fmt.Sprintf("delivered=%d", len(io.delivered))}, func() string { return fmt.Sprintf("%+v", tc) })
		if pv != nil {
			t.Fatalf("C03: sendMessageAutoFrag panicked for a %d-byte reply from 1.2.3.4:53 with peer datagram limit %d: %v\n%s", tc.size, tc.limit, pv, stack)
		}
	}
}

func TestVerifC03_ServerUDPSync(t *testing.T) {
	st := newVStats("TestVerifC03_ServerUDPSync")
	defer st.Flush()
	rapid.Check(t, func(rt *rapid.T) {
		c := v03GenCase(rt, false)
		classes, fp, err := v03RunSync(c)
		nt := false
		for _, cl := range classes {
			if cl == "dgram:parsed" || strings.HasPrefix(cl, "reply:frag") || cl == "reply:discarded" {
				nt = true
			}
		}
		st.Case(nt, fmt.Sprintf("%s|%d", fp, c.limit/8), classes, c.render)
		if err != nil {
			rt.Fatalf("C03: %v", err)
		}
	})
}

// ---- live run: the real Run loop and the real receiveLoop goroutines ----

func v03RunLive(c *v03Case) (classes []string, verr error) {
	io := v03NewIO(c.limit)
	io.failSendAt = c.failSendAt
	io.scripts = c.scripts
	io.inbox = append(io.inbox, c.dgrams...)
	ev := &v03EventLog{}
	m := newUDPSessionManager(io, ev, time.Hour)
	done := make(chan error, 1)
	go func() { done <- m.Run() }()
	watchdog := time.AfterFunc(60*time.Second, func() {
		io.mu.Lock()
		io.gaveUp = true
		io.cond.Broadcast()
		io.mu.Unlock()
	})
	defer watchdog.Stop()
	quiesce := func() bool {
		io.mu.Lock()
		defer io.mu.Unlock()
		for {
			if io.gaveUp {
				return false
			}
			ok := io.recvWaiting && len(io.inbox) == 0
			for _, cn := range io.conns {
				if !cn.closed && !(cn.inRead && len(cn.script) == 0) {
					ok = false
				}
			}
			if ok {
				return true
			}
			io.cond.Wait()
		}
	}
	if !quiesce() {
		vInconclusive("C03 live: the session manager did not consume the scripted datagrams within 60 s")
	}
	// service continues: fresh session, its outbound socket gets the payload, its reply is sent
	io.mu.Lock()
	io.failSendAt = 0
	nBefore := len(io.conns)
	io.scripts = append(io.scripts[:min(len(io.scripts), nBefore)], make([][]v03Reply, max(0, nBefore-len(io.scripts)))...)
	io.scripts = append(io.scripts, []v03Reply{{data: []byte("pong"), rAddr: "9.9.9.9:53"}})
	sentBefore := len(io.delivered)
	io.inbox = append(io.inbox, v03EncUDP(v03ProbeSID, 0, 0, 1, "probe:53", []byte("probe-one")))
	io.cond.Broadcast()
	io.mu.Unlock()
	if !quiesce() {
		vInconclusive("C03 live: the probe message was not consumed within 60 s")
	}
	io.mu.Lock()
	var probe *v03Conn
	for _, cn := range io.conns {
		if cn.addr == "probe:53" {
			probe = cn
		}
	}
	okRelay := probe != nil && len(probe.written) == 1 && bytes.Equal(probe.written[0], []byte("probe-one"))
	wantWire := v03EncUDP(v03ProbeSID, 0, 0, 1, "9.9.9.9:53", []byte("pong"))
	okReply := true
	if c.limit >= len(wantWire) {
		okReply = len(io.delivered) == sentBefore+1 && bytes.Equal(io.delivered[sentBefore], wantWire)
	}
	nconns := len(io.conns)
	io.finish = true
	io.cond.Broadcast()
	io.mu.Unlock()
	select {
	case <-done:
	case <-time.After(60 * time.Second):
		vInconclusive("C03 live: Run did not return within 60 s after the connection error")
	}
	if !okRelay {
		return nil, fmt.Errorf("service did not continue: the fresh session's message did not reach its outbound socket after the hostile history\n%s", c.render())
	}
	if !okReply {
		return nil, fmt.Errorf("service did not continue: the fresh session's 4-byte reply (within peer limit %d) was not sent\n%s", c.limit, c.render())
	}
	if nconns > 1 {
		classes = append(classes, "sessions-dialed")
	}
	if io.refused > 0 {
		classes = append(classes, "reply:too-large-path")
	}
	if len(io.delivered) > 1 {
		classes = append(classes, "reply:delivered")
	}
	return classes, nil
}

func TestVerifC03_ServerUDPLive(t *testing.T) {
	st := newVStats("TestVerifC03_ServerUDPLive")
	defer st.Flush()
	rapid.Check(t, func(rt *rapid.T) {
		c := v03GenCase(rt, true)
		// a panic in receiveLoop / Run cannot be recovered here: leave the case where it can be found
		_ = os.WriteFile("c03_lastcase.txt", []byte(c.render()), 0o644)
		classes, err := v03RunLive(c)
		nt := len(classes) > 0
		st.Case(nt, c.render(), classes, c.render)
		if err != nil {
			rt.Fatalf("C03: %v", err)
		}
	})
}
