package server

// C07 — end-to-end with a RAW HTTP/3 client: the auth POST is sent 2..4 times at the
// same moment on one QUIC connection (legal: a repeated auth request is answered 233
// again), then raw UDP-message datagrams of one or two session IDs follow.
//
// Oracle (fake Outbound.UDP census): for one (connection, session ID) there is never
// more than one live outbound socket — the session ID is "bound to its own outbound UDP
// socket" — however the client went through authentication; every datagram that
// reaches a socket carries its own session's bytes; every reply that comes back on the
// QUIC connection is tagged with the ID of the session whose socket produced it.
// Silence proves nothing here: the check only fails on something it observed.

import (
	"context"
	"crypto/tls"
	"errors"
	"fmt"
	"net"
	"net/http"
	"net/url"
	"strings"
	"sync"
	"testing"
	"time"

	"github.com/apernet/quic-go"
	"github.com/apernet/quic-go/http3"

	"github.com/apernet/hysteria/core/v2/internal/protocol"
)

type v07dSock struct {
	ob     *v07dOutbound
	key    string // dial address: "c<conn>-s<session>.test:53"
	in     chan []byte
	closed chan struct{}
	once   sync.Once
}

func (s *v07dSock) ReadFrom(b []byte) (int, string, error) {
	select {
	case d := <-s.in:
		return copy(b, d), s.key, nil
	case <-s.closed:
		return 0, "", errors.New("v07d: closed")
	}
}

func (s *v07dSock) WriteTo(b []byte, addr string) (int, error) {
	o := s.ob
	o.mu.Lock()
	o.writes[s.key]++
	if want := "payload of " + s.key; !strings.HasPrefix(string(b), want) || addr != s.key {
		o.violations = append(o.violations, fmt.Sprintf("the socket dialed for %s received %q addressed to %s", s.key, string(b[:v07MinInt(len(b), 48)]), addr))
	}
	o.mu.Unlock()
	select {
	case s.in <- append([]byte("reply to "), b...): // echo
	default:
	}
	return len(b), nil
}

func (s *v07dSock) Close() error {
	s.once.Do(func() {
		close(s.closed)
		s.ob.mu.Lock()
		s.ob.live[s.key]--
		s.ob.mu.Unlock()
	})
	return nil
}

type v07dOutbound struct {
	mu         sync.Mutex
	live       map[string]int
	opened     map[string]int
	writes     map[string]int
	violations []string
}

func (o *v07dOutbound) TCP(reqAddr string) (net.Conn, error) { return nil, errors.New("v07d: no tcp") }
func (o *v07dOutbound) CheckUDP(reqAddr string) error        { return nil }
func (o *v07dOutbound) UDP(reqAddr string) (UDPConn, error) {
	o.mu.Lock()
	defer o.mu.Unlock()
	o.opened[reqAddr]++
	o.live[reqAddr]++
	if o.live[reqAddr] > 1 {
		o.violations = append(o.violations, fmt.Sprintf("(a) %d outbound sockets are open at the same time for one session (%s)", o.live[reqAddr], reqAddr))
	}
	return &v07dSock{ob: o, key: reqAddr, in: make(chan []byte, 256), closed: make(chan struct{})}, nil
}

func (o *v07dOutbound) snapshot() (viol []string, writes int) {
	o.mu.Lock()
	defer o.mu.Unlock()
	for _, n := range o.writes {
		writes += n
	}
	return append([]string(nil), o.violations...), writes
}

func TestVerifC07_E2EDoubleAuth(t *testing.T) {
	st := newVStats("TestVerifC07_E2EDoubleAuth")
	defer st.Flush()
	cert, err := v07SelfSigned()
	if err != nil {
		vInconclusive("C07 double auth: cannot create a certificate: " + err.Error())
	}
	pc, err := net.ListenUDP("udp", &net.UDPAddr{IP: net.IPv4(127, 0, 0, 1)})
	if err != nil {
		vInconclusive("C07 double auth: cannot listen: " + err.Error())
	}
	ob := &v07dOutbound{live: map[string]int{}, opened: map[string]int{}, writes: map[string]int{}}
	s, err := NewServer(&Config{TLSConfig: TLSConfig{Certificates: []tls.Certificate{cert}}, Conn: pc, Outbound: ob,
		UDPIdleTimeout: 10 * time.Minute, Authenticator: v07E2EAuth{}})
	if err != nil {
		vInconclusive("C07 double auth: NewServer: " + err.Error())
	}
	defer s.Close()
	go s.Serve()

	const rounds = 16
	totalReplies := 0
	for round := 0; round < rounds; round++ {
		nAuth := 2 + round%3 // 2, 3 or 4 auth requests in flight at once
		nSess := 1 + round%2
		cpc, err := net.ListenUDP("udp", &net.UDPAddr{IP: net.IPv4(127, 0, 0, 1)})
		if err != nil {
			vInconclusive("C07 double auth: cannot listen (client): " + err.Error())
		}
		tr := &quic.Transport{Conn: cpc}
		var conn *quic.Conn
		rt := &http3.Transport{
			TLSClientConfig: &tls.Config{InsecureSkipVerify: true},
			QUICConfig: &quic.Config{EnableDatagrams: true, MaxDatagramFrameSize: protocol.MaxDatagramFrameSize,
				OmitMaxDatagramFrameSize: true, DisablePathManager: true},
			Dial: func(ctx context.Context, _ string, tlsCfg *tls.Config, cfg *quic.Config) (*quic.Conn, error) {
				qc, err := tr.DialEarly(ctx, pc.LocalAddr(), tlsCfg, cfg)
				if err != nil {
					return nil, err
				}
				conn = qc
				return qc, nil
			},
		}
		authOnce := func() error {
			req := &http.Request{Method: http.MethodPost, URL: &url.URL{Scheme: "https", Host: protocol.URLHost, Path: protocol.URLPath}, Header: make(http.Header)}
			protocol.AuthRequestToHeader(req.Header, protocol.AuthRequest{Auth: "pw", Rx: 0})
			ctx, cancel := context.WithTimeout(context.Background(), 20*time.Second)
			defer cancel()
			resp, err := rt.RoundTrip(req.WithContext(ctx))
			if err != nil {
				return err
			}
			_ = resp.Body.Close()
			if resp.StatusCode != protocol.StatusAuthOK {
				return fmt.Errorf("auth answered %d", resp.StatusCode)
			}
			return nil
		}
		// the first request establishes the connection; then nAuth requests at the same moment.
		// (All of them are auth POSTs: the very first one is also raced by sending it together with the others.)
		errCh := make(chan error, nAuth)
		start := make(chan struct{})
		for i := 0; i < nAuth; i++ {
			go func() { <-start; errCh <- authOnce() }()
		}
		close(start)
		for i := 0; i < nAuth; i++ {
			if err := <-errCh; err != nil {
				vInconclusive("C07 double auth: auth request failed: " + err.Error())
			}
		}
		if conn == nil {
			vInconclusive("C07 double auth: no QUIC connection")
		}
		// replies: every datagram on the connection must be tagged with the session its socket belongs to
		sidOf := func(k int) uint32 { return []uint32{1, 0xfffffffe}[k] }
		keyOf := func(k int) string { return fmt.Sprintf("c%d-s%d.test:53", round, k) }
		rctx, rcancel := context.WithCancel(context.Background())
		var replyViol []string
		replies := 0
		var rmu sync.Mutex
		rdone := make(chan struct{})
		go func() {
			defer close(rdone)
			for {
				b, err := conn.ReceiveDatagram(rctx)
				if err != nil {
					return
				}
				m, err := protocol.ParseUDPMessage(b)
				if err != nil {
					continue
				}
				rmu.Lock()
				replies++
				ok := false
				for k := 0; k < nSess; k++ {
					if m.SessionID == sidOf(k) && m.Addr == keyOf(k) && strings.HasPrefix(string(m.Data), "reply to payload of "+keyOf(k)) {
						ok = true
					}
				}
				if !ok {
					replyViol = append(replyViol, fmt.Sprintf("(a) a reply tagged session %d from %s carries %q", m.SessionID, m.Addr, string(m.Data[:v07MinInt(len(m.Data), 48)])))
				}
				rmu.Unlock()
			}
		}()
		buf := make([]byte, 512)
		for i := 0; i < 40; i++ {
			k := i % nSess
			m := &protocol.UDPMessage{SessionID: sidOf(k), FragCount: 1, Addr: keyOf(k), Data: []byte(fmt.Sprintf("payload of %s #%d", keyOf(k), i))}
			n := m.Serialize(buf)
			if err := conn.SendDatagram(buf[:n]); err != nil {
				vInconclusive("C07 double auth: SendDatagram: " + err.Error())
			}
			time.Sleep(time.Millisecond) // pacing only: lets both receive loops (if there are two) take turns
		}
		// grace period for the tail (silence = nothing more to judge)
		_, w0 := ob.snapshot()
		for i := 0; i < 30; i++ {
			time.Sleep(10 * time.Millisecond)
			if _, w := ob.snapshot(); w == w0 && i >= 5 {
				break
			} else {
				w0 = w
			}
		}
		viol, writes := ob.snapshot()
		rmu.Lock()
		viol = append(viol, replyViol...)
		nrep := replies
		rmu.Unlock()
		totalReplies += nrep
		rcancel()
		_ = conn.CloseWithError(0, "")
		<-rdone
		_ = rt.Close()
		_ = tr.Close()
		_ = cpc.Close()
		ob.mu.Lock()
		opened := 0
		for k := 0; k < nSess; k++ {
			opened += ob.opened[keyOf(k)]
		}
		ob.mu.Unlock()
		st.Case(true, fmt.Sprintf("round%d", round), []string{fmt.Sprintf("concurrent-auth-requests=%d", nAuth), fmt.Sprintf("sessions=%d", nSess)}, func() string {
			return fmt.Sprintf("round %d: %d concurrent auth POSTs, %d session IDs, 40 datagrams: %d sockets opened, %d socket writes so far, %d replies", round, nAuth, nSess, opened, writes, nrep)
		})
		if len(viol) > 0 {
			t.Fatalf("C07 double auth: round %d (%d auth POSTs in flight at once, then 40 datagrams over %d session ID(s)): %s", round, nAuth, nSess, strings.Join(viol, "; "))
		}
		if opened > nSess {
			t.Fatalf("C07 double auth: round %d: %d outbound sockets were opened for %d session ID(s) that never expired (idle timeout 10 min)", round, opened, nSess)
		}
	}
	if _, w := ob.snapshot(); w == 0 {
		vInconclusive("C07 double auth: no datagram reached any outbound socket in any round")
	}
	st.Extra("replies_seen", totalReplies)
}
