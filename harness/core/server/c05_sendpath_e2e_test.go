package server

// C05 (send paths, end to end) — content check through the REAL datagram I/O of both
// sides: a real client and a real server over loopback QUIC, a harness outbound whose
// sockets record what WriteTo received and can inject replies. UDP messages of 1..4000
// bytes (1, 2, 3 or 4 fragments with the default QUIC datagram size) travel client ->
// server -> outbound socket and outbound socket -> server -> client on several sessions.
//
// Oracle: whatever arrives (at the outbound socket / from HyUDPConn.Receive) is
// byte-identical to a message that was sent on that session to/from that address
// ("byte-identical or not at all"). Datagrams may be lost: a message that does not
// arrive within a grace period counts as lost, and if fewer than half arrive the run is
// inconclusive, never a violation.

import (
	"crypto/ecdsa"
	"crypto/elliptic"
	crand "crypto/rand"
	"crypto/tls"
	"crypto/x509"
	"crypto/x509/pkix"
	"errors"
	"fmt"
	"math/big"
	"net"
	"sync"
	"testing"
	"time"

	"github.com/apernet/hysteria/core/v2/client"
	"pgregory.net/rapid"
)

func v05eCert() (tls.Certificate, error) {
	key, err := ecdsa.GenerateKey(elliptic.P256(), crand.Reader)
	if err != nil {
		return tls.Certificate{}, err
	}
	tmpl := &x509.Certificate{SerialNumber: big.NewInt(1), Subject: pkix.Name{CommonName: "localhost"},
		NotBefore: time.Now().Add(-time.Hour), NotAfter: time.Now().Add(24 * time.Hour),
		KeyUsage: x509.KeyUsageDigitalSignature, ExtKeyUsage: []x509.ExtKeyUsage{x509.ExtKeyUsageServerAuth},
		DNSNames: []string{"localhost"}, IPAddresses: []net.IP{net.IPv4(127, 0, 0, 1)}}
	der, err := x509.CreateCertificate(crand.Reader, tmpl, tmpl, &key.PublicKey, key)
	if err != nil {
		return tls.Certificate{}, err
	}
	return tls.Certificate{Certificate: [][]byte{der}, PrivateKey: key}, nil
}

type v05eGot struct {
	addr string // socket's dial address + "|" + destination of the write
	data []byte
}

type v05eSock struct {
	ob     *v05eOutbound
	addr   string
	in     chan []byte
	closed chan struct{}
	once   sync.Once
}

func (s *v05eSock) ReadFrom(b []byte) (int, string, error) {
	select {
	case d := <-s.in:
		return copy(b, d), s.addr, nil
	case <-s.closed:
		return 0, "", errors.New("v05e: closed")
	}
}

func (s *v05eSock) WriteTo(b []byte, addr string) (int, error) {
	select {
	case s.ob.got <- v05eGot{s.addr + "|" + addr, append([]byte(nil), b...)}:
	default: // the harness stopped listening
	}
	return len(b), nil
}

func (s *v05eSock) Close() error {
	s.once.Do(func() { close(s.closed) })
	return nil
}

type v05eOutbound struct {
	mu    sync.Mutex
	socks map[string]*v05eSock // newest socket per dial address
	got   chan v05eGot
}

func (o *v05eOutbound) TCP(reqAddr string) (net.Conn, error) { return nil, errors.New("v05e: no tcp") }
func (o *v05eOutbound) CheckUDP(reqAddr string) error        { return nil }
func (o *v05eOutbound) UDP(reqAddr string) (UDPConn, error) {
	o.mu.Lock()
	defer o.mu.Unlock()
	s := &v05eSock{ob: o, addr: reqAddr, in: make(chan []byte, 64), closed: make(chan struct{})}
	o.socks[reqAddr] = s
	return s, nil
}

func (o *v05eOutbound) sock(addr string) *v05eSock {
	o.mu.Lock()
	defer o.mu.Unlock()
	return o.socks[addr]
}

type v05eAuth struct{}

func (v05eAuth) Authenticate(addr net.Addr, auth string, tx uint64) (bool, string) {
	return true, "user"
}

func v05ePayload(kind byte, num, size int) []byte {
	b := make([]byte, size)
	x := uint32(num)*2654435761 + uint32(kind)*97
	for i := range b {
		x = x*1664525 + 1013904223
		b[i] = byte(x >> 24)
	}
	// identity in the head (when it fits): a repeated tail fragment can never look like another sent message
	copy(b, []byte{kind, byte(num >> 8), byte(num)})
	return b
}

type v05eRcv struct {
	data []byte
	addr string
}

func TestVerifC05_E2EContent(t *testing.T) {
	st := newVStats("TestVerifC05_E2EContent")
	defer st.Flush()
	cert, err := v05eCert()
	if err != nil {
		vInconclusive("C05 e2e: cannot create a certificate: " + err.Error())
	}
	pc, err := net.ListenUDP("udp", &net.UDPAddr{IP: net.IPv4(127, 0, 0, 1)})
	if err != nil {
		vInconclusive("C05 e2e: cannot listen: " + err.Error())
	}
	ob := &v05eOutbound{socks: map[string]*v05eSock{}, got: make(chan v05eGot, 4096)}
	s, err := NewServer(&Config{TLSConfig: TLSConfig{Certificates: []tls.Certificate{cert}}, Conn: pc, Outbound: ob,
		UDPIdleTimeout: 10 * time.Minute, Authenticator: v05eAuth{}})
	if err != nil {
		vInconclusive("C05 e2e: NewServer: " + err.Error())
	}
	defer s.Close()
	go s.Serve()
	c, _, err := client.NewClient(&client.Config{ServerAddr: pc.LocalAddr(), TLSConfig: client.TLSConfig{InsecureSkipVerify: true}})
	if err != nil {
		vInconclusive("C05 e2e: client handshake failed: " + err.Error())
	}
	defer c.Close()
	const nSess = 3
	conns := make([]client.HyUDPConn, nSess)
	rcv := make([]chan v05eRcv, nSess)
	addrOf := func(i int) string { return fmt.Sprintf("c05-e2e-s%d.test:%d", i, 5300+i) }
	for i := range conns {
		if conns[i], err = c.UDP(); err != nil {
			vInconclusive("C05 e2e: client UDP(): " + err.Error())
		}
		rcv[i] = make(chan v05eRcv, 4096)
		go func(i int) {
			for {
				b, a, e := conns[i].Receive()
				if e != nil {
					return
				}
				rcv[i] <- v05eRcv{b, a}
			}
		}(i)
	}
	sentUp := map[string]int{}   // "dial addr|dest addr|content" -> sequence number, client -> server
	sentDown := map[string]int{} // "session|from addr|content", server -> client
	seq := 0
	upSent, upArrived, downSent, downArrived := 0, 0, 0, 0
	const grace = 2 * time.Second
	sizeGen := rapid.OneOf(rapid.IntRange(1, 100), rapid.IntRange(1100, 1300), rapid.IntRange(2300, 2500), rapid.IntRange(3400, 3700), rapid.IntRange(1, 4000))
	frags := func(n int) string {
		switch {
		case n <= 1150:
			return "1-fragment"
		case n <= 2300:
			return "2-fragments"
		case n <= 3450:
			return "3-fragments"
		}
		return "4-fragments"
	}
	// remote datagrams around and above the server's 4096-byte socket read buffer: the fake socket
	// behaves like a kernel socket (ReadFrom copies min(len(buf), datagram) bytes), so the server only
	// ever sees a prefix of an over-size datagram. Such a datagram may be dropped; it must never reach
	// the client as something the remote did not send.
	bigSizes := []int{4000, 4060, 4087, 4090, 4095, 4096, 4097, 5000, 9000, 65507}
	checkRcv := func(i int, r v05eRcv, fail func(string, ...any)) int {
		n, ok := sentDown[fmt.Sprintf("%d|%s|%s", i, r.addr, r.data)]
		if !ok {
			fail("C05 e2e: session %d received %d bytes from %q that its outbound socket never sent as one datagram (a truncated or stitched payload); head=%x",
				i, len(r.data), r.addr, r.data[:v05eMin(len(r.data), 12)])
		}
		return n
	}
	{ // deterministic prologue on session 0
		first := v05ePayload('U', 0, 32)
		sentUp[addrOf(0)+"|"+addrOf(0)+"|"+string(first)] = 0
		end := time.Now().Add(15 * time.Second)
		for ob.sock(addrOf(0)) == nil {
			if err := conns[0].Send(first, addrOf(0)); err != nil {
				vInconclusive("C05 e2e: client Send failed: " + err.Error())
			}
			time.Sleep(50 * time.Millisecond)
			if time.Now().After(end) {
				vInconclusive("C05 e2e: no datagram reached the outbound")
			}
		}
		sk := ob.sock(addrOf(0))
		for k, n := range bigSizes {
			seq++
			down := v05ePayload('D', 60000+k, n)
			sentDown[fmt.Sprintf("%d|%s|%s", 0, addrOf(0), down)] = -1
			sk.in <- down
		}
		got := 0
		deadline := time.After(600 * time.Millisecond)
	prologue:
		for got < len(bigSizes) {
			select {
			case r := <-rcv[0]:
				checkRcv(0, r, func(f string, a ...any) { t.Fatalf(f, a...) })
				got++
				deadline = time.After(400 * time.Millisecond) // silence after the last arrival ends the wait
			case <-deadline:
				break prologue
			}
		}
		st.Case(true, "oversize-prologue", []string{"remote-datagrams-around-4096"}, func() string {
			return fmt.Sprintf("remote datagrams of sizes %v on one session: %d arrived, each identical to a sent one", bigSizes, got)
		})
	}
	rapid.Check(t, func(rt *rapid.T) {
		i := rapid.IntRange(0, nSess-1).Draw(rt, "session")
		upSize := sizeGen.Draw(rt, "clientToServerSize")
		downSize := sizeGen.Draw(rt, "serverToClientSize")
		oversize := false
		if rapid.IntRange(0, 5).Draw(rt, "remoteDatagramAround4096") == 0 {
			downSize = rapid.SampledFrom(bigSizes).Draw(rt, "bigSize")
			oversize = downSize > 4000 // may legitimately be dropped by the server: not counted as loss
		}
		seq++
		// ---- client -> server -> outbound socket
		up := v05ePayload('U', seq, upSize)
		sentUp[addrOf(i)+"|"+addrOf(i)+"|"+string(up)] = seq
		if err := conns[i].Send(up, addrOf(i)); err != nil {
			vInconclusive("C05 e2e: client Send failed: " + err.Error())
		}
		upSent++
		arrived := false
		deadline := time.After(grace)
	waitUp:
		for {
			select {
			case g := <-ob.got:
				n, ok := sentUp[g.addr+"|"+string(g.data)]
				if !ok {
					rt.Fatalf("C05 e2e: the outbound socket (%s) received a %d-byte datagram that no client session sent to it (client sent %d bytes in message %d); head=%x",
						g.addr, len(g.data), upSize, seq, g.data[:v05eMin(len(g.data), 12)])
				}
				if n == seq {
					arrived = true
					break waitUp
				}
			case <-deadline:
				break waitUp
			}
		}
		if arrived {
			upArrived++
		}
		// ---- outbound socket -> server -> client
		downOK := false
		if sk := ob.sock(addrOf(i)); sk != nil {
			down := v05ePayload('D', seq, downSize)
			sentDown[fmt.Sprintf("%d|%s|%s", i, addrOf(i), down)] = seq
			if !oversize {
				downSent++
			}
			sk.in <- down
			g := grace
			if oversize {
				g = 300 * time.Millisecond
			}
			deadline := time.After(g)
		waitDown:
			for {
				select {
				case r := <-rcv[i]:
					n := checkRcv(i, r, func(f string, a ...any) { rt.Fatalf(f, a...) })
					if n == seq {
						downOK = true
						break waitDown
					}
				case <-deadline:
					break waitDown
				}
			}
			if downOK && !oversize {
				downArrived++
			}
		}
		st.Case(upSize > 1150 || downSize > 1150, fmt.Sprintf("%d/%d/%d", i, upSize, downSize), []string{"up:" + frags(upSize), "down:" + frags(downSize), map[bool]string{true: "remote-datagram-around-4096", false: "remote-datagram<=4000"}[downSize >= 4000]}, func() string {
			return fmt.Sprintf("session %d: %d bytes client->server (arrived=%v), %d bytes server->client (arrived=%v)", i, upSize, arrived, downSize, downOK)
		})
	})
	st.Extra("client_to_server_sent_arrived", []int{upSent, upArrived})
	st.Extra("server_to_client_sent_arrived", []int{downSent, downArrived})
	if upSent > 0 && (upArrived*2 < upSent || (downSent > 0 && downArrived*2 < downSent)) && !t.Failed() {
		vInconclusive(fmt.Sprintf("C05 e2e: too much loss to judge (client->server %d/%d, server->client %d/%d arrived)", upArrived, upSent, downArrived, downSent))
	}
}

func v05eMin(a, b int) int {
	if a < b {
		return a
	}
	return b
}
