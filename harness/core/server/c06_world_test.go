package server

// C06 — shared machinery: a "world" that owns every fake around one real
// server + real clients on loopback:
//
//   client.Client (public API) --QUIC/loopback--> server (public API)
//        |                                           |  Outbound.TCP  -> v06SrvEnd (fake target connection)
//        |  net.Conn from Client.TCP                  |  TrafficLogger -> v06Logger (records + scripted verdicts)
//
// All fakes record into one mutex-protected world with a global sequence
// number. The byte streams are position-dependent patterns (v06Fill), so the
// fakes never store payloads: what an endpoint received is checked against the
// pattern of the opposite stream at the running offset (prefix, in order,
// nothing injected/duplicated/altered), incrementally, at the moment of receipt.
//
// Direction names follow the TrafficLogger documentation in config.go:
//   tx = bytes the server sent to the remote (what the TARGET receives),
//   rx = bytes the server received from the remote (what the CLIENT receives).

import (
	"bytes"
	"crypto/ecdsa"
	"crypto/elliptic"
	crand "crypto/rand"
	"crypto/tls"
	"crypto/x509"
	"crypto/x509/pkix"
	"errors"
	"fmt"
	"io"
	"math/big"
	"net"
	"strings"
	"sync"
	"time"

	"github.com/apernet/hysteria/core/v2/client"
	coreErrs "github.com/apernet/hysteria/core/v2/errors"
)

const (
	v06WaitLong  = 30 * time.Second // liveness waits; expiry = inconclusive
	v06ProbeMsg  = "v06 probe refused"
	v06HistKeep  = 70
	v06ProbeHost = "probe."
)

// ------------------------------------------------------------------ TLS

var (
	v06CertOnce sync.Once
	v06Cert     tls.Certificate
	v06CertErr  error
)

func v06TLSCert() (tls.Certificate, error) {
	v06CertOnce.Do(func() {
		key, err := ecdsa.GenerateKey(elliptic.P256(), crand.Reader)
		if err != nil {
			v06CertErr = err
			return
		}
		tmpl := &x509.Certificate{
			SerialNumber: big.NewInt(6),
			Subject:      pkix.Name{CommonName: "v06.test"},
			NotBefore:    time.Now().Add(-time.Hour),
			NotAfter:     time.Now().Add(24 * time.Hour),
			KeyUsage:     x509.KeyUsageDigitalSignature,
			ExtKeyUsage:  []x509.ExtKeyUsage{x509.ExtKeyUsageServerAuth},
			DNSNames:     []string{"v06.test"},
		}
		der, err := x509.CreateCertificate(crand.Reader, tmpl, tmpl, &key.PublicKey, key)
		if err != nil {
			v06CertErr = err
			return
		}
		v06Cert = tls.Certificate{Certificate: [][]byte{der}, PrivateKey: key}
	})
	return v06Cert, v06CertErr
}

// ------------------------------------------------------------------ pattern

// v06Fill writes the bytes of stream `salt` at positions off.. into dst. The
// pattern is a function of the absolute position (no period), so a dropped,
// duplicated, reordered or foreign chunk shows up as a mismatch.
func v06Fill(dst []byte, salt uint64, off int64) {
	p := uint64(off)
	i := 0
	for i < len(dst) {
		blk := p >> 3
		x := (blk + salt) * 0x9E3779B97F4A7C15
		x ^= x >> 29
		x *= 0xBF58476D1CE4E5B9
		x ^= x >> 32
		for k := p & 7; k < 8 && i < len(dst); k++ {
			dst[i] = byte(x >> (8 * k))
			i++
			p++
		}
	}
}

// v06ChunkMax is "the one chunk in flight": the size of the relay's copy buffer.
func v06ChunkMax() int64 {
	bp := copyBufPool.Get().(*[]byte)
	n := len(*bp)
	copyBufPool.Put(bp)
	return int64(n)
}

type v06StrErr string

func (e v06StrErr) Error() string { return string(e) }

// ------------------------------------------------------------------ world

type v06Event struct {
	seq  int64
	what string
	who  string
	a, b int64
	note string
}

type v06User struct {
	idx    int
	id     string
	auth   string
	client client.Client

	// traffic logger view
	calls          int
	logTx, logRx   int64 // every LogTraffic call, whatever the verdict
	apprTx, apprRx int64 // calls answered true
	vetoAt         int   // veto the k-th call (0 = never)
	sticky         bool  // every call after the veto is vetoed too
	vetoed         bool
	vetoSeq        int64
	vetoNote       string
	untracedAfter  bool // an UntraceStream for this user was seen after the veto

	// delivery view
	recvTx, recvRx int64 // bytes the user's targets / client conns received
	relays         int   // Outbound.TCP successes
	termCount      int   // relays the harness started to tear down
	rxUnbounded    bool  // a client conn was closed before it had read to the end: client-side rx total is only a lower bound

	probeN int
}

type v06Probe struct {
	mustNotBeServed bool
	served          bool
}

type v06Park struct {
	user     string
	wantTx   bool
	armed    bool
	parkedCh chan struct{}
	release  chan bool
	returned chan struct{}
}

// v06ELPark: the next EventLogger.TCPError call for `label` parks until released.
// TCPError is called by handleTCPRequest after the two-way copy returned and
// BEFORE it closes the target conn and the stream, without any lock held.
type v06ELPark struct {
	label    string
	armed    bool
	parkedCh chan struct{}
	release  chan struct{}
}

type v06World struct {
	mu        sync.Mutex
	cond      *sync.Cond
	seq       int64
	fail      string
	ended     bool
	hasLogger bool
	smallWin  int // 0 = default QUIC flow-control windows, else stream receive window in bytes (connection window = 2x) on both sides
	hasEL     bool // an EventLogger is configured (fake with a yield point in TCPError)
	elPark    *v06ELPark
	fastOpen  bool
	chunkMax  int64
	users     []*v06User
	byID      map[string]*v06User
	byAuth    map[string]*v06User
	conns     map[string]*v06Conn
	order     []*v06Conn
	traces    map[HyStream]*StreamStats
	hist      []v06Event
	probes    map[string]*v06Probe
	park      *v06Park
	witnessN  int
	srv       Server
	udp       net.PacketConn
	readers   sync.WaitGroup
}

func v06NewWorld() *v06World {
	w := &v06World{
		byID: map[string]*v06User{}, byAuth: map[string]*v06User{}, conns: map[string]*v06Conn{},
		traces: map[HyStream]*StreamStats{}, probes: map[string]*v06Probe{},
	}
	w.cond = sync.NewCond(&w.mu)
	w.chunkMax = v06ChunkMax()
	return w
}

func (w *v06World) evLocked(what, who string, a, b int64, note string) {
	w.seq++
	if len(w.hist) >= 2*v06HistKeep {
		w.hist = append(w.hist[:0], w.hist[len(w.hist)-v06HistKeep:]...)
	}
	w.hist = append(w.hist, v06Event{w.seq, what, who, a, b, note})
}

func (w *v06World) histLocked() string {
	var sb strings.Builder
	h := w.hist
	if len(h) > v06HistKeep {
		h = h[len(h)-v06HistKeep:]
		sb.WriteString("… ")
	}
	for _, e := range h {
		fmt.Fprintf(&sb, "#%d %s %s", e.seq, e.what, e.who)
		if e.a != 0 || e.b != 0 {
			fmt.Fprintf(&sb, " %d/%d", e.a, e.b)
		}
		if e.note != "" {
			sb.WriteString(" " + e.note)
		}
		sb.WriteString("; ")
	}
	return sb.String()
}

func (w *v06World) stateLocked() string {
	var sb strings.Builder
	for _, u := range w.users {
		fmt.Fprintf(&sb, "[%s calls=%d logTx=%d apprTx=%d recvTx=%d logRx=%d apprRx=%d recvRx=%d relays=%d term=%d vetoed=%v] ",
			u.id, u.calls, u.logTx, u.apprTx, u.recvTx, u.logRx, u.apprRx, u.recvRx, u.relays, u.termCount, u.vetoed)
	}
	for _, c := range w.order {
		fmt.Fprintf(&sb, "{%s cSent=%d tRecv=%d tSent=%d handed=%d cRecv=%d est=%v sClosed=%v readerDone=%v(%v)} ",
			c.label, c.cSent, c.tRecv, c.tSent, c.handed, c.cRecv, c.established, c.sClosed, c.readerDone, c.readerErr)
	}
	return sb.String()
}

// failLocked records the first violation with the concrete observed history.
func (w *v06World) failLocked(format string, a ...any) {
	if w.fail != "" || w.ended {
		return
	}
	w.fail = fmt.Sprintf(format, a...) + "\n  state: " + w.stateLocked() + "\n  observed history (global order): " + w.histLocked()
	w.cond.Broadcast()
}

func (w *v06World) failed() string {
	w.mu.Lock()
	defer w.mu.Unlock()
	return w.fail
}

type v06WaitRes int

const (
	v06Ok v06WaitRes = iota
	v06Aborted
	v06Timeout
)

// waitLocked blocks (w.mu held) until pred() holds, a violation was recorded
// elsewhere (abort), or the generous deadline expires.
func (w *v06World) waitLocked(d time.Duration, pred func() bool) v06WaitRes {
	if pred() {
		return v06Ok
	}
	if w.fail != "" {
		return v06Aborted
	}
	deadline := time.Now().Add(d)
	t := time.AfterFunc(d+5*time.Millisecond, func() {
		w.mu.Lock()
		w.cond.Broadcast()
		w.mu.Unlock()
	})
	defer t.Stop()
	for {
		w.cond.Wait()
		if pred() {
			return v06Ok
		}
		if w.fail != "" {
			return v06Aborted
		}
		if !time.Now().Before(deadline) {
			return v06Timeout
		}
	}
}

// ------------------------------------------------------------------ proxied connection (model + target side)

type v06Conn struct {
	w     *v06World
	u     *v06User
	label string

	saltC, saltT uint64 // client->target stream, target->client stream

	// client -> target
	cSent int64 // bytes the client started to write (upper bound of what may arrive)
	tRecv int64 // bytes the fake target received (server called Write on the target conn)

	// target -> client
	tSent  int64 // bytes the target made available to the server
	handed int64 // bytes the server's Read took
	cRecv  int64 // bytes the client read

	maxRead     int
	errWithData bool
	tEOF        bool  // target finished writing (close / shutdown(WR))
	tErr        error // target failed: Read returns it once the queue is drained
	tGone       bool  // target fully closed / reset: server Writes fail
	termSignal  bool  // the EOF/error was handed to the server

	dialFail    bool
	dialMsg     string
	dialCalls   int
	established bool
	sClosed     bool // server closed its end of the target conn
	terminated  bool // the harness started a terminal event on this conn

	tStall       bool // the target stopped taking bytes: the server's Write on the target conn blocks
	rStall       bool // the client application stopped reading for a moment
	slowDial     bool // Outbound.TCP parks until the harness releases it
	dialParked   bool
	dialReleased bool
	timeouts     int // Reads of the client conn that returned a timeout error
	dlGen        int // bumped whenever the harness cleared the deadline again

	conn       net.Conn
	readerDone bool
	readerErr  error
	stopped    bool
}

// v06SrvEnd is the net.Conn the fake Outbound hands to the server.
type v06SrvEnd struct{ c *v06Conn }

var (
	v06ErrTargetGone = errors.New("v06: write to a closed target (EPIPE)")
	v06ErrTargetRST  = errors.New("v06: target connection reset")
)

func (s *v06SrvEnd) Read(b []byte) (int, error) {
	c := s.c
	w := c.w
	w.mu.Lock()
	defer w.mu.Unlock()
	for {
		if c.sClosed {
			return 0, io.ErrClosedPipe
		}
		avail := c.tSent - c.handed
		if avail > 0 && len(b) > 0 {
			n := int64(len(b))
			if c.maxRead > 0 && n > int64(c.maxRead) {
				n = int64(c.maxRead)
			}
			if n > avail {
				n = avail
			}
			v06Fill(b[:n], c.saltT, c.handed)
			c.handed += n
			var err error
			if c.handed == c.tSent && c.errWithData {
				if c.tErr != nil {
					err = c.tErr
				} else if c.tEOF {
					err = io.EOF
				}
				if err != nil {
					c.termSignal = true
				}
			}
			note := ""
			if err != nil {
				note = "+" + err.Error()
			}
			w.evLocked("srvRead", c.label, n, c.handed, note)
			w.cond.Broadcast()
			return int(n), err
		}
		if c.tErr != nil {
			c.termSignal = true
			w.evLocked("srvRead", c.label, 0, c.handed, "err")
			w.cond.Broadcast()
			return 0, c.tErr
		}
		if c.tEOF {
			c.termSignal = true
			w.evLocked("srvRead", c.label, 0, c.handed, "EOF")
			w.cond.Broadcast()
			return 0, io.EOF
		}
		if len(b) == 0 {
			return 0, nil
		}
		w.cond.Wait()
	}
}

func (s *v06SrvEnd) Write(p []byte) (int, error) {
	c := s.c
	w := c.w
	exp := make([]byte, len(p))
	w.mu.Lock()
	defer w.mu.Unlock()
	if c.tStall && !c.sClosed {
		w.evLocked("srvWrite", c.label, int64(len(p)), c.tRecv, "BLOCKED (target not taking bytes)")
		for c.tStall && !c.sClosed && !w.ended {
			w.cond.Wait()
		}
	}
	if c.sClosed {
		w.evLocked("srvWrite", c.label, int64(len(p)), c.tRecv, "after-close")
		return 0, io.ErrClosedPipe
	}
	if c.tGone {
		w.evLocked("srvWrite", c.label, int64(len(p)), c.tRecv, "target-gone")
		return 0, v06ErrTargetGone
	}
	n := int64(len(p))
	v06Fill(exp, c.saltC, c.tRecv)
	w.evLocked("srvWrite", c.label, n, c.tRecv+n, "")
	if c.tRecv+n > c.cSent {
		w.failLocked("target of %s received %d bytes but the client wrote only %d: bytes injected or duplicated", c.label, c.tRecv+n, c.cSent)
	} else if !bytes.Equal(exp, p) {
		w.failLocked("target of %s received bytes that are not the continuation of what the client sent (at stream offset %d, chunk %d, first difference at +%d)", c.label, c.tRecv, n, v06FirstDiff(exp, p))
	}
	c.tRecv += n
	c.u.recvTx += n
	if w.hasLogger && c.u.recvTx > c.u.apprTx {
		w.failLocked("%s: targets have received %d bytes but the logger approved only %d tx bytes so far (LogTraffic must approve every chunk before it is forwarded; a vetoed chunk must not be forwarded)", c.u.id, c.u.recvTx, c.u.apprTx)
	}
	w.cond.Broadcast()
	return len(p), nil
}

func v06FirstDiff(a, b []byte) int {
	for i := range a {
		if i >= len(b) || a[i] != b[i] {
			return i
		}
	}
	return len(a)
}

func (s *v06SrvEnd) Close() error {
	c := s.c
	w := c.w
	w.mu.Lock()
	defer w.mu.Unlock()
	if !c.sClosed {
		c.sClosed = true
		w.evLocked("srvClose", c.label, c.tRecv, c.handed, "")
		w.cond.Broadcast()
	}
	return nil
}

type v06Addr string

func (a v06Addr) Network() string { return "v06" }
func (a v06Addr) String() string  { return string(a) }

func (s *v06SrvEnd) LocalAddr() net.Addr                { return v06Addr("server-side") }
func (s *v06SrvEnd) RemoteAddr() net.Addr               { return v06Addr(s.c.label) }
func (s *v06SrvEnd) SetDeadline(t time.Time) error      { return nil }
func (s *v06SrvEnd) SetReadDeadline(t time.Time) error  { return nil }
func (s *v06SrvEnd) SetWriteDeadline(t time.Time) error { return nil }

// ------------------------------------------------------------------ Outbound / Authenticator / TrafficLogger fakes

type v06Outbound struct{ w *v06World }

func (o *v06Outbound) TCP(reqAddr string) (net.Conn, error) {
	w := o.w
	w.mu.Lock()
	defer w.mu.Unlock()
	if strings.HasPrefix(reqAddr, v06ProbeHost) {
		w.evLocked("dial", reqAddr, 0, 0, "probe")
		if p := w.probes[reqAddr]; p != nil {
			p.served = true
			if p.mustNotBeServed {
				w.failLocked("the server served a new request (%s) on a user's connection after that user's relay had been vetoed and its handler had finished: the veto did not close the user's connection", reqAddr)
			}
		}
		return nil, v06StrErr(v06ProbeMsg)
	}
	c := w.conns[reqAddr]
	if c == nil {
		w.evLocked("dial", reqAddr, 0, 0, "unknown")
		return nil, v06StrErr("v06: unknown address")
	}
	c.dialCalls++
	if c.dialCalls > 1 {
		w.evLocked("dial", reqAddr, 0, 0, "again")
		return nil, v06StrErr("v06: dialed twice")
	}
	if c.slowDial && !c.dialReleased {
		// slow dial: no implementation lock is held while the server dials
		c.dialParked = true
		w.evLocked("dial", reqAddr, 0, 0, "PARKED")
		w.cond.Broadcast()
		for !c.dialReleased && !w.ended {
			w.cond.Wait()
		}
		if w.ended {
			return nil, v06StrErr("v06: case over")
		}
	}
	if c.dialFail {
		w.evLocked("dial", reqAddr, 0, 0, "fail")
		return nil, v06StrErr(c.dialMsg)
	}
	c.established = true
	c.u.relays++
	w.evLocked("dial", reqAddr, 0, 0, "ok")
	w.cond.Broadcast()
	return &v06SrvEnd{c}, nil
}

func (o *v06Outbound) UDP(reqAddr string) (UDPConn, error) { return nil, v06StrErr("v06: no UDP") }
func (o *v06Outbound) CheckUDP(reqAddr string) error      { return v06StrErr("v06: no UDP") }

type v06Auth struct{ w *v06World }

func (a *v06Auth) Authenticate(addr net.Addr, auth string, tx uint64) (bool, string) {
	a.w.mu.Lock()
	defer a.w.mu.Unlock()
	if u := a.w.byAuth[auth]; u != nil {
		return true, u.id
	}
	return false, ""
}

type v06Logger struct{ w *v06World }

func (l *v06Logger) LogTraffic(id string, tx, rx uint64) bool {
	w := l.w
	w.mu.Lock()
	u := w.byID[id]
	if u == nil {
		w.failLocked("LogTraffic called for unknown user id %q (tx=%d rx=%d)", id, tx, rx)
		w.mu.Unlock()
		return true
	}
	u.calls++
	call := u.calls
	u.logTx += int64(tx)
	u.logRx += int64(rx)
	verdict := true
	if u.vetoAt > 0 && (call == u.vetoAt || (u.sticky && u.vetoed)) {
		verdict = false
	}
	var pk *v06Park
	if p := w.park; p != nil && p.armed && p.user == id && ((p.wantTx && tx > 0) || (!p.wantTx && rx > 0)) {
		p.armed = false
		pk = p
		w.evLocked("log", id, int64(tx), int64(rx), fmt.Sprintf("call=%d PARKED", call))
		w.mu.Unlock()
		close(pk.parkedCh)
		verdict = <-pk.release
		w.mu.Lock()
	}
	if verdict {
		u.apprTx += int64(tx)
		u.apprRx += int64(rx)
	} else if !u.vetoed {
		u.vetoed = true
		u.vetoSeq = w.seq + 1
		u.vetoNote = fmt.Sprintf("call %d (tx=%d rx=%d)", call, tx, rx)
	}
	note := fmt.Sprintf("call=%d ok", call)
	if !verdict {
		note = fmt.Sprintf("call=%d VETO", call)
	}
	w.evLocked("log", id, int64(tx), int64(rx), note)
	// at most one chunk per established relay can be logged but not yet written to the target
	if d := u.logTx - u.recvTx; d > w.chunkMax*int64(u.relays) {
		w.failLocked("%s: %d tx bytes handed to the logger but only %d written to the targets: difference %d exceeds one %d-byte chunk for each of the %d relay(s)", id, u.logTx, u.recvTx, d, w.chunkMax, u.relays)
	}
	w.cond.Broadcast()
	w.mu.Unlock()
	if pk != nil {
		close(pk.returned)
	}
	return verdict
}

func (l *v06Logger) LogOnlineState(id string, online bool) {}

func (l *v06Logger) TraceStream(stream HyStream, stats *StreamStats) {
	l.w.mu.Lock()
	l.w.traces[stream] = stats
	l.w.mu.Unlock()
}

func (l *v06Logger) UntraceStream(stream HyStream) {
	w := l.w
	w.mu.Lock()
	defer w.mu.Unlock()
	stats := w.traces[stream]
	if stats == nil {
		return
	}
	delete(w.traces, stream)
	w.evLocked("untrace", stats.AuthID, 0, 0, stats.ReqAddr.Load())
	if u := w.byID[stats.AuthID]; u != nil && u.vetoed {
		u.untracedAfter = true
	}
	w.cond.Broadcast()
}

type v06EventLogger struct{ w *v06World }

func (l *v06EventLogger) Connect(addr net.Addr, id string, tx uint64)                 {}
func (l *v06EventLogger) Disconnect(addr net.Addr, id string, err error)              {}
func (l *v06EventLogger) TCPRequest(addr net.Addr, id, reqAddr string)                {}
func (l *v06EventLogger) UDPRequest(addr net.Addr, id string, sid uint32, req string) {}
func (l *v06EventLogger) UDPError(addr net.Addr, id string, sid uint32, err error)    {}
func (l *v06EventLogger) TCPError(addr net.Addr, id, reqAddr string, err error) {
	w := l.w
	w.mu.Lock()
	note := "nil"
	if err != nil {
		note = fmt.Sprintf("%T", err)
	}
	if p := w.elPark; p != nil && p.armed && p.label == reqAddr {
		p.armed = false
		w.evLocked("tcpError", reqAddr, 0, 0, note+" PARKED")
		w.cond.Broadcast()
		w.mu.Unlock()
		close(p.parkedCh)
		<-p.release
		w.mu.Lock()
		w.evLocked("tcpError", reqAddr, 0, 0, "released")
		w.mu.Unlock()
		return
	}
	w.evLocked("tcpError", reqAddr, 0, 0, note)
	w.mu.Unlock()
}

// ------------------------------------------------------------------ environment

func (w *v06World) addUser(vetoAt int, sticky bool) *v06User {
	i := len(w.users)
	u := &v06User{idx: i, id: fmt.Sprintf("user-%d", i), auth: fmt.Sprintf("secret-%d", i), vetoAt: vetoAt, sticky: sticky}
	w.users = append(w.users, u)
	w.byID[u.id] = u
	w.byAuth[u.auth] = u
	return u
}

func (w *v06World) addConn(u *v06User, idx int, saltC, saltT uint64) *v06Conn {
	c := &v06Conn{w: w, u: u, label: fmt.Sprintf("c%d.u%d.v06.test:80", idx, u.idx), saltC: saltC, saltT: saltT}
	w.conns[c.label] = c
	w.order = append(w.order, c)
	return c
}

// addConnLive registers a proxied connection while the case is running.
func (w *v06World) addConnLive(u *v06User, idx int, saltC, saltT uint64) *v06Conn {
	w.mu.Lock()
	defer w.mu.Unlock()
	return w.addConn(u, idx, saltC, saltT)
}

// start brings up one real server and one real client per user on loopback.
func (w *v06World) start() {
	cert, err := v06TLSCert()
	if err != nil {
		vInconclusive("C06: cannot generate a certificate: " + err.Error())
	}
	udp, err := net.ListenUDP("udp", &net.UDPAddr{IP: net.IPv4(127, 0, 0, 1), Port: 0})
	if err != nil {
		vInconclusive("C06: cannot open a loopback UDP socket: " + err.Error())
	}
	cfg := &Config{
		TLSConfig:     TLSConfig{Certificates: []tls.Certificate{cert}},
		Conn:          udp,
		Outbound:      &v06Outbound{w},
		Authenticator: &v06Auth{w},
		DisableUDP:    true,
	}
	ccfgQ := client.QUICConfig{}
	if w.smallWin > 0 {
		sw, cw := uint64(w.smallWin), uint64(2*w.smallWin)
		cfg.QUICConfig = QUICConfig{InitialStreamReceiveWindow: sw, MaxStreamReceiveWindow: sw, InitialConnectionReceiveWindow: cw, MaxConnectionReceiveWindow: cw}
		ccfgQ = client.QUICConfig{InitialStreamReceiveWindow: sw, MaxStreamReceiveWindow: sw, InitialConnectionReceiveWindow: cw, MaxConnectionReceiveWindow: cw}
	}
	if w.hasLogger {
		cfg.TrafficLogger = &v06Logger{w}
	}
	if w.hasEL {
		cfg.EventLogger = &v06EventLogger{w}
	}
	s, err := NewServer(cfg)
	if err != nil {
		vInconclusive("C06: NewServer failed: " + err.Error())
	}
	w.srv, w.udp = s, udp
	go func() { _ = s.Serve() }()
	type res struct {
		u   *v06User
		c   client.Client
		err error
	}
	ch := make(chan res, len(w.users))
	for _, u := range w.users {
		go func(u *v06User) {
			var c client.Client
			var err error
			// a handshake can time out when the machine is overloaded: not the property's business, try again
			for attempt := 0; attempt < 4; attempt++ {
				c, _, err = client.NewClient(&client.Config{
					ServerAddr: udp.LocalAddr(),
					Auth:       u.auth,
					TLSConfig:  client.TLSConfig{InsecureSkipVerify: true},
					FastOpen:   w.fastOpen,
					QUICConfig: ccfgQ,
				})
				if err == nil {
					break
				}
			}
			ch <- res{u, c, err}
		}(u)
	}
	tmo := time.After(2 * v06WaitLong)
	for range w.users {
		select {
		case r := <-ch:
			if r.err != nil {
				vInconclusive("C06: client handshake failed: " + r.err.Error())
			}
			r.u.client = r.c
		case <-tmo:
			vInconclusive("C06: client handshake did not finish in time")
		}
	}
}

// stop tears the case down; nothing recorded afterwards counts.
func (w *v06World) stop() {
	w.mu.Lock()
	w.ended = true
	conns := append([]*v06Conn(nil), w.order...)
	w.cond.Broadcast()
	w.mu.Unlock()
	for _, c := range conns {
		if c.conn != nil {
			_ = c.conn.Close()
		}
	}
	for _, u := range w.users {
		if u.client != nil {
			_ = u.client.Close()
		}
	}
	if w.srv != nil {
		_ = w.srv.Close()
	}
	done := make(chan struct{})
	go func() { w.readers.Wait(); close(done) }()
	select {
	case <-done:
	case <-time.After(5 * time.Second):
	}
	// release server-side goroutines still parked in a fake Read
	w.mu.Lock()
	for _, c := range conns {
		c.sClosed = true
		c.tStall, c.rStall = false, false
	}
	w.cond.Broadcast()
	w.mu.Unlock()
}

// probe asks the user's client for a new proxied connection to an address the
// fake outbound always refuses. "served": the server processed it (the QUIC
// connection works); "closed": Client.TCP reported ClosedError.
func (w *v06World) probe(u *v06User, mustNotBeServed bool) string {
	w.mu.Lock()
	u.probeN++
	addr := fmt.Sprintf("%su%d.n%d:1", v06ProbeHost, u.idx, u.probeN)
	p := &v06Probe{mustNotBeServed: mustNotBeServed}
	w.probes[addr] = p
	w.evLocked("probe", addr, 0, 0, "")
	w.mu.Unlock()
	type res struct {
		conn net.Conn
		err  error
	}
	ch := make(chan res, 1)
	go func() {
		conn, err := u.client.TCP(addr)
		if err == nil && conn != nil {
			// fast open: the verdict arrives with the first Read
			_ = conn.SetReadDeadline(time.Now().Add(v06WaitLong))
			_, err = conn.Read(make([]byte, 16))
			_ = conn.Close()
			var ce coreErrs.ClosedError
			if errors.As(err, &ce) {
				err = errors.New("read: " + err.Error()) // only Client.TCP's ClosedError counts as "closed"
			}
		}
		ch <- res{nil, err}
	}()
	var err error
	select {
	case r := <-ch:
		err = r.err
	case <-time.After(v06WaitLong + 5*time.Second):
		return "other: probe did not return"
	}
	var de coreErrs.DialError
	var ce coreErrs.ClosedError
	switch {
	case errors.As(err, &de): // whatever the text: the server processed the request and answered it
		return "served"
	case errors.As(err, &ce):
		return "closed"
	case err == nil:
		return "other: nil error"
	default:
		return "other: " + err.Error()
	}
}
