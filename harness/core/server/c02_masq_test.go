package server

// C02 — unauthenticated peers see only the masquerade web server.
//
// Per case: a masquerade configuration (nil = server default, or a generated
// deterministic handler H), a token table, and
//   * connection A, on which no authentication request with accepted credentials is
//     ever sent: 1-6 steps, each an HTTP/3 request from the near-miss grid around
//     POST https://hysteria/auth (including the exact shape with rejected / no
//     credentials and near-misses carrying ACCEPTED credentials) or a proxy probe
//     (raw 0x401 stream / UDPMessage datagram);
//   * optionally connection B, which authenticates first and then sends the same
//     requests.
//
// Oracle: differential. For every request that is not an accepted authentication
// request the response seen by the raw http3 client must equal what the same handler
// (H, or http.NotFound) produces for the same request fields on a plain
// httptest.ResponseRecorder: status, every header the handler set explicitly, body
// (no body for HEAD / 204, as HTTP prescribes). In addition status != 233 and no
// response header whose name contains "hysteria". Headers added by the transport
// (date, content-length, sniffed content-type) are tolerated. Probes on A: 0 bytes on
// the stream up to a barrier + grace, no datagram back, outbound never called,
// authenticator never accepting on A (log predicates shared with C01).
// Not asserted: the exact auth shape (or a path that only decodes to /auth) on the
// already accepted connection B — by C01's rule it answers 233.

import (
	"bytes"
	"fmt"
	"io"
	"math/rand"
	"net/http"
	"net/http/httptest"
	"net/url"
	"sort"
	"strings"
	"sync"
	"testing"
	"time"

	"pgregory.net/rapid"
)

// ---------------------------------------------------------------- generated masquerade handler

type v02Seen struct {
	Method, Host, Path, RawQuery, Probe, Auth string
	Body                                      []byte
}

func (s v02Seen) String() string {
	return fmt.Sprintf("%s %q %s?%s probe=%q auth=%q body=%d", s.Method, s.Host, s.Path, s.RawQuery, s.Probe, s.Auth, len(s.Body))
}

type v02Spec struct {
	Salt     int
	Statuses []int
	Hdrs     []int // indices into the header menu

	mu    sync.Mutex
	seen  map[string][]v02Seen // X-Vreq -> what the handler saw (live server only)
	calls int
}

var v02StatusMenu = []int{200, 204, 301, 403, 404, 418, 500}

func (s *v02Spec) String() string {
	return fmt.Sprintf("H{salt=%d statuses=%v hdrs=%v}", s.Salt, s.Statuses, s.Hdrs)
}

// respond is the whole behaviour of H: a pure function of the request fields.
func (s *v02Spec) respond(q v02Seen) (int, [][2]string, string) {
	h := s.Salt
	for _, x := range []string{q.Method, q.Host, q.Path} {
		for i := 0; i < len(x); i++ {
			h = h*31 + int(x[i])
		}
		h = h*7 + 1
	}
	if h < 0 {
		h = -h
	}
	status := s.Statuses[h%len(s.Statuses)]
	var hdrs [][2]string
	for _, k := range s.Hdrs {
		switch k {
		case 0:
			hdrs = append(hdrs, [2]string{"X-Masq-Id", fmt.Sprintf("m%d", s.Salt)})
		case 1:
			hdrs = append(hdrs, [2]string{"Content-Type", fmt.Sprintf("text/x-masq; v=%d", s.Salt%10)})
		case 2:
			hdrs = append(hdrs, [2]string{"Location", "https://" + q.Host + q.Path})
		case 3:
			p := q.Probe
			if p == "" {
				p = "-"
			}
			hdrs = append(hdrs, [2]string{"X-Echo-Probe", p})
		case 4:
			hdrs = append(hdrs, [2]string{"Server", fmt.Sprintf("masq/%d", s.Salt)})
		case 5:
			hdrs = append(hdrs, [2]string{"Set-Cookie", fmt.Sprintf("sid=%d; Path=/", h%1000)})
		}
	}
	sum := 0
	for _, b := range q.Body {
		sum = (sum*131 + int(b)) % 1000003
	}
	body := fmt.Sprintf("masq<%d> m=%s h=%s p=%s q=%s probe=%s auth=%s body=%d:%d\n", s.Salt, q.Method, q.Host, q.Path, q.RawQuery, q.Probe, q.Auth, len(q.Body), sum)
	return status, hdrs, body
}

func (s *v02Spec) ServeHTTP(w http.ResponseWriter, r *http.Request) {
	var body []byte
	if r.Body != nil {
		body, _ = io.ReadAll(io.LimitReader(r.Body, 1<<16))
	}
	q := v02Seen{Method: r.Method, Host: r.Host, Path: r.URL.Path, RawQuery: r.URL.RawQuery,
		Probe: r.Header.Get("X-Probe"), Auth: r.Header.Get("Hysteria-Auth"), Body: body}
	if id := r.Header.Get("X-Vreq"); id != "" && r.ProtoMajor == 3 {
		s.mu.Lock()
		if s.seen == nil {
			s.seen = map[string][]v02Seen{}
		}
		s.seen[id] = append(s.seen[id], q)
		s.calls++
		s.mu.Unlock()
	}
	status, hdrs, text := s.respond(q)
	for _, kv := range hdrs {
		w.Header().Set(kv[0], kv[1])
	}
	w.WriteHeader(status)
	_, _ = io.WriteString(w, text)
}

func (s *v02Spec) sawOf(id string) []v02Seen {
	s.mu.Lock()
	defer s.mu.Unlock()
	return append([]v02Seen(nil), s.seen[id]...)
}

// v02Rec wraps a recorder and remembers which headers the handler had set when it
// called WriteHeader (content-type sniffing by recorder/transport happens later).
type v02Rec struct {
	*httptest.ResponseRecorder
	explicit http.Header
}

func (r *v02Rec) WriteHeader(code int) {
	if r.explicit == nil {
		r.explicit = r.ResponseRecorder.Header().Clone()
	}
	r.ResponseRecorder.WriteHeader(code)
}

func (r *v02Rec) Write(p []byte) (int, error) {
	if r.explicit == nil {
		r.explicit = r.ResponseRecorder.Header().Clone()
	}
	return r.ResponseRecorder.Write(p)
}

type v02Expect struct {
	Status int
	Header http.Header
	Body   []byte
}

// v02Oracle runs the masquerade handler alone (no server under test involved).
func v02Oracle(spec *v02Spec, q *v01HTTPReq) v02Expect {
	hdr := q.Header.Clone()
	if hdr == nil {
		hdr = http.Header{}
	}
	req := &http.Request{
		Method: q.Method,
		URL:    &url.URL{Scheme: "https", Host: q.Authority, Path: q.Path, RawPath: q.RawPath, RawQuery: q.RawQuery},
		Host:   q.Authority,
		Header: hdr,
		Proto:  "HTTP/1.1", ProtoMajor: 1, ProtoMinor: 1,
		RequestURI: q.Path,
	}
	if q.Body != nil {
		req.Body = io.NopCloser(bytes.NewReader(q.Body))
		req.ContentLength = int64(len(q.Body))
	} else {
		req.Body = http.NoBody
	}
	rec := &v02Rec{ResponseRecorder: httptest.NewRecorder()}
	if spec != nil {
		spec.ServeHTTP(rec, req)
	} else {
		http.NotFound(rec, req)
	}
	if rec.explicit == nil {
		rec.explicit = rec.ResponseRecorder.Header().Clone()
	}
	e := v02Expect{Status: rec.Code, Header: rec.explicit, Body: rec.Body.Bytes()}
	if q.Method == "HEAD" || e.Status == 204 || e.Status == 304 || e.Status < 200 {
		e.Body = nil // HTTP: no message body
	}
	return e
}

// v02Compare returns "" when the response is exactly the handler's.
func v02Compare(e v02Expect, got v01HTTPResp) string {
	if got.Status == v01StatusHyOK {
		return "status 233 (Hysteria auth OK) on a request that is not an accepted authentication request"
	}
	if k := v01HysteriaHeader(got.Header); k != "" {
		return fmt.Sprintf("Hysteria-specific response header %q=%q", k, got.Header[k])
	}
	if got.Status != e.Status {
		return fmt.Sprintf("status %d, the masquerade handler alone answers %d", got.Status, e.Status)
	}
	keys := make([]string, 0, len(e.Header))
	for k := range e.Header {
		keys = append(keys, k)
	}
	sort.Strings(keys)
	for _, k := range keys {
		want := e.Header[k]
		have := got.Header[http.CanonicalHeaderKey(k)]
		if strings.Join(want, "\x00") != strings.Join(have, "\x00") {
			return fmt.Sprintf("header %s = %q, the masquerade handler alone sets %q", k, have, want)
		}
	}
	if !bytes.Equal(got.Body, e.Body) {
		return fmt.Sprintf("body %q, the masquerade handler alone writes %q", v02Clip(got.Body), v02Clip(e.Body))
	}
	return ""
}

func v02Clip(b []byte) string {
	if len(b) > 160 {
		return string(b[:160]) + "…"
	}
	return string(b)
}

// ---------------------------------------------------------------- case

type v02Step struct {
	N     int
	Req   *v01HTTPReq // nil = probe
	Probe *v01Op
	// Pair != nil: Req is an exact auth request with rejected credentials whose Authenticate
	// call is held open by the fake authenticator while Pair is sent on the same connection
	// (two requests in flight; on a correct server the second waits or is served independently).
	Pair   *v01HTTPReq
	HoldMs int
}

type v02Case struct {
	Spec       *v02Spec
	GoodTokens []string
	Steps      []v02Step
	WithB      bool
	BTokenRX   string
	Seed       int64
}

func (c *v02Case) render() string {
	var b strings.Builder
	if c.Spec == nil {
		b.WriteString("masq=nil(default 404)")
	} else {
		b.WriteString("masq=" + c.Spec.String())
	}
	fmt.Fprintf(&b, " good=%q withAcceptedConnB=%v", c.GoodTokens, c.WithB)
	for _, s := range c.Steps {
		if s.Pair != nil {
			fmt.Fprintf(&b, "\n  %d: [held in authenticator %dms] %s  ||  concurrently: %s", s.N, s.HoldMs, s.Req, s.Pair)
		} else if s.Req != nil {
			fmt.Fprintf(&b, "\n  %d: %s", s.N, s.Req)
		} else {
			fmt.Fprintf(&b, "\n  %d: %s", s.N, s.Probe)
		}
	}
	return b.String()
}

func v02Wrongness(r *v01HTTPReq) string {
	w := ""
	if !r.MethodOK {
		w += "m"
	}
	if !r.HostOK {
		w += "h"
	}
	if !r.DecodedAuth {
		w += "p"
	} else if !r.PathOK {
		w += "~"
	}
	if w == "" {
		return "exact"
	}
	return w
}

func v02Creds(r *v01HTTPReq, good []string) string {
	a, ok := r.Header["Hysteria-Auth"]
	if !ok {
		return "none"
	}
	for _, g := range good {
		if strings.HasPrefix(a[0], g+"#") {
			return "good"
		}
	}
	return "rejected"
}

func v02DrawCase(rt *rapid.T) *v02Case {
	c := &v02Case{}
	c.Seed = int64(rapid.Uint32().Draw(rt, "seed"))
	if rapid.IntRange(0, 3).Draw(rt, "masq") > 0 {
		s := &v02Spec{Salt: rapid.IntRange(1, 9999).Draw(rt, "salt")}
		ns := rapid.IntRange(1, 3).Draw(rt, "nstatus")
		for i := 0; i < ns; i++ {
			s.Statuses = append(s.Statuses, rapid.SampledFrom(v02StatusMenu).Draw(rt, fmt.Sprintf("status%d", i)))
		}
		nh := rapid.IntRange(0, 3).Draw(rt, "nhdr")
		perm := rapid.Permutation([]int{0, 1, 2, 3, 4, 5}).Draw(rt, "hdrs")
		s.Hdrs = append(s.Hdrs, perm[:nh]...)
		sort.Ints(s.Hdrs)
		c.Spec = s
	}
	ntok := rapid.IntRange(1, 2).Draw(rt, "ntok")
	off := rapid.IntRange(0, len(v01TokenPool)-1).Draw(rt, "tokoff")
	for i := 0; i < ntok; i++ {
		c.GoodTokens = append(c.GoodTokens, v01TokenPool[(off+i)%len(v01TokenPool)])
	}
	c.WithB = rapid.IntRange(0, 2).Draw(rt, "withB") > 0
	c.BTokenRX = rapid.SampledFrom([]string{"-", "0", "1000000000"}).Draw(rt, "brx")
	n := rapid.IntRange(1, 6).Draw(rt, "steps")
	for i := 0; i < n; i++ {
		name := fmt.Sprintf("s%d", i)
		st := v02Step{N: i}
		label := fmt.Sprintf("c0-op%d", i)
		if rapid.IntRange(0, 4).Draw(rt, name+"/probe") == 0 {
			o := &v01Op{Conn: 0, N: i, Label: label}
			if rapid.Bool().Draw(rt, name+"/tcp") {
				o.Kind = v01KTCPReq
				fr := []int{v01FrBlock, v01FrHdr, v01FrASCII}
				if i == n-1 {
					fr = append(fr, v01FrData0)
				}
				o.Framing = rapid.SampledFrom(fr).Draw(rt, name+"/framing")
				o.WType = rapid.SampledFrom([]int{2, 2, 4, 8}).Draw(rt, name+"/wtype")
				o.WAddr = rapid.SampledFrom([]int{1, 1, 2, 4}).Draw(rt, name+"/waddr")
				o.PayloadLen = rapid.SampledFrom([]int{2, 5, 40, 300}).Draw(rt, name+"/payload")
			} else {
				o.Kind = v01KDatagram
				o.SID = uint32(rapid.IntRange(1, 3).Draw(rt, name+"/sid"))
				o.DMode = rapid.SampledFrom([]int{0, 0, 1, 2}).Draw(rt, name+"/dmode")
				o.DataLen = rapid.SampledFrom([]int{1, 8, 100, 600}).Draw(rt, name+"/dlen")
			}
			st.Probe = o
		} else {
			good := rapid.SampledFrom(c.GoodTokens).Draw(rt, name+"/tok")
			bad := v01BadToken(rt, c.GoodTokens, name+"/bad")
			if bad == "\x00" {
				bad = "nope"
			}
			if rapid.IntRange(0, 3).Draw(rt, name+"/pair") == 0 {
				// concurrent pair: the first is an exact auth request whose (rejecting) authenticator call is held
				st.Req = v01AuthReq(label, bad+"#"+label, rapid.SampledFrom([]string{"-", "0", "junk"}).Draw(rt, name+"/rx"), "")
				if rapid.Bool().Draw(rt, name+"/pairexact") {
					bad2 := v01BadToken(rt, c.GoodTokens, name+"/bad2")
					st.Pair = v01AuthReq(label+"b", bad2+"#"+label+"b", "0", "pad")
					if bad2 == "\x00" {
						st.Pair.Header.Del("Hysteria-Auth")
					}
				} else {
					st.Pair = v01DrawHTTP(rt, label+"b", good, bad, true, true)
				}
				st.HoldMs = rapid.IntRange(4, 15).Draw(rt, name+"/hold")
			} else {
				st.Req = v01DrawHTTP(rt, label, good, bad, true, true)
			}
		}
		c.Steps = append(c.Steps, st)
	}
	return c
}

type v02Obs struct {
	Conn int
	Step int
	Req  *v01HTTPReq
	Resp v01HTTPResp
}

func (c *v02Case) classify() (nt bool, fp string, classes []string) {
	set := map[string]bool{}
	var parts []string
	custom := c.Spec != nil
	if custom {
		set["masq=custom"] = true
		parts = append(parts, fmt.Sprintf("H%v%v", c.Spec.Statuses, c.Spec.Hdrs))
	} else {
		set["masq=default404"] = true
		parts = append(parts, "nil")
	}
	if c.WithB {
		set["with-accepted-connection"] = true
		parts = append(parts, "B")
	}
	for _, s := range c.Steps {
		if s.Req == nil {
			if s.Probe.Kind == v01KTCPReq {
				set["probe-stream-"+v01FrNames[s.Probe.Framing]] = true
				parts = append(parts, "T"+v01FrNames[s.Probe.Framing][:1])
			} else {
				set["probe-datagram"] = true
				parts = append(parts, fmt.Sprintf("D%d", s.Probe.DMode))
			}
			continue
		}
		if s.Pair != nil {
			set["concurrent-with-held-auth"] = true
			set["concurrent-with-held-auth:second="+v02Wrongness(s.Pair)] = true
			parts = append(parts, "||"+s.Pair.Method+"/"+v02Wrongness(s.Pair)+"/"+v02Creds(s.Pair, c.GoodTokens))
			if custom {
				nt = true
			}
		}
		w := v02Wrongness(s.Req)
		cr := v02Creds(s.Req, c.GoodTokens)
		set["wrong="+w] = true
		set["creds="+cr] = true
		set["method="+s.Req.Method] = true
		if len(w) == 1 && w != "~" && cr == "good" {
			set["one-field-wrong+accepted-credentials"] = true
		}
		if s.Req.Body != nil {
			set["request-body"] = true
		}
		if custom && (len(w) == 1 || (w == "exact" && cr != "good")) {
			nt = true
		}
		parts = append(parts, fmt.Sprintf("%s/%s/%s", s.Req.Method, w, cr))
	}
	for k := range set {
		classes = append(classes, k)
	}
	sort.Strings(classes)
	return nt, strings.Join(parts, " "), classes
}

type v02Counters struct{ seenDiffers, asserted, notAsserted, reruns int64 }

// v02RunOnce executes the case against a fresh server. violation != "" is a C02
// violation; inconclusive != "" means the environment failed (the case is re-run).
func v02RunOnce(c *v02Case, cnt *v02Counters) (violation, inconclusive string) {
	var masq http.Handler
	if c.Spec != nil {
		c.Spec.mu.Lock()
		c.Spec.seen, c.Spec.calls = nil, 0
		c.Spec.mu.Unlock()
		masq = c.Spec
	}
	// harness-owned yield point: the first request of a pair parks inside Authenticate until
	// the second one was handed to the client (cap 300 ms) + HoldMs
	entered := map[string]chan struct{}{}
	sent := map[string]chan struct{}{}
	holdMs := map[string]int{}
	for _, s := range c.Steps {
		if s.Pair != nil {
			entered[s.Req.ID] = make(chan struct{})
			sent[s.Req.ID] = make(chan struct{})
			holdMs[s.Req.ID] = s.HoldMs
		}
	}
	hook := func(token string) {
		id := token
		if i := strings.LastIndexByte(id, '#'); i >= 0 {
			id = id[i+1:]
		}
		ch, ok := entered[id]
		if !ok {
			return
		}
		v01CloseOnce(ch)
		v01WaitCap(sent[id], 300*time.Millisecond)
		time.Sleep(time.Duration(holdMs[id]) * time.Millisecond)
	}
	env := v01NewEnv(v01EnvCfg{GoodTokens: c.GoodTokens, Masq: masq, AuthHook: hook})
	a, err := v01Dial(env, 0)
	if err != nil {
		env.Close()
		return "", err.Error()
	}
	var b *v01Client
	if c.WithB {
		if b, err = v01Dial(env, 1); err != nil {
			a.Close()
			a.release()
			env.Close()
			return "", err.Error()
		}
	}
	var obsA, obsB []v02Obs
	var streams []*v01Stream
	var sendErr error
	var bAuth v01HTTPResp
	var wg sync.WaitGroup
	wg.Add(1)
	go func() {
		defer wg.Done()
		for _, s := range c.Steps {
			if s.Pair != nil {
				var r1 v01HTTPResp
				d1 := make(chan struct{})
				go func() { r1 = a.do(s.Req); close(d1) }()
				v01WaitCap(entered[s.Req.ID], 2*time.Second) // first request is inside Authenticate
				v01CloseOnce(sent[s.Req.ID])
				r2 := a.do(s.Pair)
				<-d1
				obsA = append(obsA, v02Obs{Conn: 0, Step: s.N, Req: s.Req, Resp: r1}, v02Obs{Conn: 0, Step: s.N, Req: s.Pair, Resp: r2})
				continue
			}
			if s.Req != nil {
				obsA = append(obsA, v02Obs{Conn: 0, Step: s.N, Req: s.Req, Resp: a.do(s.Req)})
				continue
			}
			o := s.Probe
			if o.Kind == v01KTCPReq {
				head, payload := v01EncTCPRequest(o.addr(), o.Framing, o.WType, o.WAddr, o.PayloadLen, o.N*13)
				streams = append(streams, a.openProxy(o.Label, head, payload))
			} else {
				data := bytes.Repeat([]byte{byte('A' + o.N%26)}, o.DataLen+1)
				var err error
				switch o.DMode {
				case 0:
					err = a.qc.SendDatagram(v01EncUDPMessage(o.SID, 0, 0, 1, o.addr(), data))
				case 1:
					err = a.qc.SendDatagram(v01EncUDPMessage(o.SID, uint16(100+o.N), 0, 2, o.addr(), data))
				default:
					h := len(data) / 2
					err = a.qc.SendDatagram(v01EncUDPMessage(o.SID, uint16(100+o.N), 0, 2, o.addr(), data[:h]))
					if err == nil {
						err = a.qc.SendDatagram(v01EncUDPMessage(o.SID, uint16(100+o.N), 1, 2, o.addr(), data[h:]))
					}
				}
				if err != nil && sendErr == nil {
					sendErr = err
				}
			}
		}
		// barrier (itself a masquerade request)
		bar := &v01HTTPReq{ID: "c0-bar", Method: "GET", Authority: "barrier.test", Path: "/", Header: http.Header{}}
		if !a.dead() {
			obsA = append(obsA, v02Obs{Conn: 0, Step: len(c.Steps), Req: bar, Resp: a.do(bar)})
		}
	}()
	if b != nil {
		wg.Add(1)
		go func() {
			defer wg.Done()
			bAuth = b.do(v01AuthReq("c1-auth", c.GoodTokens[0]+"#c1-auth", c.BTokenRX, "pad"))
			if bAuth.Err != nil || bAuth.Status != v01StatusHyOK {
				return
			}
			for _, s := range c.Steps {
				for k, src := range []*v01HTTPReq{s.Req, s.Pair} {
					if src == nil {
						continue
					}
					q := *src
					q.ID = fmt.Sprintf("c1-op%d", s.N)
					if k == 1 {
						q.ID += "b"
					}
					q.Header = src.Header.Clone()
					if v := q.Header.Get("Hysteria-Auth"); v != "" {
						q.Header.Set("Hysteria-Auth", v[:strings.LastIndexByte(v, '#')+1]+q.ID)
					}
					obsB = append(obsB, v02Obs{Conn: 1, Step: s.N, Req: &q, Resp: b.do(&q)})
				}
			}
		}()
	}
	wg.Wait()
	time.Sleep(v01Grace)
	silent := 0
	for _, s := range streams {
		silent += s.silent(v01Grace / 3)
	}
	dgA := a.datagramCount()
	aKilled := a.dead() && v01KilledByH3(a.deathCause())
	for _, s := range streams {
		s.abandon()
	}
	a.Close()
	a.release()
	if b != nil {
		b.Close()
		b.release()
	}
	env.Close()
	evs := env.log.snapshot()

	fail := func(format string, args ...any) string {
		return fmt.Sprintf("C02: %s\ncase: %s\nlog:%s", fmt.Sprintf(format, args...), c.render(), v01RenderLog(evs, 40))
	}
	hasKiller := false
	for _, s := range c.Steps {
		if s.Probe != nil && s.Probe.Kind == v01KTCPReq && s.Probe.Framing == v01FrData0 {
			hasKiller = true
		}
	}
	// --- connection A: nothing on it is an accepted authentication request
	for _, o := range obsA {
		if o.Resp.Err != nil {
			if hasKiller && aKilled {
				continue
			}
			inconclusive = fmt.Sprintf("request %s on the unauthenticated connection failed: %v", o.Req, o.Resp.Err)
			continue
		}
		cnt.asserted++
		if d := v02Compare(v02Oracle(c.Spec, o.Req), o.Resp); d != "" {
			extra := ""
			if c.Spec != nil {
				extra = fmt.Sprintf(" (handler invoked for it %d time(s): %v)", len(c.Spec.sawOf(o.Req.ID)), c.Spec.sawOf(o.Req.ID))
			}
			return fail("unauthenticated connection, step %d, request %s: response has %s%s", o.Step, o.Req, d, extra), ""
		}
		if c.Spec != nil {
			if saw := c.Spec.sawOf(o.Req.ID); len(saw) == 1 {
				s := saw[0]
				if s.Method != o.Req.Method || s.Host != o.Req.Authority || s.Path != o.Req.Path || s.RawQuery != o.Req.RawQuery ||
					s.Auth != o.Req.Header.Get("Hysteria-Auth") || !bytes.Equal(s.Body, o.Req.Body) {
					cnt.seenDiffers++
				}
			}
		}
	}
	if v := v01JudgeLog(evs, []bool{false, true}); v != "" {
		return fail("%s", v), ""
	}
	if silent > 0 {
		return fail("%d bytes arrived on proxy streams opened on the unauthenticated connection", silent), ""
	}
	if dgA > 0 {
		return fail("the unauthenticated connection received %d datagram(s) from the server", dgA), ""
	}
	if sendErr != nil && !(hasKiller && aKilled) {
		inconclusive = "SendDatagram failed: " + sendErr.Error()
	}
	// --- connection B: accepted; requests that are clearly not authentication requests still get the masquerade
	if b != nil {
		if bAuth.Err != nil {
			inconclusive = "authentication on connection B failed: " + bAuth.Err.Error()
		} else if bAuth.Status != v01StatusHyOK {
			// not this property's business (C01 reports it); the positive half of the case is missing
			inconclusive = fmt.Sprintf("connection B could not authenticate (status %d)", bAuth.Status)
		}
		for _, o := range obsB {
			if !o.Req.ClearNonAuth() {
				cnt.notAsserted++
				continue // exact/decoded auth shape on an accepted connection: C01's rule (233), not asserted here
			}
			if o.Resp.Err != nil {
				inconclusive = fmt.Sprintf("request %s on the authenticated connection failed: %v", o.Req, o.Resp.Err)
				continue
			}
			cnt.asserted++
			if d := v02Compare(v02Oracle(c.Spec, o.Req), o.Resp); d != "" {
				return fail("authenticated connection, step %d, non-auth request %s: response has %s", o.Step, o.Req, d), ""
			}
		}
	}
	return "", inconclusive
}

func TestVerifC02_Masquerade(t *testing.T) {
	st := newVStats("TestVerifC02_Masquerade")
	defer st.Flush()
	cnt := &v02Counters{}
	rapid.Check(t, func(rt *rapid.T) {
		c := v02DrawCase(rt)
		nt, fp, classes := c.classify()
		st.Case(nt, fp, classes, c.render)
		// environment trouble says nothing about the property: re-run the same case on a
		// fresh server (at most three times) before giving up as inconclusive
		var inc string
		for attempt := 0; attempt < 3; attempt++ {
			rand.Seed(c.Seed)
			var v string
			v, inc = v02RunOnce(c, cnt)
			if v != "" {
				rt.Fatalf("%s", v)
			}
			if inc == "" {
				break
			}
			cnt.reruns++
		}
		st.Extra("responses_compared_with_handler", cnt.asserted)
		st.Extra("auth_shaped_on_accepted_connection_not_asserted", cnt.notAsserted)
		st.Extra("handler_saw_request_fields_different_from_sent", cnt.seenDiffers)
		st.Extra("cases_rerun_after_environment_trouble", cnt.reruns)
		if inc != "" {
			vInconclusive("C02: " + inc + " | case: " + strings.ReplaceAll(c.render(), "\n", " "))
		}
	})
}
