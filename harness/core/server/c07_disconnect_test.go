package server

// C07 — end-to-end: the client connection ends while datagrams that start NEW session
// IDs are still waiting in the server's datagram queue (the receive loop is stuck in a
// slow outbound dial of an earlier datagram, or simply lags behind a burst).
//
// "when the client connection ends all sessions, sockets and their goroutines are gone":
// a real client sends first datagrams of several new sessions and disconnects at once;
// the harness outbound's UDP() for the first one is parked on a channel and released after
// the disconnect. Completion signal (sound on any tree): no goroutine of the process is
// inside (*udpSessionManager).Run any more — everything the manager will ever do for that
// connection has then been done. At that moment every socket ever returned by
// Outbound.UDP() must have been closed exactly once. Waiting for the signal polls with a
// generous deadline and ends in vInconclusive, never in a violation.

import (
	"crypto/tls"
	"errors"
	"fmt"
	"net"
	"runtime"
	"strings"
	"sync"
	"testing"
	"time"

	"github.com/apernet/hysteria/core/v2/client"
)

type v07xSock struct {
	addr       string
	closed     chan struct{}
	mu         sync.Mutex
	closeCount int
}

func (s *v07xSock) ReadFrom(b []byte) (int, string, error) {
	<-s.closed
	return 0, "", errors.New("v07x: closed")
}
func (s *v07xSock) WriteTo(b []byte, addr string) (int, error) { return len(b), nil }
func (s *v07xSock) Close() error {
	s.mu.Lock()
	defer s.mu.Unlock()
	s.closeCount++
	if s.closeCount == 1 {
		close(s.closed)
	}
	return nil
}

type v07xOutbound struct {
	mu      sync.Mutex
	socks   []*v07xSock
	slow    string        // dial address whose UDP() parks
	entered chan struct{} // closed when the slow dial is in progress
	gate    chan struct{} // closed to release it
	once    sync.Once
}

func (o *v07xOutbound) TCP(reqAddr string) (net.Conn, error) { return nil, errors.New("v07x: no tcp") }
func (o *v07xOutbound) CheckUDP(reqAddr string) error        { return nil }
func (o *v07xOutbound) UDP(reqAddr string) (UDPConn, error) {
	if reqAddr == o.slow {
		o.once.Do(func() { close(o.entered) })
		<-o.gate // a slow dial (DNS resolution ...)
	}
	o.mu.Lock()
	defer o.mu.Unlock()
	s := &v07xSock{addr: reqAddr, closed: make(chan struct{})}
	o.socks = append(o.socks, s)
	return s, nil
}

// v07xManagersRunning counts goroutines that are inside the session manager's Run loop.
func v07xManagersRunning() int {
	buf := make([]byte, 1<<20)
	n := runtime.Stack(buf, true)
	return strings.Count(string(buf[:n]), "(*udpSessionManager).Run(")
}

func TestVerifC07_E2EDisconnectBurst(t *testing.T) {
	st := newVStats("TestVerifC07_E2EDisconnectBurst")
	defer st.Flush()
	cert, err := v07SelfSigned()
	if err != nil {
		vInconclusive("C07 disconnect: cannot create a certificate: " + err.Error())
	}
	opened, lateOpened := 0, 0
	for round := 0; round < 8; round++ {
		nNew := 2 + round%3      // further new sessions whose first datagram queues up
		slowDial := round%4 != 3 // every 4th round: no slow dial, just a burst and an immediate disconnect
		if n := v07xManagersRunning(); n != 0 {
			vInconclusive(fmt.Sprintf("C07 disconnect: %d session managers of earlier connections are still running", n))
		}
		pc, err := net.ListenUDP("udp", &net.UDPAddr{IP: net.IPv4(127, 0, 0, 1)})
		if err != nil {
			vInconclusive("C07 disconnect: cannot listen: " + err.Error())
		}
		ob := &v07xOutbound{entered: make(chan struct{}), gate: make(chan struct{})}
		addrOf := func(i int) string { return fmt.Sprintf("r%d-s%d.test:%d", round, i, 4000+i) }
		if slowDial {
			ob.slow = addrOf(0)
		}
		s, err := NewServer(&Config{TLSConfig: TLSConfig{Certificates: []tls.Certificate{cert}}, Conn: pc, Outbound: ob,
			UDPIdleTimeout: 10 * time.Minute, Authenticator: v07E2EAuth{}})
		if err != nil {
			vInconclusive("C07 disconnect: NewServer: " + err.Error())
		}
		go s.Serve()
		c, _, err := client.NewClient(&client.Config{ServerAddr: pc.LocalAddr(), TLSConfig: client.TLSConfig{InsecureSkipVerify: true}})
		if err != nil {
			s.Close()
			vInconclusive("C07 disconnect: client handshake failed: " + err.Error())
		}
		conns := make([]client.HyUDPConn, 1+nNew)
		for i := range conns {
			if conns[i], err = c.UDP(); err != nil {
				vInconclusive("C07 disconnect: client UDP(): " + err.Error())
			}
		}
		send := func(i int) {
			if err := conns[i].Send([]byte(fmt.Sprintf("first datagram of session %d", i)), addrOf(i)); err != nil {
				vInconclusive("C07 disconnect: client Send: " + err.Error())
			}
		}
		if slowDial {
			// the receive loop gets stuck in the dial of session 0 (datagrams may be lost: repeat until it is)
			end := time.Now().Add(15 * time.Second)
		stuck:
			for {
				send(0)
				select {
				case <-ob.entered:
					break stuck
				case <-time.After(100 * time.Millisecond):
				}
				if time.Now().After(end) {
					vInconclusive("C07 disconnect: the first datagram never reached the outbound")
				}
			}
		}
		// first datagrams of further NEW sessions queue up behind it, then the client is gone at once
		for rep := 0; rep < 2; rep++ {
			for i := 1; i <= nNew; i++ {
				send(i)
			}
		}
		time.Sleep(30 * time.Millisecond) // pacing only: let the burst reach the server's datagram queue
		_ = c.Close()
		time.Sleep(150 * time.Millisecond) // pacing only: let the server notice the disconnect
		ob.mu.Lock()
		before := len(ob.socks)
		ob.mu.Unlock()
		close(ob.gate)
		// completion: the connection's session manager has left Run (its clean-up is part of leaving).
		// A leftover socket only counts when it is still unclosed at two looks 100 ms apart with no
		// manager running at either look.
		end := time.Now().Add(40 * time.Second)
		var socks []*v07xSock
		var bad []string
		examine := func() {
			ob.mu.Lock()
			socks = append([]*v07xSock(nil), ob.socks...)
			ob.mu.Unlock()
			bad = nil
			for k, sk := range socks {
				sk.mu.Lock()
				n := sk.closeCount
				sk.mu.Unlock()
				if n != 1 {
					bad = append(bad, fmt.Sprintf("socket %d (%s, opened %s the disconnect) closed %d times", k, sk.addr, map[bool]string{true: "before", false: "after"}[k < before], n))
				}
			}
		}
		for {
			for v07xManagersRunning() != 0 {
				if time.Now().After(end) {
					vInconclusive("C07 disconnect: the session manager of the closed connection is still running after 40s")
				}
				time.Sleep(10 * time.Millisecond)
			}
			examine()
			if len(bad) == 0 {
				break
			}
			time.Sleep(100 * time.Millisecond)
			if v07xManagersRunning() != 0 {
				continue
			}
			first := strings.Join(bad, "; ")
			examine()
			if v07xManagersRunning() == 0 && strings.Join(bad, "; ") == first {
				break
			}
		}
		opened += len(socks)
		lateOpened += len(socks) - before
		_ = s.Close()
		st.Case(len(socks) > before, fmt.Sprintf("round%d", round), []string{fmt.Sprintf("slow-dial=%v", slowDial), fmt.Sprintf("queued-new-sessions=%d", nNew)}, func() string {
			return fmt.Sprintf("round %d: slow dial=%v, %d further new sessions, %d sockets opened (%d of them after the disconnect), all closed once", round, slowDial, nNew, len(socks), len(socks)-before)
		})
		if len(bad) > 0 {
			t.Fatalf("C07 disconnect: round %d (slow first dial=%v, first datagrams of %d further new sessions sent, then the client disconnected): the connection's session manager has finished but %s",
				round, slowDial, nNew, strings.Join(bad, "; "))
		}
	}
	st.Extra("sockets_opened", opened)
	st.Extra("sockets_opened_after_disconnect", lateOpened)
}
