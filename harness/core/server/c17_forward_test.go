package server

// C17, server half: "a UDP first packet is forwarded unmodified".
//
// udpSessionManager.feed is driven with generated datagrams (whole or split by
// the harness into 2–6 fragments fed in any order, several sessions
// interleaved) against a fake udpIO whose Hook is a stub the harness controls:
// it observes (never writes to) the data and either leaves the address alone,
// rewrites it, or refuses. core cannot import extras, so the real Sniffer is
// exercised in extras/sniff (c17_udp_test.go: the slice must be untouched);
// this test closes the other half of the chain: what the hook is shown is what
// the client sent, and what is written to the target is byte-identical to it.
//
// Oracle (from the statement / RequestHook contract in config.go, "the first
// packet is always sent as-is"): per session, Hook is called exactly once,
// with the first complete datagram's payload and address; if it returns an
// error nothing of that datagram is forwarded; otherwise the sequence of
// WriteTo payloads equals the sequence of client payloads, the first one going
// to the address the hook left in *reqAddr.

import (
	"bytes"
	"errors"
	"fmt"
	"sync"
	"testing"

	"github.com/apernet/hysteria/core/v2/internal/protocol"
	"pgregory.net/rapid"
)

type v17sWrite struct {
	data    []byte
	addr    string
	aliased bool // the slice written is the slice the hook was shown
}

type v17sConn struct {
	mu     sync.Mutex
	writes []v17sWrite
	closed chan struct{}
	once   sync.Once
	hookP  *byte
}

func (c *v17sConn) ReadFrom(b []byte) (int, string, error) {
	<-c.closed
	return 0, "", errors.New("v17s: closed")
}

func (c *v17sConn) WriteTo(b []byte, addr string) (int, error) {
	c.mu.Lock()
	defer c.mu.Unlock()
	w := v17sWrite{data: append([]byte{}, b...), addr: addr}
	if len(b) > 0 && c.hookP != nil && &b[0] == c.hookP {
		w.aliased = true
	}
	c.writes = append(c.writes, w)
	return len(b), nil
}

func (c *v17sConn) Close() error {
	c.once.Do(func() { close(c.closed) })
	return nil
}

type v17sHookCall struct {
	data []byte
	addr string
}

type v17sIO struct {
	mu        sync.Mutex
	behaviour map[string]int // keyed by the client's first address: 0 observe, 1 rewrite, 2 refuse
	hookCalls map[string][]v17sHookCall
	hookPtr   map[string]*byte
	conns     map[string]*v17sConn // keyed by dialled address
	dialled   []string
}

var v17sErrRefused = errors.New("v17s: hook refuses")

func (io *v17sIO) ReceiveMessage() (*protocol.UDPMessage, error) {
	return nil, errors.New("v17s: not used")
}
func (io *v17sIO) SendMessage([]byte, *protocol.UDPMessage) error { return nil }
func (io *v17sIO) CheckUDP(string) error                          { return nil }

func (io *v17sIO) Hook(data []byte, reqAddr *string) error {
	io.mu.Lock()
	defer io.mu.Unlock()
	key := *reqAddr
	io.hookCalls[key] = append(io.hookCalls[key], v17sHookCall{append([]byte{}, data...), key})
	if len(data) > 0 {
		io.hookPtr[key] = &data[0]
	}
	switch io.behaviour[key] {
	case 1:
		*reqAddr = "rewritten-" + key
	case 2:
		return v17sErrRefused
	}
	return nil
}

func (io *v17sIO) UDP(reqAddr string) (UDPConn, error) {
	io.mu.Lock()
	defer io.mu.Unlock()
	c := &v17sConn{closed: make(chan struct{})}
	orig := reqAddr
	if len(orig) > 10 && orig[:10] == "rewritten-" {
		orig = orig[10:]
	}
	c.hookP = io.hookPtr[orig]
	io.conns[reqAddr] = c
	io.dialled = append(io.dialled, reqAddr)
	return c, nil
}

type v17sLogger struct{}

func (v17sLogger) New(uint32, string)  {}
func (v17sLogger) Close(uint32, error) {}

type v17sMsg struct {
	payload []byte
	addr    string
	frags   int
}

func TestVerifC17_ServerForwardsFirstPacket(t *testing.T) {
	st := newVStats("TestVerifC17_ServerForwardsFirstPacket")
	defer st.Flush()
	var aliasedFirst, firstTotal int64
	rapid.Check(t, func(rt *rapid.T) {
		nSess := rapid.IntRange(1, 3).Draw(rt, "sessions")
		io := &v17sIO{behaviour: map[string]int{}, hookCalls: map[string][]v17sHookCall{}, hookPtr: map[string]*byte{}, conns: map[string]*v17sConn{}}
		m := newUDPSessionManager(io, v17sLogger{}, 0)
		type feedItem struct {
			sess int
			msg  *protocol.UDPMessage
		}
		sessMsgs := make([][]v17sMsg, nSess)
		queues := make([][]feedItem, nSess)
		var classes []string
		nt := false
		fp := ""
		for s := 0; s < nSess; s++ {
			firstAddr := fmt.Sprintf("10.0.%d.1:%d", s, 443+s)
			beh := rapid.SampledFrom([]int{0, 0, 1, 1, 2}).Draw(rt, "hookBehaviour")
			io.behaviour[firstAddr] = beh
			classes = append(classes, []string{"hook:observe", "hook:rewrite", "hook:refuse"}[beh])
			nMsg := rapid.IntRange(1, 4).Draw(rt, "msgs")
			fp += fmt.Sprintf("s%d/b%d:", s, beh)
			for k := 0; k < nMsg; k++ {
				size := rapid.SampledFrom([]int{0, 1, 20, 300, 1200, 1252, 2000, 3500}).Draw(rt, "size")
				payload := rapid.SliceOfN(rapid.Byte(), size, size).Draw(rt, "payload")
				addr := firstAddr
				if k > 0 && rapid.Bool().Draw(rt, "otherAddr") {
					addr = fmt.Sprintf("10.9.%d.%d:53", s, k)
				}
				frags := 1
				if size >= 2 && rapid.IntRange(0, 2).Draw(rt, "fragmented") == 0 {
					frags = rapid.IntRange(2, min(6, size)).Draw(rt, "frags")
				}
				sessMsgs[s] = append(sessMsgs[s], v17sMsg{payload, addr, frags})
				fp += fmt.Sprintf("%d/%d,", size, frags)
				if frags == 1 {
					queues[s] = append(queues[s], feedItem{s, &protocol.UDPMessage{SessionID: uint32(100 + s), PacketID: 0, FragID: 0, FragCount: 1, Addr: addr, Data: append([]byte{}, payload...)}})
					continue
				}
				if k == 0 {
					nt = true
					classes = append(classes, "first-datagram-fragmented")
				}
				// own contiguous split into `frags` non-empty parts
				cuts := rapid.SliceOfNDistinct(rapid.IntRange(1, size-1), frags-1, frags-1, rapid.ID[int]).Draw(rt, "fragCuts")
				cuts = append(cuts, 0, size)
				for i := 1; i < len(cuts); i++ {
					for j := i; j > 0 && cuts[j] < cuts[j-1]; j-- {
						cuts[j], cuts[j-1] = cuts[j-1], cuts[j]
					}
				}
				order := rapid.Permutation(func() []int {
					r := make([]int, frags)
					for i := range r {
						r[i] = i
					}
					return r
				}()).Draw(rt, "fragOrder")
				for _, i := range order {
					queues[s] = append(queues[s], feedItem{s, &protocol.UDPMessage{SessionID: uint32(100 + s), PacketID: uint16(1 + k), FragID: uint8(i), FragCount: uint8(frags),
						Addr: addr, Data: append([]byte{}, payload[cuts[i]:cuts[i+1]]...)}})
				}
			}
		}
		if nSess > 1 {
			nt = true
		}
		// interleave the sessions' feeds
		for {
			var live []int
			for s := range queues {
				if len(queues[s]) > 0 {
					live = append(live, s)
				}
			}
			if len(live) == 0 {
				break
			}
			s := live[0]
			if len(live) > 1 {
				s = rapid.SampledFrom(live).Draw(rt, "next")
			}
			m.feed(queues[s][0].msg)
			queues[s] = queues[s][1:]
		}
		// snapshot, then tear the sessions down (unblocks the receive loops)
		io.mu.Lock()
		hookCalls := io.hookCalls
		conns := io.conns
		io.mu.Unlock()
		defer m.cleanup(false)

		st.Case(nt, fp, classes, func() string { return fp })
		for s := 0; s < nSess; s++ {
			firstAddr := fmt.Sprintf("10.0.%d.1:%d", s, 443+s)
			msgs := sessMsgs[s]
			beh := io.behaviour[firstAddr]
			calls := hookCalls[firstAddr]
			wantCalls := 1
			if beh == 2 {
				// a refused session is dropped; every later datagram starts a new one and is hooked again
				wantCalls = len(msgs)
				for _, mm := range msgs[1:] {
					if mm.addr != firstAddr {
						wantCalls-- // hooked under its own address; stub behaviour there is "observe"
					}
				}
			}
			if beh != 2 && len(calls) != wantCalls {
				rt.Fatalf("C17: session %d: hook called %d times for the first address, want %d (%s)", s, len(calls), wantCalls, fp)
			}
			if len(calls) == 0 {
				rt.Fatalf("C17: session %d: hook never called (%s)", s, fp)
			}
			if !bytes.Equal(calls[0].data, msgs[0].payload) {
				rt.Fatalf("C17: session %d: the hook was shown %d bytes that differ from the client's first datagram (%d bytes), first difference at %d (%s)",
					s, len(calls[0].data), len(msgs[0].payload), v17sFirstDiff(calls[0].data, msgs[0].payload), fp)
			}
			if beh == 2 {
				if c := conns[firstAddr]; c != nil {
					rt.Fatalf("C17: session %d: hook refused but the target was dialled (%s)", s, fp)
				}
				continue
			}
			dialAddr := firstAddr
			if beh == 1 {
				dialAddr = "rewritten-" + firstAddr
			}
			c := conns[dialAddr]
			if c == nil {
				rt.Fatalf("C17: session %d: target %q was not dialled (dialled %v) (%s)", s, dialAddr, io.dialled, fp)
			}
			c.mu.Lock()
			writes := append([]v17sWrite{}, c.writes...)
			c.mu.Unlock()
			if len(writes) != len(msgs) {
				rt.Fatalf("C17: session %d: %d datagrams forwarded, client sent %d (%s)", s, len(writes), len(msgs), fp)
			}
			for k, w := range writes {
				if !bytes.Equal(w.data, msgs[k].payload) {
					rt.Fatalf("C17: session %d datagram %d: forwarded bytes differ from what the client sent: %d vs %d bytes, first difference at %d (%s)",
						s, k, len(w.data), len(msgs[k].payload), v17sFirstDiff(w.data, msgs[k].payload), fp)
				}
				wantAddr := msgs[k].addr
				if beh == 1 {
					wantAddr = dialAddr
				}
				if w.addr != wantAddr {
					rt.Fatalf("C17: session %d datagram %d forwarded to %q, want %q (%s)", s, k, w.addr, wantAddr, fp)
				}
			}
			if len(msgs[0].payload) > 0 {
				firstTotal++
				if writes[0].aliased {
					aliasedFirst++
				}
			}
		}
	})
	// informational: how often the slice forwarded was the very slice shown to the hook
	st.Extra("first_datagrams_forwarded", firstTotal)
	st.Extra("first_datagrams_forwarded_from_the_slice_shown_to_the_hook", aliasedFirst)
}

func v17sFirstDiff(a, b []byte) int {
	n := min(len(a), len(b))
	for i := 0; i < n; i++ {
		if a[i] != b[i] {
			return i
		}
	}
	return n
}
