package server

// C06 — S1 ("nothing injected, duplicated or altered") and L1 inside the
// teardown window of a relay, a pinned history with generated parameters:
//
//   relay X has a chunk of direction d in flight: the server has read it and is
//   asking the traffic logger (fake LogTraffic parks the call);
//   the OTHER direction of X ends (d = tx: the target shuts down its write side
//   and keeps accepting bytes; d = rx: the target stops accepting bytes and the
//   client writes into it, while the client keeps reading) -> the two-way copy
//   returns; the handler reports to the EventLogger before it closes the two
//   ends (fake TCPError parks the call): both ends of X are still open;
//   meanwhile 2-8 NEW relays Y (same or another user) are opened concurrently
//   and each moves its own, different bytes (>= one copy buffer, typically) in
//   one or both directions;
//   then the pending verdict of X's chunk is "true" and the chunk is forwarded
//   (or TCPError is released first: both ends get closed and nothing of the
//   chunk may arrive).
//
// Whatever reaches X's target / X's client must still be the continuation of
// what X's peer sent (position-dependent pattern per connection: one foreign
// or stale byte is visible), and must have been approved before. No timing
// assertion: every wait is generous and ends in vInconclusive.
// The window is repeated 1-3 times per case on the same server (the relays Y
// of earlier windows stay open, so spare copy buffers are scarce).

import (
	"fmt"
	"math/rand"
	"os"
	"strings"
	"sync"
	"testing"
	"time"

	"pgregory.net/rapid"
)

type v06WinY struct{ cw, tw int }

type v06Window struct {
	parkTx       bool // X's chunk in flight is client->target (else target->client)
	chunk        int
	warmC, warmT int
	endBytes     int // parkTx=false: what the client writes into the target that stopped accepting bytes
	ys           []v06WinY
	logFirst     bool // the verdict arrives before TCPError returns (the chunk is forwarded inside the window)
}

type v06WinCase struct {
	fastOpen  bool
	ySameUser bool
	windows   []v06Window
	randSeed  int64
}

func (wc *v06WinCase) String() string {
	var sb strings.Builder
	fmt.Fprintf(&sb, "fastOpen=%v Y-same-user=%v randseed=%d", wc.fastOpen, wc.ySameUser, wc.randSeed)
	for i, win := range wc.windows {
		d := "rx(target->client)"
		if win.parkTx {
			d = "tx(client->target)"
		}
		fmt.Fprintf(&sb, " | window %d: X warm c%d/t%d, %s chunk %d awaiting its verdict, other direction ended", i, win.warmC, win.warmT, d, win.chunk)
		if !win.parkTx {
			fmt.Fprintf(&sb, " (client wrote %d into a target that stopped accepting)", win.endBytes)
		}
		sb.WriteString(", Y:")
		for _, y := range win.ys {
			fmt.Fprintf(&sb, " [cw%d tw%d]", y.cw, y.tw)
		}
		if win.logFirst {
			sb.WriteString(", verdict true then TCPError returns")
		} else {
			sb.WriteString(", TCPError returns then verdict true")
		}
	}
	return sb.String()
}

func v06GenWinCase(rt *rapid.T) *v06WinCase {
	wc := &v06WinCase{}
	wc.randSeed = rapid.Int64().Draw(rt, "randSeed")
	wc.fastOpen = rapid.Bool().Draw(rt, "fastOpen")
	wc.ySameUser = rapid.Bool().Draw(rt, "ySameUser")
	chunk := rapid.OneOf(rapid.SampledFrom([]int{32768, 32768, 32767, 32769, 65536, 1}), rapid.IntRange(1, 5000), rapid.IntRange(1, 100000))
	ybytes := rapid.OneOf(rapid.SampledFrom([]int{0, 32768, 32768, 40000, 70000, 100000}), rapid.IntRange(1, 3000), rapid.IntRange(1, 100000))
	n := rapid.IntRange(1, 3).Draw(rt, "windows")
	for i := 0; i < n; i++ {
		var win v06Window
		pf := fmt.Sprintf("w%d", i)
		win.parkTx = rapid.Bool().Draw(rt, pf+"ParkTx")
		win.chunk = chunk.Draw(rt, pf+"Chunk")
		if rapid.Bool().Draw(rt, pf+"Warm") {
			win.warmC = rapid.IntRange(1, 70000).Draw(rt, pf+"WarmC")
			win.warmT = rapid.IntRange(1, 70000).Draw(rt, pf+"WarmT")
		}
		win.endBytes = rapid.IntRange(1, 2000).Draw(rt, pf+"EndBytes")
		ny := rapid.IntRange(2, 8).Draw(rt, pf+"Ys")
		for k := 0; k < ny; k++ {
			y := v06WinY{ybytes.Draw(rt, fmt.Sprintf("%sY%dcw", pf, k)), ybytes.Draw(rt, fmt.Sprintf("%sY%dtw", pf, k))}
			if y.cw == 0 && y.tw == 0 {
				y.tw = 32768
			}
			win.ys = append(win.ys, y)
		}
		win.logFirst = rapid.IntRange(0, 3).Draw(rt, pf+"Order") != 0
		wc.windows = append(wc.windows, win)
	}
	return wc
}

func v06WinSalt(idx int, dir uint64) uint64 {
	return (uint64(idx)+1)*0xD6E8FEB86659FD93 ^ dir*0xA24BAED4963EE407
}

// window runs one teardown window; false = stop the case (violation recorded or nothing more to do).
func (r *v06Run) window(ux, uy *v06User, win v06Window, idx *int) bool {
	w := r.w
	newConn := func(u *v06User) *v06Conn {
		c := w.addConnLive(u, *idx, v06WinSalt(*idx, 1), v06WinSalt(*idx, 2))
		*idx++
		return c
	}
	waitCh := func(ch chan struct{}, what string) {
		select {
		case <-ch:
		case <-time.After(v06WaitLong):
			w.mu.Lock()
			state := w.stateLocked() + " history: " + w.histLocked()
			w.mu.Unlock()
			vInconclusive("C06 teardown window: " + what + ": " + state)
		}
	}
	cp := &v06ConnPlan{readBuf: 32768}
	x := newConn(ux)
	if !r.open(x, cp) {
		return false
	}
	if win.warmC > 0 && !r.step(x, v06Op{v06CW, win.warmC}) {
		return false
	}
	if win.warmT > 0 && !r.step(x, v06Op{v06TW, win.warmT}) {
		return false
	}
	if !r.syncConn(x, "warm-up sync of X") {
		return false
	}
	pk := &v06Park{user: ux.id, wantTx: win.parkTx, armed: true, parkedCh: make(chan struct{}), release: make(chan bool, 1), returned: make(chan struct{})}
	el := &v06ELPark{label: x.label, armed: true, parkedCh: make(chan struct{}), release: make(chan struct{})}
	releaseLog := sync.OnceFunc(func() { pk.release <- true })
	releaseEL := sync.OnceFunc(func() { close(el.release) })
	defer releaseEL()
	defer releaseLog()
	w.mu.Lock()
	w.park, w.elPark = pk, el
	w.mu.Unlock()
	// X's chunk
	if win.parkTx {
		if !r.step(x, v06Op{v06CW, win.chunk}) {
			return false
		}
	} else if !r.step(x, v06Op{v06TW, win.chunk}) {
		return false
	}
	select {
	case <-pk.parkedCh:
	case <-time.After(v06WaitLong):
		r.stall(x, "the relay never asked the logger about X's chunk")
		return false
	}
	// the other direction of X ends
	w.mu.Lock()
	x.terminated = true
	ux.termCount++
	if win.parkTx {
		x.tEOF = true
		w.evLocked("tgt:targetShutWr", x.label, x.tSent, x.tRecv, "while a tx verdict is pending")
	} else {
		x.tGone = true
		w.evLocked("tgt:stops-accepting", x.label, x.tSent, x.tRecv, "while an rx verdict is pending")
	}
	w.cond.Broadcast()
	w.mu.Unlock()
	if !win.parkTx {
		if !r.step(x, v06Op{v06CW, win.endBytes}) {
			return false
		}
	}
	waitCh(el.parkedCh, "the server did not report the end of X's relay to the event logger")
	// both ends of X are still open; new relays Y move their own bytes
	var wg sync.WaitGroup
	for _, y := range win.ys {
		c := newConn(uy)
		wg.Add(1)
		go func(c *v06Conn, y v06WinY) {
			defer wg.Done()
			if !r.open(c, &v06ConnPlan{readBuf: 65536}) {
				return
			}
			if y.cw > 0 && !r.step(c, v06Op{v06CW, y.cw}) {
				return
			}
			if y.tw > 0 && !r.step(c, v06Op{v06TW, y.tw}) {
				return
			}
			r.syncConn(c, "sync of a relay Y inside X's teardown window")
		}(c, y)
	}
	wg.Wait()
	if w.failed() != "" {
		return false
	}
	if win.logFirst {
		releaseLog()
		waitCh(pk.returned, "parked LogTraffic did not return")
		w.mu.Lock()
		res := w.waitLocked(v06WaitLong, func() bool {
			if win.parkTx {
				return x.tRecv == x.cSent || x.sClosed
			}
			return x.cRecv == x.tSent || x.readerDone
		})
		state := w.stateLocked()
		w.mu.Unlock()
		if res == v06Aborted {
			return false
		}
		if res == v06Timeout {
			vInconclusive("C06 teardown window: X's approved chunk did not arrive while both ends were still open: " + state)
		}
		releaseEL()
	} else {
		releaseEL()
		w.mu.Lock()
		res := w.waitLocked(v06WaitLong, func() bool { return x.sClosed })
		state := w.stateLocked()
		w.mu.Unlock()
		if res == v06Aborted {
			return false
		}
		if res == v06Timeout {
			vInconclusive("C06 teardown window: the server did not close X's target conn after TCPError returned: " + state)
		}
		releaseLog()
		waitCh(pk.returned, "parked LogTraffic did not return")
	}
	w.mu.Lock()
	res := w.waitLocked(v06WaitLong, func() bool { return x.sClosed && x.readerDone })
	state := w.stateLocked()
	w.park, w.elPark = nil, nil
	w.mu.Unlock()
	if res == v06Aborted {
		return false
	}
	if res == v06Timeout {
		vInconclusive("C06 teardown window: X was not torn down after both yield points were released: " + state)
	}
	_ = x.conn.Close()
	return w.failed() == ""
}

func v06RunWinCase(wc *v06WinCase, st *vStats) string {
	rand.Seed(wc.randSeed)
	w := v06NewWorld()
	w.hasLogger, w.hasEL, w.fastOpen = true, true, wc.fastOpen
	ux := w.addUser(0, false)
	uy := ux
	nUsers := 1
	if !wc.ySameUser {
		uy = w.addUser(0, false)
		nUsers = 2
	}
	r := &v06Run{w: w, p: &v06Plan{fastOpen: wc.fastOpen, logger: true, nUsers: nUsers, nSegs: 1, vetoUser: -1}, st: st}
	w.start()
	defer w.stop()
	idx := 0
	for _, win := range wc.windows {
		if !r.window(ux, uy, win, &idx) {
			break
		}
	}
	w.mu.Lock()
	defer w.mu.Unlock()
	for _, u := range w.users {
		if u.recvTx > u.apprTx || u.recvRx > u.apprRx {
			w.failLocked("%s: delivered tx=%d rx=%d exceeds approved tx=%d rx=%d", u.id, u.recvTx, u.recvRx, u.apprTx, u.apprRx)
		}
	}
	return w.fail
}

func TestVerifC06_TeardownWindow(t *testing.T) {
	st := newVStats("TestVerifC06_TeardownWindow")
	defer st.Flush()
	measure := os.Getenv("VERIF_C06_MEASURE") != "" // count failing cases instead of stopping at the first (catch-rate measurement on a mutant)
	var total, failedCases int
	rapid.Check(t, func(rt *rapid.T) {
		wc := v06GenWinCase(rt)
		var fp strings.Builder
		cl := []string{fmt.Sprintf("fastopen:%v", wc.fastOpen), fmt.Sprintf("y-same-user:%v", wc.ySameUser), fmt.Sprintf("windows:%d", len(wc.windows))}
		fmt.Fprintf(&fp, "%v%v", wc.fastOpen, wc.ySameUser)
		for _, win := range wc.windows {
			cl = append(cl, fmt.Sprintf("parked:tx=%v", win.parkTx), fmt.Sprintf("verdict-first:%v", win.logFirst), "chunk:"+v06SizeClass(win.chunk), fmt.Sprintf("ys:%d", len(win.ys)))
			fmt.Fprintf(&fp, "|%v%v%s%s", win.parkTx, win.logFirst, v06SizeClass(win.chunk), v06SizeClass(win.warmC))
			for _, y := range win.ys {
				fp.WriteString("," + v06SizeClass(y.cw) + v06SizeClass(y.tw))
			}
		}
		st.Case(true, fp.String(), cl, wc.String)
		f := v06RunWinCase(wc, st)
		total++
		if f != "" {
			failedCases++
			if !measure {
				rt.Fatalf("C06: %s\n  case: %s", f, wc.String())
			}
		}
	})
	if measure {
		st.Extra("measure_failed_cases", failedCases)
		st.Extra("measure_total_cases", total)
		t.Logf("C06 MEASURE: %d of %d cases flagged a violation", failedCases, total)
	}
}
