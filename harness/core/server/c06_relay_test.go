package server

// C06 — TCP relay preserves the byte stream and accounts it exactly.
//
// TestVerifC06_Relay: rapid-generated histories over a real client + real
// server on loopback (see c06_world_test.go for the fakes). A case is 1-2
// users (one QUIC connection each), 1-3 proxied connections, each with its own
// pre-drawn operation list cut into 1-3 segments; the connections run their
// segment concurrently, between segments everything still open is synced and
// the per-user accounting is compared with the bytes delivered.
//
// Oracles (all independent of the relay code; see DESIGN C06):
//  S1 prefix/integrity, checked at the moment of every receipt on both sides;
//  S2 sync: with neither side closed, both sides end up with everything sent;
//  S3 close by the sender, opposite direction idle: everything it wrote arrives
//     before the other end sees the relay end;
//  S4 dial failure: DialError{Message == server text} at TCP() (or at the first
//     Read with fast open); the fake outbound never created a target conn;
//  L1 approved-before-forwarded: delivered <= approved, per user and direction,
//     at every receipt (target side: exact instant of the server's Write);
//  L2 at every sync barrier logged == delivered (per user and direction) as
//     long as no relay of the user has been torn down, else 0 <= logged-delivered
//     <= one copy buffer per torn-down relay;
//  L3 veto: nothing beyond the approved bytes is delivered (L1), a request
//     issued after the vetoed relay's handler finished is never served, and
//     Client.TCP eventually reports ClosedError; other users keep working.

import (
	"errors"
	"fmt"
	"math/rand"
	"net"
	"strings"
	"sync"
	"testing"
	"time"

	coreErrs "github.com/apernet/hysteria/core/v2/errors"
	"pgregory.net/rapid"
)

type v06OpKind int

const (
	v06CW v06OpKind = iota // client writes n bytes
	v06TW                  // target writes n bytes
	v06Sync                // wait until both directions delivered everything sent so far
	v06WDL                 // target stops taking bytes, client Write(n) under a write deadline a few ms ahead returns (k, timeout); deadline cleared, target resumes, client writes the rest from offset k
	v06RStall              // client application pauses reading while the target writes n bytes
	v06DL                  // client-side deadline: n&1 = SetDeadline instead of SetReadDeadline, n&2 = shortly ahead instead of in the past; cleared after a Read timed out
)

type v06Op struct {
	kind v06OpKind
	n    int
}

func (o v06Op) String() string {
	switch o.kind {
	case v06CW:
		return fmt.Sprintf("cw%d", o.n)
	case v06TW:
		return fmt.Sprintf("tw%d", o.n)
	case v06DL:
		return "deadline:" + v06DLNames[o.n&3]
	case v06WDL:
		return fmt.Sprintf("writeDeadlineResume%d", o.n)
	case v06RStall:
		return fmt.Sprintf("readPause+tw%d", o.n)
	default:
		return "sync"
	}
}

var v06DLNames = []string{"read-past", "both-past", "read-soon", "both-soon"}

func v06SizeClass(n int) string {
	switch {
	case n < 1000:
		return "s"
	case n < 32767:
		return "m"
	case n <= 32769:
		return "B"
	case n < 65535:
		return "l"
	case n <= 65537:
		return "BB"
	default:
		return "xl"
	}
}

type v06Term int

const (
	v06TNone v06Term = iota
	v06TClientClose
	v06TTargetClose   // close(): both directions
	v06TTargetShut    // shutdown(WR): the target keeps receiving
	v06TTargetErr     // read error after the queued bytes were taken
	v06TTargetErrDrop // reset: queued bytes are discarded, read error at once
)

var v06TermNames = []string{"open", "clientClose", "targetClose", "targetShutWr", "targetErr", "targetReset"}

type v06ConnPlan struct {
	user          int
	startSeg      int
	dialFail      bool
	msg           string
	foWrite       int // fast open + dial failure: bytes written before the first Read
	banner        int  // server-speaks-first target: bytes already readable on the dialled conn when Outbound.TCP returns
	slowDial      bool // the outbound's dial is parked until the harness releases it
	preDL         int  // fast open + slow dial: deadline op while the response cannot exist yet (-1 none)
	preCW         int  // fast open + slow dial: client write while the dial is parked
	segs          [][]v06Op
	term          v06Term
	termSeg       int
	trailing      []v06Op
	readBuf       int
	maxRead       int
	errWithData   bool
	saltC, saltT  uint64
	chunksC, chunksT int
}

type v06Plan struct {
	fastOpen bool
	logger   bool
	smallWin int // 0 or the stream flow-control window (both sides); write-deadline / read-pause ops need a small one
	eventLogger bool // an EventLogger is configured (no yields here; see TestVerifC06_TeardownWindow)
	nUsers   int
	nSegs    int
	conns    []v06ConnPlan
	vetoUser int
	vetoAt   int
	sticky   bool
	topUpTx  bool
	randSeed int64
}

func (p *v06Plan) String() string {
	var sb strings.Builder
	fmt.Fprintf(&sb, "eventLogger=%v streamWindow=%d ", p.eventLogger, p.smallWin)
	fmt.Fprintf(&sb, "fastOpen=%v logger=%v users=%d segments=%d randseed=%d", p.fastOpen, p.logger, p.nUsers, p.nSegs, p.randSeed)
	if p.vetoUser >= 0 {
		fmt.Fprintf(&sb, " veto{user-%d at LogTraffic call %d sticky=%v topUpTx=%v}", p.vetoUser, p.vetoAt, p.sticky, p.topUpTx)
	}
	for i, c := range p.conns {
		fmt.Fprintf(&sb, " | c%d user-%d from seg %d", i, c.user, c.startSeg)
		if c.slowDial {
			fmt.Fprintf(&sb, " SLOWDIAL")
			if c.preDL >= 0 && p.fastOpen {
				fmt.Fprintf(&sb, "(while parked: deadline:%s, Read times out, cleared", v06DLNames[c.preDL&3])
				if c.preCW > 0 {
					fmt.Fprintf(&sb, ", cw%d", c.preCW)
				}
				sb.WriteString(")")
			}
		}
		if c.dialFail {
			fmt.Fprintf(&sb, " DIALFAIL msg=%dB foWrite=%d", len(c.msg), c.foWrite)
			continue
		}
		if c.banner > 0 {
			fmt.Fprintf(&sb, " BANNER%d(target speaks first: readable when the dial returns)", c.banner)
		}
		fmt.Fprintf(&sb, " readBuf=%d maxRead=%d errWithData=%v:", c.readBuf, c.maxRead, c.errWithData)
		for s, ops := range c.segs {
			if s < c.startSeg {
				continue
			}
			fmt.Fprintf(&sb, " [")
			for k, o := range ops {
				if k > 0 {
					sb.WriteString(" ")
				}
				sb.WriteString(o.String())
			}
			sb.WriteString("]")
			if c.term != v06TNone && s == c.termSeg {
				sb.WriteString(" " + v06TermNames[c.term])
				for _, o := range c.trailing {
					sb.WriteString(" +" + o.String())
				}
				break
			}
		}
	}
	return sb.String()
}

func (p *v06Plan) fingerprint() string {
	var sb strings.Builder
	fmt.Fprintf(&sb, "%v%v%d%d w%d", p.fastOpen, p.logger, p.nUsers, p.nSegs, p.smallWin)
	if p.vetoUser >= 0 {
		fmt.Fprintf(&sb, "v%d@%d%v", p.vetoUser, p.vetoAt, p.sticky)
	}
	for _, c := range p.conns {
		fmt.Fprintf(&sb, "|u%d s%d", c.user, c.startSeg)
		if c.slowDial {
			fmt.Fprintf(&sb, "D%d", c.preDL)
		}
		if c.dialFail {
			fmt.Fprintf(&sb, "F%d", len(c.msg))
			continue
		}
		for _, ops := range c.segs {
			sb.WriteString("/")
			for _, o := range ops {
				switch o.kind {
				case v06CW:
					sb.WriteString("c" + v06SizeClass(o.n))
				case v06TW:
					sb.WriteString("t" + v06SizeClass(o.n))
				case v06DL:
					fmt.Fprintf(&sb, "d%d", o.n&3)
				case v06WDL:
					sb.WriteString("W")
				case v06RStall:
					sb.WriteString("R")
				default:
					sb.WriteString("y")
				}
			}
		}
		fmt.Fprintf(&sb, "T%d@%d+%d", c.term, c.termSeg, len(c.trailing))
		if c.banner > 0 {
			sb.WriteString("b" + v06SizeClass(c.banner))
		}
	}
	return sb.String()
}

// nontrivial: some connection carries >= 2 chunks in both directions, and the
// case contains a terminating event (close / shutdown / error / dial failure /
// veto) on some connection.
func (p *v06Plan) nontrivial() bool {
	both, event := false, p.vetoUser >= 0
	for _, c := range p.conns {
		if c.chunksC >= 2 && c.chunksT >= 2 {
			both = true
		}
		if c.dialFail || c.term != v06TNone {
			event = true
		}
	}
	return both && event
}

func (p *v06Plan) classes() []string {
	cl := []string{fmt.Sprintf("streamwindow:%d", p.smallWin), fmt.Sprintf("fastopen:%v", p.fastOpen), fmt.Sprintf("logger:%v", p.logger), fmt.Sprintf("eventlogger:%v", p.eventLogger),
		fmt.Sprintf("users:%d", p.nUsers), fmt.Sprintf("conns:%d", len(p.conns)), fmt.Sprintf("segments:%d", p.nSegs)}
	if p.vetoUser >= 0 {
		cl = append(cl, "scenario:veto", fmt.Sprintf("veto-sticky:%v", p.sticky))
	} else {
		cl = append(cl, "scenario:relay")
	}
	perUser := map[int]int{}
	for _, c := range p.conns {
		perUser[c.user]++
		if c.slowDial {
			cl = append(cl, "conn:slowdial")
			if p.fastOpen && c.preDL >= 0 {
				cl = append(cl, "slowdial:read-times-out-before-response")
			}
		}
		if c.dialFail {
			cl = append(cl, "conn:dialfail")
			switch {
			case len(c.msg) == 0:
				cl = append(cl, "dialmsg:0")
			case len(c.msg) >= 2047:
				cl = append(cl, "dialmsg:2047-2048")
			case len(c.msg) > 63:
				cl = append(cl, "dialmsg:64+")
			default:
				cl = append(cl, "dialmsg:1-63")
			}
			continue
		}
		cl = append(cl, "term:"+v06TermNames[c.term])
		if c.banner > 0 {
			cl = append(cl, fmt.Sprintf("banner:fastopen=%v", p.fastOpen), "chunk:"+v06SizeClass(c.banner))
		}
		if len(c.trailing) > 0 {
			cl = append(cl, "term:with-trailing-writes")
		}
		for _, ops := range c.segs {
			for _, o := range ops {
				if o.kind == v06DL {
					cl = append(cl, "op:deadline:"+v06DLNames[o.n&3])
				} else if o.kind == v06WDL {
					cl = append(cl, "op:write-deadline-resume")
				} else if o.kind == v06RStall {
					cl = append(cl, "op:read-pause")
				} else if o.kind != v06Sync {
					cl = append(cl, "chunk:"+v06SizeClass(o.n))
				}
			}
		}
	}
	for _, n := range perUser {
		if n > 1 {
			cl = append(cl, "user-with-several-conns")
			break
		}
	}
	return cl
}

// ------------------------------------------------------------------ generator

func v06GenMsg(rt *rapid.T, name string) string {
	n := rapid.OneOf(
		rapid.IntRange(0, 40),
		rapid.SampledFrom([]int{0, 1, 63, 64, 2047, 2048}),
		rapid.IntRange(0, 2048),
	).Draw(rt, name+"Len")
	b := make([]byte, n)
	if rapid.Bool().Draw(rt, name+"Binary") {
		v06Fill(b, uint64(n)*977+3, 0) // arbitrary bytes incl. NUL and >0x7f
	} else {
		const al = "connection refused: dial tcp 203.0.113.7:443 i/o timeout; "
		for i := range b {
			b[i] = al[i%len(al)]
		}
	}
	return string(b)
}

func v06GenPlan(rt *rapid.T) *v06Plan {
	p := &v06Plan{vetoUser: -1}
	p.randSeed = rapid.Int64().Draw(rt, "randSeed")
	p.fastOpen = rapid.Bool().Draw(rt, "fastOpen")
	p.logger = rapid.IntRange(0, 3).Draw(rt, "logger") != 1
	p.eventLogger = rapid.Bool().Draw(rt, "eventLogger")
	p.smallWin = rapid.SampledFrom([]int{0, 0, 16384, 65536}).Draw(rt, "streamWindow")
	p.nUsers = rapid.IntRange(1, 2).Draw(rt, "users")
	nConns := rapid.IntRange(1, 3).Draw(rt, "conns")
	p.nSegs = rapid.IntRange(1, 3).Draw(rt, "segments")
	if p.logger && rapid.IntRange(0, 2).Draw(rt, "scenario") == 2 {
		p.vetoUser = rapid.IntRange(0, p.nUsers-1).Draw(rt, "vetoUser")
		p.vetoAt = rapid.IntRange(1, 10).Draw(rt, "vetoAt")
		p.sticky = rapid.Bool().Draw(rt, "sticky")
		p.topUpTx = rapid.Bool().Draw(rt, "topUpTx")
	}
	budget := 3 << 19 // bytes per case
	sizeGen := rapid.OneOf(
		rapid.IntRange(1, 200),
		rapid.IntRange(1, 5000),
		rapid.SampledFrom([]int{32767, 32768, 32769, 65535, 65536, 65537, 1<<18 - 1, 1 << 18}),
		rapid.IntRange(1, 1<<18),
	)
	for i := 0; i < nConns; i++ {
		var c v06ConnPlan
		c.user = rapid.IntRange(0, p.nUsers-1).Draw(rt, fmt.Sprintf("c%dUser", i))
		if i == 0 && p.vetoUser >= 0 {
			c.user = p.vetoUser
		}
		vetoSafe := c.user == p.vetoUser
		c.startSeg = rapid.IntRange(0, p.nSegs-1).Draw(rt, fmt.Sprintf("c%dStart", i))
		c.saltC = rapid.Uint64().Draw(rt, fmt.Sprintf("c%dSaltC", i))
		c.saltT = rapid.Uint64().Draw(rt, fmt.Sprintf("c%dSaltT", i))
		c.segs = make([][]v06Op, p.nSegs)
		c.preDL = -1
		if rapid.IntRange(0, 3).Draw(rt, fmt.Sprintf("c%dSlowDial", i)) == 3 {
			c.slowDial = true
			if p.fastOpen {
				c.preDL = rapid.IntRange(-1, 3).Draw(rt, fmt.Sprintf("c%dPreDL", i))
				c.preCW = rapid.SampledFrom([]int{0, 0, 1, 900, 40000}).Draw(rt, fmt.Sprintf("c%dPreCW", i))
			}
		}
		capPre := func(n int) int {
			// while the dial is parked the server does not read the stream: a write larger than the
			// stream flow-control window (minus the request header) could only return after the release
			if c.slowDial && p.smallWin > 0 && n > p.smallWin/2 {
				return p.smallWin / 2
			}
			return n
		}
		c.preCW = capPre(c.preCW)
		if !vetoSafe && rapid.IntRange(0, 6).Draw(rt, fmt.Sprintf("c%dKind", i)) == 6 {
			c.dialFail = true
			c.msg = v06GenMsg(rt, fmt.Sprintf("c%dMsg", i))
			if p.fastOpen {
				c.foWrite = capPre(rapid.SampledFrom([]int{0, 0, 1, 700, 40000}).Draw(rt, fmt.Sprintf("c%dFoWrite", i)))
			}
			p.conns = append(p.conns, c)
			continue
		}
		c.readBuf = rapid.SampledFrom([]int{32768, 4096, 65536, 1000, 131072}).Draw(rt, fmt.Sprintf("c%dReadBuf", i))
		c.maxRead = rapid.SampledFrom([]int{0, 32767, 16384, 1500, 100}).Draw(rt, fmt.Sprintf("c%dMaxRead", i))
		c.errWithData = rapid.Bool().Draw(rt, fmt.Sprintf("c%dErrWithData", i))
		if !vetoSafe {
			c.term = v06Term(rapid.IntRange(0, 5).Draw(rt, fmt.Sprintf("c%dTerm", i)))
		}
		c.termSeg = p.nSegs - 1
		if c.term != v06TNone {
			c.termSeg = rapid.IntRange(c.startSeg, p.nSegs-1).Draw(rt, fmt.Sprintf("c%dTermSeg", i))
		}
		size := func(name string, tw bool) int {
			n := sizeGen.Draw(rt, name)
			if tw && c.maxRead > 0 && c.maxRead < 1000 && n > 20000 {
				n = 1 + n%20000
			}
			if n > budget {
				n = 1 + n%4096
			}
			budget -= n
			if budget < 4096 {
				budget = 4096
			}
			return n
		}
		for s := c.startSeg; s <= c.termSeg; s++ {
			nOps := rapid.IntRange(0, 7).Draw(rt, fmt.Sprintf("c%dSeg%dOps", i, s))
			for k := 0; k < nOps; k++ {
				nm := fmt.Sprintf("c%dSeg%dOp%d", i, s, k)
				kmax := 7
				if p.smallWin > 0 && !vetoSafe {
					kmax = 9
				}
				switch kind := rapid.IntRange(0, kmax).Draw(rt, nm); kind {
				case 8:
					c.segs[s] = append(c.segs[s], v06Op{v06WDL, rapid.IntRange(5*p.smallWin, 8*p.smallWin).Draw(rt, nm+"WDL")})
					c.chunksC++
				case 9:
					c.segs[s] = append(c.segs[s], v06Op{v06RStall, rapid.IntRange(3*p.smallWin, 6*p.smallWin).Draw(rt, nm+"RStall")})
					c.chunksT++
				case 7:
					c.segs[s] = append(c.segs[s], v06Op{v06DL, rapid.IntRange(0, 3).Draw(rt, nm+"DL")})
				case 0, 1, 5:
					c.segs[s] = append(c.segs[s], v06Op{v06CW, size(nm+"Size", false)})
					c.chunksC++
				case 2, 3, 6:
					c.segs[s] = append(c.segs[s], v06Op{v06TW, size(nm+"Size", true)})
					c.chunksT++
				default:
					c.segs[s] = append(c.segs[s], v06Op{v06Sync, 0})
				}
			}
		}
		if c.term != v06TNone {
			if rapid.Bool().Draw(rt, fmt.Sprintf("c%dSyncBeforeTerm", i)) {
				c.segs[c.termSeg] = append(c.segs[c.termSeg], v06Op{v06Sync, 0})
			}
			nt := rapid.SampledFrom([]int{0, 0, 0, 1, 2}).Draw(rt, fmt.Sprintf("c%dTrailing", i))
			for k := 0; k < nt; k++ {
				nm := fmt.Sprintf("c%dTrail%d", i, k)
				if c.term == v06TClientClose {
					c.trailing = append(c.trailing, v06Op{v06TW, size(nm, true)})
				} else {
					c.trailing = append(c.trailing, v06Op{v06CW, size(nm, false)})
				}
			}
		}
		p.conns = append(p.conns, c)
	}
	// drawn last so that earlier draws keep their positions: server-speaks-first targets
	for i := range p.conns {
		c := &p.conns[i]
		if c.dialFail {
			continue
		}
		if rapid.IntRange(0, 4).Draw(rt, fmt.Sprintf("c%dBannerKind", i)) >= 3 {
			c.banner = rapid.OneOf(rapid.IntRange(1, 64), rapid.IntRange(1, 2000), rapid.SampledFrom([]int{1, 1200, 32768, 40000})).Draw(rt, fmt.Sprintf("c%dBanner", i))
			c.chunksT++
		}
	}
	return p
}

// ------------------------------------------------------------------ executor

type v06Run struct {
	w     *v06World
	p     *v06Plan
	st    *vStats
	conns []*v06Conn
	plans []*v06ConnPlan
}

func v06IsDialErr(err error, msg string) bool {
	var de coreErrs.DialError
	return errors.As(err, &de) && de.Message == msg
}

func v06Short(s string) string {
	if len(s) > 80 {
		return fmt.Sprintf("%q…(%d bytes)", s[:80], len(s))
	}
	return fmt.Sprintf("%q", s)
}

// unexpectedEnd: a relay ended although neither side closed, nothing failed and
// the user was not vetoed. If the user's QUIC connection still works the relay
// broke the stream ("the whole of it when ... before either side closes");
// otherwise the environment killed the connection.
func (r *v06Run) unexpectedEnd(c *v06Conn, what string) {
	w := r.w
	w.mu.Lock()
	vetoed := c.u.vetoed
	failed := w.fail != ""
	w.mu.Unlock()
	if vetoed || failed {
		return
	}
	switch res := w.probe(c.u, false); res {
	case "served":
		w.mu.Lock()
		if !c.u.vetoed {
			w.failLocked("%s: %s although neither endpoint closed or failed and the user's QUIC connection is alive: the relay ended on its own, bytes sent cannot all arrive", c.label, what)
		}
		w.mu.Unlock()
	default:
		w.mu.Lock()
		vetoed = c.u.vetoed
		state := w.stateLocked()
		w.mu.Unlock()
		if !vetoed {
			vInconclusive(fmt.Sprintf("C06: %s: %s and the user's connection is gone (%s); %s", c.label, what, res, state))
		}
	}
}

func (r *v06Run) open(c *v06Conn, cp *v06ConnPlan) bool {
	w := r.w
	type res struct {
		conn net.Conn
		err  error
	}
	ch := make(chan res, 1)
	go func() {
		conn, err := c.u.client.TCP(c.label)
		ch <- res{conn, err}
	}()
	var conn net.Conn
	var err error
	if cp.slowDial && !r.p.fastOpen {
		// without fast open Client.TCP waits for the response: let the dial finish
		if r.waitDialParked(c) {
			r.releaseDial(c)
		}
	}
	select {
	case x := <-ch:
		conn, err = x.conn, x.err
	case <-time.After(v06WaitLong):
		vInconclusive("C06: Client.TCP did not return in time for " + c.label)
	}
	if cp.slowDial {
		defer r.releaseDial(c)
	}
	if cp.dialFail {
		// S4
		if err != nil {
			if !v06IsDialErr(err, cp.msg) {
				w.mu.Lock()
				w.failLocked("%s: the outbound refused the dial with message %s but Client.TCP returned %T %v", c.label, v06Short(cp.msg), err, v06Short(err.Error()))
				w.mu.Unlock()
			}
			return false
		}
		if !r.p.fastOpen {
			w.mu.Lock()
			w.failLocked("%s: the outbound refused the dial (message %s) but Client.TCP returned a connection without fast open", c.label, v06Short(cp.msg))
			w.mu.Unlock()
			_ = conn.Close()
			return false
		}
		if cp.slowDial && cp.preDL >= 0 && r.waitDialParked(c) {
			// the server is still dialling: no response exists, a Read under an expired deadline can only time out
			r.setDeadline(conn, cp.preDL)
			n, rerr := conn.Read(make([]byte, 4096))
			var ne net.Error
			if n != 0 || !(errors.As(rerr, &ne) && ne.Timeout()) {
				w.mu.Lock()
				w.failLocked("%s (fast open): a Read under an expired deadline, before the server had answered the request, returned n=%d err=%T %v instead of a timeout and no bytes", c.label, n, rerr, v06Short(fmt.Sprint(rerr)))
				w.mu.Unlock()
			}
			_ = conn.SetDeadline(time.Time{})
			w.mu.Lock()
			w.evLocked("cliReadTimeout", c.label, int64(n), 0, "before the response existed; deadline cleared")
			w.mu.Unlock()
		}
		if cp.foWrite > 0 {
			buf := make([]byte, cp.foWrite)
			v06Fill(buf, c.saltC, 0)
			_, _ = conn.Write(buf) // may fail once the server has closed the stream; not part of the property
		}
		r.releaseDial(c)
		_ = conn.SetReadDeadline(time.Now().Add(v06WaitLong))
		n, rerr := conn.Read(make([]byte, 4096))
		var ne net.Error
		if errors.As(rerr, &ne) && ne.Timeout() {
			vInconclusive("C06: first Read on a fast-open connection did not return in time for " + c.label)
		}
		if n != 0 || !v06IsDialErr(rerr, cp.msg) {
			w.mu.Lock()
			w.failLocked("%s (fast open): the outbound refused the dial with message %s but the first Read returned n=%d err=%T %v", c.label, v06Short(cp.msg), n, rerr, v06Short(fmt.Sprint(rerr)))
			w.mu.Unlock()
		}
		_ = conn.Close()
		return false
	}
	if err != nil {
		w.mu.Lock()
		vetoed := c.u.vetoed
		if !vetoed && v06IsDialErrAny(err) {
			w.failLocked("%s: the outbound accepted the dial but Client.TCP returned %v", c.label, err)
		}
		w.mu.Unlock()
		if !vetoed && !v06IsDialErrAny(err) {
			vInconclusive("C06: Client.TCP failed for " + c.label + ": " + err.Error())
		}
		return false
	}
	w.mu.Lock()
	c.conn = conn
	w.mu.Unlock()
	w.readers.Add(1)
	go r.reader(c, conn, cp.readBuf)
	if cp.slowDial && r.p.fastOpen && r.waitDialParked(c) {
		// the reader is inside its first Read and the response cannot exist yet
		if cp.preDL >= 0 && !r.dlOp(c, cp.preDL) {
			return false
		}
		if cp.preCW > 0 && !r.step(c, v06Op{v06CW, cp.preCW}) {
			return false
		}
	}
	return true
}

// waitDialParked: true once the server is inside the parked Outbound.TCP of c.
func (r *v06Run) waitDialParked(c *v06Conn) bool {
	w := r.w
	w.mu.Lock()
	res := w.waitLocked(v06WaitLong, func() bool { return c.dialParked || c.u.vetoed })
	ok := c.dialParked
	state := w.stateLocked()
	w.mu.Unlock()
	if res == v06Timeout {
		vInconclusive("C06: the server never dialled " + c.label + ": " + state)
	}
	return res == v06Ok && ok
}

func (r *v06Run) releaseDial(c *v06Conn) {
	w := r.w
	w.mu.Lock()
	if !c.dialReleased {
		c.dialReleased = true
		w.evLocked("dialRelease", c.label, 0, 0, "")
		w.cond.Broadcast()
	}
	w.mu.Unlock()
}

func (r *v06Run) setDeadline(conn net.Conn, variant int) {
	t := time.Now().Add(-time.Second)
	if variant&2 != 0 {
		t = time.Now().Add(3 * time.Millisecond)
	}
	if variant&1 != 0 {
		_ = conn.SetDeadline(t)
	} else {
		_ = conn.SetReadDeadline(t)
	}
	if variant&2 != 0 {
		time.Sleep(4 * time.Millisecond) // only to get past the deadline; nothing is concluded from elapsed time
	}
}

// wdlOp: the target stops taking bytes, so the server's copy blocks and QUIC flow
// control fills up; the client calls Write(n bytes) with a write deadline a few
// ms ahead. Per io.Writer the returned count k is exactly what was accepted: the
// model counts k bytes as sent. The deadline is cleared, the target resumes and
// the client writes the rest from offset k (the usual resume-after-timeout
// idiom). S1/S2 stay as they are: a byte accepted twice or not at all shows.
func (r *v06Run) wdlOp(c *v06Conn, n int) bool {
	w := r.w
	buf := make([]byte, n)
	w.mu.Lock()
	if w.fail != "" || c.u.vetoed {
		w.mu.Unlock()
		return false
	}
	c.tStall = true
	off := c.cSent
	c.cSent += int64(n) // upper bound while the Write is running
	w.evLocked("tgtStall", c.label, 0, c.tRecv, "")
	w.evLocked("cliWrite", c.label, int64(n), c.cSent, "under a write deadline 5ms ahead")
	w.mu.Unlock()
	unstall := func() {
		w.mu.Lock()
		if c.tStall {
			c.tStall = false
			w.evLocked("tgtResume", c.label, 0, c.tRecv, "")
			w.cond.Broadcast()
		}
		w.mu.Unlock()
	}
	defer unstall()
	v06Fill(buf, c.saltC, off)
	_ = c.conn.SetWriteDeadline(time.Now().Add(5 * time.Millisecond))
	k, err := c.conn.Write(buf)
	_ = c.conn.SetWriteDeadline(time.Time{})
	var ne net.Error
	timedOut := err != nil && errors.As(err, &ne) && ne.Timeout()
	w.mu.Lock()
	if k < 0 || k > n {
		w.failLocked("%s: Write of %d bytes returned count %d", c.label, n, k)
		k = 0
	}
	c.cSent = off + int64(k) // exactly what Write reported as accepted
	note := "complete"
	if err != nil {
		note = fmt.Sprintf("%T timeout=%v", err, timedOut)
	}
	w.evLocked("cliWriteRet", c.label, int64(k), c.cSent, note)
	term := c.terminated
	w.mu.Unlock()
	switch {
	case err == nil:
		r.st.Class("write-deadline:completed-before-deadline")
		return true
	case !timedOut:
		if !term {
			r.unexpectedEnd(c, "client Write under a write deadline failed ("+err.Error()+")")
		}
		return false
	}
	if k > 0 {
		r.st.Class("write-deadline:partial")
	} else {
		r.st.Class("write-deadline:nothing-accepted")
	}
	unstall()
	if k == n {
		return true
	}
	return r.step(c, v06Op{v06CW, n - k})
}

// dlOp: the application sets a read deadline (in the past / shortly ahead), a
// Read of the client conn times out, the deadline is cleared again. Bytes that
// arrive with or around the timeout are ordinary receipts (S1/L1 apply).
func (r *v06Run) dlOp(c *v06Conn, variant int) bool {
	w := r.w
	w.mu.Lock()
	if w.fail != "" || c.u.vetoed || c.readerDone || c.conn == nil {
		ok := w.fail == "" && !c.u.vetoed
		w.mu.Unlock()
		return ok
	}
	t0 := c.timeouts
	conn := c.conn
	w.evLocked("cliDeadline", c.label, 0, 0, v06DLNames[variant&3])
	w.mu.Unlock()
	r.st.Class("deadline-op:executed")
	r.setDeadline(conn, variant)
	w.mu.Lock()
	res := w.waitLocked(v06WaitLong, func() bool { return c.timeouts > t0 || c.readerDone || c.u.vetoed })
	state := w.stateLocked()
	w.mu.Unlock()
	_ = conn.SetDeadline(time.Time{})
	w.mu.Lock()
	c.dlGen++
	w.evLocked("cliDeadline", c.label, 0, 0, "cleared")
	w.cond.Broadcast()
	vetoed := c.u.vetoed
	w.mu.Unlock()
	if res == v06Timeout {
		vInconclusive("C06: a Read under an expired deadline did not return for " + c.label + ": " + state)
	}
	return res == v06Ok && !vetoed
}

func v06IsDialErrAny(err error) bool {
	var de coreErrs.DialError
	return errors.As(err, &de)
}

// reader drains the client side and checks S1 + L1 at every receipt.
func (r *v06Run) reader(c *v06Conn, conn net.Conn, bufSize int) {
	defer r.w.readers.Done()
	w := r.w
	buf := make([]byte, bufSize)
	exp := make([]byte, bufSize)
	var off int64
	for {
		w.mu.Lock()
		for c.rStall && !w.ended && w.fail == "" {
			w.cond.Wait()
		}
		w.mu.Unlock()
		n, err := conn.Read(buf)
		if n > 0 {
			v06Fill(exp[:n], c.saltT, off)
			d := -1
			if string(exp[:n]) != string(buf[:n]) {
				d = v06FirstDiff(exp[:n], buf[:n])
			}
			w.mu.Lock()
			w.evLocked("cliRead", c.label, int64(n), off+int64(n), "")
			if off+int64(n) > c.handed {
				w.failLocked("client of %s received %d bytes but the server took only %d from the target: bytes injected or duplicated", c.label, off+int64(n), c.handed)
			} else if d >= 0 {
				w.failLocked("client of %s received bytes that are not the continuation of what the target sent (at stream offset %d, read of %d, first difference at +%d)", c.label, off, n, d)
			}
			off += int64(n)
			c.cRecv = off
			c.u.recvRx += int64(n)
			if w.hasLogger && c.u.recvRx > c.u.apprRx {
				w.failLocked("%s: client connections have received %d bytes but the logger approved only %d rx bytes so far", c.u.id, c.u.recvRx, c.u.apprRx)
			}
			w.cond.Broadcast()
			w.mu.Unlock()
		}
		var ne net.Error
		if err != nil && errors.As(err, &ne) && ne.Timeout() {
			w.mu.Lock()
			c.timeouts++
			gen := c.dlGen
			w.evLocked("cliReadTimeout", c.label, int64(n), off, "")
			w.cond.Broadcast()
			// wait until the application (the harness op) cleared the deadline
			for c.dlGen == gen && !w.ended && w.fail == "" {
				w.cond.Wait()
			}
			stop := w.fail != "" && c.dlGen == gen
			w.mu.Unlock()
			if !stop {
				continue
			}
		}
		if err != nil {
			w.mu.Lock()
			c.readerDone, c.readerErr = true, err
			w.evLocked("cliReadEnd", c.label, 0, off, fmt.Sprintf("%T", err))
			w.cond.Broadcast()
			w.mu.Unlock()
			return
		}
	}
}

// step runs one op; false = this connection stops executing its list.
func (r *v06Run) step(c *v06Conn, op v06Op) bool {
	w := r.w
	switch op.kind {
	case v06CW:
		buf := make([]byte, op.n)
		w.mu.Lock()
		if w.fail != "" || c.u.vetoed {
			w.mu.Unlock()
			return false
		}
		off := c.cSent
		c.cSent += int64(op.n)
		w.evLocked("cliWrite", c.label, int64(op.n), c.cSent, "")
		w.mu.Unlock()
		v06Fill(buf, c.saltC, off)
		_, err := c.conn.Write(buf)
		if err != nil {
			w.mu.Lock()
			term := c.terminated
			w.evLocked("cliWriteErr", c.label, 0, 0, fmt.Sprintf("%T", err))
			w.mu.Unlock()
			if !term {
				r.unexpectedEnd(c, "client Write failed ("+err.Error()+")")
			}
			return false
		}
		return true
	case v06TW:
		w.mu.Lock()
		defer w.mu.Unlock()
		if w.fail != "" || c.u.vetoed {
			return false
		}
		c.tSent += int64(op.n)
		w.evLocked("tgtWrite", c.label, int64(op.n), c.tSent, "")
		w.cond.Broadcast()
		return true
	case v06WDL:
		return r.wdlOp(c, op.n)
	case v06RStall:
		w.mu.Lock()
		if w.fail != "" || c.u.vetoed {
			w.mu.Unlock()
			return false
		}
		c.rStall = true
		c.tSent += int64(op.n)
		w.evLocked("cliReadPause", c.label, int64(op.n), c.tSent, "target writes meanwhile")
		w.cond.Broadcast()
		w.mu.Unlock()
		time.Sleep(3 * time.Millisecond) // lets the server run into flow control; nothing is concluded from it
		w.mu.Lock()
		c.rStall = false
		w.evLocked("cliReadResume", c.label, 0, c.cRecv, "")
		w.cond.Broadcast()
		w.mu.Unlock()
		return true
	case v06DL:
		// with fast open the response must have been consumed (a payload byte was read): a deadline that
		// expires in the middle of the response frame is outside what the statement quantifies over
		w.mu.Lock()
		skip := r.p.fastOpen && c.cRecv == 0
		w.mu.Unlock()
		if skip {
			r.st.Class("deadline-op:skipped(fast open, nothing read yet)")
			return true
		}
		return r.dlOp(c, op.n)
	default:
		return r.syncConn(c, "sync op")
	}
}

// stall is the one exit of every liveness wait that is about bytes in transit:
// the wait (v06WaitLong) expired. If bytes the sender wrote successfully before
// either side closed are missing, a WITNESS decides between "the environment is
// stuck" and "the relay lost them": a fresh proxied connection of the SAME client
// (same QUIC connection, same server) does a small round trip in both
// directions. Witness fails -> inconclusive (environment). Witness completes and
// the bytes are still missing -> violation of "the whole of it when the sender
// finishes writing before either side closes": the same connection and server
// demonstrably moved fresh bytes both ways while the old ones, written at least
// v06WaitLong earlier, never arrived. Never returns "ok".
func (r *v06Run) stall(c *v06Conn, what string) {
	w := r.w
	w.mu.Lock()
	// nothing may park the witness
	if w.park != nil {
		w.park.armed = false
	}
	if w.elPark != nil {
		w.elPark.armed = false
	}
	missC, missT := c.cSent-c.tRecv, c.tSent-c.cRecv
	eligible := w.fail == "" && !c.terminated && !c.u.vetoed && !c.sClosed && !c.readerDone && c.conn != nil && (missC > 0 || missT > 0)
	state := w.stateLocked() + " history: " + w.histLocked()
	failed := w.fail != ""
	w.witnessN++
	wn := w.witnessN
	w.evLocked("stall", c.label, missC, missT, what)
	w.mu.Unlock()
	if failed {
		return // a violation is already recorded: report that one
	}
	if !eligible {
		vInconclusive(fmt.Sprintf("C06: %s of %s within %v and no bytes written before a close are missing on a live relay: %s", what, c.label, v06WaitLong, state))
	}
	r.st.Class("stall:witness-started")
	fmt.Printf("C06-STALL %s: %s; %d client bytes / %d target bytes missing after %v; running a witness on the same QUIC connection\n", c.label, what, missC, missT, v06WaitLong)
	wc := w.addConnLive(c.u, 900+wn, v06WinSalt(900+wn, 5), v06WinSalt(900+wn, 6))
	if !r.open(wc, &v06ConnPlan{readBuf: 4096, preDL: -1}) {
		v06GiveUp(w, "C06: stall witness could not be opened for "+c.label+": "+state)
		return
	}
	wwait := func(what2 string, pred func() bool) bool {
		w.mu.Lock()
		res := w.waitLocked(20*time.Second, pred)
		w.mu.Unlock()
		if res == v06Timeout {
			vInconclusive("C06: stall witness: " + what2 + " (the environment is not responsive); original stall: " + what + " of " + c.label + ": " + state)
		}
		return res == v06Ok
	}
	// write only after the server parsed the request and dialled; answer only after the upload leg completed
	if !wwait("the server did not dial the witness target", func() bool { return wc.established }) {
		return
	}
	if !r.step(wc, v06Op{v06CW, 200}) || !wwait("witness upload did not arrive", func() bool { return wc.tRecv == wc.cSent }) {
		v06GiveUp(w, "C06: stall witness upload failed for "+c.label)
		return
	}
	if !r.step(wc, v06Op{v06TW, 200}) || !wwait("witness download did not arrive", func() bool { return wc.cRecv == wc.tSent }) {
		v06GiveUp(w, "C06: stall witness download failed for "+c.label)
		return
	}
	w.mu.Lock()
	missC2, missT2 := c.cSent-c.tRecv, c.tSent-c.cRecv
	still := !c.terminated && !c.u.vetoed && !c.sClosed && !c.readerDone && (missC2 > 0 || missT2 > 0)
	if still {
		side, other, n := "the client", "the target", missC2
		if missC2 <= 0 {
			side, other, n = "the target", "the client", missT2
		}
		r.st.Class("stall:witnessed-violation")
		w.failLocked("%s: %s: %d bytes written by %s at least %v ago, before either side closed, never reached %s, although the same QUIC connection and server served a fresh relay (%s: 200 bytes up, 200 bytes down) meanwhile: the relay lost them", c.label, what, n, side, v06WaitLong, other, wc.label)
	}
	state2 := w.stateLocked()
	w.mu.Unlock()
	_ = wc.conn.Close()
	if !still {
		v06GiveUp(w, fmt.Sprintf("C06: %s of %s took longer than %v but the bytes arrived during the witness: %s", what, c.label, v06WaitLong, state2))
	}
}

// v06GiveUp ends the process as inconclusive unless a violation is already on
// record (another connection of the case may have found one meanwhile).
func v06GiveUp(w *v06World, msg string) {
	if w.failed() != "" {
		return
	}
	vInconclusive(msg)
}

// syncConn = S2. false: the connection cannot continue (veto, failure).
func (r *v06Run) syncConn(c *v06Conn, where string) bool {
	w := r.w
	w.mu.Lock()
	res := w.waitLocked(v06WaitLong, func() bool {
		return (c.tRecv == c.cSent && c.cRecv == c.tSent) || c.u.vetoed || c.sClosed || c.readerDone
	})
	synced := c.tRecv == c.cSent && c.cRecv == c.tSent
	vetoed, ended := c.u.vetoed, c.sClosed || c.readerDone
	state := ""
	if res == v06Timeout {
		state = w.stateLocked()
	}
	if res == v06Ok && synced {
		w.evLocked("synced", c.label, c.tRecv, c.cRecv, where)
	}
	w.mu.Unlock()
	switch {
	case res == v06Aborted:
		return false
	case res == v06Timeout:
		_ = state
		r.stall(c, where+" did not complete")
		return false
	case synced:
		return true
	case vetoed:
		return false
	case ended:
		r.unexpectedEnd(c, "the relay ended (server closed the target conn or the client stream ended) during "+where)
		return false
	}
	return false
}

// terminate runs the connection's terminal event, S3 and the trailing writes.
func (r *v06Run) terminate(c *v06Conn, cp *v06ConnPlan) {
	w := r.w
	trailing := len(cp.trailing) > 0
	if cp.term == v06TClientClose {
		w.mu.Lock()
		if w.fail != "" {
			w.mu.Unlock()
			return
		}
		quiet := !trailing && c.cRecv == c.tSent
		c.terminated = true
		c.u.termCount++
		c.u.rxUnbounded = true
		w.evLocked("cliClose", c.label, c.cSent, c.cRecv, fmt.Sprintf("quiet=%v", quiet))
		w.mu.Unlock()
		r.st.Class(fmt.Sprintf("clientClose:quiet=%v", quiet))
		_ = c.conn.Close()
		for _, op := range cp.trailing {
			w.mu.Lock()
			c.tSent += int64(op.n)
			w.evLocked("tgtWrite", c.label, int64(op.n), c.tSent, "after client close")
			w.cond.Broadcast()
			w.mu.Unlock()
		}
		w.mu.Lock()
		res := w.waitLocked(v06WaitLong, func() bool { return c.sClosed })
		if res == v06Ok && quiet && c.tRecv != c.cSent {
			w.failLocked("%s: the client wrote %d bytes and then closed while the opposite direction was idle, but the relay ended after delivering only %d to the target: the tail was dropped", c.label, c.cSent, c.tRecv)
		}
		state := w.stateLocked()
		w.mu.Unlock()
		if res == v06Timeout {
			v06GiveUp(w, "C06: the server did not end the relay within the deadline after the client closed "+c.label+": "+state)
		}
		return
	}
	// target-side terminal events
	w.mu.Lock()
	if w.fail != "" {
		w.mu.Unlock()
		return
	}
	quiet := !trailing && c.tRecv == c.cSent
	c.terminated = true
	c.u.termCount++
	switch cp.term {
	case v06TTargetClose:
		c.tEOF, c.tGone = true, true
	case v06TTargetShut:
		c.tEOF = true
	case v06TTargetErr:
		c.tErr, c.tGone = v06ErrTargetRST, true
	case v06TTargetErrDrop:
		c.tErr, c.tGone = v06ErrTargetRST, true
		c.tSent = c.handed // queued bytes are lost with the reset; "sent" = what the server could take
	}
	w.evLocked("tgt:"+v06TermNames[cp.term], c.label, c.tSent, c.tRecv, fmt.Sprintf("quiet=%v", quiet))
	w.cond.Broadcast()
	w.mu.Unlock()
	r.st.Class(fmt.Sprintf("%s:quiet=%v", v06TermNames[cp.term], quiet))
	for _, op := range cp.trailing {
		buf := make([]byte, op.n)
		w.mu.Lock()
		off := c.cSent
		c.cSent += int64(op.n)
		w.evLocked("cliWrite", c.label, int64(op.n), c.cSent, "after target end")
		w.mu.Unlock()
		v06Fill(buf, c.saltC, off)
		if _, err := c.conn.Write(buf); err != nil {
			break
		}
	}
	w.mu.Lock()
	res := w.waitLocked(v06WaitLong, func() bool { return c.readerDone })
	if res == v06Ok && quiet && c.cRecv != c.tSent {
		w.failLocked("%s: the target wrote %d bytes and then ended (%s) while the opposite direction was idle, but the client stream ended (%v) after only %d: the tail was dropped", c.label, c.tSent, v06TermNames[cp.term], c.readerErr, c.cRecv)
	}
	state := w.stateLocked()
	w.mu.Unlock()
	if res == v06Timeout {
		v06GiveUp(w, "C06: the client stream did not end within the deadline after the target ended "+c.label+": "+state)
	}
	_ = c.conn.Close()
}

// settle = barrier between segments: sync every live relay, then L2.
func (r *v06Run) settle(where string) {
	w := r.w
	for i, c := range r.conns {
		cp := r.plans[i]
		w.mu.Lock()
		live := c.conn != nil && !cp.dialFail && !c.terminated && !c.stopped
		w.mu.Unlock()
		if live {
			if !r.syncConn(c, where) {
				w.mu.Lock()
				c.stopped = true
				w.mu.Unlock()
			}
		}
	}
	if !w.hasLogger {
		return
	}
	w.mu.Lock()
	defer w.mu.Unlock()
	if w.fail != "" {
		return
	}
	for _, u := range w.users {
		// a connection that stopped for an unexplained reason already produced a verdict; skip users in flux
		slackRelays := int64(u.termCount)
		if u.vetoed {
			slackRelays = int64(u.relays)
		}
		slack := w.chunkMax * slackRelays
		dTx, dRx := u.logTx-u.recvTx, u.logRx-u.recvRx
		w.evLocked("account", u.id, dTx, dRx, where)
		if dTx < 0 || dTx > slack {
			w.failLocked("%s at %s: %d tx bytes were handed to the traffic logger but the targets received %d (difference %d; allowed 0..%d = one %d-byte chunk for each of %d torn-down relays)", u.id, where, u.logTx, u.recvTx, dTx, slack, w.chunkMax, slackRelays)
		}
		if dRx < 0 || (!u.rxUnbounded && !u.vetoed && dRx > slack) {
			w.failLocked("%s at %s: %d rx bytes were handed to the traffic logger but the client connections received %d (difference %d; allowed 0..%d = one %d-byte chunk for each of %d torn-down relays)", u.id, where, u.logRx, u.recvRx, dRx, slack, w.chunkMax, slackRelays)
		}
	}
}

// afterVeto = L3 for the vetoed user.
func (r *v06Run) afterVeto(u *v06User) {
	w := r.w
	p := r.p
	w.mu.Lock()
	fired := u.vetoed
	w.mu.Unlock()
	if !fired {
		// the scripted call number was not reached by the drawn ops: keep one relay busy until it is
		var c *v06Conn
		for i, x := range r.conns {
			if x.u == u && x.conn != nil && !r.plans[i].dialFail {
				c = x
				break
			}
		}
		if c == nil {
			vInconclusive("C06: veto case without an open connection of the vetoed user")
		}
		r.st.Class("veto:top-up")
		for i := 0; i < p.vetoAt+4; i++ {
			op := v06Op{v06TW, 777}
			if p.topUpTx {
				op.kind = v06CW
			}
			if !r.step(c, op) {
				break
			}
			if !r.syncConn(c, "veto top-up") {
				break
			}
		}
	} else {
		r.st.Class("veto:during-ops")
	}
	w.mu.Lock()
	if w.fail != "" {
		w.mu.Unlock()
		return
	}
	if !u.vetoed {
		state := w.stateLocked()
		w.mu.Unlock()
		vInconclusive("C06: the scripted veto never fired: " + state)
		return
	}
	// the vetoed relay's handler finishing is the last thing the server does for it;
	// by then the server must have closed the user's connection
	res := w.waitLocked(v06WaitLong, func() bool { return u.untracedAfter })
	state := w.stateLocked()
	w.mu.Unlock()
	if res == v06Aborted {
		return
	}
	if res == v06Timeout {
		vInconclusive("C06: no stream of the vetoed user was released by the server within the deadline: " + state)
	}
	deadline := time.Now().Add(v06WaitLong)
	for {
		out := w.probe(u, true)
		if w.failed() != "" {
			return
		}
		if out == "closed" {
			break
		}
		if out == "served" {
			w.mu.Lock()
			w.failLocked("%s was vetoed (%s) and the vetoed relay's handler finished, but a later Client.TCP was still served: the veto did not close the user's connection", u.id, u.vetoNote)
			w.mu.Unlock()
			return
		}
		if time.Now().After(deadline) {
			vInconclusive("C06: Client.TCP of the vetoed user never reported ClosedError: last result " + out)
		}
		time.Sleep(2 * time.Millisecond)
	}
	w.mu.Lock()
	if u.recvTx > u.apprTx || u.recvRx > u.apprRx {
		w.failLocked("%s after the veto: delivered tx=%d rx=%d exceeds approved tx=%d rx=%d", u.id, u.recvTx, u.recvRx, u.apprTx, u.apprRx)
	}
	w.mu.Unlock()
}

func v06RunPlan(p *v06Plan, st *vStats) string {
	rand.Seed(p.randSeed)
	w := v06NewWorld()
	w.hasLogger, w.fastOpen, w.hasEL, w.smallWin = p.logger, p.fastOpen, p.eventLogger, p.smallWin
	for i := 0; i < p.nUsers; i++ {
		if i == p.vetoUser {
			w.addUser(p.vetoAt, p.sticky)
		} else {
			w.addUser(0, false)
		}
	}
	r := &v06Run{w: w, p: p, st: st}
	for i := range p.conns {
		cp := &p.conns[i]
		c := w.addConn(w.users[cp.user], i, cp.saltC, cp.saltT)
		c.dialFail, c.dialMsg = cp.dialFail, cp.msg
		c.maxRead, c.errWithData = cp.maxRead, cp.errWithData
		c.slowDial = cp.slowDial
		c.tSent = int64(cp.banner)
		r.conns = append(r.conns, c)
		r.plans = append(r.plans, cp)
	}
	w.start()
	defer w.stop()

	for seg := 0; seg < p.nSegs; seg++ {
		var wg sync.WaitGroup
		for i := range r.conns {
			c, cp := r.conns[i], r.plans[i]
			w.mu.Lock()
			skip := seg < cp.startSeg || c.stopped
			w.mu.Unlock()
			if skip {
				continue
			}
			wg.Add(1)
			go func() {
				defer wg.Done()
				stop := func() {
					w.mu.Lock()
					c.stopped = true
					w.mu.Unlock()
				}
				if seg == cp.startSeg {
					if !r.open(c, cp) {
						stop()
						return
					}
				}
				for _, op := range cp.segs[seg] {
					if !r.step(c, op) {
						stop()
						return
					}
				}
				if cp.term != v06TNone && seg == cp.termSeg {
					r.terminate(c, cp)
					stop()
				}
			}()
		}
		wg.Wait()
		if w.failed() != "" {
			return w.failed()
		}
		r.settle(fmt.Sprintf("barrier after segment %d", seg))
		if w.failed() != "" {
			return w.failed()
		}
	}
	if p.vetoUser >= 0 {
		r.afterVeto(w.users[p.vetoUser])
		if w.failed() != "" {
			return w.failed()
		}
		r.settle("final barrier after the veto")
	}
	if f := w.failed(); f != "" {
		return f
	}
	// users that were not vetoed must still be able to open connections
	for _, u := range w.users {
		if u.idx == p.vetoUser {
			continue
		}
		var out string
		for try := 0; try < 3; try++ {
			out = w.probe(u, false)
			if out == "served" || out == "closed" {
				break
			}
		}
		switch {
		case out == "served":
		case out == "closed" && p.vetoUser >= 0:
			w.mu.Lock()
			w.failLocked("%s was never vetoed but its connection is closed after the veto of user-%d", u.id, p.vetoUser)
			w.mu.Unlock()
		default:
			w.mu.Lock()
			state := w.stateLocked()
			w.mu.Unlock()
			vInconclusive("C06: final probe of " + u.id + " failed (" + out + "): " + state)
		}
	}
	return w.failed()
}

func TestVerifC06_Relay(t *testing.T) {
	st := newVStats("TestVerifC06_Relay")
	defer st.Flush()
	st.Extra("copy_buffer_bytes", v06ChunkMax())
	rapid.Check(t, func(rt *rapid.T) {
		p := v06GenPlan(rt)
		st.Case(p.nontrivial(), p.fingerprint(), p.classes(), p.String)
		if f := v06RunPlan(p, st); f != "" {
			rt.Fatalf("C06: %s\n  plan: %s", f, p.String())
		}
	})
}
