package server

// C06 — "a veto ... closes that user's connection", at the one point the
// generated histories of TestVerifC06_Relay deliberately keep away from: the
// logger vetoes a chunk of one direction while the OTHER direction of the same
// relay finishes (its endpoint closed) — "every point at which the logger
// vetoes" in the quantifier includes this one.
//
// The history is made deterministic with a yield point inside the fake
// LogTraffic (called by the relay without any lock held): the call is parked,
// the other endpoint closes, the harness waits until the server released the
// stream (UntraceStream, the last thing the handler does), then the parked call
// returns false.
//
// Oracles: (a) nothing of the vetoed chunk is delivered (the receiver's total
// stays at the approved bytes); (b) the user's connection gets closed. (b) is a
// liveness claim; the harness turns it into a decision this way: after the
// veto returned it keeps asking the same client for new proxied connections.
// ClosedError = pass. It reports a violation only if requests are still being
// SERVED by the server for v06VetoGrace after the veto returned (the relay
// closes the connection within microseconds of the verdict when it does so at
// all; the server is demonstrably scheduled during the whole grace period,
// because it answers the probes).

import (
	"fmt"
	"testing"
	"time"

	"pgregory.net/rapid"
)

const v06VetoGrace = 4 * time.Second

type v06RaceCase struct {
	name     string
	fastOpen bool
	vetoTx   bool // true: the client's chunk is vetoed while the target closes; false: the target's chunk is vetoed while the client closes
	chunk    int
	warmC    int // bytes exchanged (and synced) before, client->target
	warmT    int
}

func v06RunRace(rc v06RaceCase, st *vStats) string {
	w := v06NewWorld()
	w.hasLogger, w.fastOpen = true, rc.fastOpen
	u := w.addUser(0, false)
	c := w.addConn(u, 0, 0x1111, 0x2222)
	p := &v06Plan{fastOpen: rc.fastOpen, logger: true, nUsers: 1, nSegs: 1, vetoUser: -1}
	cp := &v06ConnPlan{readBuf: 32768}
	r := &v06Run{w: w, p: p, st: st, conns: []*v06Conn{c}, plans: []*v06ConnPlan{cp}}
	w.start()
	defer w.stop()
	if !r.open(c, cp) {
		return w.failed()
	}
	if rc.warmC > 0 && !r.step(c, v06Op{v06CW, rc.warmC}) {
		return w.failed()
	}
	if rc.warmT > 0 && !r.step(c, v06Op{v06TW, rc.warmT}) {
		return w.failed()
	}
	if !r.syncConn(c, "warm-up sync") {
		return w.failed()
	}
	pk := &v06Park{user: u.id, wantTx: rc.vetoTx, armed: true, parkedCh: make(chan struct{}), release: make(chan bool, 1), returned: make(chan struct{})}
	w.mu.Lock()
	w.park = pk
	w.mu.Unlock()
	// the chunk that will be vetoed
	if rc.vetoTx {
		if !r.step(c, v06Op{v06CW, rc.chunk}) {
			return w.failed()
		}
	} else {
		r.step(c, v06Op{v06TW, rc.chunk})
	}
	select {
	case <-pk.parkedCh:
	case <-time.After(v06WaitLong):
		r.stall(c, "the relay never asked the logger about the chunk")
		return w.failed()
	}
	// the other direction ends while the verdict is pending
	w.mu.Lock()
	c.terminated = true
	u.termCount++
	if rc.vetoTx {
		c.tEOF = true // target: shutdown(WR), it would still accept bytes
		w.evLocked("tgt:targetShutWr", c.label, c.tSent, c.tRecv, "while a tx verdict is pending")
	} else {
		u.rxUnbounded = true
		w.evLocked("cliClose", c.label, c.cSent, c.cRecv, "while an rx verdict is pending")
	}
	w.cond.Broadcast()
	w.mu.Unlock()
	if !rc.vetoTx {
		_ = c.conn.Close()
	}
	w.mu.Lock()
	res := w.waitLocked(v06WaitLong, func() bool { return c.sClosed && len(w.traces) == 0 })
	state := w.stateLocked()
	w.mu.Unlock()
	if res == v06Timeout {
		vInconclusive("C06 veto race: the server did not finish the relay after the other side ended: " + state)
	}
	if res == v06Aborted {
		return w.failed()
	}
	// now the logger vetoes the pending chunk
	pk.release <- false
	select {
	case <-pk.returned:
	case <-time.After(v06WaitLong):
		vInconclusive("C06 veto race: parked LogTraffic did not return")
	}
	vetoReturned := time.Now()
	w.mu.Lock()
	vetoHist := w.histLocked()
	w.mu.Unlock()
	served := 0
	var lastServed time.Duration
	for {
		out := w.probe(u, false)
		if f := w.failed(); f != "" {
			return f
		}
		el := time.Since(vetoReturned)
		if out == "closed" {
			break
		}
		if out == "served" {
			served++
			lastServed = el
		}
		if el > v06VetoGrace {
			if served >= 10 && lastServed > v06VetoGrace*3/4 {
				w.mu.Lock()
				w.failLocked("%s: LogTraffic vetoed a %d-byte %s chunk of %s at a moment when the other direction of that relay had just finished (%s); the chunk was not forwarded, but the user's connection was NOT closed: %d new requests were served during the %v after the veto returned\n  history up to the veto: %s\n  then", u.id, rc.chunk, map[bool]string{true: "tx", false: "rx"}[rc.vetoTx], c.label, map[bool]string{true: "target shut down its write side", false: "client closed its connection"}[rc.vetoTx], served, v06VetoGrace, vetoHist)
				w.mu.Unlock()
				return w.failed()
			}
			vInconclusive(fmt.Sprintf("C06 veto race: neither ClosedError nor a steady stream of served probes (served=%d last=%v, last result %s)", served, lastServed, out))
		}
		time.Sleep(20 * time.Millisecond)
	}
	w.mu.Lock()
	defer w.mu.Unlock()
	if u.recvTx > u.apprTx || u.recvRx > u.apprRx {
		w.failLocked("%s: delivered tx=%d rx=%d exceeds approved tx=%d rx=%d after the veto", u.id, u.recvTx, u.recvRx, u.apprTx, u.apprRx)
	}
	return w.fail
}

func TestVerifC06_VetoRacingClose(t *testing.T) {
	st := newVStats("TestVerifC06_VetoRacingClose")
	defer st.Flush()
	sizes := rapid.OneOf(rapid.IntRange(1, 5000), rapid.SampledFrom([]int{1, 32767, 32768, 32769, 65536}), rapid.IntRange(1, 100000))
	rapid.Check(t, func(rt *rapid.T) {
		rc := v06RaceCase{
			fastOpen: rapid.Bool().Draw(rt, "fastOpen"),
			vetoTx:   rapid.Bool().Draw(rt, "vetoTx"),
			chunk:    sizes.Draw(rt, "chunk"),
		}
		if rapid.Bool().Draw(rt, "warm") {
			rc.warmC = sizes.Draw(rt, "warmC")
			rc.warmT = sizes.Draw(rt, "warmT")
		}
		if rc.vetoTx {
			rc.name = "tx chunk awaiting its verdict while the target shuts down its write side"
		} else {
			rc.name = "rx chunk awaiting its verdict while the client closes"
		}
		st.Case(true, fmt.Sprintf("%v/%v/%s/%s/%s", rc.fastOpen, rc.vetoTx, v06SizeClass(rc.chunk), v06SizeClass(rc.warmC), v06SizeClass(rc.warmT)),
			[]string{fmt.Sprintf("vetoTx:%v", rc.vetoTx), fmt.Sprintf("fastopen:%v", rc.fastOpen), fmt.Sprintf("warm:%v", rc.warmC > 0)},
			func() string { return fmt.Sprintf("%+v", rc) })
		if f := v06RunRace(rc, st); f != "" {
			rt.Fatalf("C06: %s: %s\n  case: %+v", rc.name, f, rc)
		}
	})
}
