package server

// Shared end-to-end helpers for C01 (and reused by C02 through file_prefixes):
//
//   * one REAL server per case (NewServer on a loopback UDP socket, go Serve()),
//     configured with harness fakes for Authenticator / Outbound / EventLogger /
//     TrafficLogger / MasqHandler that all append to ONE sequence-numbered,
//     mutex-protected event log;
//   * raw clients: a quic-go connection (ALPN h3, datagrams on) on its own UDP
//     socket, an http3 client conn for requests, raw bidirectional streams and
//     raw datagrams written with the harness's OWN encoders (written from
//     PROTOCOL.md, nothing from core/internal/protocol is used to encode).
//
// Every request address ("c<i>-op<k>...") and every auth token ("tok#c<i>-op<k>")
// embeds the connection index and op number, so each log entry can be attributed
// to the connection that caused it.

import (
	"bytes"
	"context"
	"crypto/ecdsa"
	"crypto/elliptic"
	crand "crypto/rand"
	"crypto/tls"
	"crypto/x509"
	"crypto/x509/pkix"
	"errors"
	"fmt"
	"io"
	"math/big"
	"net"
	"net/http"
	"net/url"
	"strconv"
	"strings"
	"sync"
	"time"

	"github.com/apernet/quic-go"
	"github.com/apernet/quic-go/http3"
)

const (
	v01DialTimeout = 20 * time.Second
	v01ReqTimeout  = 20 * time.Second
	v01Grace       = 30 * time.Millisecond
	v01StatusHyOK  = 233 // PROTOCOL.md: "HTTP status code 233"
)

// ---------------------------------------------------------------- TLS

var (
	v01CertOnce sync.Once
	v01Cert     tls.Certificate
	v01CertErr  error
)

func v01ServerCert() tls.Certificate {
	v01CertOnce.Do(func() {
		key, err := ecdsa.GenerateKey(elliptic.P256(), crand.Reader)
		if err != nil {
			v01CertErr = err
			return
		}
		tmpl := &x509.Certificate{
			SerialNumber: big.NewInt(20260922),
			Subject:      pkix.Name{CommonName: "verif.test"},
			NotBefore:    time.Now().Add(-time.Hour),
			NotAfter:     time.Now().Add(240 * time.Hour),
			KeyUsage:     x509.KeyUsageDigitalSignature,
			ExtKeyUsage:  []x509.ExtKeyUsage{x509.ExtKeyUsageServerAuth},
			DNSNames:     []string{"localhost", "verif.test"},
			IPAddresses:  []net.IP{net.IPv4(127, 0, 0, 1)},
		}
		der, err := x509.CreateCertificate(crand.Reader, tmpl, tmpl, &key.PublicKey, key)
		if err != nil {
			v01CertErr = err
			return
		}
		v01Cert = tls.Certificate{Certificate: [][]byte{der}, PrivateKey: key}
	})
	if v01CertErr != nil {
		vInconclusive("cannot generate a self-signed certificate: " + v01CertErr.Error())
	}
	return v01Cert
}

// ---------------------------------------------------------------- event log

type v01Ev struct {
	Seq   int
	Kind  string // AuthCall AuthRet OutTCP OutUDP CheckUDP TCPWrite UDPWrite EvConnect EvDisconnect EvTCPRequest EvTCPError EvUDPRequest EvUDPError Masq
	Conn  int    // attributed connection index (-1 unknown)
	Label string // request address / token / request id
	OK    bool
	Note  string
}

func (e v01Ev) String() string {
	s := fmt.Sprintf("#%d %s c%d %q", e.Seq, e.Kind, e.Conn, e.Label)
	if e.Kind == "AuthRet" {
		s += fmt.Sprintf(" ok=%v", e.OK)
	}
	if e.Note != "" {
		s += " " + e.Note
	}
	return s
}

type v01Log struct {
	mu  sync.Mutex
	evs []v01Ev
}

func (l *v01Log) add(kind string, conn int, label string, ok bool, note string) {
	l.mu.Lock()
	l.evs = append(l.evs, v01Ev{Seq: len(l.evs), Kind: kind, Conn: conn, Label: label, OK: ok, Note: note})
	l.mu.Unlock()
}

func (l *v01Log) snapshot() []v01Ev {
	l.mu.Lock()
	defer l.mu.Unlock()
	return append([]v01Ev(nil), l.evs...)
}

func (l *v01Log) count(kind, label string) int {
	l.mu.Lock()
	defer l.mu.Unlock()
	n := 0
	for _, e := range l.evs {
		if e.Kind == kind && e.Label == label {
			n++
		}
	}
	return n
}

func (l *v01Log) countConnLabel(kind string, conn int, label string) int {
	l.mu.Lock()
	defer l.mu.Unlock()
	n := 0
	for _, e := range l.evs {
		if e.Kind == kind && e.Conn == conn && e.Label == label {
			n++
		}
	}
	return n
}

func (l *v01Log) countConn(kind string, conn int) int {
	l.mu.Lock()
	defer l.mu.Unlock()
	n := 0
	for _, e := range l.evs {
		if e.Kind == kind && e.Conn == conn {
			n++
		}
	}
	return n
}

func v01RenderLog(evs []v01Ev, max int) string {
	var b strings.Builder
	for i, e := range evs {
		if i >= max {
			fmt.Fprintf(&b, "\n    ... %d more", len(evs)-max)
			break
		}
		b.WriteString("\n    " + e.String())
	}
	return b.String()
}

// v01LabelConn extracts the connection index from "c<i>-op<k>..." (also after a
// "tok#" prefix). -1 if the string carries no label.
func v01LabelConn(s string) int {
	if i := strings.LastIndexByte(s, '#'); i >= 0 {
		s = s[i+1:]
	}
	if len(s) < 2 || s[0] != 'c' {
		return -1
	}
	j := 1
	for j < len(s) && s[j] >= '0' && s[j] <= '9' {
		j++
	}
	if j == 1 || !strings.HasPrefix(s[j:], "-op") {
		return -1
	}
	n, err := strconv.Atoi(s[1:j])
	if err != nil {
		return -1
	}
	return n
}

// v01LabelID returns the bare "c<i>-op<k>" part of an address or token.
func v01LabelID(s string) string {
	if i := strings.LastIndexByte(s, '#'); i >= 0 {
		s = s[i+1:]
	}
	if v01LabelConn(s) < 0 {
		return ""
	}
	j := strings.Index(s, "-op") + 3
	for j < len(s) && s[j] >= '0' && s[j] <= '9' {
		j++
	}
	return s[:j]
}

// ---------------------------------------------------------------- environment (server + fakes)

type v01EnvCfg struct {
	GoodTokens []string     // token table of this case (the part before '#')
	Masq       http.Handler // nil = server default (http.NotFound)
	UseTL      bool         // configure a TrafficLogger (switches the relay to copyTwoWayEx)
	// AuthHook, if set, is called inside Authenticate before the verdict is returned
	// (harness-owned yield point: lets a generated schedule hold the call open).
	AuthHook func(token string)
	// AuthDone, if set, is called after the verdict was logged, just before it is returned.
	AuthDone func(token string)
	// Connection-aware variants (the same credential string may be presented by several
	// connections): conn is the index of the calling connection (by client address).
	AuthHookC func(conn int, token string)
	AuthDoneC func(conn int, token string)
	// Verdict, if set, replaces the static token table: the verdict may depend on the
	// connection and may change during the case. It is evaluated when the call returns.
	Verdict func(conn int, auth string) bool
}

type v01Env struct {
	cfg    v01EnvCfg
	log    *v01Log
	srv    Server
	addr   *net.UDPAddr
	mu     sync.Mutex
	byAddr map[string]int // client local address -> connection index
	served chan struct{}
}

func (e *v01Env) connOfAddr(a net.Addr) int {
	if a == nil {
		return -1
	}
	e.mu.Lock()
	defer e.mu.Unlock()
	if i, ok := e.byAddr[a.String()]; ok {
		return i
	}
	return -1
}

// --- Authenticator

type v01Auth struct{ e *v01Env }

func (a *v01Auth) Authenticate(addr net.Addr, auth string, tx uint64) (bool, string) {
	c := a.e.connOfAddr(addr)
	a.e.log.add("AuthCall", c, auth, false, "tx="+strconv.FormatUint(tx, 10))
	if h := a.e.cfg.AuthHook; h != nil {
		h(auth)
	}
	if h := a.e.cfg.AuthHookC; h != nil {
		h(c, auth)
	}
	tok := auth
	if i := strings.LastIndexByte(tok, '#'); i >= 0 {
		tok = tok[:i]
	}
	ok := false
	if v := a.e.cfg.Verdict; v != nil {
		ok = v(c, auth)
	} else {
		for _, g := range a.e.cfg.GoodTokens {
			if g == tok && g != "" {
				ok = true
			}
		}
	}
	// The verdict is logged before it is returned: anything the server does
	// "because of the accept" can only appear later in the log.
	a.e.log.add("AuthRet", c, auth, ok, "")
	if h := a.e.cfg.AuthDone; h != nil {
		h(auth)
	}
	if h := a.e.cfg.AuthDoneC; h != nil {
		h(c, auth)
	}
	return ok, "id-c" + strconv.Itoa(c)
}

// --- Outbound

type v01Outbound struct{ e *v01Env }

func (o *v01Outbound) TCP(reqAddr string) (net.Conn, error) {
	o.e.log.add("OutTCP", v01LabelConn(reqAddr), reqAddr, false, "")
	if strings.Contains(reqAddr, "-fail") {
		return nil, errors.New("v01: dial refused by harness")
	}
	ec := &v01EchoConn{log: o.e.log, label: reqAddr}
	ec.cond = sync.NewCond(&ec.mu)
	return ec, nil
}

func (o *v01Outbound) UDP(reqAddr string) (UDPConn, error) {
	o.e.log.add("OutUDP", v01LabelConn(reqAddr), reqAddr, false, "")
	uc := &v01UDPConn{log: o.e.log}
	uc.cond = sync.NewCond(&uc.mu)
	return uc, nil
}

func (o *v01Outbound) CheckUDP(reqAddr string) error {
	o.e.log.add("CheckUDP", v01LabelConn(reqAddr), reqAddr, false, "")
	return nil
}

type v01Addr string

func (a v01Addr) Network() string { return "v01" }
func (a v01Addr) String() string  { return string(a) }

// v01EchoConn is the in-memory "remote": everything written to it can be read back.
type v01EchoConn struct {
	mu     sync.Mutex
	cond   *sync.Cond
	buf    []byte
	closed bool
	log    *v01Log
	label  string
}

func (c *v01EchoConn) Read(p []byte) (int, error) {
	c.mu.Lock()
	defer c.mu.Unlock()
	for len(c.buf) == 0 && !c.closed {
		c.cond.Wait()
	}
	if len(c.buf) == 0 {
		return 0, io.ErrClosedPipe
	}
	n := copy(p, c.buf)
	c.buf = c.buf[n:]
	return n, nil
}

func (c *v01EchoConn) Write(p []byte) (int, error) {
	c.mu.Lock()
	if c.closed {
		c.mu.Unlock()
		return 0, io.ErrClosedPipe
	}
	c.buf = append(c.buf, p...)
	c.cond.Broadcast()
	c.mu.Unlock()
	c.log.add("TCPWrite", v01LabelConn(c.label), c.label, false, "n="+strconv.Itoa(len(p)))
	return len(p), nil
}

func (c *v01EchoConn) Close() error {
	c.mu.Lock()
	c.closed = true
	c.cond.Broadcast()
	c.mu.Unlock()
	return nil
}
func (c *v01EchoConn) LocalAddr() net.Addr                { return v01Addr("echo-local") }
func (c *v01EchoConn) RemoteAddr() net.Addr               { return v01Addr(c.label) }
func (c *v01EchoConn) SetDeadline(t time.Time) error      { return nil }
func (c *v01EchoConn) SetReadDeadline(t time.Time) error  { return nil }
func (c *v01EchoConn) SetWriteDeadline(t time.Time) error { return nil }

// v01UDPConn records every WriteTo and echoes the packet back from the same address.
type v01UDPConn struct {
	mu     sync.Mutex
	cond   *sync.Cond
	q      []v01Pkt
	closed bool
	log    *v01Log
}

type v01Pkt struct {
	data []byte
	addr string
}

func (c *v01UDPConn) ReadFrom(b []byte) (int, string, error) {
	c.mu.Lock()
	defer c.mu.Unlock()
	for len(c.q) == 0 && !c.closed {
		c.cond.Wait()
	}
	if len(c.q) == 0 {
		return 0, "", io.ErrClosedPipe
	}
	p := c.q[0]
	c.q = c.q[1:]
	return copy(b, p.data), p.addr, nil
}

func (c *v01UDPConn) WriteTo(b []byte, addr string) (int, error) {
	c.mu.Lock()
	if c.closed {
		c.mu.Unlock()
		return 0, io.ErrClosedPipe
	}
	c.q = append(c.q, v01Pkt{data: append([]byte(nil), b...), addr: addr})
	c.cond.Broadcast()
	c.mu.Unlock()
	c.log.add("UDPWrite", v01LabelConn(addr), addr, false, "n="+strconv.Itoa(len(b)))
	return len(b), nil
}

func (c *v01UDPConn) Close() error {
	c.mu.Lock()
	c.closed = true
	c.cond.Broadcast()
	c.mu.Unlock()
	return nil
}

// --- EventLogger

type v01EvLogger struct{ e *v01Env }

func (l *v01EvLogger) Connect(addr net.Addr, id string, tx uint64) {
	l.e.log.add("EvConnect", l.e.connOfAddr(addr), id, false, "")
}

func (l *v01EvLogger) Disconnect(addr net.Addr, id string, err error) {
	l.e.log.add("EvDisconnect", l.e.connOfAddr(addr), id, false, "")
}

func (l *v01EvLogger) TCPRequest(addr net.Addr, id, reqAddr string) {
	l.e.log.add("EvTCPRequest", v01LabelConn(reqAddr), reqAddr, false, "via=c"+strconv.Itoa(l.e.connOfAddr(addr)))
}

func (l *v01EvLogger) TCPError(addr net.Addr, id, reqAddr string, err error) {
	l.e.log.add("EvTCPError", v01LabelConn(reqAddr), reqAddr, false, "")
}

func (l *v01EvLogger) UDPRequest(addr net.Addr, id string, sessionID uint32, reqAddr string) {
	l.e.log.add("EvUDPRequest", v01LabelConn(reqAddr), reqAddr, false, "via=c"+strconv.Itoa(l.e.connOfAddr(addr)))
}

func (l *v01EvLogger) UDPError(addr net.Addr, id string, sessionID uint32, err error) {
	l.e.log.add("EvUDPError", l.e.connOfAddr(addr), id, false, "")
}

// --- TrafficLogger (never disconnects; only there to exercise the logged relay path)

type v01TL struct{}

func (v01TL) LogTraffic(id string, tx, rx uint64) bool        { return true }
func (v01TL) LogOnlineState(id string, online bool)           {}
func (v01TL) TraceStream(stream HyStream, stats *StreamStats) {}
func (v01TL) UntraceStream(stream HyStream)                   {}

func v01NewEnv(cfg v01EnvCfg) *v01Env {
	e := &v01Env{cfg: cfg, log: &v01Log{}, byAddr: map[string]int{}, served: make(chan struct{})}
	pc, err := net.ListenUDP("udp4", &net.UDPAddr{IP: net.IPv4(127, 0, 0, 1)})
	if err != nil {
		vInconclusive("cannot open a loopback UDP socket for the server: " + err.Error())
	}
	e.addr = pc.LocalAddr().(*net.UDPAddr)
	sc := &Config{
		TLSConfig:     TLSConfig{Certificates: []tls.Certificate{v01ServerCert()}},
		Conn:          pc,
		Outbound:      &v01Outbound{e},
		Authenticator: &v01Auth{e},
		EventLogger:   &v01EvLogger{e},
		MasqHandler:   cfg.Masq,
	}
	if cfg.UseTL {
		sc.TrafficLogger = v01TL{}
	}
	s, err := NewServer(sc)
	if err != nil {
		vInconclusive("NewServer failed: " + err.Error())
	}
	e.srv = s
	go func() {
		_ = s.Serve()
		close(e.served)
	}()
	return e
}

func (e *v01Env) Close() {
	_ = e.srv.Close()
	select {
	case <-e.served:
	case <-time.After(10 * time.Second):
	}
}

// ---------------------------------------------------------------- raw client

type v01Client struct {
	idx int
	env *v01Env
	udp *net.UDPConn
	tr  *quic.Transport
	qc  *quic.Conn
	h3  *http3.ClientConn

	mu        sync.Mutex
	dgrams    [][]byte
	rxDone    chan struct{}
	closeOnce sync.Once
}

// v01Dial opens one raw connection. An error means the environment failed (handshake
// timeout under load ...): the caller re-runs the case or reports "inconclusive".
func v01Dial(e *v01Env, idx int) (*v01Client, error) {
	udp, err := net.ListenUDP("udp4", &net.UDPAddr{IP: net.IPv4(127, 0, 0, 1)})
	if err != nil {
		return nil, fmt.Errorf("cannot open a loopback UDP socket for a client: %w", err)
	}
	e.mu.Lock()
	e.byAddr[udp.LocalAddr().String()] = idx
	e.mu.Unlock()
	tr := &quic.Transport{Conn: udp}
	ctx, cancel := context.WithTimeout(context.Background(), v01DialTimeout)
	defer cancel()
	qc, err := tr.Dial(ctx, e.addr, &tls.Config{
		InsecureSkipVerify: true,
		NextProtos:         []string{http3.NextProtoH3},
		ServerName:         "verif.test",
	}, &quic.Config{
		EnableDatagrams:      true,
		MaxIdleTimeout:       60 * time.Second,
		HandshakeIdleTimeout: v01DialTimeout,
	})
	if err != nil {
		_ = tr.Close()
		_ = udp.Close()
		return nil, fmt.Errorf("QUIC handshake with the server under test failed: %w", err)
	}
	h3t := &http3.Transport{DisableCompression: true}
	c := &v01Client{idx: idx, env: e, udp: udp, tr: tr, qc: qc, h3: h3t.NewClientConn(qc), rxDone: make(chan struct{})}
	go func() {
		defer close(c.rxDone)
		for {
			b, err := qc.ReceiveDatagram(context.Background())
			if err != nil {
				return
			}
			c.mu.Lock()
			c.dgrams = append(c.dgrams, b)
			c.mu.Unlock()
		}
	}()
	return c, nil
}

func (c *v01Client) Close() {
	c.closeOnce.Do(func() {
		_ = c.qc.CloseWithError(0x100, "")
		select {
		case <-c.rxDone:
		case <-time.After(5 * time.Second):
		}
		_ = c.tr.Close()
	})
}

// release frees the UDP socket. It is kept bound until the end of the case so that a
// later connection of the same case can never get the same local address (log
// entries are attributed to connections by that address).
func (c *v01Client) release() { _ = c.udp.Close() }

func (c *v01Client) dead() bool { return c.qc.Context().Err() != nil }

func (c *v01Client) deathCause() error { return context.Cause(c.qc.Context()) }

func (c *v01Client) datagramCount() int {
	c.mu.Lock()
	defer c.mu.Unlock()
	return len(c.dgrams)
}

// v01KilledByH3 reports whether the connection was closed by the peer with the HTTP/3
// error H3_FRAME_UNEXPECTED (0x105): that is what an HTTP/3 server does when a
// request stream does not start with HEADERS, i.e. the stream was NOT taken as a proxy stream.
func v01KilledByH3(err error) bool {
	var ae *quic.ApplicationError
	return errors.As(err, &ae) && ae.Remote && ae.ErrorCode == 0x105
}

// ---------------------------------------------------------------- HTTP requests

type v01HTTPReq struct {
	ID          string // request id (sent as X-Vreq, used to pair handler captures)
	Method      string
	Authority   string
	HostViaURL  bool // leave Request.Host empty, the client then derives :authority from the URL
	Path        string
	RawPath     string
	RawQuery    string
	Header      http.Header // harness headers (Hysteria-*, X-Probe)
	Body        []byte      // nil = no body
	MethodOK    bool
	HostOK      bool
	PathOK      bool // literally "/auth", no query, no escaping
	DecodedAuth bool // path decodes to "/auth" (so PathOK, or only query/escaping differs)
}

// AuthShaped: exactly the request PROTOCOL.md describes.
func (r *v01HTTPReq) AuthShaped() bool { return r.MethodOK && r.HostOK && r.PathOK }

// ClearNonAuth: wrong method, wrong host, or a path that is not /auth under any reading.
func (r *v01HTTPReq) ClearNonAuth() bool { return !r.MethodOK || !r.HostOK || !r.DecodedAuth }

func (r *v01HTTPReq) String() string {
	p := r.Path
	if r.RawPath != "" {
		p = r.RawPath
	}
	if r.RawQuery != "" {
		p += "?" + r.RawQuery
	}
	hs := ""
	for _, k := range []string{"Hysteria-Auth", "Hysteria-Cc-Rx", "Hysteria-Padding", "X-Probe"} {
		if v, ok := r.Header[k]; ok {
			hs += fmt.Sprintf(" %s=%q", k, v[0])
		}
	}
	return fmt.Sprintf("%s %q %s%s body=%d", r.Method, r.Authority, p, hs, len(r.Body))
}

type v01HTTPResp struct {
	Status int
	Header http.Header
	Body   []byte
	Err    error
}

func (c *v01Client) do(r *v01HTTPReq) v01HTTPResp {
	ctx, cancel := context.WithTimeout(context.Background(), v01ReqTimeout)
	defer cancel()
	u := &url.URL{Scheme: "https", Host: r.Authority, Path: r.Path, RawPath: r.RawPath, RawQuery: r.RawQuery}
	hdr := r.Header.Clone()
	if hdr == nil {
		hdr = http.Header{}
	}
	if r.ID != "" {
		hdr.Set("X-Vreq", r.ID)
	}
	req := &http.Request{Method: r.Method, URL: u, Header: hdr, Proto: "HTTP/3.0", ProtoMajor: 3}
	if !r.HostViaURL {
		req.Host = r.Authority
	}
	if r.Body != nil {
		req.Body = io.NopCloser(bytes.NewReader(r.Body))
		req.ContentLength = int64(len(r.Body))
	}
	req = req.WithContext(ctx)
	resp, err := c.h3.RoundTrip(req)
	if err != nil {
		return v01HTTPResp{Err: err}
	}
	defer resp.Body.Close()
	b, err := io.ReadAll(io.LimitReader(resp.Body, 1<<20))
	if err != nil {
		return v01HTTPResp{Err: err}
	}
	return v01HTTPResp{Status: resp.StatusCode, Header: resp.Header, Body: b}
}

func v01AuthReq(id, token, ccrx string, padding string) *v01HTTPReq {
	h := http.Header{}
	h.Set("Hysteria-Auth", token)
	if ccrx != "-" {
		h.Set("Hysteria-CC-RX", ccrx)
	}
	if padding != "" {
		h.Set("Hysteria-Padding", padding)
	}
	return &v01HTTPReq{ID: id, Method: "POST", Authority: "hysteria", Path: "/auth", Header: h,
		MethodOK: true, HostOK: true, PathOK: true, DecodedAuth: true}
}

// v01HysteriaHeader returns the first response header whose name contains "hysteria".
func v01HysteriaHeader(h http.Header) string {
	for k := range h {
		if strings.Contains(strings.ToLower(k), "hysteria") {
			return k
		}
	}
	return ""
}

// ---------------------------------------------------------------- own wire encoders (PROTOCOL.md)

func v01PutVarint(b []byte, v uint64, width int) []byte {
	switch width {
	case 1:
		return append(b, byte(v))
	case 2:
		return append(b, byte(v>>8)|0x40, byte(v))
	case 4:
		return append(b, byte(v>>24)|0x80, byte(v>>16), byte(v>>8), byte(v))
	default:
		return append(b, byte(v>>56)|0xc0, byte(v>>48), byte(v>>40), byte(v>>32), byte(v>>24), byte(v>>16), byte(v>>8), byte(v))
	}
}

func v01MinWidth(v uint64) int {
	switch {
	case v <= 63:
		return 1
	case v <= 16383:
		return 2
	case v <= 1073741823:
		return 4
	}
	return 8
}

func v01Widen(v uint64, w int) int {
	if m := v01MinWidth(v); w < m {
		return m
	}
	return w
}

// TCPRequest framings. What matters for the harness is what an HTTP/3 server makes
// of the same bytes when it does NOT take the stream as a proxy stream (frame type
// 0x401 is a reserved "grease" type = 0x1f*32+0x21 and is skipped together with
// <address length> bytes; the padding length is then read as the next frame type):
const (
	v01FrBlock = iota // padding length >= 16, padding starts with a 1 GiB varint: the h3 parser skips forever (silence)
	v01FrHdr          // padding length 1 (= HEADERS), padding byte 0x02, payload starts 00 00: empty field section -> stream reset
	v01FrASCII        // 64..300 bytes of alphanumeric padding like the real client: h3 walks through unknown frames, then waits
	v01FrData0        // padding length 0 and a payload: 0 reads as a DATA frame first -> the h3 server closes the connection (0x105)
)

var v01FrNames = []string{"block", "hdr", "ascii", "data0"}

// v01EncTCPRequest returns the bytes of [0x401][addrLen][addr][padLen][padding] and the
// payload that follows them. salt only diversifies bytes.
func v01EncTCPRequest(addr string, framing int, wType, wAddr int, payloadLen int, salt int) (head, payload []byte) {
	head = v01PutVarint(nil, 0x401, v01Widen(0x401, wType))
	head = v01PutVarint(head, uint64(len(addr)), v01Widen(uint64(len(addr)), wAddr))
	head = append(head, addr...)
	const alnum = "abcdefghijklmnopqrstuvwxyzABCDEFGHIJKLMNOPQRSTUVWXYZ"
	switch framing {
	case v01FrBlock:
		n := 16 + salt%40
		head = v01PutVarint(head, uint64(n), 1)
		pad := make([]byte, n)
		copy(pad, []byte{0xbf, 0xff, 0xff, 0xff})
		for i := 4; i < n; i++ {
			pad[i] = alnum[(i+salt)%len(alnum)]
		}
		head = append(head, pad...)
	case v01FrHdr:
		head = v01PutVarint(head, 1, 1)
		head = append(head, 0x02)
	case v01FrASCII:
		n := 64 + salt%237
		head = v01PutVarint(head, uint64(n), 2)
		for i := 0; i < n; i++ {
			head = append(head, alnum[(i*7+salt)%len(alnum)])
		}
	case v01FrData0:
		head = v01PutVarint(head, 0, 1)
	}
	payload = make([]byte, payloadLen)
	for i := range payload {
		payload[i] = alnum[(i*11+salt+3)%len(alnum)]
	}
	if framing == v01FrHdr && payloadLen >= 2 {
		payload[0], payload[1] = 0, 0
	}
	return head, payload
}

// v01ReadTCPResponse decodes [status][msgLen][msg][padLen][padding] with the harness's own reader.
func v01ReadTCPResponse(r io.Reader) (status byte, msg string, err error) {
	var one [1]byte
	if _, err = io.ReadFull(r, one[:]); err != nil {
		return 0, "", err
	}
	status = one[0]
	readVar := func() (uint64, error) {
		if _, err := io.ReadFull(r, one[:]); err != nil {
			return 0, err
		}
		n := 1 << (one[0] >> 6)
		v := uint64(one[0] & 0x3f)
		for i := 1; i < n; i++ {
			var b [1]byte
			if _, err := io.ReadFull(r, b[:]); err != nil {
				return 0, err
			}
			v = v<<8 | uint64(b[0])
		}
		return v, nil
	}
	ml, err := readVar()
	if err != nil {
		return status, "", err
	}
	if ml > 2048 {
		return status, "", fmt.Errorf("message length %d > 2048", ml)
	}
	mb := make([]byte, ml)
	if _, err = io.ReadFull(r, mb); err != nil {
		return status, "", err
	}
	pl, err := readVar()
	if err != nil {
		return status, string(mb), err
	}
	if pl > 4096 {
		return status, string(mb), fmt.Errorf("padding length %d > 4096", pl)
	}
	if _, err = io.CopyN(io.Discard, r, int64(pl)); err != nil {
		return status, string(mb), err
	}
	return status, string(mb), nil
}

// v01EncUDPMessage: [session id u32][packet id u16][frag id u8][frag count u8][addrLen varint][addr][data].
func v01EncUDPMessage(sid uint32, pid uint16, fragID, fragCount uint8, addr string, data []byte) []byte {
	b := []byte{byte(sid >> 24), byte(sid >> 16), byte(sid >> 8), byte(sid), byte(pid >> 8), byte(pid), fragID, fragCount}
	b = v01PutVarint(b, uint64(len(addr)), v01MinWidth(uint64(len(addr))))
	b = append(b, addr...)
	return append(b, data...)
}

// ---------------------------------------------------------------- proxy probes

// v01Stream is a raw proxy stream the harness opened and keeps for later inspection.
type v01Stream struct {
	label string
	str   *quic.Stream
	err   error // open/write error
}

// openProxy opens a raw bidirectional stream and writes the request (and payload).
func (c *v01Client) openProxy(label string, head, payload []byte) *v01Stream {
	ctx, cancel := context.WithTimeout(context.Background(), v01ReqTimeout)
	defer cancel()
	s := &v01Stream{label: label}
	str, err := c.qc.OpenStreamSync(ctx)
	if err != nil {
		s.err = err
		return s
	}
	s.str = str
	_ = str.SetWriteDeadline(time.Now().Add(v01ReqTimeout))
	if _, err := str.Write(append(append([]byte(nil), head...), payload...)); err != nil {
		s.err = err
	}
	return s
}

// silent reads for the grace period; it returns the number of bytes that arrived.
func (s *v01Stream) silent(grace time.Duration) int {
	if s.str == nil {
		return 0
	}
	_ = s.str.SetReadDeadline(time.Now().Add(grace))
	buf := make([]byte, 4096)
	n, _ := s.str.Read(buf)
	return n
}

func (s *v01Stream) abandon() {
	if s.str != nil {
		s.str.CancelRead(0x10c)
		s.str.CancelWrite(0x10c)
	}
}

func v01IsTimeout(err error) bool {
	var ne net.Error
	return errors.As(err, &ne) && ne.Timeout()
}
