package server

// C07 — small real-time end-to-end variant (thorough tier only): a real client and a
// real server over loopback with Config.UDPIdleTimeout = 2 s and a harness outbound.
// It covers the wiring in server.go (udpIOImpl, udpEventLoggerImpl, the timeout
// handed to newUDPSessionManager) and the real *quic.DatagramTooLargeError path.
// Wall-clock time is only used in the sound direction: a socket must NOT be closed
// earlier than timeout after the harness last sent on it. "Eventually closed" waits
// poll with a generous deadline and end in vInconclusive, never in a violation.

import (
	"bytes"
	"crypto/ecdsa"
	"crypto/elliptic"
	crand "crypto/rand"
	"crypto/tls"
	"crypto/x509"
	"crypto/x509/pkix"
	"errors"
	"fmt"
	"math/big"
	"net"
	"sync"
	"testing"
	"time"

	"github.com/apernet/hysteria/core/v2/client"
)

func v07SelfSigned() (tls.Certificate, error) {
	key, err := ecdsa.GenerateKey(elliptic.P256(), crand.Reader)
	if err != nil {
		return tls.Certificate{}, err
	}
	tmpl := &x509.Certificate{SerialNumber: big.NewInt(1), Subject: pkix.Name{CommonName: "localhost"},
		NotBefore: time.Now().Add(-time.Hour), NotAfter: time.Now().Add(24 * time.Hour),
		KeyUsage: x509.KeyUsageDigitalSignature, ExtKeyUsage: []x509.ExtKeyUsage{x509.ExtKeyUsageServerAuth},
		DNSNames: []string{"localhost"}, IPAddresses: []net.IP{net.IPv4(127, 0, 0, 1)}}
	der, err := x509.CreateCertificate(crand.Reader, tmpl, tmpl, &key.PublicKey, key)
	if err != nil {
		return tls.Certificate{}, err
	}
	return tls.Certificate{Certificate: [][]byte{der}, PrivateKey: key}, nil
}

type v07E2ESock struct {
	addr       string
	in         chan []byte
	closed     chan struct{}
	mu         sync.Mutex
	closeCount int
	closedAt   time.Time
	writes     [][]byte
	replySize  int
}

func (s *v07E2ESock) ReadFrom(b []byte) (int, string, error) {
	select {
	case d := <-s.in:
		return copy(b, d), s.addr, nil
	case <-s.closed:
		return 0, "", errors.New("v07e2e: closed")
	}
}

func (s *v07E2ESock) WriteTo(b []byte, addr string) (int, error) {
	s.mu.Lock()
	s.writes = append(s.writes, append([]byte(nil), b...))
	n := s.replySize
	s.mu.Unlock()
	// answer: the datagram's bytes followed by a deterministic filler up to replySize
	r := append([]byte(nil), b...)
	for len(r) < n {
		r = append(r, byte(len(r)*7))
	}
	select {
	case s.in <- r:
	default:
	}
	return len(b), nil
}

func (s *v07E2ESock) Close() error {
	s.mu.Lock()
	defer s.mu.Unlock()
	s.closeCount++
	if s.closeCount == 1 {
		s.closedAt = time.Now()
		close(s.closed)
	}
	return nil
}

func (s *v07E2ESock) state() (closes int, at time.Time, writes int) {
	s.mu.Lock()
	defer s.mu.Unlock()
	return s.closeCount, s.closedAt, len(s.writes)
}

type v07E2EOutbound struct {
	mu        sync.Mutex
	socks     []*v07E2ESock
	replySize int
}

func (o *v07E2EOutbound) TCP(reqAddr string) (net.Conn, error) {
	return nil, errors.New("v07e2e: no tcp")
}
func (o *v07E2EOutbound) CheckUDP(reqAddr string) error { return nil }
func (o *v07E2EOutbound) UDP(reqAddr string) (UDPConn, error) {
	o.mu.Lock()
	defer o.mu.Unlock()
	s := &v07E2ESock{addr: reqAddr, in: make(chan []byte, 64), closed: make(chan struct{}), replySize: o.replySize}
	o.socks = append(o.socks, s)
	return s, nil
}

func (o *v07E2EOutbound) byAddr(addr string) []*v07E2ESock {
	o.mu.Lock()
	defer o.mu.Unlock()
	var r []*v07E2ESock
	for _, s := range o.socks {
		if s.addr == addr {
			r = append(r, s)
		}
	}
	return r
}

type v07E2EAuth struct{}

func (v07E2EAuth) Authenticate(addr net.Addr, auth string, tx uint64) (bool, string) {
	return true, "user"
}

func v07Poll(deadline time.Duration, what string, cond func() bool) {
	end := time.Now().Add(deadline)
	for !cond() {
		if time.Now().After(end) {
			vInconclusive("C07 e2e: gave up waiting for: " + what)
		}
		time.Sleep(20 * time.Millisecond)
	}
}

func TestVerifC07_E2EWiring(t *testing.T) {
	st := newVStats("TestVerifC07_E2EWiring")
	defer st.Flush()
	const idle = 2 * time.Second
	for _, replySize := range []int{0, 3000} { // 3000 > QUIC datagram size: real DatagramTooLargeError + fragmentation
		cert, err := v07SelfSigned()
		if err != nil {
			vInconclusive("C07 e2e: cannot create a certificate: " + err.Error())
		}
		pc, err := net.ListenUDP("udp", &net.UDPAddr{IP: net.IPv4(127, 0, 0, 1)})
		if err != nil {
			vInconclusive("C07 e2e: cannot listen: " + err.Error())
		}
		ob := &v07E2EOutbound{replySize: replySize}
		s, err := NewServer(&Config{TLSConfig: TLSConfig{Certificates: []tls.Certificate{cert}}, Conn: pc, Outbound: ob,
			UDPIdleTimeout: idle, Authenticator: v07E2EAuth{}})
		if err != nil {
			vInconclusive("C07 e2e: NewServer: " + err.Error())
		}
		go s.Serve()
		c, _, err := client.NewClient(&client.Config{ServerAddr: pc.LocalAddr(), TLSConfig: client.TLSConfig{InsecureSkipVerify: true}})
		if err != nil {
			s.Close()
			vInconclusive("C07 e2e: client handshake failed: " + err.Error())
		}
		const nSess = 3
		conns := make([]client.HyUDPConn, nSess)
		lastSend := make([]time.Time, nSess)
		addrOf := func(i int) string { return fmt.Sprintf("e2e-s%d.test:%d", i, 7000+i) }
		payload := func(i, k int) []byte { return []byte(fmt.Sprintf("C07-e2e session %d datagram %d", i, k)) }
		// sendUntil: QUIC datagrams are unreliable; repeat until the outbound saw want writes on a socket of this session
		sendUntil := func(i, k int, cond func() bool) {
			end := time.Now().Add(15 * time.Second)
			// lower bound for the server's last-activity time of this session: whichever copy
			// arrives was sent no earlier than the first one
			lastSend[i] = time.Now()
			for {
				if err := conns[i].Send(payload(i, k), addrOf(i)); err != nil {
					vInconclusive("C07 e2e: client Send failed: " + err.Error())
				}
				for j := 0; j < 25; j++ {
					if cond() {
						return
					}
					time.Sleep(20 * time.Millisecond)
				}
				if time.Now().After(end) {
					vInconclusive("C07 e2e: datagram never reached the outbound")
				}
			}
		}
		for i := 0; i < nSess; i++ {
			if conns[i], err = c.UDP(); err != nil {
				vInconclusive("C07 e2e: client UDP(): " + err.Error())
			}
			i := i
			sendUntil(i, 0, func() bool {
				ss := ob.byAddr(addrOf(i))
				return len(ss) == 1 && func() bool { _, _, w := ss[0].state(); return w >= 1 }()
			})
			// the reply must come back on this session, from this address, with these bytes
			type rcv struct {
				b    []byte
				addr string
				err  error
			}
			ch := make(chan rcv, 1)
			go func() { b, a, e := conns[i].Receive(); ch <- rcv{b, a, e} }()
			select {
			case r := <-ch:
				if r.err != nil {
					vInconclusive("C07 e2e: client Receive: " + r.err.Error())
				}
				if r.addr != addrOf(i) || !bytes.HasPrefix(r.b, payload(i, 0)) || (replySize > 0 && len(r.b) != replySize) {
					t.Fatalf("C07 e2e: session %d received a reply that is not its own: from %q, %d bytes, starts %q (want from %q, prefix %q, size %d)",
						i, r.addr, len(r.b), string(r.b[:v07MinInt(len(r.b), 40)]), addrOf(i), payload(i, 0), replySize)
				}
			case <-time.After(15 * time.Second):
				vInconclusive("C07 e2e: reply never reached the client")
			}
		}
		// every session gets its own socket
		if n := len(ob.socks); n != nSess {
			t.Fatalf("C07 e2e: %d sessions opened %d outbound sockets", nSess, n)
		}
		// idle: all three must eventually be closed, each exactly once, and none before timeout after its last datagram
		v07Poll(25*time.Second, "idle sessions to be closed", func() bool {
			for i := 0; i < nSess; i++ {
				if n, _, _ := ob.byAddr(addrOf(i))[0].state(); n == 0 {
					return false
				}
			}
			return true
		})
		for i := 0; i < nSess; i++ {
			n, at, _ := ob.byAddr(addrOf(i))[0].state()
			if n != 1 {
				t.Fatalf("C07 e2e: socket of session %d closed %d times", i, n)
			}
			if d := at.Sub(lastSend[i]); d < idle {
				t.Fatalf("C07 e2e: socket of session %d was closed %v after its last datagram; UDPIdleTimeout is %v", i, d, idle)
			}
		}
		// same client session again: a fresh socket
		sendUntil(0, 1, func() bool {
			ss := ob.byAddr(addrOf(0))
			if len(ss) < 2 {
				return false
			}
			_, _, w := ss[1].state()
			return w >= 1
		})
		if n, _, w := ob.byAddr(addrOf(0))[0].state(); n != 1 || w < 1 {
			t.Fatalf("C07 e2e: the expired socket of session 0 was touched again (closes=%d)", n)
		}
		// connection ends: everything is closed exactly once
		_ = c.Close()
		v07Poll(45*time.Second, "all sockets to be closed after the client disconnected", func() bool {
			ob.mu.Lock()
			defer ob.mu.Unlock()
			for _, s := range ob.socks {
				if n, _, _ := s.state(); n == 0 {
					return false
				}
			}
			return true
		})
		time.Sleep(100 * time.Millisecond)
		ob.mu.Lock()
		for k, s := range ob.socks {
			if n, _, _ := s.state(); n != 1 {
				ob.mu.Unlock()
				t.Fatalf("C07 e2e: socket %d (%s) closed %d times after the client disconnected", k, s.addr, n)
			}
		}
		nsock := len(ob.socks)
		ob.mu.Unlock()
		_ = s.Close()
		st.Case(true, fmt.Sprintf("e2e/%d", replySize), []string{fmt.Sprintf("replySize=%d", replySize)}, func() string {
			return fmt.Sprintf("3 sessions, reply size %d, %d sockets, all closed once", replySize, nsock)
		})
	}
}

func v07MinInt(a, b int) int {
	if a < b {
		return a
	}
	return b
}
