package server

// C10 — negotiated send rate never exceeds either side's declared limit.
//
// End-to-end over loopback QUIC. Three generated families:
//
//   TestVerifC10_Negotiate        real client.NewClient  x real server (own accept loop)
//   TestVerifC10_RawClientHeader  raw HTTP/3 client with an arbitrary Hysteria-CC-RX x real server
//   TestVerifC10_FakeServerHeader real client x fake HTTP/3 server answering 233 with an arbitrary Hysteria-CC-RX
//
// What is observed: the congestion controller actually INSTALLED on the
// server-side and on the client-side *quic.Conn (read-only reflection, isolated
// in v10ReadCC), HandshakeInfo.Tx, EventLogger.Connect(tx), the tx argument of
// Authenticate, and (raw client) the response header.
//
// Oracle: v10RefServer / v10RefClient, written from PROTOCOL.md ("Congestion
// Control") and the property statement — not from server.go / client.go.

import (
	"context"
	"crypto/ecdsa"
	"crypto/elliptic"
	crand "crypto/rand"
	"crypto/tls"
	"crypto/x509"
	"crypto/x509/pkix"
	"fmt"
	"io"
	"math"
	"math/big"
	"math/rand"
	"net"
	"net/http"
	"net/url"
	"reflect"
	"strings"
	"sync"
	"testing"
	"time"

	"github.com/apernet/quic-go"
	"github.com/apernet/quic-go/http3"

	"github.com/apernet/hysteria/core/v2/client"
	"pgregory.net/rapid"
)

const (
	v10Wait    = 20 * time.Second // liveness waits; expiry = inconclusive, never a violation
	v10Retries = 2                // extra attempts when a handshake could not be established (loaded machine)
	v10HdrCCRX = "Hysteria-CC-RX"
	v10HdrAuth = "Hysteria-Auth"
	v10HdrUDP  = "Hysteria-UDP"
	v10AuthOK  = 233
)

// ------------------------------------------------------------------ reference model

// v10Rate is what a sender must run after the handshake: a fixed rate (bytes/s)
// or "the configured congestion controller" (fixed == false).
type v10Rate struct {
	fixed bool
	bps   uint64
}

func (r v10Rate) String() string {
	if !r.fixed {
		return "CC"
	}
	return fmt.Sprintf("fixed(%d)", r.bps)
}

// reported is the number the application is told (0 stands for "no fixed rate").
func (r v10Rate) reported() uint64 {
	if !r.fixed {
		return 0
	}
	return r.bps
}

// server -> client direction. rxC: the client's declared receive rate (0 = unknown),
// txS: the server's own send limit (0 = none), ignore: ignore-client-bandwidth.
func v10RefServer(ignore bool, rxC, txS uint64) v10Rate {
	if ignore || rxC == 0 {
		return v10Rate{}
	}
	lim := rxC
	if txS != 0 && txS < lim {
		lim = txS
	}
	return v10Rate{true, lim}
}

// client -> server direction. txC: the client's own send limit (0 = unknown),
// rxS: the server's declared receive rate (0 = unlimited), auto: the server answered "auto".
func v10RefClient(auto bool, txC, rxS uint64) v10Rate {
	if auto || txC == 0 {
		return v10Rate{}
	}
	lim := txC
	if rxS != 0 && rxS < lim {
		lim = rxS
	}
	return v10Rate{true, lim}
}

func v10NormType(s string) string {
	if strings.ToLower(s) == "reno" {
		return "reno"
	}
	return "bbr"
}

func v10NormProfile(s string) string {
	s = strings.ToLower(s)
	if s == "" {
		return "standard"
	}
	return s
}

// ------------------------------------------------------------------ the ONE reflection adapter

// v10CC is the controller a *quic.Conn currently holds.
type v10CC struct {
	kind       string // "brutal" | "bbr" | "builtin" (quic-go's own sender: nothing was installed)
	typeName   string
	bps        int64 // brutal: the stored rate, as the signed number the sender computes with
	noLossComp bool  // brutal
	profile    string
	reno       bool // builtin
}

func (c v10CC) String() string {
	switch c.kind {
	case "brutal":
		return fmt.Sprintf("brutal(bps=%d, disableLossCompensation=%v)", c.bps, c.noLossComp)
	case "bbr":
		return fmt.Sprintf("bbr(profile=%s)", c.profile)
	default:
		return fmt.Sprintf("builtin(%s, reno=%v)", c.typeName, c.reno)
	}
}

func v10Field(v reflect.Value, name string) (reflect.Value, error) {
	for v.IsValid() && (v.Kind() == reflect.Interface || v.Kind() == reflect.Pointer) {
		if v.IsNil() {
			return reflect.Value{}, fmt.Errorf("nil while looking for field %q", name)
		}
		v = v.Elem()
	}
	if !v.IsValid() || v.Kind() != reflect.Struct {
		return reflect.Value{}, fmt.Errorf("not a struct while looking for field %q", name)
	}
	f := v.FieldByName(name)
	if !f.IsValid() {
		return reflect.Value{}, fmt.Errorf("%s has no field %q (internal layout changed)", v.Type(), name)
	}
	return f, nil
}

// v10ReadCC walks Conn.sentPacketHandler.congestion[.CC] read-only. Every name
// it depends on lives here; an error means "harness cannot observe" (the caller
// turns it into vInconclusive), never a violation.
func v10ReadCC(conn reflect.Value) (cc v10CC, err error) {
	defer func() {
		if r := recover(); r != nil {
			err = fmt.Errorf("reflection adapter: %v", r)
		}
	}()
	sph, err := v10Field(conn, "sentPacketHandler")
	if err != nil {
		return cc, err
	}
	cg, err := v10Field(sph, "congestion")
	if err != nil {
		return cc, err
	}
	if cg.Kind() != reflect.Interface || cg.IsNil() {
		return cc, fmt.Errorf("congestion is %s", cg.Kind())
	}
	impl := cg.Elem() // pointer to the sender or to quic-go's ccAdapter / ccAdapterEx
	cc.typeName = impl.Type().String()
	if strings.Contains(cc.typeName, "ccAdapter") {
		inner, err := v10Field(impl, "CC")
		if err != nil {
			return cc, err
		}
		if inner.Kind() != reflect.Interface || inner.IsNil() {
			return cc, fmt.Errorf("adapter CC is %s", inner.Kind())
		}
		impl = inner.Elem()
		cc.typeName = impl.Type().String()
	}
	switch {
	case strings.HasSuffix(cc.typeName, "brutal.BrutalSender"):
		cc.kind = "brutal"
		f, err := v10Field(impl, "bps")
		if err != nil {
			return cc, err
		}
		switch f.Kind() {
		case reflect.Int64, reflect.Int:
			cc.bps = f.Int()
		case reflect.Uint64, reflect.Uint:
			u := f.Uint()
			if u > math.MaxInt64 {
				return cc, fmt.Errorf("bps is unsigned and > MaxInt64; adapter must be updated")
			}
			cc.bps = int64(u)
		default:
			return cc, fmt.Errorf("bps has kind %s", f.Kind())
		}
		g, err := v10Field(impl, "disableLossCompensation")
		if err != nil {
			return cc, err
		}
		if g.Kind() != reflect.Bool {
			return cc, fmt.Errorf("disableLossCompensation has kind %s", g.Kind())
		}
		cc.noLossComp = g.Bool()
	case strings.HasSuffix(cc.typeName, "bbr.bbrSender"):
		cc.kind = "bbr"
		f, err := v10Field(impl, "profile")
		if err != nil {
			return cc, err
		}
		if f.Kind() != reflect.String {
			return cc, fmt.Errorf("profile has kind %s", f.Kind())
		}
		cc.profile = f.String()
	case strings.HasSuffix(cc.typeName, "congestion.cubicSender"):
		cc.kind = "builtin"
		f, err := v10Field(impl, "reno")
		if err != nil {
			return cc, err
		}
		if f.Kind() != reflect.Bool {
			return cc, fmt.Errorf("reno has kind %s", f.Kind())
		}
		cc.reno = f.Bool()
	default:
		return cc, fmt.Errorf("unknown controller type %s", cc.typeName)
	}
	return cc, nil
}

func v10ReadServerCC(conn *quic.Conn) v10CC {
	cc, err := v10ReadCC(reflect.ValueOf(conn))
	if err != nil {
		vInconclusive("C10: cannot read the server-side controller: " + err.Error())
	}
	return cc
}

// v10ReadClientCC reaches clientImpl.conn of the value returned by client.NewClient.
func v10ReadClientCC(c client.Client) v10CC {
	f, err := v10Field(reflect.ValueOf(c), "conn")
	if err != nil {
		vInconclusive("C10: cannot reach the client's quic.Conn: " + err.Error())
	}
	cc, err := v10ReadCC(f)
	if err != nil {
		vInconclusive("C10: cannot read the client-side controller: " + err.Error())
	}
	return cc
}

// ------------------------------------------------------------------ comparing observed with reference

type v10Side struct {
	who        string // "server" / "client"
	ccType     string // configured type (raw config string)
	ccProfile  string // configured profile (raw config string)
	noLossComp bool   // configured DisableLossCompensation of this side
}

const v10MaxByteCount = 1<<62 - 1 // quic-go protocol.MaxByteCount

// A negotiated rate above 2^62-1 cannot be expressed as a QUIC byte count; the
// sender then holds exactly the saturated value 2^62-1 (still <= both limits).
func v10Saturated(want v10Rate, got v10CC) bool {
	return want.fixed && got.kind == "brutal" && want.bps > v10MaxByteCount && got.bps == v10MaxByteCount
}

// v10CheckInstalled returns "" if the installed controller is what the reference demands.
func v10CheckInstalled(s v10Side, want v10Rate, got v10CC) string {
	if !want.fixed {
		switch v10NormType(s.ccType) {
		case "reno":
			if got.kind != "builtin" || !got.reno {
				return fmt.Sprintf("%s must run its configured controller (reno) but holds %v", s.who, got)
			}
		default:
			if got.kind != "bbr" {
				return fmt.Sprintf("%s must run its configured controller (bbr/%s) but holds %v", s.who, v10NormProfile(s.ccProfile), got)
			}
			if got.profile != v10NormProfile(s.ccProfile) {
				return fmt.Sprintf("%s configured BBR profile %q but the installed sender has profile %q", s.who, v10NormProfile(s.ccProfile), got.profile)
			}
		}
		return ""
	}
	if got.kind != "brutal" {
		return fmt.Sprintf("%s must send at the fixed rate %d but holds %v", s.who, want.bps, got)
	}
	switch {
	case want.bps <= v10MaxByteCount:
		if got.bps != int64(want.bps) {
			return fmt.Sprintf("%s must send at the fixed rate %d but the installed rate is %d", s.who, want.bps, got.bps)
		}
	case want.bps <= math.MaxInt64 && got.bps == int64(want.bps):
		// exact
	case v10Saturated(want, got):
		// saturated at 2^62-1 (quic-go's MaxByteCount)
	default:
		// anything else (in particular a negative rate) is not the negotiated rate
		return fmt.Sprintf("%s must send at the fixed rate %d (> 2^62-1) but the installed rate is the signed number %d", s.who, want.bps, got.bps)
	}
	if got.noLossComp != s.noLossComp {
		return fmt.Sprintf("%s configured DisableLossCompensation=%v but the installed sender has %v", s.who, s.noLossComp, got.noLossComp)
	}
	return ""
}

// v10CheckReported: the number told to the application must be the enforced rate.
func v10CheckReported(what string, want v10Rate, reported uint64, got v10CC) string {
	if v10Saturated(want, got) && reported == uint64(got.bps) {
		return "" // the application is told the saturated rate that is really installed
	}
	if reported != want.reported() {
		return fmt.Sprintf("%s reports tx=%d, the negotiated value is %v", what, reported, want)
	}
	return ""
}

// ------------------------------------------------------------------ environment: cert, fakes, server, clients

var (
	v10CertOnce sync.Once
	v10CertVal  tls.Certificate
)

func v10Cert() tls.Certificate {
	v10CertOnce.Do(func() {
		key, err := ecdsa.GenerateKey(elliptic.P256(), crand.Reader)
		if err != nil {
			vInconclusive("C10: key generation: " + err.Error())
		}
		tmpl := &x509.Certificate{
			SerialNumber: big.NewInt(10),
			Subject:      pkix.Name{CommonName: "hysteria"},
			NotBefore:    time.Now().Add(-time.Hour),
			NotAfter:     time.Now().Add(24 * time.Hour),
			KeyUsage:     x509.KeyUsageDigitalSignature,
			ExtKeyUsage:  []x509.ExtKeyUsage{x509.ExtKeyUsageServerAuth},
			DNSNames:     []string{"hysteria", "localhost"},
			IPAddresses:  []net.IP{net.IPv4(127, 0, 0, 1)},
		}
		der, err := x509.CreateCertificate(crand.Reader, tmpl, tmpl, &key.PublicKey, key)
		if err != nil {
			vInconclusive("C10: certificate generation: " + err.Error())
		}
		v10CertVal = tls.Certificate{Certificate: [][]byte{der}, PrivateKey: key}
	})
	return v10CertVal
}

const v10BadCred = "v10-wrong-password"

type v10Auth struct{ tx chan uint64 }

func (a *v10Auth) Authenticate(addr net.Addr, auth string, tx uint64) (bool, string) {
	select {
	case a.tx <- tx:
	default:
	}
	return auth != v10BadCred, "v10user"
}

type v10Events struct{ connect chan uint64 }

func (e *v10Events) Connect(addr net.Addr, id string, tx uint64) {
	select {
	case e.connect <- tx:
	default:
	}
}
func (e *v10Events) Disconnect(addr net.Addr, id string, err error)                        {}
func (e *v10Events) TCPRequest(addr net.Addr, id, reqAddr string)                          {}
func (e *v10Events) TCPError(addr net.Addr, id, reqAddr string, err error)                 {}
func (e *v10Events) UDPRequest(addr net.Addr, id string, sessionID uint32, reqAddr string) {}
func (e *v10Events) UDPError(addr net.Addr, id string, sessionID uint32, err error)        {}

type v10Srv struct {
	impl   *serverImpl
	addr   net.Addr
	conns  chan *quic.Conn
	auth   *v10Auth
	events *v10Events
	cancel context.CancelFunc
	wg     sync.WaitGroup
}

// v10StartServer builds the real server but runs the accept loop itself (what
// Serve() does, verbatim: Accept + go handleClient) so that the harness holds the
// server-side *quic.Conn.
func v10StartServer(cfg *Config) *v10Srv {
	pc, err := net.ListenUDP("udp", &net.UDPAddr{IP: net.IPv4(127, 0, 0, 1), Port: 0})
	if err != nil {
		vInconclusive("C10: cannot open a loopback UDP socket: " + err.Error())
	}
	sv := &v10Srv{
		addr:   pc.LocalAddr(),
		conns:  make(chan *quic.Conn, 8),
		auth:   &v10Auth{tx: make(chan uint64, 8)},
		events: &v10Events{connect: make(chan uint64, 8)},
	}
	cfg.TLSConfig = TLSConfig{Certificates: []tls.Certificate{v10Cert()}}
	cfg.Conn = pc
	cfg.Authenticator = sv.auth
	cfg.EventLogger = sv.events
	s, err := NewServer(cfg)
	if err != nil {
		_ = pc.Close()
		vInconclusive(fmt.Sprintf("C10: NewServer rejected a configuration the generator believes valid: %v", err))
	}
	impl, ok := s.(*serverImpl)
	if !ok {
		vInconclusive("C10: NewServer no longer returns *serverImpl")
	}
	sv.impl = impl
	ctx, cancel := context.WithCancel(context.Background())
	sv.cancel = cancel
	sv.wg.Add(1)
	go func() {
		defer sv.wg.Done()
		for {
			conn, err := impl.listener.Accept(ctx)
			if err != nil {
				return
			}
			select {
			case sv.conns <- conn:
			default:
			}
			sv.wg.Add(1)
			go func() {
				defer sv.wg.Done()
				impl.handleClient(conn)
			}()
		}
	}()
	return sv
}

func (sv *v10Srv) stop() {
	sv.cancel()
	v10Bounded("server Close()", func() { _ = sv.impl.Close() })
	v10WaitGroup(&sv.wg, "server goroutines")
}

// v10Bounded runs a teardown step that has no deadline of its own; if it does
// not return the run is inconclusive (and says where it hung) instead of hanging.
func v10Bounded(what string, f func()) {
	done := make(chan struct{})
	go func() { f(); close(done) }()
	select {
	case <-done:
	case <-time.After(2 * v10Wait):
		vInconclusive("C10: teardown: " + what + " did not return")
	}
}

func v10WaitGroup(wg *sync.WaitGroup, what string) {
	done := make(chan struct{})
	go func() { wg.Wait(); close(done) }()
	select {
	case <-done:
	case <-time.After(v10Wait):
		vInconclusive("C10: teardown: " + what + " did not finish")
	}
}

func v10RecvU64(ch chan uint64, what string) uint64 {
	select {
	case v := <-ch:
		return v
	case <-time.After(v10Wait):
		vInconclusive("C10: timed out waiting for " + what)
		return 0
	}
}

func v10RecvConn(ch chan *quic.Conn) *quic.Conn {
	select {
	case v := <-ch:
		return v
	case <-time.After(v10Wait):
		vInconclusive("C10: timed out waiting for the accepted server-side connection")
		return nil
	}
}

// ------------------------------------------------------------------ generators

// 2^62-1 / 2^62: the largest rate a QUIC byte count can hold and the first one that saturates
var v10Lattice = []uint64{0, 65536, 65537, 1000000, 1000000000, 1<<62 - 1, 1 << 62, 1<<63 - 1, 1 << 63, math.MaxUint64}

// The client accepts any value: sub-floor ones make min() interesting against the
// server's 65536 floor. A declared RECEIVE rate of 1 B/s is left out on purpose:
// the server installs Brutal(1 B/s) before it writes the 233 response, and once
// the sender's 10-packet burst allowance is used up by spurious retransmissions
// on a loaded machine the response takes ~20 minutes (observed: a shard hung) —
// slow, not wrong, and not what C10 is about.
var (
	v10ClientTxLattice = append([]uint64{1, 65535}, v10Lattice...)
	v10ClientRxLattice = append([]uint64{65535}, v10Lattice...)
)

var (
	v10Types    = []string{"", "bbr", "BBR", "reno", "Reno"}
	v10Profiles = []string{"", "standard", "conservative", "aggressive", "Aggressive", "CONSERVATIVE"}
)

type v10CCConf struct{ typ, profile string }

func (c v10CCConf) String() string {
	if v10NormType(c.typ) == "reno" {
		return fmt.Sprintf("%q", c.typ)
	}
	return fmt.Sprintf("%q/%q", c.typ, c.profile)
}

func v10GenCC(t *rapid.T, label string) v10CCConf {
	c := v10CCConf{typ: rapid.SampledFrom(v10Types).Draw(t, label+"Type")}
	// the profile is validated only for bbr, but draw it always (a reno config may carry one)
	c.profile = rapid.SampledFrom(v10Profiles).Draw(t, label+"Profile")
	return c
}

func v10U64Name(v uint64) string {
	switch v {
	case 1<<62 - 1:
		return "2^62-1"
	case 1 << 62:
		return "2^62"
	case 1<<63 - 1:
		return "2^63-1"
	case 1 << 63:
		return "2^63"
	case math.MaxUint64:
		return "2^64-1"
	}
	return fmt.Sprintf("%d", v)
}

type v10Case struct {
	cTx, cRx, sTx, sRx uint64
	ignore             bool
	cCC, sCC           v10CCConf
	cNoLC, sNoLC       bool
	disableUDP         bool
}

func (c v10Case) String() string {
	return fmt.Sprintf("client{MaxTx=%s MaxRx=%s cc=%v DisableLossCompensation=%v} server{MaxTx=%s MaxRx=%s IgnoreClientBandwidth=%v cc=%v DisableLossCompensation=%v DisableUDP=%v}",
		v10U64Name(c.cTx), v10U64Name(c.cRx), c.cCC, c.cNoLC, v10U64Name(c.sTx), v10U64Name(c.sRx), c.ignore, c.sCC, c.sNoLC, c.disableUDP)
}

func v10IsHuge(r v10Rate) bool { return r.fixed && r.bps > v10MaxByteCount }

// NT rule of DESIGN C10.
func v10NTPair(special bool, own, peer uint64) bool {
	if special {
		return own != 0 || peer != 0
	}
	if own != 0 && peer != 0 {
		return own != peer
	}
	return own != 0 || peer != 0 // a 0 ("unknown"/"unlimited") against a non-zero opposite limit
}

func v10RateClass(side string, r v10Rate, own, peer uint64) string {
	switch {
	case !r.fixed:
		return side + ":CC"
	case own != 0 && peer != 0 && r.bps == own && own != peer:
		return side + ":fixed=own<peer"
	case own != 0 && peer != 0 && r.bps == peer && own != peer:
		return side + ":fixed=peer<own"
	case own == 0:
		return side + ":fixed=peer(own unlimited)"
	case peer == 0:
		return side + ":fixed=own(peer unlimited)"
	default:
		return side + ":fixed=own=peer"
	}
}

// ------------------------------------------------------------------ 1. real client x real server

func v10RunNegotiate(c v10Case) (violation string, inconclusive string, huge bool) {
	wantS := v10RefServer(c.ignore, c.cRx, c.sTx)
	wantC := v10RefClient(c.ignore, c.cTx, c.sRx)
	huge = v10IsHuge(wantS) || v10IsHuge(wantC)

	sv := v10StartServer(&Config{
		CongestionConfig:      CongestionConfig{Type: c.sCC.typ, BBRProfile: c.sCC.profile},
		BandwidthConfig:       BandwidthConfig{MaxTx: c.sTx, MaxRx: c.sRx, DisableLossCompensation: c.sNoLC},
		IgnoreClientBandwidth: c.ignore,
		DisableUDP:            c.disableUDP,
	})
	defer sv.stop()

	cl, info, err := v10NewClient(&client.Config{
		ServerAddr:       sv.addr,
		Auth:             "v10",
		TLSConfig:        client.TLSConfig{InsecureSkipVerify: true},
		CongestionConfig: client.CongestionConfig{Type: c.cCC.typ, BBRProfile: c.cCC.profile},
		BandwidthConfig:  client.BandwidthConfig{MaxTx: c.cTx, MaxRx: c.cRx, DisableLossCompensation: c.cNoLC},
	})
	if err != nil {
		return "", fmt.Sprintf("handshake failed (%v) for %v", err, c), huge
	}
	defer v10Bounded("client Close()", func() { _ = cl.Close() })

	sconn := v10RecvConn(sv.conns)
	authTx := v10RecvU64(sv.auth.tx, "Authenticate")
	connectTx := v10RecvU64(sv.events.connect, "EventLogger.Connect")
	// Connect is logged after the server installed its controller; NewClient
	// returns after the client installed its own.
	gotS := v10ReadServerCC(sconn)
	gotC := v10ReadClientCC(cl)

	var bad []string
	add := func(s string) {
		if s != "" {
			bad = append(bad, s)
		}
	}
	if authTx != c.cRx {
		add(fmt.Sprintf("Authenticate saw tx=%d, the client declared %d", authTx, c.cRx))
	}
	add(v10CheckInstalled(v10Side{"server", c.sCC.typ, c.sCC.profile, c.sNoLC}, wantS, gotS))
	add(v10CheckInstalled(v10Side{"client", c.cCC.typ, c.cCC.profile, c.cNoLC}, wantC, gotC))
	add(v10CheckReported("EventLogger.Connect", wantS, connectTx, gotS))
	if info == nil {
		add("NewClient returned no HandshakeInfo")
	} else {
		add(v10CheckReported("HandshakeInfo", wantC, info.Tx, gotC))
		if info.UDPEnabled != !c.disableUDP {
			// not C10; only used as a sanity check that the response was understood at all
			add(fmt.Sprintf("HandshakeInfo.UDPEnabled=%v with DisableUDP=%v", info.UDPEnabled, c.disableUDP))
		}
	}
	if len(bad) > 0 {
		return fmt.Sprintf("%s\n  config:   %v\n  expected: server %v, client %v\n  observed: server %v (Connect tx=%d, Authenticate tx=%d), client %v (HandshakeInfo.Tx=%d)",
			strings.Join(bad, "; "), c, wantS, wantC, gotS, connectTx, authTx, gotC, v10InfoTx(info)), "", huge
	}
	return "", "", huge
}

// v10NewClient is client.NewClient with a deadline: NewClient itself waits for
// the 233 response without any timeout (keep-alives hold the connection open).
func v10NewClient(cfg *client.Config) (client.Client, *client.HandshakeInfo, error) {
	type res struct {
		c    client.Client
		info *client.HandshakeInfo
		err  error
	}
	ch := make(chan res, 1)
	go func() {
		c, info, err := client.NewClient(cfg)
		ch <- res{c, info, err}
	}()
	select {
	case r := <-ch:
		return r.c, r.info, r.err
	case <-time.After(2 * v10Wait):
		go func() { // whenever it returns (the caller tears the server down), do not leak the client
			if r := <-ch; r.c != nil {
				_ = r.c.Close()
			}
		}()
		return nil, nil, fmt.Errorf("client.NewClient did not return within %v", 2*v10Wait)
	}
}

func v10InfoTx(i *client.HandshakeInfo) uint64 {
	if i == nil {
		return 0
	}
	return i.Tx
}

func v10GenCase(t *rapid.T) v10Case {
	var c v10Case
	c.cTx = rapid.SampledFrom(v10ClientTxLattice).Draw(t, "clientMaxTx")
	c.cRx = rapid.SampledFrom(v10ClientRxLattice).Draw(t, "clientMaxRx")
	c.sTx = rapid.SampledFrom(v10Lattice).Draw(t, "serverMaxTx")
	c.sRx = rapid.SampledFrom(v10Lattice).Draw(t, "serverMaxRx")
	c.ignore = rapid.IntRange(0, 3).Draw(t, "ignoreClientBandwidth") == 0
	c.cCC = v10GenCC(t, "client")
	c.sCC = v10GenCC(t, "server")
	c.cNoLC = rapid.Bool().Draw(t, "clientDisableLossComp")
	c.sNoLC = rapid.Bool().Draw(t, "serverDisableLossComp")
	c.disableUDP = rapid.IntRange(0, 4).Draw(t, "disableUDP") == 0
	return c
}

func TestVerifC10_Negotiate(t *testing.T) {
	st := newVStats("TestVerifC10_Negotiate")
	defer st.Flush()
	rapid.Check(t, func(rt *rapid.T) {
		rand.Seed(rapid.Int64().Draw(rt, "mathRandSeed"))
		c := v10GenCase(rt)
		wantS := v10RefServer(c.ignore, c.cRx, c.sTx)
		wantC := v10RefClient(c.ignore, c.cTx, c.sRx)
		nt := v10NTPair(c.ignore, c.sTx, c.cRx) || v10NTPair(c.ignore, c.cTx, c.sRx)
		cls := []string{
			v10RateClass("server", wantS, c.sTx, c.cRx), v10RateClass("client", wantC, c.cTx, c.sRx),
			"serverCC=" + v10NormType(c.sCC.typ), "clientCC=" + v10NormType(c.cCC.typ),
		}
		if c.ignore {
			cls = append(cls, "ignoreClientBandwidth/auto")
		}
		if v10IsHuge(wantS) || v10IsHuge(wantC) {
			cls = append(cls, "fixed rate > 2^62-1 (saturates)")
		}
		st.Case(nt, c.String(), cls, func() string { return fmt.Sprintf("%v => server %v, client %v", c, wantS, wantC) })
		viol, inc, _ := v10RunNegotiate(c)
		for try := 0; inc != "" && try < v10Retries; try++ { // a failed handshake is environment trouble, never a verdict
			st.Class("handshake retried")
			viol, inc, _ = v10RunNegotiate(c)
		}
		if inc != "" {
			vInconclusive("C10: " + inc)
		}
		if viol != "" {
			rt.Fatalf("C10 negotiate: %s", viol)
		}
	})
}

// Plain regression for the finding of this check (fixed in /repo by a934596): a
// negotiated rate >= 2^63 was installed as a negative number. Rates above 2^62-1
// must saturate at exactly 2^62-1 (or be held exactly if they fit), smaller ones
// must be installed exactly.
func TestVerifC10_Regress_RateAbove2p63(t *testing.T) {
	st := newVStats("TestVerifC10_Regress_RateAbove2p63")
	defer st.Flush()
	bbr := v10CCConf{"bbr", "standard"}
	for _, c := range []v10Case{
		{cTx: 0, cRx: math.MaxUint64, sTx: 0, sRx: 0, cCC: bbr, sCC: bbr},                // server side, peer-declared
		{cTx: 0, cRx: 1 << 63, sTx: math.MaxUint64, sRx: 0, cCC: bbr, sCC: bbr},          // server side, min of two huge limits
		{cTx: math.MaxUint64, cRx: 0, sTx: 0, sRx: 0, cCC: bbr, sCC: bbr},                // client side, own limit, server unlimited
		{cTx: math.MaxUint64, cRx: 0, sTx: 0, sRx: 1 << 63, cCC: bbr, sCC: bbr},          // client side, server-declared
		{cTx: 1<<63 - 1, cRx: 1<<63 - 1, sTx: 1 << 63, sRx: 1 << 63, cCC: bbr, sCC: bbr}, // largest positive int64
		{cTx: 1 << 62, cRx: 1 << 62, sTx: 0, sRx: 0, cCC: bbr, sCC: bbr},                 // first value above QUIC's MaxByteCount
		{cTx: 1<<62 - 1, cRx: 1<<62 - 1, sTx: 1 << 62, sRx: 1 << 63, cCC: bbr, sCC: bbr}, // largest exact rate: must be installed exactly
	} {
		st.Case(true, c.String(), []string{"regress"}, func() string { return c.String() })
		viol, inc, _ := v10RunNegotiate(c)
		for try := 0; inc != "" && try < v10Retries; try++ { // a failed handshake is environment trouble, never a verdict
			st.Class("handshake retried")
			viol, inc, _ = v10RunNegotiate(c)
		}
		if inc != "" {
			vInconclusive("C10: " + inc)
		}
		if viol != "" {
			t.Fatalf("C10 rate >= 2^63: %s", viol)
		}
	}
}

// ------------------------------------------------------------------ header cells (shared)

// v10Interp is one admissible reading of a Hysteria-CC-RX value.
type v10Interp struct {
	auto bool
	n    uint64
}

func (i v10Interp) String() string {
	if i.auto {
		return "auto"
	}
	return fmt.Sprintf("%d", i.n)
}

type v10Hdr struct {
	present bool
	val     string
}

func (h v10Hdr) String() string {
	if !h.present {
		return "<missing>"
	}
	return fmt.Sprintf("%q", h.val)
}

// v10Readings lists every reading the statement admits for a header value.
// Strict decimal -> that number. Overflowing decimal -> 0 or saturation.
// Anything else is "unparseable" = 0; a value that becomes a strict decimal
// after trimming optional whitespace (an HTTP layer may do that) may also be
// read as that number. "auto" only exists in the response direction.
func v10Readings(h v10Hdr, response bool) []v10Interp {
	if !h.present {
		return []v10Interp{{n: 0}}
	}
	if response && h.val == "auto" {
		return []v10Interp{{auto: true}}
	}
	out := []v10Interp{}
	if response && strings.EqualFold(strings.Trim(h.val, " \t"), "auto") {
		out = append(out, v10Interp{auto: true}) // not specified; a case-insensitive / whitespace-trimming reader is not a violation
	}
	dec := func(s string) (uint64, bool, bool) { // value, isDecimal, overflow
		if s == "" {
			return 0, false, false
		}
		for _, r := range s {
			if r < '0' || r > '9' {
				return 0, false, false
			}
		}
		b, _ := new(big.Int).SetString(s, 10)
		if !b.IsUint64() {
			return 0, true, true
		}
		return b.Uint64(), true, false
	}
	if n, ok, of := dec(h.val); ok {
		if of {
			return append(out, v10Interp{n: 0}, v10Interp{n: math.MaxUint64})
		}
		return append(out, v10Interp{n: n})
	}
	out = append(out, v10Interp{n: 0})
	if n, ok, of := dec(strings.Trim(h.val, " \t")); ok && !of && n != 0 {
		out = append(out, v10Interp{n: n})
	}
	return out
}

var v10BadHeaders = []v10Hdr{
	{false, ""}, {true, ""}, {true, "abc"}, {true, "-1"}, {true, "1e9"}, {true, "18446744073709551616"}, {true, " 5"},
	{true, "99999999999999999999999999"}, {true, "0x10000"}, {true, "65536.0"}, {true, "+70000"},
}

func v10GenHeader(t *rapid.T, response bool) v10Hdr {
	// (rapid biases integer draws towards small values: the numeric cells come first)
	switch rapid.IntRange(0, 9).Draw(t, "hdrMode") {
	case 5, 6, 7, 8:
		return rapid.SampledFrom(v10BadHeaders).Draw(t, "hdr")
	case 9:
		if response {
			return v10Hdr{true, rapid.SampledFrom([]string{"auto", "AUTO", "Auto", "auto "}).Draw(t, "hdrAuto")}
		}
		return v10Hdr{true, "auto"} // a client has no "auto": it is just not a number
	case 4:
		if response {
			return v10Hdr{true, "auto"}
		}
		fallthrough
	default:
		lat := v10ClientRxLattice // what a client may declare
		if response {
			lat = v10ClientTxLattice // a fake server may answer anything, 1 included
		}
		n := rapid.SampledFrom(lat).Draw(t, "hdrNum")
		s := fmt.Sprintf("%d", n)
		if rapid.IntRange(0, 5).Draw(t, "leadingZeros") == 0 {
			s = "000" + s
		}
		return v10Hdr{true, s}
	}
}

func v10QUICConfig() *quic.Config {
	return &quic.Config{
		EnableDatagrams:      true,
		MaxIdleTimeout:       30 * time.Second,
		HandshakeIdleTimeout: 15 * time.Second,
		DisablePathManager:   true,
	}
}

// ------------------------------------------------------------------ 2. raw HTTP/3 client x real server

type v10RawCase struct {
	hdr         v10Hdr
	sTx, sRx    uint64
	ignore      bool
	sCC         v10CCConf
	sNoLC       bool
	disableUDP  bool
	withPadding bool
	again       []v10Reauth // further auth POSTs on the SAME connection after the accepted one
}

type v10Reauth struct {
	hdr     v10Hdr
	badCred bool
}

func (r v10Reauth) String() string {
	if r.badCred {
		return fmt.Sprintf("re-auth(CC-RX=%v, wrong credentials)", r.hdr)
	}
	return fmt.Sprintf("re-auth(CC-RX=%v)", r.hdr)
}

func (c v10RawCase) String() string {
	s := fmt.Sprintf("raw client Hysteria-CC-RX=%v -> server{MaxTx=%s MaxRx=%s IgnoreClientBandwidth=%v cc=%v DisableLossCompensation=%v DisableUDP=%v}",
		c.hdr, v10U64Name(c.sTx), v10U64Name(c.sRx), c.ignore, c.sCC, c.sNoLC, c.disableUDP)
	if len(c.again) > 0 {
		s += fmt.Sprintf(" then on the same connection %v", c.again)
	}
	return s
}

// v10ReauthWouldChange: would the server's rate differ if a repeated request were (wrongly) evaluated?
func v10ReauthWouldChange(c v10RawCase, first v10Rate) bool {
	for _, a := range c.again {
		for _, r := range v10Readings(a.hdr, false) {
			if v10RefServer(c.ignore, r.n, c.sTx) != first {
				return true
			}
		}
	}
	return false
}

func v10RunRaw(c v10RawCase) (violation, inconclusive string, chosen v10Interp, want v10Rate) {
	sv := v10StartServer(&Config{
		CongestionConfig:      CongestionConfig{Type: c.sCC.typ, BBRProfile: c.sCC.profile},
		BandwidthConfig:       BandwidthConfig{MaxTx: c.sTx, MaxRx: c.sRx, DisableLossCompensation: c.sNoLC},
		IgnoreClientBandwidth: c.ignore,
		DisableUDP:            c.disableUDP,
	})
	defer sv.stop()

	pc, err := net.ListenUDP("udp", &net.UDPAddr{IP: net.IPv4(127, 0, 0, 1), Port: 0})
	if err != nil {
		return "", "cannot open a client socket: " + err.Error(), chosen, want
	}
	defer pc.Close()
	tr := &quic.Transport{Conn: pc}
	defer v10Bounded("raw client transport Close()", func() { _ = tr.Close() })
	var cconn *quic.Conn
	dials := 0
	h3 := &http3.Transport{
		TLSClientConfig: &tls.Config{InsecureSkipVerify: true, ServerName: "hysteria"},
		QUICConfig:      v10QUICConfig(),
		Dial: func(ctx context.Context, _ string, tlsCfg *tls.Config, cfg *quic.Config) (*quic.Conn, error) {
			qc, err := tr.DialEarly(ctx, sv.addr, tlsCfg, cfg)
			dials++
			if err == nil {
				cconn = qc
			}
			return qc, err
		},
	}
	defer v10Bounded("raw client http3 Close()", func() { _ = h3.Close() })
	ctx, cancel := context.WithTimeout(context.Background(), v10Wait)
	defer cancel()
	req := (&http.Request{
		Method: http.MethodPost,
		URL:    &url.URL{Scheme: "https", Host: "hysteria", Path: "/auth"},
		Header: make(http.Header),
	}).WithContext(ctx)
	req.Header.Set(v10HdrAuth, "v10")
	if c.hdr.present {
		req.Header.Set(v10HdrCCRX, c.hdr.val)
	}
	if c.withPadding {
		req.Header.Set("Hysteria-Padding", "zzzzzzzzzzzzzzzzzzzzzzzzzzzzzzzzzzzzzzzzzzzzzzzzzzzzzzzzzzzzzzzz")
	}
	resp, err := h3.RoundTrip(req)
	if err != nil {
		return "", fmt.Sprintf("raw auth request failed (%v) for %v", err, c), chosen, want
	}
	_, _ = io.Copy(io.Discard, resp.Body)
	_ = resp.Body.Close()
	defer func() {
		if cconn != nil {
			_ = cconn.CloseWithError(0x100, "")
		}
	}()
	if resp.StatusCode != v10AuthOK {
		return "", fmt.Sprintf("raw auth request answered %d for %v", resp.StatusCode, c), chosen, want
	}
	sconn := v10RecvConn(sv.conns)
	authTx := v10RecvU64(sv.auth.tx, "Authenticate")
	connectTx := v10RecvU64(sv.events.connect, "EventLogger.Connect")
	gotS := v10ReadServerCC(sconn)

	// what the server says it understood must be one of the admissible readings
	readings := v10Readings(c.hdr, false)
	ok := false
	for _, r := range readings {
		if r.n == authTx {
			ok, chosen = true, r
		}
	}
	var bad []string
	add := func(s string) {
		if s != "" {
			bad = append(bad, s)
		}
	}
	if !ok {
		add(fmt.Sprintf("Authenticate saw tx=%d for header %v; admissible readings: %v", authTx, c.hdr, readings))
		chosen = v10Interp{n: authTx}
	}
	want = v10RefServer(c.ignore, chosen.n, c.sTx)
	add(v10CheckInstalled(v10Side{"server", c.sCC.typ, c.sCC.profile, c.sNoLC}, want, gotS))
	add(v10CheckReported("EventLogger.Connect", want, connectTx, gotS))
	// the answer: "auto" iff ignore-client-bandwidth, else the server's MaxRx in decimal
	wantHdr := fmt.Sprintf("%d", c.sRx)
	if c.ignore {
		wantHdr = "auto"
	}
	if got := resp.Header.Values(v10HdrCCRX); len(got) != 1 || got[0] != wantHdr {
		add(fmt.Sprintf("response Hysteria-CC-RX=%q, want [%q]", got, wantHdr))
	}

	// Repeated auth requests on the already authenticated connection. The rate was
	// negotiated (and reported) once: whatever the later requests declare, the
	// installed controller must stay what the accepted handshake negotiated, and
	// nothing new may be reported.
	for i, a := range c.again {
		ctx2, cancel2 := context.WithTimeout(context.Background(), v10Wait)
		req2 := (&http.Request{
			Method: http.MethodPost,
			URL:    &url.URL{Scheme: "https", Host: "hysteria", Path: "/auth"},
			Header: make(http.Header),
		}).WithContext(ctx2)
		req2.Header.Set(v10HdrAuth, "v10")
		if a.badCred {
			req2.Header.Set(v10HdrAuth, v10BadCred)
		}
		if a.hdr.present {
			req2.Header.Set(v10HdrCCRX, a.hdr.val)
		}
		resp2, err := h3.RoundTrip(req2)
		if err != nil {
			cancel2()
			return "", fmt.Sprintf("repeated auth request %d failed (%v) for %v", i+1, err, c), chosen, want
		}
		_, _ = io.Copy(io.Discard, resp2.Body)
		_ = resp2.Body.Close()
		cancel2()
		if dials != 1 {
			return "", "the HTTP/3 transport dialled a new connection for the repeated auth request", chosen, want
		}
		// the controller is (re)installed, if at all, before the answer is written
		if now := v10ReadServerCC(sconn); now != gotS {
			add(fmt.Sprintf("after %v on the authenticated connection the server-side controller changed from %v to %v; Connect reported tx=%d once and the accepted handshake negotiated %v",
				a, gotS, now, connectTx, want))
		}
		if resp2.StatusCode == v10AuthOK {
			if got := resp2.Header.Values(v10HdrCCRX); len(got) != 1 || got[0] != wantHdr {
				add(fmt.Sprintf("answer to %v carries Hysteria-CC-RX=%q, want [%q]", a, got, wantHdr))
			}
		}
	}
	if len(c.again) > 0 {
		// silence check (expiry = pass): no second Connect event with whatever rate
		select {
		case tx2 := <-sv.events.connect:
			add(fmt.Sprintf("a repeated auth request produced another Connect event (tx=%d); the connection's rate was reported as tx=%d", tx2, connectTx))
		case <-time.After(20 * time.Millisecond):
		}
		select {
		case <-sv.conns:
			return "", "a second server-side connection appeared during the repeated auth requests", chosen, want
		default:
		}
	}
	if len(bad) > 0 {
		return fmt.Sprintf("%s\n  case:     %v\n  expected: server %v (client's declaration read as %v)\n  observed: server %v (Connect tx=%d, Authenticate tx=%d), response Hysteria-CC-RX=%q",
			strings.Join(bad, "; "), c, want, chosen, gotS, connectTx, authTx, resp.Header.Values(v10HdrCCRX)), "", chosen, want
	}
	return "", "", chosen, want
}

func TestVerifC10_RawClientHeader(t *testing.T) {
	st := newVStats("TestVerifC10_RawClientHeader")
	defer st.Flush()
	rapid.Check(t, func(rt *rapid.T) {
		rand.Seed(rapid.Int64().Draw(rt, "mathRandSeed"))
		var c v10RawCase
		c.hdr = v10GenHeader(rt, false)
		c.sTx = rapid.SampledFrom(v10Lattice).Draw(rt, "serverMaxTx")
		c.sRx = rapid.SampledFrom(v10Lattice).Draw(rt, "serverMaxRx")
		c.ignore = rapid.IntRange(0, 3).Draw(rt, "ignoreClientBandwidth") == 0
		c.sCC = v10GenCC(rt, "server")
		c.sNoLC = rapid.Bool().Draw(rt, "serverDisableLossComp")
		c.disableUDP = rapid.IntRange(0, 4).Draw(rt, "disableUDP") == 0
		c.withPadding = rapid.Bool().Draw(rt, "padding")
		for n := rapid.SampledFrom([]int{1, 0, 2}).Draw(rt, "reauths"); n > 0; n-- {
			c.again = append(c.again, v10Reauth{hdr: v10GenHeader(rt, false), badCred: rapid.IntRange(0, 2).Draw(rt, "reauthBadCred") == 2})
		}
		viol, inc, chosen, want := v10RunRaw(c)
		for try := 0; inc != "" && try < v10Retries; try++ {
			st.Class("handshake retried")
			viol, inc, chosen, want = v10RunRaw(c)
		}
		if inc != "" {
			vInconclusive("C10: " + inc)
		}
		readings := v10Readings(c.hdr, false)
		cls := []string{v10RateClass("server", want, c.sTx, chosen.n), "hdr=" + v10HdrClass(c.hdr, false)}
		if c.ignore {
			cls = append(cls, "ignoreClientBandwidth")
		}
		if v10IsHuge(want) {
			cls = append(cls, "fixed rate > 2^62-1 (saturates)")
		}
		cls = append(cls, fmt.Sprintf("reauths=%d", len(c.again)))
		if v10ReauthWouldChange(c, want) {
			cls = append(cls, "reauth declares a rate that would change the controller")
		}
		nt := v10NTPair(c.ignore, c.sTx, chosen.n) || len(readings) > 1 || (c.sTx != 0 && v10HdrClass(c.hdr, false) != "decimal") || v10ReauthWouldChange(c, want)
		st.Case(nt, c.String(), cls, func() string { return fmt.Sprintf("%v => read as %v, server %v", c, chosen, want) })
		if viol != "" {
			rt.Fatalf("C10 raw client header: %s", viol)
		}
	})
}

func v10HdrClass(h v10Hdr, response bool) string {
	if !h.present {
		return "missing"
	}
	if response && strings.EqualFold(strings.TrimSpace(h.val), "auto") {
		if h.val == "auto" {
			return "auto"
		}
		return "auto-variant"
	}
	rs := v10Readings(h, response)
	if len(rs) == 1 && rs[0].n != 0 || h.val == "0" || h.val == "0000" {
		return "decimal"
	}
	if len(rs) == 2 && rs[1].n == math.MaxUint64 {
		return "overflow"
	}
	return "unparseable"
}

// ------------------------------------------------------------------ 3. real client x fake HTTP/3 server

type v10FakeCase struct {
	hdr        v10Hdr
	cTx, cRx   uint64
	cCC        v10CCConf
	cNoLC      bool
	udpHdr     string
	addPadding bool
}

func (c v10FakeCase) String() string {
	return fmt.Sprintf("fake server answers 233 Hysteria-CC-RX=%v Hysteria-UDP=%q -> client{MaxTx=%s MaxRx=%s cc=%v DisableLossCompensation=%v}",
		c.hdr, c.udpHdr, v10U64Name(c.cTx), v10U64Name(c.cRx), c.cCC, c.cNoLC)
}

func v10RunFake(c v10FakeCase) (violation, inconclusive string, chosen v10Interp, want v10Rate) {
	pc, err := net.ListenUDP("udp", &net.UDPAddr{IP: net.IPv4(127, 0, 0, 1), Port: 0})
	if err != nil {
		return "", "cannot open a loopback UDP socket: " + err.Error(), chosen, want
	}
	defer pc.Close()
	tr := &quic.Transport{Conn: pc}
	defer tr.Close()
	ln, err := tr.Listen(http3.ConfigureTLSConfig(&tls.Config{Certificates: []tls.Certificate{v10Cert()}}), v10QUICConfig())
	if err != nil {
		return "", "fake server cannot listen: " + err.Error(), chosen, want
	}
	seenRx := make(chan string, 4)
	h3s := &http3.Server{Handler: http.HandlerFunc(func(w http.ResponseWriter, r *http.Request) {
		select {
		case seenRx <- strings.Join(r.Header.Values(v10HdrCCRX), ","):
		default:
		}
		if c.hdr.present {
			w.Header().Set(v10HdrCCRX, c.hdr.val)
		}
		if c.udpHdr != "" {
			w.Header().Set(v10HdrUDP, c.udpHdr)
		}
		if c.addPadding {
			w.Header().Set("Hysteria-Padding", "yyyyyyyyyyyyyyyyyyyyyyyyyyyyyyyyyyyyyyyyyyyyyyy")
		}
		w.WriteHeader(v10AuthOK)
	})}
	var wg sync.WaitGroup
	ctx, cancel := context.WithCancel(context.Background())
	wg.Add(1)
	go func() {
		defer wg.Done()
		for {
			conn, err := ln.Accept(ctx)
			if err != nil {
				return
			}
			wg.Add(1)
			go func() {
				defer wg.Done()
				_ = h3s.ServeQUICConn(conn)
				_ = conn.CloseWithError(0x100, "")
			}()
		}
	}()
	defer func() {
		cancel()
		v10Bounded("fake server Close()", func() {
			_ = ln.Close()
			_ = h3s.Close()
			_ = tr.Close()
			_ = pc.Close()
		})
		v10WaitGroup(&wg, "fake server goroutines")
	}()

	cl, info, err := v10NewClient(&client.Config{
		ServerAddr:       pc.LocalAddr(),
		Auth:             "v10",
		TLSConfig:        client.TLSConfig{InsecureSkipVerify: true},
		CongestionConfig: client.CongestionConfig{Type: c.cCC.typ, BBRProfile: c.cCC.profile},
		BandwidthConfig:  client.BandwidthConfig{MaxTx: c.cTx, MaxRx: c.cRx, DisableLossCompensation: c.cNoLC},
	})
	if err != nil {
		return "", fmt.Sprintf("handshake with the fake server failed (%v) for %v", err, c), chosen, want
	}
	defer v10Bounded("client Close()", func() { _ = cl.Close() })
	gotC := v10ReadClientCC(cl)
	if info == nil {
		return "NewClient returned no HandshakeInfo: " + c.String(), "", chosen, want
	}

	// the client's own declaration on the wire: its MaxRx in decimal
	var bad []string
	select {
	case rx := <-seenRx:
		if rx != fmt.Sprintf("%d", c.cRx) {
			bad = append(bad, fmt.Sprintf("client sent Hysteria-CC-RX=%q, its MaxRx is %d", rx, c.cRx))
		}
	case <-time.After(v10Wait):
		return "", "fake server never saw the auth request", chosen, want
	}

	// admissible readings of the answer: all observables must agree with ONE of them
	readings := v10Readings(c.hdr, true)
	var firstErr string
	matched := false
	for _, r := range readings {
		w := v10RefClient(r.auto, c.cTx, r.n)
		e := v10CheckInstalled(v10Side{"client", c.cCC.typ, c.cCC.profile, c.cNoLC}, w, gotC)
		if e == "" {
			e = v10CheckReported("HandshakeInfo", w, info.Tx, gotC)
		}
		if e == "" {
			matched, chosen, want = true, r, w
			break
		}
		if firstErr == "" {
			firstErr, chosen, want = e, r, w
		}
	}
	if !matched {
		bad = append(bad, fmt.Sprintf("%s (admissible readings of the answer: %v)", firstErr, readings))
	}
	if len(bad) > 0 {
		return fmt.Sprintf("%s\n  case:     %v\n  expected: client %v\n  observed: client %v, HandshakeInfo.Tx=%d",
			strings.Join(bad, "; "), c, want, gotC, info.Tx), "", chosen, want
	}
	return "", "", chosen, want
}

func TestVerifC10_FakeServerHeader(t *testing.T) {
	st := newVStats("TestVerifC10_FakeServerHeader")
	defer st.Flush()
	rapid.Check(t, func(rt *rapid.T) {
		rand.Seed(rapid.Int64().Draw(rt, "mathRandSeed"))
		var c v10FakeCase
		c.hdr = v10GenHeader(rt, true)
		c.cTx = rapid.SampledFrom(v10ClientTxLattice).Draw(rt, "clientMaxTx")
		c.cRx = rapid.SampledFrom(v10ClientRxLattice).Draw(rt, "clientMaxRx")
		c.cCC = v10GenCC(rt, "client")
		c.cNoLC = rapid.Bool().Draw(rt, "clientDisableLossComp")
		c.udpHdr = rapid.SampledFrom([]string{"true", "false", "", "yes"}).Draw(rt, "udpHdr")
		c.addPadding = rapid.Bool().Draw(rt, "padding")
		viol, inc, chosen, want := v10RunFake(c)
		for try := 0; inc != "" && try < v10Retries; try++ {
			st.Class("handshake retried")
			viol, inc, chosen, want = v10RunFake(c)
		}
		if inc != "" {
			vInconclusive("C10: " + inc)
		}
		readings := v10Readings(c.hdr, true)
		cls := []string{v10RateClass("client", want, c.cTx, chosen.n), "hdr=" + v10HdrClass(c.hdr, true), "clientCC=" + v10NormType(c.cCC.typ)}
		if v10IsHuge(want) {
			cls = append(cls, "fixed rate > 2^62-1 (saturates)")
		}
		nt := v10NTPair(chosen.auto, c.cTx, chosen.n) || len(readings) > 1 || (c.cTx != 0 && v10HdrClass(c.hdr, true) != "decimal")
		st.Case(nt, c.String(), cls, func() string { return fmt.Sprintf("%v => read as %v, client %v", c, chosen, want) })
		if viol != "" {
			rt.Fatalf("C10 fake server header: %s", viol)
		}
	})
}
