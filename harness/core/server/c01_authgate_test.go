package server

// C01 — no proxying before authentication on the same QUIC connection.
//
// Generated histories: 1-3 raw connections to ONE real server, 2-5 rounds of 1-4
// operations; the operations of a round are issued concurrently from separate
// goroutines:
//
//   G AuthGood   POST https://hysteria/auth with a token of the case's token table
//   B AuthBad    same request, token not in the table (empty, near-miss, absent header)
//   H OtherHTTP  near-miss of the auth request (wrong method / host / path), possibly
//                carrying a GOOD token — it is not an authentication request
//   T TCPReq     raw bidirectional stream: 0x401 + TCPRequest (own encoder) + payload
//   D Datagram   UDPMessage (own encoder): complete, first fragment only, or both fragments
//
// The fake Authenticator may be told (per op) to hold the call open until the other
// operations of the round were written (+ a few ms): this widens the window between
// "authenticator called" and "verdict returned".
//
// Oracles (predicates over the event log written by the fakes, plus what the raw
// client observed) — see v01Judge:
//   O1 every Outbound.TCP/UDP/CheckUDP, every relayed byte, every EventLogger
//      Connect/TCPRequest/UDPRequest entry attributed to connection c comes after an
//      Authenticate(c) = ok entry;
//   O2 after c's 233 was received: a TCPReq gets its TCPResponse + echo and exactly one
//      Outbound.TCP call — also after a later AuthBad / repeated AuthGood on c; every
//      auth-shaped request on c answers 233; the authenticator is never called again for c;
//   O3 a connection on which no authentication request with accepted credentials was
//      sent never reaches the outbound / event logger, whatever other connections did,
//      and its proxy streams deliver 0 bytes up to a barrier round trip + grace;
//   O4 datagram labels of such connections never reach Outbound.UDP/CheckUDP and the
//      client receives no datagram.
// Streams/datagrams sent before or concurrently with the accept may be served after
// it (the statement says "until"): for those only O1 is asserted.

import (
	"bytes"
	"errors"
	"fmt"
	"io"
	"math/rand"
	"net/http"
	"runtime"
	"sort"
	"strings"
	"sync"
	"sync/atomic"
	"testing"
	"time"

	"github.com/apernet/quic-go"
	"pgregory.net/rapid"
)

const (
	v01KAuthGood = iota
	v01KAuthBad
	v01KOtherHTTP
	v01KTCPReq
	v01KDatagram
)

var v01KindNames = []string{"G", "B", "H", "T", "D"}

const (
	v01HoldNone      = iota
	v01HoldWritten   // until the round's proxy ops were written (cap 300 ms)
	v01HoldAfterAuth // until another auth op's verdict was returned (cap 40 ms): generated completion order
	v01HoldPastClose // until the op's own connection was closed (cap 5 s): the verdict arrives after the close
	v01HoldTwin      // until the twin request (same credential string and CC-RX, ANOTHER connection) was handed to its client (cap 300 ms)
)

var v01HoldNames = []string{"", "written", "after-auth", "past-close", "twin-in-flight"}

type v01Op struct {
	Kind  int
	Conn  int
	N     int
	Round int
	Label string

	// G/B
	Token  string // full header value; "\x00" = header absent
	CCRX   string
	Pad    string
	Slow   bool // = Hold != v01HoldNone
	HoldMs int
	// Hold: the fake authenticator parks this op's Authenticate call until an event
	// (always with a cap, so nothing can dead-lock), then sleeps HoldMs, then answers.
	Hold       int
	HoldTarget string // v01HoldAfterAuth: label of the other auth op whose verdict is awaited
	HoldLate   bool   // v01HoldPastClose: also wait until the next round's connections are open
	Detached   bool   // the round does not wait for this op (it can only finish when its connection is closed)
	pairOf     *v01Op
	ReuseOf    *v01Op // the credential string is, verbatim, the one of this earlier accepted op (usually of another connection)
	BadWhy     string // AuthBad: why the authenticator rejects it
	After      *v01Op // twin: this request is sent only once After's call is inside the authenticator (cap 300 ms), and releases it
	// H
	HTTP *v01HTTPReq
	// T
	Framing, WType, WAddr, PayloadLen int
	FailDial                          bool
	// D
	SID     uint32
	DMode   int // 0 complete, 1 first fragment only, 2 both fragments
	DataLen int
}

func (o *v01Op) addr() string {
	switch o.Kind {
	case v01KTCPReq:
		if o.FailDial {
			return o.Label + "-fail.test:80"
		}
		return o.Label + ".test:80"
	case v01KDatagram:
		return o.Label + ".test:53"
	}
	return o.Label
}

func (o *v01Op) String() string {
	switch o.Kind {
	case v01KAuthGood, v01KAuthBad:
		tok := o.Token
		if tok == "\x00" {
			tok = "<absent>"
		}
		if o.ReuseOf != nil {
			tok += " (verbatim reuse)"
		}
		if o.BadWhy != "" {
			tok += " [" + o.BadWhy + "]"
		}
		s := fmt.Sprintf("%s(c%d op%d token=%q rx=%s", v01KindNames[o.Kind], o.Conn, o.N, tok, o.CCRX)
		if o.Slow {
			s += fmt.Sprintf(" hold=%s", v01HoldNames[o.Hold])
			if o.Hold == v01HoldAfterAuth {
				s += "(" + o.HoldTarget + ")"
			}
			if o.HoldLate {
				s += "+next-round-open"
			}
			s += fmt.Sprintf("+%dms", o.HoldMs)
		}
		if o.After != nil {
			s += " sent-while-" + o.After.Label + "-is-inside-the-authenticator"
		}
		if o.Detached {
			s += " detached"
		}
		return s + ")"
	case v01KOtherHTTP:
		return fmt.Sprintf("H(c%d op%d %s)", o.Conn, o.N, o.HTTP)
	case v01KTCPReq:
		return fmt.Sprintf("T(c%d op%d %s framing=%s w=%d/%d payload=%d)", o.Conn, o.N, o.addr(), v01FrNames[o.Framing], o.WType, o.WAddr, o.PayloadLen)
	default:
		return fmt.Sprintf("D(c%d op%d %s sid=%d mode=%d data=%d)", o.Conn, o.N, o.addr(), o.SID, o.DMode, o.DataLen)
	}
}

// v01ConnPlan: a connection is opened right before round Open and closed (client side,
// then the harness waits until the server has seen the close) right after round Close-1.
type v01ConnPlan struct {
	Open, Close int
	Accept      bool // role: does the history contain an AuthGood on this connection
}

type v01Case struct {
	NConn      int
	Conns      []v01ConnPlan
	Accept     []bool // = Conns[i].Accept
	AcceptRnd  []int  // first round with an AuthGood (-1 = never)
	Rounds     [][]*v01Op
	GoodTokens []string
	UseTL      bool
	ParkClose  []int // round in which an auth call of the connection is parked across its close (-1 none)
	OneP       bool  // run the case with GOMAXPROCS(1) (makes per-P caches/pools in the server deterministic)
	Mode       string
	Seed       int64
	// the authenticator's verdict table changes during the case and depends on the connection:
	RevokeAt  map[string]int // token -> from this round on it is rejected for everybody
	LateToken string         // rejected before round GrantAt, accepted from then on
	GrantAt   int
	DenyConn  []bool // the authenticator rejects everything presented from this connection's address
}

func (c *v01Case) render() string {
	var b strings.Builder
	fmt.Fprintf(&b, "conns=%d good=%q tl=%v gomaxprocs1=%v lifetimes:", c.NConn, c.GoodTokens, c.UseTL, c.OneP)
	for i, p := range c.Conns {
		role := "never"
		if p.Accept {
			role = "accept"
		}
		fmt.Fprintf(&b, " c%d[r%d..r%d %s]", i, p.Open, p.Close-1, role)
	}
	if len(c.RevokeAt) > 0 || c.LateToken != "" {
		fmt.Fprintf(&b, " revoke-at-round=%v", c.RevokeAt)
		if c.LateToken != "" {
			fmt.Fprintf(&b, " grant %q at round %d", c.LateToken, c.GrantAt)
		}
	}
	for i, d := range c.DenyConn {
		if d {
			fmt.Fprintf(&b, " authenticator-denies-c%d", i)
		}
	}
	for r, ops := range c.Rounds {
		fmt.Fprintf(&b, "\n  round %d:", r)
		for _, o := range ops {
			b.WriteString(" " + o.String())
		}
	}
	return b.String()
}

func (c *v01Case) fingerprint() string {
	per := make([][]string, c.NConn)
	for r, ops := range c.Rounds {
		for _, o := range ops {
			k := v01KindNames[o.Kind]
			if o.Kind == v01KTCPReq {
				k += v01FrNames[o.Framing][:1]
			}
			if o.Kind == v01KDatagram {
				k += fmt.Sprint(o.DMode)
			}
			if o.Slow {
				k += "~" + fmt.Sprint(o.Hold)
			}
			if o.ReuseOf != nil {
				k += "="
			}
			per[o.Conn] = append(per[o.Conn], fmt.Sprintf("%d%s", r, k))
		}
	}
	parts := make([]string, c.NConn)
	for i := range per {
		parts[i] = fmt.Sprintf("[%d-%d]", c.Conns[i].Open, c.Conns[i].Close) + strings.Join(per[i], ",")
	}
	return strings.Join(parts, "|")
}

// ---------------------------------------------------------------- generators

var (
	v01WrongMethods = []string{"GET", "PUT", "DELETE", "HEAD", "OPTIONS", "PATCH", "post", "Post", "POSTS", "POS", "PROBE", "TRACE"}
	v01WrongHosts   = []string{"Hysteria", "HYSTERIA", "hysteria:443", "hysteria.", "example.com", "xhysteria", "hysteria.example.com", "hysteri", "hysteria:80", "127.0.0.1"}
	v01WrongPaths   = []string{"/auth/", "/Auth", "/AUTH", "//auth", "/", "/authx", "/a/../auth", "/auth/x", "/aut", "/./auth", "/auth;x", "/index.html"}
	v01TokenPool    = []string{"alpha", "Bravo-7", "s3cr3t", "x", "correct horse battery"}
)

// v01DrawHTTP draws one HTTP/3 request from the near-miss grid around POST hysteria/auth.
// creds: 0 none, 1 rejected token, 2 accepted token (only ever attached to a request that
// is clearly not an authentication request). allowExact permits the exact auth shape
// (always with rejected or no credentials).
func v01DrawHTTP(rt *rapid.T, id string, good, bad string, allowExact bool, allowGoodCreds bool) *v01HTTPReq {
	r := &v01HTTPReq{ID: id, Method: "POST", Authority: "hysteria", Path: "/auth", Header: http.Header{}}
	shapes := []string{"m", "h", "p", "m", "h", "p", "mh", "mp", "hp", "mhp", "amb"}
	if allowExact {
		shapes = append(shapes, "exact", "exact", "amb")
	}
	sh := rapid.SampledFrom(shapes).Draw(rt, id+"/shape")
	if strings.Contains(sh, "m") && sh != "amb" {
		r.Method = rapid.SampledFrom(v01WrongMethods).Draw(rt, id+"/method")
	}
	if strings.Contains(sh, "h") && sh != "amb" {
		r.Authority = rapid.SampledFrom(v01WrongHosts).Draw(rt, id+"/host")
	}
	if strings.Contains(sh, "p") && sh != "amb" {
		r.Path = rapid.SampledFrom(v01WrongPaths).Draw(rt, id+"/path")
	}
	if sh == "amb" {
		if rapid.Bool().Draw(rt, id+"/ambq") {
			r.RawQuery = rapid.SampledFrom([]string{"x=1", "auth", "a=b&c=d"}).Draw(rt, id+"/query")
		} else {
			r.RawPath = rapid.SampledFrom([]string{"/%61uth", "/au%74h", "/%61%75%74%68"}).Draw(rt, id+"/rawpath")
		}
	} else if r.Path != "/auth" && rapid.IntRange(0, 4).Draw(rt, id+"/q") == 0 {
		r.RawQuery = "x=1"
	}
	r.HostViaURL = rapid.IntRange(0, 5).Draw(rt, id+"/hostviaurl") == 0
	r.MethodOK = r.Method == "POST"
	r.HostOK = r.Authority == "hysteria"
	r.DecodedAuth = r.Path == "/auth"
	r.PathOK = r.DecodedAuth && r.RawPath == "" && r.RawQuery == ""
	// credentials and other Hysteria-* request headers
	creds := rapid.IntRange(0, 2).Draw(rt, id+"/creds")
	if creds == 2 && (!r.ClearNonAuth() || !allowGoodCreds) {
		creds = 1
	}
	switch creds {
	case 1:
		r.Header.Set("Hysteria-Auth", bad+"#"+id)
	case 2:
		r.Header.Set("Hysteria-Auth", good+"#"+id)
	}
	switch rapid.IntRange(0, 3).Draw(rt, id+"/ccrx") {
	case 1:
		r.Header.Set("Hysteria-CC-RX", "0")
	case 2:
		r.Header.Set("Hysteria-CC-RX", "garbage")
	case 3:
		r.Header.Set("Hysteria-CC-RX", "1000000")
	}
	if rapid.Bool().Draw(rt, id+"/pad") {
		r.Header.Set("Hysteria-Padding", strings.Repeat("Pq7", 1+rapid.IntRange(0, 20).Draw(rt, id+"/padlen")))
	}
	if rapid.Bool().Draw(rt, id+"/probe") {
		r.Header.Set("X-Probe", rapid.SampledFrom([]string{"1", "scan", "Mozilla/5.0", "a b"}).Draw(rt, id+"/probeval"))
	}
	switch r.Method {
	case "GET", "HEAD", "OPTIONS", "DELETE", "TRACE":
	default:
		if n := rapid.IntRange(-1, 48).Draw(rt, id+"/bodylen"); n >= 0 {
			r.Body = make([]byte, n)
			for i := range r.Body {
				r.Body[i] = byte('a' + (i*5+n)%26)
			}
		}
	}
	return r
}

func v01BadToken(rt *rapid.T, good []string, name string) string {
	g := good[0]
	switch rapid.IntRange(0, 5).Draw(rt, name) {
	case 0:
		return ""
	case 1:
		return g + "x"
	case 2:
		if u := strings.ToUpper(g); u != g {
			return u
		}
		return g + g
	case 3:
		return g[:len(g)-1]
	case 4:
		return "wrong-password"
	default:
		return "\x00" // header absent
	}
}

func v01Base(auth string) string {
	if i := strings.LastIndexByte(auth, '#'); i >= 0 {
		return auth[:i]
	}
	return auth
}

// valid: would the authenticator accept this token in round r (connection aside)?
func (c *v01Case) valid(base string, r int) bool {
	if base == "" {
		return false
	}
	if base == c.LateToken {
		return r >= c.GrantAt
	}
	for _, g := range c.GoodTokens {
		if g == base {
			if k, ok := c.RevokeAt[g]; ok && r >= k {
				return false
			}
			return true
		}
	}
	return false
}

func v01Seq(a, b int) []int {
	var out []int
	for i := a; i <= b; i++ {
		out = append(out, i)
	}
	return out
}

func v01DrawCase(rt *rapid.T) *v01Case {
	c := &v01Case{}
	c.Seed = int64(rapid.Uint32().Draw(rt, "seed"))
	ntok := rapid.IntRange(1, 3).Draw(rt, "ntok")
	off := rapid.IntRange(0, len(v01TokenPool)-1).Draw(rt, "tokoff")
	for i := 0; i < ntok; i++ {
		c.GoodTokens = append(c.GoodTokens, v01TokenPool[(off+i)%len(v01TokenPool)])
	}
	c.UseTL = rapid.IntRange(0, 3).Draw(rt, "tl") == 0
	nr := rapid.IntRange(2, 6).Draw(rt, "rounds")
	// --- the verdict table changes over time: revoke / grant steps between rounds (the first token is never revoked)
	c.RevokeAt = map[string]int{}
	for _, g := range c.GoodTokens[1:] {
		if rapid.IntRange(0, 1).Draw(rt, "revoke/"+g) == 0 {
			c.RevokeAt[g] = rapid.IntRange(1, nr-1).Draw(rt, "revokeat/"+g)
		}
	}
	if rapid.IntRange(0, 2).Draw(rt, "late") == 0 {
		c.LateToken = "late-" + v01TokenPool[(off+ntok)%len(v01TokenPool)]
		c.GrantAt = rapid.IntRange(1, nr-1).Draw(rt, "grantat")
	}
	// --- connection lifetimes
	c.Mode = rapid.SampledFrom([]string{"overlap", "overlap", "generations", "generations", "generations"}).Draw(rt, "mode")
	if c.Mode == "overlap" {
		// all connections live for the whole history
		n := rapid.SampledFrom([]int{1, 2, 2, 2, 3, 3}).Draw(rt, "nconn")
		var roles []bool
		switch n {
		case 1:
			roles = []bool{rapid.IntRange(0, 3).Draw(rt, "role") > 0}
		case 2:
			roles = rapid.SampledFrom([][]bool{{true, false}, {true, false}, {false, true}, {true, true}, {false, false}}).Draw(rt, "roles")
		default:
			roles = rapid.SampledFrom([][]bool{{true, false, false}, {true, false, true}, {false, true, false}, {true, true, false}, {false, false, true}, {true, true, true}}).Draw(rt, "roles")
		}
		for _, a := range roles {
			c.Conns = append(c.Conns, v01ConnPlan{Open: 0, Close: nr, Accept: a})
		}
	} else {
		// consecutive generations: the connections of a generation are opened when it starts and
		// closed when it ends, BEFORE the next generation's connections are opened, all against
		// the same server. Optionally one connection spans the whole history.
		maxG := 4
		if nr < maxG {
			maxG = nr
		}
		g := rapid.IntRange(2, maxG).Draw(rt, "generations")
		cuts := map[int]bool{}
		perm := rapid.Permutation(v01Seq(1, nr-1)).Draw(rt, "cuts")
		for _, x := range perm[:g-1] {
			cuts[x] = true
		}
		start, gi := 0, 0
		for r := 1; r <= nr; r++ {
			if r != nr && !cuts[r] {
				continue
			}
			k := rapid.SampledFrom([]int{1, 1, 1, 2}).Draw(rt, fmt.Sprintf("g%d/n", gi))
			for j := 0; j < k && (j == 0 || len(c.Conns) < 5); j++ { // every generation has at least one connection
				pAccept := 3 // of 10
				if gi == 0 && j == 0 {
					pAccept = 8
				}
				a := rapid.IntRange(0, 9).Draw(rt, fmt.Sprintf("g%d/c%d/role", gi, j)) < pAccept
				c.Conns = append(c.Conns, v01ConnPlan{Open: start, Close: r, Accept: a})
			}
			start = r
			gi++
		}
		if rapid.IntRange(0, 3).Draw(rt, "spanning") == 0 && len(c.Conns) < 5 {
			c.Conns = append(c.Conns, v01ConnPlan{Open: 0, Close: nr, Accept: rapid.Bool().Draw(rt, "spanning/role")})
		}
		c.OneP = rapid.IntRange(0, 9).Draw(rt, "gomaxprocs1") < 4
	}
	c.NConn = len(c.Conns)
	c.DenyConn = make([]bool, c.NConn)
	c.Accept = make([]bool, c.NConn)
	for i, p := range c.Conns {
		c.Accept[i] = p.Accept
	}
	total := 0
	c.Rounds = make([][]*v01Op, nr)
	kinds := []int{v01KAuthGood, v01KAuthGood, v01KAuthBad, v01KAuthBad, v01KOtherHTTP, v01KOtherHTTP, v01KTCPReq, v01KTCPReq, v01KTCPReq, v01KTCPReq, v01KTCPReq, v01KDatagram, v01KDatagram, v01KDatagram}
	for r := 0; r < nr; r++ {
		var alive []int
		for i, p := range c.Conns {
			if p.Open <= r && r < p.Close {
				alive = append(alive, i)
			}
		}
		n := rapid.IntRange(1, 4).Draw(rt, fmt.Sprintf("r%d/n", r))
		for i := 0; i < n && total < 14; i++ {
			name := fmt.Sprintf("r%d/o%d", r, i)
			o := &v01Op{Round: r}
			o.Conn = rapid.SampledFrom(alive).Draw(rt, name+"/conn")
			o.Kind = rapid.SampledFrom(kinds).Draw(rt, name+"/kind")
			if o.Kind == v01KAuthGood && !c.Accept[o.Conn] {
				o.Kind = v01KAuthBad
			}
			c.Rounds[r] = append(c.Rounds[r], o)
			total++
		}
	}
	// every accept-role connection gets at least one AuthGood (early in its life, so that
	// "authenticate, proxy, close" is common); every other connection gets at least one op
	for ci, p := range c.Conns {
		has, any := false, false
		for _, ops := range c.Rounds {
			for _, o := range ops {
				has = has || (o.Conn == ci && o.Kind == v01KAuthGood)
				any = any || o.Conn == ci
			}
		}
		if p.Accept && !has {
			r := p.Open
			if p.Close-p.Open > 1 && rapid.IntRange(0, 3).Draw(rt, fmt.Sprintf("c%d/authlate", ci)) == 0 {
				r = rapid.IntRange(p.Open, p.Close-1).Draw(rt, fmt.Sprintf("c%d/authround", ci))
			}
			c.Rounds[r] = append(c.Rounds[r], &v01Op{Round: r, Conn: ci, Kind: v01KAuthGood})
		} else if !p.Accept && !any {
			r := rapid.IntRange(p.Open, p.Close-1).Draw(rt, fmt.Sprintf("c%d/opround", ci))
			k := rapid.SampledFrom([]int{v01KTCPReq, v01KTCPReq, v01KDatagram, v01KAuthBad}).Draw(rt, fmt.Sprintf("c%d/opkind", ci))
			c.Rounds[r] = append(c.Rounds[r], &v01Op{Round: r, Conn: ci, Kind: k})
		}
	}
	// scenario booster: a rejected attempt concurrent with the accepted one (its verdict is
	// generated to arrive AFTER the accepted one's), followed by a proxy stream in the next round
	for ci, p := range c.Conns {
		if !p.Accept || p.Close-p.Open < 2 {
			continue
		}
		var g *v01Op
		for _, ops := range c.Rounds {
			for _, o := range ops {
				if g == nil && o.Conn == ci && o.Kind == v01KAuthGood {
					g = o
				}
			}
		}
		if g == nil || g.Round+1 >= p.Close || rapid.IntRange(0, 9).Draw(rt, fmt.Sprintf("c%d/boost", ci)) >= 3 {
			continue
		}
		c.Rounds[g.Round] = append(c.Rounds[g.Round], &v01Op{Round: g.Round, Conn: ci, Kind: v01KAuthBad, pairOf: g})
		c.Rounds[g.Round+1] = append(c.Rounds[g.Round+1], &v01Op{Round: g.Round + 1, Conn: ci, Kind: v01KTCPReq})
	}
	c.fillDetails(rt, nr)
	return c
}

// fillDetails numbers the ops and draws everything below the level of "which op on which
// connection in which round": tokens, holds, framings, datagram modes, the twin shape.
func (c *v01Case) fillDetails(rt *rapid.T, nr int) {
	c.AcceptRnd = make([]int, c.NConn)
	c.ParkClose = make([]int, c.NConn)
	for i := range c.AcceptRnd {
		c.AcceptRnd[i] = -1
		c.ParkClose[i] = -1
	}
	{
		k := 0
		for _, ops := range c.Rounds {
			for _, o := range ops {
				o.N = k
				k++
				o.Label = fmt.Sprintf("c%d-op%d", o.Conn, o.N)
			}
		}
	}
	lastRound := make([]int, c.NConn)
	for r, ops := range c.Rounds {
		for _, o := range ops {
			if o.Kind == v01KAuthGood && c.AcceptRnd[o.Conn] < 0 {
				c.AcceptRnd[o.Conn] = r
			}
			lastRound[o.Conn] = r
		}
	}
	// details
	usedTok := map[string]bool{}
	n := 0
	for r, ops := range c.Rounds {
		for _, o := range ops {
			n++
			name := o.Label
			post := c.AcceptRnd[o.Conn] >= 0 && r > c.AcceptRnd[o.Conn]
			switch o.Kind {
			case v01KAuthGood, v01KAuthBad:
				// earlier accepted auth ops whose 233 was received: their credential string may be presented again, verbatim
				var cands []*v01Op
				for _, ops2 := range c.Rounds[:r] {
					for _, x := range ops2 {
						// (a connection presents a given string at most once: calls are attributed to ops by connection + string)
						if x.Kind == v01KAuthGood && x.Token != "\x00" && c.ParkClose[x.Conn] != x.Round && x.Conn != o.Conn && !usedTok[fmt.Sprintf("%d|%s", o.Conn, x.Token)] {
							cands = append(cands, x)
						}
					}
				}
				if o.Kind == v01KAuthGood {
					var valid []string
					for _, g := range c.GoodTokens {
						if c.valid(g, r) {
							valid = append(valid, g)
						}
					}
					if c.LateToken != "" && c.valid(c.LateToken, r) {
						valid = append(valid, c.LateToken)
					}
					var okc []*v01Op
					for _, x := range cands {
						if c.valid(v01Base(x.Token), r) {
							okc = append(okc, x)
						}
					}
					if len(okc) > 0 && rapid.IntRange(0, 2).Draw(rt, name+"/reuse") == 0 {
						o.ReuseOf = rapid.SampledFrom(okc).Draw(rt, name+"/reuseof")
						o.Token = o.ReuseOf.Token
					} else {
						o.Token = rapid.SampledFrom(valid).Draw(rt, name+"/tok") + "#" + o.Label
					}
				} else {
					h := rapid.IntRange(0, 9).Draw(rt, name+"/badkind")
					var revoked []string
					for _, g := range c.GoodTokens {
						if !c.valid(g, r) {
							revoked = append(revoked, g)
						}
					}
					var rc []*v01Op // reusable and rejected here: the token was revoked meanwhile, or (never-accepted connection) the authenticator rejects this connection
					for _, x := range cands {
						if !c.valid(v01Base(x.Token), r) || !c.Accept[o.Conn] {
							rc = append(rc, x)
						}
					}
					switch {
					case len(rc) > 0 && h < 4:
						o.ReuseOf = rapid.SampledFrom(rc).Draw(rt, name+"/reuseof")
						o.Token = o.ReuseOf.Token
						if c.valid(v01Base(o.Token), r) {
							c.DenyConn[o.Conn] = true
							o.BadWhy = "accepted elsewhere, authenticator rejects this connection"
						} else {
							o.BadWhy = "accepted earlier, revoked since"
						}
					case len(revoked) > 0 && h < 6:
						o.Token = rapid.SampledFrom(revoked).Draw(rt, name+"/revoked") + "#" + o.Label
						o.BadWhy = "revoked"
					case c.LateToken != "" && !c.valid(c.LateToken, r) && h < 7:
						o.Token = c.LateToken + "#" + o.Label
						o.BadWhy = "not granted yet"
					default:
						if t := v01BadToken(rt, c.GoodTokens, name+"/bad"); t == "\x00" {
							o.Token = t
						} else {
							o.Token = t + "#" + o.Label
						}
					}
				}
				if o.pairOf != nil && o.Token == "\x00" {
					o.Token = "wrong-password#" + o.Label
				}
				usedTok[fmt.Sprintf("%d|%s", o.Conn, o.Token)] = true
				o.CCRX = rapid.SampledFrom([]string{"-", "0", "0", "1000000000", "junk"}).Draw(rt, name+"/rx")
				if rapid.Bool().Draw(rt, name+"/pad") {
					o.Pad = strings.Repeat("z", 1+rapid.IntRange(0, 300).Draw(rt, name+"/padlen"))
				}
				if o.Token != "\x00" {
					h := rapid.IntRange(0, 9).Draw(rt, name+"/holdkind")
					p := c.Conns[o.Conn]
					var other *v01Op // another labelled auth op of the same connection in the same round
					for _, x := range ops {
						if x != o && x.Conn == o.Conn && (x.Kind == v01KAuthGood || x.Kind == v01KAuthBad) && x.HoldTarget != o.Label {
							other = x
						}
					}
					switch {
					case o.pairOf != nil:
						o.Hold, o.HoldTarget = v01HoldAfterAuth, o.pairOf.Label
					case r == p.Close-1 && p.Close < nr && c.ParkClose[o.Conn] < 0 && h < 4:
						// the connection is closed while this call is parked; the verdict arrives after the close
						o.Hold = v01HoldPastClose
						o.HoldLate = rapid.Bool().Draw(rt, name+"/holdlate")
						c.ParkClose[o.Conn] = r
					case other != nil && h < 7:
						o.Hold, o.HoldTarget = v01HoldAfterAuth, other.Label
					case h < 7:
						o.Hold = v01HoldWritten
					}
					if o.Hold != v01HoldNone {
						o.Slow = true
						o.HoldMs = rapid.IntRange(1, 12).Draw(rt, name+"/hold")
					}
				}
			case v01KOtherHTTP:
				good := rapid.SampledFrom(c.GoodTokens).Draw(rt, name+"/tok")
				bad := v01BadToken(rt, c.GoodTokens, name+"/bad")
				if bad == "\x00" {
					bad = "nope"
				}
				o.HTTP = v01DrawHTTP(rt, o.Label, good, bad, false, true)
			case v01KTCPReq:
				var fr []int
				switch {
				case post:
					// a refusal must be observable as a signal (stream reset / connection close), never as silence
					fr = []int{v01FrHdr, v01FrHdr, v01FrData0}
				case !c.Accept[o.Conn] && r == lastRound[o.Conn]:
					fr = []int{v01FrBlock, v01FrHdr, v01FrASCII, v01FrData0}
				default:
					fr = []int{v01FrBlock, v01FrHdr, v01FrASCII}
				}
				o.Framing = rapid.SampledFrom(fr).Draw(rt, name+"/framing")
				o.WType = rapid.SampledFrom([]int{2, 2, 4, 8}).Draw(rt, name+"/wtype")
				o.WAddr = rapid.SampledFrom([]int{1, 1, 2, 4}).Draw(rt, name+"/waddr")
				o.PayloadLen = rapid.SampledFrom([]int{0, 2, 5, 40, 300, 1500}).Draw(rt, name+"/payload")
				if (o.Framing == v01FrData0 || o.Framing == v01FrHdr) && o.PayloadLen < 2 {
					o.PayloadLen = 5 // data0/hdr framings need a payload to be a deterministic signal when refused
				}
				o.FailDial = rapid.IntRange(0, 7).Draw(rt, name+"/faildial") == 0
			case v01KDatagram:
				o.SID = uint32(rapid.IntRange(1, 3).Draw(rt, name+"/sid"))
				o.DMode = rapid.SampledFrom([]int{0, 0, 0, 1, 2}).Draw(rt, name+"/dmode")
				o.DataLen = rapid.SampledFrom([]int{1, 8, 100, 600}).Draw(rt, name+"/dlen")
			}
		}
	}
	// Twin shape: the SAME credential string with the same CC-RX is in flight on two connections
	// at once; the authenticator accepts it for one connection and rejects everything from the
	// other one's address. Either request may be the one that is parked inside the authenticator
	// while the other arrives.
	if rapid.IntRange(0, 9).Draw(rt, "twin") < 6 {
		type pair struct {
			x *v01Op
			b int
		}
		var ps []pair
		for r, ops := range c.Rounds {
			for _, x := range ops {
				if x.Kind != v01KAuthGood || x.Token == "\x00" || x.ReuseOf != nil || x.pairOf != nil || r != c.AcceptRnd[x.Conn] ||
					x.Hold == v01HoldPastClose || c.ParkClose[x.Conn] == r {
					continue
				}
				targeted := false
				for _, y := range ops {
					targeted = targeted || y.HoldTarget == x.Label || (y != x && y.Conn == x.Conn && y.Kind == v01KAuthGood)
				}
				if targeted {
					continue
				}
				for b, p := range c.Conns {
					if b != x.Conn && !p.Accept && p.Open <= r && r < p.Close && c.ParkClose[b] != r && !usedTok[fmt.Sprintf("%d|%s", b, x.Token)] {
						ps = append(ps, pair{x, b})
					}
				}
			}
		}
		if len(ps) > 0 {
			pr := rapid.SampledFrom(ps).Draw(rt, "twin/pair")
			x := pr.x
			y := &v01Op{Round: x.Round, Conn: pr.b, Kind: v01KAuthBad, N: n, ReuseOf: x, Token: x.Token, CCRX: x.CCRX, Pad: x.Pad,
				BadWhy: "in flight on another connection at the same time, authenticator rejects this connection"}
			y.Label = fmt.Sprintf("c%d-op%d", y.Conn, y.N)
			n++
			c.DenyConn[pr.b] = true
			usedTok[fmt.Sprintf("%d|%s", y.Conn, y.Token)] = true
			lead, follow := x, y
			if rapid.Bool().Draw(rt, "twin/refusedfirst") {
				lead, follow = y, x
			}
			lead.Hold, lead.Slow, lead.HoldTarget, lead.HoldLate = v01HoldTwin, true, "", false
			lead.HoldMs = rapid.IntRange(5, 15).Draw(rt, "twin/hold")
			follow.After = lead
			if follow.Hold == v01HoldAfterAuth {
				follow.Hold, follow.Slow = v01HoldNone, false
			}
			c.Rounds[x.Round] = append(c.Rounds[x.Round], y)
		}
	}
	// While a call is parked across the close, a correct server holds the connection's auth
	// lock: every other auth-shaped request of that connection in that round can only finish
	// when the connection is closed, so the round must not wait for any of its HTTP ops.
	for r, ops := range c.Rounds {
		for _, o := range ops {
			if c.ParkClose[o.Conn] == r && (o.Kind == v01KAuthGood || o.Kind == v01KAuthBad || o.Kind == v01KOtherHTTP) {
				o.Detached = true
			}
		}
	}
}

// v01DrawLongAuthCase: ONE connection that receives a long run (6-20) of auth requests -
// rejected ones, the accepted one, repeated accepted, repeated with wrong credentials,
// near-misses with garbage headers - with TCP requests / UDP messages interleaved and at
// the end. Rounds are short (1-2 ops), so the history is essentially sequential.
func v01DrawLongAuthCase(rt *rapid.T) *v01Case {
	c := &v01Case{Mode: "long-auth-history"}
	c.Seed = int64(rapid.Uint32().Draw(rt, "seed"))
	ntok := rapid.IntRange(1, 3).Draw(rt, "ntok")
	off := rapid.IntRange(0, len(v01TokenPool)-1).Draw(rt, "tokoff")
	for i := 0; i < ntok; i++ {
		c.GoodTokens = append(c.GoodTokens, v01TokenPool[(off+i)%len(v01TokenPool)])
	}
	c.UseTL = rapid.IntRange(0, 3).Draw(rt, "tl") == 0
	c.RevokeAt = map[string]int{}
	nAuth := rapid.IntRange(6, 20).Draw(rt, "nauth")
	preBad := rapid.SampledFrom([]int{0, 0, 1, 2, 2, 3, 4, 4, 5, 7}).Draw(rt, "prebad") // rejected attempts before the accepted one
	if preBad > nAuth-1 {
		preBad = nAuth - 1
	}
	var rounds [][]*v01Op
	add := func(ops ...*v01Op) {
		r := len(rounds)
		for _, o := range ops {
			o.Round = r
		}
		rounds = append(rounds, ops)
	}
	proxy := func(name string) *v01Op {
		if rapid.IntRange(0, 2).Draw(rt, name+"/kind") == 0 {
			return &v01Op{Kind: v01KDatagram}
		}
		return &v01Op{Kind: v01KTCPReq}
	}
	for i := 0; i < nAuth; i++ {
		name := fmt.Sprintf("a%d", i)
		var a *v01Op
		switch {
		case i < preBad:
			a = &v01Op{Kind: v01KAuthBad}
		case i == preBad:
			a = &v01Op{Kind: v01KAuthGood}
		default:
			switch rapid.IntRange(0, 5).Draw(rt, name+"/kind") {
			case 0, 1:
				a = &v01Op{Kind: v01KAuthGood} // repeated, accepted credentials
			case 2:
				a = &v01Op{Kind: v01KOtherHTTP} // near-miss with garbage headers
			default:
				a = &v01Op{Kind: v01KAuthBad} // repeated, wrong credentials
			}
		}
		ops := []*v01Op{a}
		if rapid.IntRange(0, 4).Draw(rt, name+"/with") == 0 {
			ops = append(ops, proxy(name+"/p")) // concurrent with the auth request
		}
		add(ops...)
		if rapid.IntRange(0, 2).Draw(rt, name+"/then") == 0 {
			add(proxy(name + "/q"))
		}
	}
	add(&v01Op{Kind: v01KTCPReq})
	add(&v01Op{Kind: v01KTCPReq}, &v01Op{Kind: v01KDatagram})
	nr := len(rounds)
	c.Rounds = rounds
	c.Conns = []v01ConnPlan{{Open: 0, Close: nr, Accept: true}}
	c.NConn = 1
	c.DenyConn = []bool{false}
	c.Accept = []bool{true}
	c.fillDetails(rt, nr)
	return c
}

// ---------------------------------------------------------------- execution

type v01Res struct {
	Op      *v01Op
	Post    bool // issued in a round after this connection's 233 was received
	HTTP    v01HTTPResp
	Stream  *v01Stream
	Payload []byte
	Status  byte
	Msg     string
	Echo    []byte
	Err     error
	ErrKind string // "", timeout, reset, h3kill, other
	Relayed bool   // datagram: label seen at the outbound (soft)
}

func v01ErrKind(cl *v01Client, err error) string {
	if err == nil {
		return ""
	}
	var se *quic.StreamError
	if errors.As(err, &se) {
		return "reset"
	}
	if v01KilledByH3(err) || (cl.dead() && v01KilledByH3(cl.deathCause())) {
		return "h3kill"
	}
	if v01IsTimeout(err) {
		return "timeout"
	}
	return "other"
}

type v01Run struct {
	c       *v01Case
	env     *v01Env
	clients []*v01Client
	gates   []chan struct{}
	wgs     []*sync.WaitGroup
	res     []*v01Res
	barrier []v01HTTPResp
	silentN map[string]int // label -> bytes read from a never-accepted connection's stream
	dgramsN []int

	evMu        sync.Mutex
	authDone    map[string]chan struct{} // label -> closed when that auth op's verdict was returned
	entered     map[string]chan struct{} // label -> closed when that auth op's call entered the authenticator
	twinSent    map[string]chan struct{} // label of a parked twin leader -> closed when the follower is being sent
	connClosed  []chan struct{}          // closed when the client side of the connection was closed
	roundOpened []chan struct{}          // closed when the connections of that round are open
	detached    [][]chan struct{}        // per connection: completion of ops the rounds did not wait for
	softMissing int                      // Disconnect / late verdict not seen within the soft bound
	remoteClose []*quic.ApplicationError // the SERVER closed the connection (captured before the harness closes it)
	excluded    int                      // ops on a never-authenticated connection the server had closed
	boundary    atomic.Int32             // current round: the authenticator's verdict table depends on it
}

func v01CloseOnce(ch chan struct{}) {
	defer func() { _ = recover() }()
	close(ch)
}

func v01WaitCap(ch <-chan struct{}, d time.Duration) bool {
	t := time.NewTimer(d)
	defer t.Stop()
	select {
	case <-ch:
		return true
	case <-t.C:
		return false
	}
}

// v01Execute runs the history once against a fresh server. envErr != "" means the
// environment failed before the history could run (nothing can be concluded from it).
func v01Execute(c *v01Case) (_ *v01Run, envErr string) {
	run := &v01Run{c: c, silentN: map[string]int{}}
	byLabel := map[string]*v01Op{}
	run.gates = make([]chan struct{}, len(c.Rounds))
	run.wgs = make([]*sync.WaitGroup, len(c.Rounds))
	for r, ops := range c.Rounds {
		run.gates[r] = make(chan struct{})
		run.wgs[r] = &sync.WaitGroup{}
		for _, o := range ops {
			byLabel[o.Label] = o
			if o.Kind == v01KTCPReq || o.Kind == v01KDatagram {
				run.wgs[r].Add(1)
			}
		}
	}
	run.authDone = map[string]chan struct{}{}
	for l, o := range byLabel {
		if o.Kind == v01KAuthGood || o.Kind == v01KAuthBad {
			run.authDone[l] = make(chan struct{})
		}
	}
	run.entered = map[string]chan struct{}{}
	run.twinSent = map[string]chan struct{}{}
	for l := range run.authDone {
		run.entered[l] = make(chan struct{})
		run.twinSent[l] = make(chan struct{})
	}
	run.connClosed = make([]chan struct{}, c.NConn)
	run.detached = make([][]chan struct{}, c.NConn)
	for i := range run.connClosed {
		run.connClosed[i] = make(chan struct{})
	}
	run.roundOpened = make([]chan struct{}, len(c.Rounds)+1)
	for i := range run.roundOpened {
		run.roundOpened[i] = make(chan struct{})
	}
	// harness-owned yield point inside Authenticate: every wait has a cap, so a server that
	// serialises the calls differently than expected can delay a case but never dead-lock it
	// the same credential string may be presented by several connections: ops are found by (connection, string)
	byConnTok := map[string]*v01Op{}
	for _, o := range byLabel {
		if (o.Kind == v01KAuthGood || o.Kind == v01KAuthBad) && o.Token != "\x00" {
			byConnTok[fmt.Sprintf("%d|%s", o.Conn, o.Token)] = o
		}
	}
	verdict := func(conn int, auth string) bool {
		if conn < 0 || conn >= c.NConn || c.DenyConn[conn] {
			return false
		}
		// The verdict table changes between rounds. A request is judged as of the round in which
		// it was ISSUED, whenever the server gets round to asking (a request queued behind a
		// parked call of its connection may be evaluated rounds later): this keeps the model
		// independent of server-side scheduling. Unknown strings use the current round.
		r := int(run.boundary.Load())
		if o := byConnTok[fmt.Sprintf("%d|%s", conn, auth)]; o != nil {
			r = o.Round
		}
		return c.valid(v01Base(auth), r)
	}
	hook := func(conn int, token string) {
		o := byConnTok[fmt.Sprintf("%d|%s", conn, token)]
		if o == nil {
			return
		}
		if ch := run.entered[o.Label]; ch != nil {
			run.evMu.Lock()
			v01CloseOnce(ch)
			run.evMu.Unlock()
		}
		if o.Hold == v01HoldNone {
			return
		}
		switch o.Hold {
		case v01HoldTwin:
			v01WaitCap(run.twinSent[o.Label], 300*time.Millisecond)
		case v01HoldWritten:
			v01WaitCap(run.gates[o.Round], 300*time.Millisecond)
		case v01HoldAfterAuth:
			if ch := run.authDone[o.HoldTarget]; ch != nil {
				v01WaitCap(ch, 40*time.Millisecond)
			}
		case v01HoldPastClose:
			v01WaitCap(run.connClosed[o.Conn], 5*time.Second)
			if o.HoldLate {
				v01WaitCap(run.roundOpened[c.Conns[o.Conn].Close], 5*time.Second)
			}
		}
		time.Sleep(time.Duration(o.HoldMs) * time.Millisecond)
	}
	done := func(conn int, token string) {
		o := byConnTok[fmt.Sprintf("%d|%s", conn, token)]
		if o == nil {
			return
		}
		if ch := run.authDone[o.Label]; ch != nil {
			run.evMu.Lock()
			v01CloseOnce(ch)
			run.evMu.Unlock()
		}
	}
	if c.OneP {
		// a single P makes per-P caches/pools inside the server deterministic (restored after the case)
		prev := runtime.GOMAXPROCS(1)
		defer runtime.GOMAXPROCS(prev)
	}
	run.env = v01NewEnv(v01EnvCfg{GoodTokens: c.GoodTokens, UseTL: c.UseTL, AuthHookC: hook, AuthDoneC: done, Verdict: verdict})
	run.clients = make([]*v01Client, c.NConn)
	run.barrier = make([]v01HTTPResp, c.NConn)
	run.dgramsN = make([]int, c.NConn)
	run.remoteClose = make([]*quic.ApplicationError, c.NConn)
	teardown := func() {
		// release everything that may still be parked
		for _, ch := range run.connClosed {
			v01CloseOnce(ch)
		}
		for _, ch := range run.roundOpened {
			v01CloseOnce(ch)
		}
		for _, x := range run.clients {
			if x != nil {
				x.Close()
				x.release()
			}
		}
		run.env.Close()
	}
	accepted := make([]bool, c.NConn) // 233 received in an earlier round
	for r, ops := range c.Rounds {
		// connections whose life starts with this round (the previous generation is already closed)
		for i, p := range c.Conns {
			if p.Open != r {
				continue
			}
			cl, err := v01Dial(run.env, i)
			if err != nil {
				teardown()
				return nil, err.Error()
			}
			run.clients[i] = cl
		}
		run.boundary.Store(int32(r)) // revoke / grant steps take effect here
		v01CloseOnce(run.roundOpened[r])
		go func(r int) { run.wgs[r].Wait(); close(run.gates[r]) }(r)
		var wg sync.WaitGroup
		results := make([]*v01Res, len(ops))
		for i, o := range ops {
			res := &v01Res{Op: o, Post: accepted[o.Conn]}
			results[i] = res
			if o.Detached {
				// can only finish when its connection is closed: collected by finish()
				ch := make(chan struct{})
				run.detached[o.Conn] = append(run.detached[o.Conn], ch)
				go func() {
					defer close(ch)
					run.doOp(res)
				}()
				continue
			}
			wg.Add(1)
			go func() {
				defer wg.Done()
				run.doOp(res)
			}()
		}
		wg.Wait()
		for _, res := range results {
			run.res = append(run.res, res)
			if res.Op.Detached {
				continue // still running; its connection ends with this round anyway
			}
			if res.Op.Kind == v01KAuthGood && res.HTTP.Err == nil && res.HTTP.Status == v01StatusHyOK {
				accepted[res.Op.Conn] = true
			}
		}
		// connections whose life ends with this round
		var ending []int
		for i, p := range c.Conns {
			if p.Close == r+1 {
				ending = append(ending, i)
			}
		}
		if msg := run.finish(ending, r+1 < len(c.Rounds)); msg != "" {
			teardown()
			return nil, msg
		}
	}
	teardown()
	return run, ""
}

// finish ends the life of the given connections: barrier round trip, grace, silence and
// datagram census (for the connection's own streams), client-side close; if the history
// goes on, it then waits until the SERVER has seen the close (EventLogger.Disconnect is
// logged for connections it had accepted; for the others there is nothing to observe and
// a short pause is all that can be done) so that "closed before the next one opens" holds
// on the server side too.
func (run *v01Run) finish(conns []int, more bool) (envErr string) {
	c := run.c
	if len(conns) == 0 {
		return ""
	}
	// barrier: one more HTTP round trip per connection, then a grace period; after that
	// nothing the server did for earlier streams/datagrams can still be in flight towards us
	// on an idle loopback (silence check: expiry = pass).
	var wg sync.WaitGroup
	for _, i := range conns {
		cl := run.clients[i]
		wg.Add(1)
		go func() {
			defer wg.Done()
			if cl.dead() {
				run.barrier[i] = v01HTTPResp{Err: cl.deathCause()}
				return
			}
			run.barrier[i] = cl.do(&v01HTTPReq{ID: fmt.Sprintf("c%d-bar", i), Method: "GET", Authority: "barrier.test", Path: "/"})
		}()
	}
	wg.Wait()
	time.Sleep(v01Grace)
	ending := map[int]bool{}
	for _, i := range conns {
		ending[i] = true
	}
	for _, res := range run.res {
		if res.Stream != nil && ending[res.Op.Conn] && !c.Accept[res.Op.Conn] {
			run.silentN[res.Op.Label] = res.Stream.silent(v01Grace / 3)
		}
	}
	for _, i := range conns {
		run.dgramsN[i] = run.clients[i].datagramCount()
	}
	for _, res := range run.res {
		if res.Stream != nil && ending[res.Op.Conn] {
			res.Stream.abandon()
		}
	}
	for _, i := range conns {
		if cl := run.clients[i]; cl.dead() {
			var ae *quic.ApplicationError
			if errors.As(cl.deathCause(), &ae) && ae.Remote {
				run.remoteClose[i] = ae
			}
		}
		run.clients[i].Close()
		v01CloseOnce(run.connClosed[i]) // releases a call parked across the close (after its HoldMs)
	}
	// ops the round did not wait for end with an error now that their connection is gone
	for _, i := range conns {
		for _, ch := range run.detached[i] {
			if !v01WaitCap(ch, v01ReqTimeout+5*time.Second) {
				return fmt.Sprintf("a request on connection c%d did not return after the connection was closed", i)
			}
		}
	}
	if !more {
		return ""
	}
	// Server side: wait (softly - this only shapes the schedule, nothing is concluded from
	// it) until a verdict parked across the close has been delivered and until the server
	// reported the close of a connection it had accepted.
	for _, i := range conns {
		for _, ops := range c.Rounds {
			for _, o := range ops {
				if o.Conn == i && o.Hold == v01HoldPastClose && !o.HoldLate && run.env.log.countConnLabel("AuthCall", i, o.Token) > 0 {
					if !v01WaitCap(run.authDone[o.Label], 2*time.Second) {
						run.softMissing++
					}
				}
			}
		}
		late := false
		for _, ops := range c.Rounds {
			for _, o := range ops {
				late = late || (o.Conn == i && o.Hold == v01HoldPastClose && o.HoldLate)
			}
		}
		wasAccepted := false
		for _, e := range run.env.log.snapshot() {
			if e.Kind == "AuthRet" && e.OK && e.Conn == i {
				wasAccepted = true
			}
		}
		if !wasAccepted || late {
			continue
		}
		deadline := time.Now().Add(2 * time.Second)
		for run.env.log.countConn("EvDisconnect", i) == 0 {
			if time.Now().After(deadline) {
				run.softMissing++
				break
			}
			time.Sleep(time.Millisecond)
		}
	}
	// the server finishes its per-connection teardown right after logging (or, for never
	// accepted connections, without logging anything): schedule shaping only
	time.Sleep(4 * time.Millisecond)
	return ""
}

func (run *v01Run) doOp(res *v01Res) {
	o := res.Op
	cl := run.clients[o.Conn]
	switch o.Kind {
	case v01KAuthGood, v01KAuthBad:
		req := v01AuthReq(o.Label, o.Token, o.CCRX, o.Pad)
		if o.Token == "\x00" {
			req.Header.Del("Hysteria-Auth")
		}
		if o.After != nil {
			// twin follower: goes out while the leader's call is inside the authenticator
			v01WaitCap(run.entered[o.After.Label], 300*time.Millisecond)
			run.evMu.Lock()
			v01CloseOnce(run.twinSent[o.After.Label])
			run.evMu.Unlock()
		}
		res.HTTP = cl.do(req)
		res.Err = res.HTTP.Err
	case v01KOtherHTTP:
		res.HTTP = cl.do(o.HTTP)
		res.Err = res.HTTP.Err
	case v01KTCPReq:
		head, payload := v01EncTCPRequest(o.addr(), o.Framing, o.WType, o.WAddr, o.PayloadLen, o.N*13+o.Conn)
		res.Payload = payload
		s := cl.openProxy(o.Label, head, payload)
		run.wgs[o.Round].Done()
		res.Stream = s
		if !res.Post {
			return // kept open; inspected after the barrier
		}
		if s.err != nil {
			res.Err = s.err
			break
		}
		_ = s.str.SetReadDeadline(time.Now().Add(v01ReqTimeout))
		st, msg, err := v01ReadTCPResponse(s.str)
		res.Status, res.Msg = st, msg
		if err != nil {
			res.Err = err
			break
		}
		if st == 0 && len(payload) > 0 {
			echo := make([]byte, len(payload))
			if _, err := io.ReadFull(s.str, echo); err != nil {
				res.Err = err
				break
			}
			res.Echo = echo
		}
		_ = s.str.Close()
	case v01KDatagram:
		data := bytes.Repeat([]byte{byte('A' + o.N%26)}, o.DataLen)
		var err error
		switch o.DMode {
		case 0:
			err = cl.qc.SendDatagram(v01EncUDPMessage(o.SID, 0, 0, 1, o.addr(), data))
		case 1:
			err = cl.qc.SendDatagram(v01EncUDPMessage(o.SID, uint16(100+o.N), 0, 2, o.addr(), data))
		default:
			if len(data) < 2 {
				data = append(data, '!')
			}
			h := len(data) / 2
			err = cl.qc.SendDatagram(v01EncUDPMessage(o.SID, uint16(100+o.N), 0, 2, o.addr(), data[:h]))
			if err == nil {
				err = cl.qc.SendDatagram(v01EncUDPMessage(o.SID, uint16(100+o.N), 1, 2, o.addr(), data[h:]))
			}
		}
		run.wgs[o.Round].Done()
		res.Err = err
		if err == nil && res.Post && o.DMode != 1 {
			// soft liveness (QUIC datagrams are unreliable): only recorded in the statistics
			dl := time.Now().Add(1500 * time.Millisecond)
			for time.Now().Before(dl) {
				if run.env.log.count("UDPWrite", o.addr()) > 0 {
					res.Relayed = true
					break
				}
				time.Sleep(2 * time.Millisecond)
			}
		}
	}
	res.ErrKind = v01ErrKind(cl, res.Err)
}

// ---------------------------------------------------------------- oracle

var v01GatedKinds = map[string]bool{"OutTCP": true, "OutUDP": true, "CheckUDP": true, "TCPWrite": true, "UDPWrite": true,
	"EvConnect": true, "EvTCPRequest": true, "EvUDPRequest": true}

// v01JudgeLog checks O1 (ordering) and O3/O4 (never-accepted connections) over the log.
// accept[c] = the history contains an authentication request with accepted credentials on c.
func v01JudgeLog(evs []v01Ev, accept []bool) string {
	okSeen := make([]bool, len(accept))
	for _, e := range evs {
		if e.Kind == "AuthRet" && e.OK && e.Conn >= 0 && e.Conn < len(accept) {
			if !accept[e.Conn] {
				return fmt.Sprintf("O3: the authenticator accepted on connection c%d although no authentication request with accepted credentials was sent on it (a request that is not POST hysteria/auth was evaluated as one): %s", e.Conn, e)
			}
			okSeen[e.Conn] = true
			continue
		}
		if !v01GatedKinds[e.Kind] {
			continue
		}
		if e.Conn < 0 || e.Conn >= len(accept) {
			return "harness: unattributed log entry " + e.String()
		}
		if !accept[e.Conn] {
			return fmt.Sprintf("O3/O4: %s happened for connection c%d, on which no authentication request was ever accepted", e, e.Conn)
		}
		if !okSeen[e.Conn] {
			return fmt.Sprintf("O1: %s happened before any Authenticate(c%d)=ok", e, e.Conn)
		}
	}
	// no re-evaluation: no AuthCall for c after its first ok
	first := make([]int, len(accept))
	for i := range first {
		first[i] = -1
	}
	for _, e := range evs {
		if e.Conn < 0 || e.Conn >= len(accept) {
			continue
		}
		if e.Kind == "AuthRet" && e.OK && first[e.Conn] < 0 {
			first[e.Conn] = e.Seq
		}
		if e.Kind == "AuthCall" && first[e.Conn] >= 0 && e.Seq > first[e.Conn] {
			return fmt.Sprintf("O2: the authenticator was called again for c%d after it had accepted that connection (%s)", e.Conn, e)
		}
	}
	return ""
}

func (run *v01Run) judge() (violation string, inconclusive string) {
	c := run.c
	evs := run.env.log.snapshot()
	if v := v01JudgeLog(evs, c.Accept); v != "" {
		return v, ""
	}
	// O5: status 233 means "accepted"; it can only be sent on a connection for which the
	// authenticator returned ok at some point (otherwise the attempt was accepted, or an
	// earlier connection's acceptance reused, without consulting the authenticator).
	okConn := make([]bool, c.NConn)
	for _, e := range evs {
		if e.Kind == "AuthRet" && e.OK && e.Conn >= 0 && e.Conn < c.NConn {
			okConn[e.Conn] = true
		}
	}
	for _, res := range run.res {
		o := res.Op
		if (o.Kind == v01KAuthGood || o.Kind == v01KAuthBad || o.Kind == v01KOtherHTTP) && res.Err == nil &&
			res.HTTP.Status == v01StatusHyOK && !okConn[o.Conn] {
			return fmt.Sprintf("O2/O3: %s was answered 233 although the authenticator never accepted anything on connection c%d (acceptance not decided by the authenticator for this connection)", o, o.Conn), ""
		}
	}
	killer := make([]int, c.NConn) // first round with a data0 stream on a never-accept connection
	for i := range killer {
		killer[i] = 1 << 30
	}
	for _, res := range run.res {
		o := res.Op
		if o.Kind == v01KTCPReq && o.Framing == v01FrData0 && !c.Accept[o.Conn] && o.Round < killer[o.Conn] {
			killer[o.Conn] = o.Round
		}
	}
	// A server may close a connection that never authenticated (C01 does not forbid it): the
	// connection is dead in the model from then on and the failures of its remaining ops say
	// nothing. Closing a connection AFTER its 233 was received is revocation of access.
	got233 := make([]bool, c.NConn)
	for _, res := range run.res {
		if res.Err == nil && res.HTTP.Status == v01StatusHyOK && (res.Op.Kind == v01KAuthGood || res.Op.Kind == v01KAuthBad) {
			got233[res.Op.Conn] = true
		}
	}
	closedUnauth := make([]bool, c.NConn)
	for i, ae := range run.remoteClose {
		closedUnauth[i] = ae != nil && !got233[i]
	}
	var inc string
	for _, res := range run.res {
		o := res.Op
		if closedUnauth[o.Conn] && res.Err != nil {
			run.excluded++
			continue
		}
		// detached ops belong to a connection that was closed while an auth call was parked: an error is the expected end
		tolerated := (!c.Accept[o.Conn] && o.Round >= killer[o.Conn]) || o.Detached
		switch o.Kind {
		case v01KAuthGood:
			if res.Err != nil {
				if tolerated {
					continue
				}
				if res.ErrKind == "h3kill" {
					return fmt.Sprintf("O2: connection c%d was closed by the server with H3_FRAME_UNEXPECTED: a proxy stream opened after the accept was not taken as a proxy stream (%s: %v)", o.Conn, o, res.Err), ""
				}
				inc = fmt.Sprintf("%s failed: %v", o, res.Err)
				continue
			}
			if res.HTTP.Status != v01StatusHyOK {
				return fmt.Sprintf("O2: %s carried accepted credentials but was answered %d, not 233 (post-accept=%v)", o, res.HTTP.Status, res.Post), ""
			}
		case v01KAuthBad:
			if res.Err != nil {
				if tolerated {
					continue
				}
				if res.ErrKind == "h3kill" {
					return fmt.Sprintf("O2: connection c%d was closed by the server with H3_FRAME_UNEXPECTED after its accept (%s: %v)", o.Conn, o, res.Err), ""
				}
				inc = fmt.Sprintf("%s failed: %v", o, res.Err)
				continue
			}
			if res.Post && res.HTTP.Status != v01StatusHyOK {
				return fmt.Sprintf("O2: %s on the already accepted connection c%d was answered %d, not 233: the attempt was re-evaluated", o, o.Conn, res.HTTP.Status), ""
			}
		case v01KOtherHTTP:
			if res.Err != nil && !tolerated {
				if res.ErrKind == "h3kill" {
					return fmt.Sprintf("O2: connection c%d was closed by the server with H3_FRAME_UNEXPECTED after its accept (%s: %v)", o.Conn, o, res.Err), ""
				}
				inc = fmt.Sprintf("%s failed: %v", o, res.Err)
			}
		case v01KTCPReq:
			if !res.Post {
				if !c.Accept[o.Conn] {
					if n := run.silentN[o.Label]; n > 0 {
						return fmt.Sprintf("O3: %d bytes arrived on the proxy stream of %s although connection c%d never authenticated", n, o, o.Conn), ""
					}
				}
				continue
			}
			switch res.ErrKind {
			case "":
			case "reset", "h3kill":
				return fmt.Sprintf("O2: %s was issued after c%d's 233 but the server refused it as a proxy stream (%s: %v)", o, o.Conn, res.ErrKind, res.Err), ""
			default:
				inc = fmt.Sprintf("%s (after the accept) got no TCPResponse: %s %v", o, res.ErrKind, res.Err)
				continue
			}
			want := byte(0)
			if o.FailDial {
				want = 1
			}
			if res.Status != want {
				return fmt.Sprintf("O2: %s after the accept: TCPResponse status %d (%q), want %d", o, res.Status, res.Msg, want), ""
			}
			if want == 0 && !bytes.Equal(res.Echo, res.Payload) {
				return fmt.Sprintf("O2: %s after the accept: echoed %d bytes differ from the %d sent", o, len(res.Echo), len(res.Payload)), ""
			}
			if n := v01Count(evs, "OutTCP", o.addr()); n != 1 {
				return fmt.Sprintf("O2: %s after the accept: Outbound.TCP called %d times, want exactly 1", o, n), ""
			}
		case v01KDatagram:
			if res.Err != nil && !tolerated {
				if res.ErrKind == "h3kill" {
					return fmt.Sprintf("O2: connection c%d was closed by the server with H3_FRAME_UNEXPECTED after its accept (%s: %v)", o.Conn, o, res.Err), ""
				}
				inc = fmt.Sprintf("%s: SendDatagram failed: %v", o, res.Err)
			}
		}
	}
	for i, ae := range run.remoteClose {
		if ae != nil && got233[i] && okConn[i] && ae.ErrorCode != 0x105 {
			n := 0
			for _, res := range run.res {
				if res.Op.Conn == i && (res.Op.Kind == v01KAuthGood || res.Op.Kind == v01KAuthBad) {
					n++
				}
			}
			return fmt.Sprintf("O2: the server closed connection c%d (application error 0x%x) although it had been accepted (233 received) and the harness had not closed it: access revoked after %d auth requests on it", i, uint64(ae.ErrorCode), n), ""
		}
	}
	for i := range run.clients {
		if closedUnauth[i] {
			continue
		}
		if !c.Accept[i] && run.dgramsN[i] > 0 {
			return fmt.Sprintf("O4: connection c%d never authenticated but received %d datagram(s) from the server", i, run.dgramsN[i]), ""
		}
		if err := run.barrier[i].Err; err != nil {
			if !c.Accept[i] && killer[i] < 1<<30 {
				continue
			}
			if v01KilledByH3(err) {
				return fmt.Sprintf("O2: connection c%d was closed by the server with H3_FRAME_UNEXPECTED after its accept", i), ""
			}
			inc = fmt.Sprintf("barrier request on c%d failed: %v", i, err)
		}
	}
	return "", inc
}

func v01Count(evs []v01Ev, kind, label string) int {
	n := 0
	for _, e := range evs {
		if e.Kind == kind && e.Label == label {
			n++
		}
	}
	return n
}

// ---------------------------------------------------------------- classification

func (c *v01Case) classify() (nt bool, classes []string) {
	set := map[string]bool{}
	proxy := make([]bool, c.NConn)
	preProxy := false
	reauthThenProxy := false
	reauth := make([]bool, c.NConn)
	authBad := make([]bool, c.NConn)    // an AuthBad on the connection
	preAuthBad := make([]bool, c.NConn) // an AuthBad before the connection's own accept round
	afterClosedAccepted := false
	lateAcceptThenBad := false
	for _, ops := range c.Rounds {
		for _, o := range ops {
			if o.Kind == v01KAuthBad {
				authBad[o.Conn] = true
			}
		}
	}
	for r, ops := range c.Rounds {
		for _, o := range ops {
			post := c.AcceptRnd[o.Conn] >= 0 && r > c.AcceptRnd[o.Conn]
			switch o.Kind {
			case v01KTCPReq, v01KDatagram:
				proxy[o.Conn] = true
				k := "tcp"
				if o.Kind == v01KDatagram {
					k = "dgram"
				}
				switch {
				case post:
					set["post-accept-"+k] = true
					if reauth[o.Conn] {
						reauthThenProxy = true
						set["proxy-after-reauth"] = true
					}
				case !c.Accept[o.Conn]:
					set["never-accepted-"+k] = true
				case r == c.AcceptRnd[o.Conn]:
					set["racing-"+k] = true
					preProxy = true
				default:
					set["pre-accept-"+k] = true
					preProxy = true
				}
				if o.Kind == v01KTCPReq {
					set["framing-"+v01FrNames[o.Framing]] = true
				}
			case v01KAuthBad:
				authBad[o.Conn] = true
				if c.Accept[o.Conn] && r < c.AcceptRnd[o.Conn] {
					preAuthBad[o.Conn] = true
				}
				if post {
					set["reject-after-accept"] = true
					reauth[o.Conn] = true
				} else if c.Accept[o.Conn] && r == c.AcceptRnd[o.Conn] {
					set["reject-racing-accept"] = true
				}
			case v01KAuthGood:
				if post {
					set["repeat-after-accept"] = true
					reauth[o.Conn] = true
				}
			case v01KOtherHTTP:
				if !c.Accept[o.Conn] && strings.Contains(o.HTTP.Header.Get("Hysteria-Auth"), "#") {
					for _, g := range c.GoodTokens {
						if strings.HasPrefix(o.HTTP.Header.Get("Hysteria-Auth"), g+"#") {
							set["nearmiss-with-good-token-on-never-accepted"] = true
						}
					}
				}
			}
			if o.ReuseOf != nil {
				if o.Kind == v01KAuthGood {
					set["verbatim-reuse:accepted-on-other-conn-too"] = true
				} else if c.DenyConn[o.Conn] && c.valid(v01Base(o.Token), r) {
					set["verbatim-reuse:rejected-for-this-conn"] = true
				} else {
					set["verbatim-reuse:rejected-after-revoke"] = true
				}
				if !c.Accept[o.Conn] {
					set["verbatim-reuse:on-never-accepted-conn"] = true
					for _, ops2 := range c.Rounds[r:] {
						for _, x := range ops2 {
							if x.Conn == o.Conn && (x.Kind == v01KTCPReq || x.Kind == v01KDatagram) {
								set["verbatim-reuse:on-never-accepted-conn+proxy"] = true
							}
						}
					}
				}
			}
			if o.After != nil {
				if o.Kind == v01KAuthBad {
					set["twin-in-flight:accepted-conn-parked,refused-conn-joins"] = true
				} else {
					set["twin-in-flight:refused-conn-parked,accepted-conn-joins"] = true
				}
				set["twin-in-flight"] = true
			}
			if o.BadWhy == "revoked" || o.BadWhy == "not granted yet" {
				set["authbad="+o.BadWhy] = true
			}
			if o.Slow {
				set["held-authenticator"] = true
				set["hold="+v01HoldNames[o.Hold]] = true
				if o.HoldLate {
					set["hold=past-close+next-round-open"] = true
				}
				if o.Hold == v01HoldAfterAuth {
					set["concurrent-auths-ordered"] = true
					if o.Kind == v01KAuthBad && c.Accept[o.Conn] && r == c.AcceptRnd[o.Conn] {
						set["reject-ordered-after-accept"] = true
						for _, ops2 := range c.Rounds[r+1:] {
							for _, x := range ops2 {
								if x.Conn == o.Conn && x.Kind == v01KTCPReq {
									set["reject-ordered-after-accept+later-tcp"] = true
								}
							}
						}
					}
					if !c.Accept[o.Conn] {
						set["concurrent-rejects-on-never-accepted"] = true
					}
				}
				if o.Hold == v01HoldPastClose {
					k := "bad"
					if o.Kind == v01KAuthGood {
						k = "good"
					}
					set["verdict-after-close:"+k] = true
					for j, q := range c.Conns {
						if q.Open >= c.Conns[o.Conn].Close && authBad[j] && o.Kind == v01KAuthGood {
							lateAcceptThenBad = true
						}
					}
				}
			}
		}
	}
	accProxy, neverProxy := false, false
	for i := 0; i < c.NConn; i++ {
		if proxy[i] && c.Accept[i] {
			accProxy = true
		}
		if proxy[i] && !c.Accept[i] {
			neverProxy = true
		}
	}
	if accProxy && neverProxy {
		set["accepted+never-accepted-both-proxy"] = true
	}
	// connection lifetimes: a connection opened after an accept-role connection was closed
	gens := map[int]bool{}
	for i, p := range c.Conns {
		gens[p.Open] = true
		for j, q := range c.Conns {
			if i == j || !q.Accept || q.Close > p.Open {
				continue
			}
			// q (accept role) was closed before p was opened
			set["conn-after-closed-accepted"] = true
			afterClosedAccepted = true
			if !p.Accept {
				set["conn-after-closed-accepted:never-accepted"] = true
				if proxy[i] {
					set["conn-after-closed-accepted:never-accepted+proxy"] = true
				}
				if authBad[i] {
					set["conn-after-closed-accepted:never-accepted+authbad"] = true
				}
			} else {
				set["conn-after-closed-accepted:accept-role"] = true
				if preAuthBad[i] {
					set["conn-after-closed-accepted:authbad-before-own-accept"] = true
				}
			}
		}
	}
	if len(c.RevokeAt) > 0 {
		set["revoke-step"] = true
	}
	if c.LateToken != "" {
		set["grant-step"] = true
	}
	if lateAcceptThenBad {
		set["accept-verdict-after-close+later-conn-authbad"] = true
	}
	for i := 0; i < c.NConn; i++ {
		if !c.Accept[i] {
			continue
		}
		n := 0
		for _, ops := range c.Rounds {
			for _, o := range ops {
				if o.Conn == i && (o.Kind == v01KAuthGood || o.Kind == v01KAuthBad) {
					n++
				}
			}
		}
		if n-1 >= 5 {
			set["non-accepted-auth-attempts>=5-on-accepted-conn"] = true
		}
		if n >= 10 {
			set["auth-requests>=10-on-one-conn"] = true
		}
	}
	set["mode="+c.Mode] = true
	if c.Mode == "generations" {
		set[fmt.Sprintf("generations=%d", len(gens))] = true
	}
	if c.OneP {
		set["gomaxprocs1"] = true
	}
	set[fmt.Sprintf("conns=%d", c.NConn)] = true
	if c.UseTL {
		set["traffic-logger"] = true
	}
	nt = (accProxy && neverProxy) || reauthThenProxy || preProxy || (neverProxy && set["held-authenticator"]) ||
		set["conn-after-closed-accepted:never-accepted+proxy"] || set["conn-after-closed-accepted:never-accepted+authbad"] ||
		set["conn-after-closed-accepted:authbad-before-own-accept"] || set["concurrent-auths-ordered"] || set["hold=past-close"] ||
		set["verbatim-reuse:on-never-accepted-conn"] || set["verbatim-reuse:rejected-after-revoke"] || set["twin-in-flight"] ||
		set["non-accepted-auth-attempts>=5-on-accepted-conn"]
	_ = afterClosedAccepted
	for k := range set {
		classes = append(classes, k)
	}
	sort.Strings(classes)
	return nt, classes
}

// ---------------------------------------------------------------- test

type v01Counters struct{ relayed, softMissing, reruns int64 }

// v01CheckCase runs one generated history (re-running it on environment trouble) and judges it.
func v01CheckCase(rt *rapid.T, st *vStats, c *v01Case, cnt *v01Counters) {
	nt, classes := c.classify()
	st.Case(nt, c.fingerprint(), classes, c.render)
	// Environment trouble (handshake/request timeout under load, a stateless reset after
	// lost packets) says nothing about the property: the same history is run again on a
	// fresh server, at most three times, before the process gives up as inconclusive.
	var inc string
	for attempt := 0; attempt < 3; attempt++ {
		rand.Seed(c.Seed)
		run, envErr := v01Execute(c)
		if envErr != "" {
			inc = envErr
			cnt.reruns++
			continue
		}
		for _, res := range run.res {
			if res.Op.Kind == v01KDatagram && res.Post && res.Op.DMode != 1 && res.Err == nil {
				if res.Relayed {
					cnt.relayed++
				} else {
					cnt.softMissing++
				}
			}
		}
		var v string
		v, inc = run.judge()
		for k := 0; k < run.excluded; k++ {
			st.Excluded("op on a never-authenticated connection that the server had closed")
		}
		if v != "" {
			rt.Fatalf("C01: %s\nhistory: %s\nlog:%s", v, c.render(), v01RenderLog(run.env.log.snapshot(), 60))
		}
		if inc == "" {
			break
		}
		cnt.reruns++
	}
	st.Extra("post_accept_datagrams_relayed", cnt.relayed)
	st.Extra("post_accept_datagrams_not_seen_within_1.5s", cnt.softMissing)
	st.Extra("histories_rerun_after_environment_trouble", cnt.reruns)
	if inc != "" {
		vInconclusive("C01: " + inc + " | history: " + strings.ReplaceAll(c.render(), "\n", " "))
	}
}

func TestVerifC01_AuthGate(t *testing.T) {
	st := newVStats("TestVerifC01_AuthGate")
	defer st.Flush()
	cnt := &v01Counters{}
	rapid.Check(t, func(rt *rapid.T) {
		v01CheckCase(rt, st, v01DrawCase(rt), cnt)
	})
}

// TestVerifC01_LongAuthHistory: one connection, a long run of auth requests (rejected,
// accepted, repeated, repeated with wrong credentials, near-misses) with proxy operations
// interleaved and at the end. Same oracles: nothing is dialled or relayed before the first
// acceptance; after it every TCP request is served, whatever else was attempted since.
func TestVerifC01_LongAuthHistory(t *testing.T) {
	st := newVStats("TestVerifC01_LongAuthHistory")
	defer st.Flush()
	cnt := &v01Counters{}
	rapid.Check(t, func(rt *rapid.T) {
		v01CheckCase(rt, st, v01DrawLongAuthCase(rt), cnt)
	})
}
