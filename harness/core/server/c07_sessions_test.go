package server

// C07 — server UDP sessions are isolated, expire when idle, never leak.
// Generator of histories (client datagrams, replies, time, faults, parked
// goroutines, connection loss) for the engine in c07_engine_test.go.

import (
	"fmt"
	"strings"
	"testing"
	"time"

	"pgregory.net/rapid"
)

// v07Gen builds operation lists. All random choices are rapid draws.
type v07Gen struct {
	rt      *rapid.T
	cfg     v07Cfg
	nSess   int
	nDest   int
	ops     []v07Op
	msgSeq  int
	pending []*v07PendingMsg // per session: fragmented message being sent
	motifs  []string
}

type v07PendingMsg struct {
	seq, dest, total int
	bounds           []int // fragment i carries [bounds[i], bounds[i+1])
	order            []int // fragment indexes still to send, in sending order
	sent             []int
	withhold         int // fragment index never sent (-1: none)
}

func (g *v07Gen) sess() int { return rapid.IntRange(0, g.nSess-1).Draw(g.rt, "session") }
func (g *v07Gen) dest() int { return rapid.IntRange(0, g.nDest-1).Draw(g.rt, "dest") }

func (g *v07Gen) add(o v07Op) { g.ops = append(g.ops, o) }

func (g *v07Gen) datagram(s int) {
	g.pending[s] = nil // a complete datagram abandons a half-sent fragmented message of the session
	size := rapid.OneOf(rapid.IntRange(8, 64), rapid.IntRange(8, 1400)).Draw(g.rt, "dgSize")
	g.add(v07Op{kind: v07OpData, s: s, dest: g.dest(), msgSeq: g.msgSeq, total: size, lo: 0, hi: size, fragCount: 1})
	g.msgSeq++
}

func (g *v07Gen) pid(seq int) uint16 { return uint16(seq%65000) + 1 }

// fragment sends the next fragment of the session's pending fragmented message, starting one if needed.
func (g *v07Gen) fragment(s int, complete int) {
	p := g.pending[s]
	if p == nil {
		n := rapid.IntRange(2, 4).Draw(g.rt, "fragCount")
		p = &v07PendingMsg{seq: g.msgSeq, dest: g.dest(), withhold: -1}
		g.msgSeq++
		p.bounds = []int{0}
		for i := 0; i < n; i++ {
			sz := rapid.IntRange(1, 40).Draw(g.rt, "fragSize")
			if i == 0 && sz < 8 {
				sz = 8
			}
			p.bounds = append(p.bounds, p.bounds[i]+sz)
		}
		p.total = p.bounds[n]
		if p.total < 8+n { // keep the identity header inside the message
			p.bounds[n] += 8
			p.total = p.bounds[n]
		}
		p.order = rapid.Permutation(v07Iota(n)).Draw(g.rt, "fragOrder")
		wh := complete
		if wh < 0 {
			wh = rapid.IntRange(0, 3).Draw(g.rt, "withhold") // 0: one fragment never arrives
		}
		if wh == 0 {
			p.withhold = p.order[len(p.order)-1]
			p.order = p.order[:len(p.order)-1]
		}
		g.pending[s] = p
	}
	if len(p.order) == 0 { // only the withheld fragment is missing: send a duplicate instead
		g.dup(s)
		return
	}
	i := p.order[0]
	p.order = p.order[1:]
	p.sent = append(p.sent, i)
	g.add(v07Op{kind: v07OpData, s: s, dest: p.dest, msgSeq: p.seq, total: p.total, lo: p.bounds[i], hi: p.bounds[i+1],
		pid: g.pid(p.seq), fragID: uint8(i), fragCount: uint8(len(p.bounds) - 1)})
	if len(p.order) == 0 && p.withhold < 0 {
		g.pending[s] = nil // complete: no duplicates afterwards
	}
}

// dup resends a fragment that was already sent while the message is still incomplete.
func (g *v07Gen) dup(s int) {
	p := g.pending[s]
	if p == nil || len(p.sent) == 0 {
		g.datagram(s)
		return
	}
	i := p.sent[rapid.IntRange(0, len(p.sent)-1).Draw(g.rt, "dupOf")]
	g.add(v07Op{kind: v07OpData, s: s, dest: p.dest, msgSeq: p.seq, total: p.total, lo: p.bounds[i], hi: p.bounds[i+1],
		pid: g.pid(p.seq), fragID: uint8(i), fragCount: uint8(len(p.bounds) - 1)})
	if len(p.order) == 0 && rapid.Bool().Draw(g.rt, "abandon") {
		g.pending[s] = nil
	}
}

func (g *v07Gen) clientTraffic(s int) {
	if g.pending[s] != nil {
		g.fragment(s, -1)
		return
	}
	g.datagram(s)
}

func (g *v07Gen) reply(s int) {
	hdr := v07WireSize(len(v07Addr(s, 0)), 0)
	size := rapid.OneOf(
		rapid.IntRange(8, 100),
		rapid.IntRange(g.cfg.limit-hdr-3, g.cfg.limit-hdr+3), // around the datagram limit
		rapid.IntRange(8, 4096),
		rapid.SampledFrom([]int{4096, 4000, 2*(g.cfg.limit-hdr) + 1, 255 * (g.cfg.limit - hdr), 255*(g.cfg.limit-hdr) + 1}),
	).Draw(g.rt, "replySize")
	if size < 8 {
		size = 8
	}
	if size > 4096 {
		size = 4096
	}
	if rapid.IntRange(0, 24).Draw(g.rt, "oversize") == 0 {
		// around and above the server's socket read buffer: may be dropped, must never arrive truncated
		size = rapid.SampledFrom([]int{4096 - hdr, 4096 - hdr + 1, 4095, 4097, 5000, 9000, 65507}).Draw(g.rt, "oversizeReply")
	}
	g.add(v07Op{kind: v07OpReply, s: s, dest: g.dest(), size: size})
}

func (g *v07Gen) advance(d time.Duration) { g.add(v07Op{kind: v07OpAdvance, dur: d}) }

func (g *v07Gen) someDuration() time.Duration {
	idle := g.cfg.idle
	return rapid.SampledFrom([]time.Duration{
		300 * time.Millisecond, time.Second, idle / 2, idle - time.Millisecond, idle, idle + time.Millisecond,
		idle + time.Second, idle + time.Second + time.Millisecond, 2*idle + 2*time.Second, 700 * time.Millisecond,
	}).Draw(g.rt, "duration")
}

func (g *v07Gen) expire() { g.advance(g.cfg.idle + time.Second + time.Millisecond) }

// motif inserts a scripted fragment of history that random choice alone rarely produces.
func (g *v07Gen) motif() {
	k := rapid.IntRange(0, 9).Draw(g.rt, "motif")
	s := g.sess()
	name := ""
	switch k {
	case 0:
		name = "expire-reuse"
		g.clientTraffic(s)
		g.expire()
		g.clientTraffic(s)
	case 1:
		name = "parkSend-expire-reuse-release"
		g.datagram(s)
		g.add(v07Op{kind: v07OpParkSend, s: s})
		g.reply(s)
		g.expire()
		g.datagram(s)
		g.reply(s)
		g.add(v07Op{kind: v07OpReleaseSend, s: s, fail: rapid.Bool().Draw(g.rt, "fail")})
		g.reply(s)
	case 2:
		name = "fragonly-expire-logparked-datagram"
		g.pending[s] = nil
		g.add(v07Op{kind: v07OpParkLog, s: s})
		g.fragment(s, 1)
		g.expire()
		if rapid.Bool().Draw(g.rt, "completeInWindow") {
			for g.pending[s] != nil {
				g.fragment(s, 1)
			}
		} else {
			g.datagram(s)
		}
		g.add(v07Op{kind: v07OpReleaseLog})
		g.datagram(s)
	case 3:
		name = "keepalive-by-replies"
		g.datagram(s)
		n := rapid.IntRange(3, 6).Draw(g.rt, "rounds")
		for i := 0; i < n; i++ {
			g.advance(g.cfg.idle / 2)
			g.reply(s)
		}
		g.advance(g.cfg.idle / 2)
		g.datagram(s)
	case 4:
		name = "keepalive-by-client"
		g.datagram(s)
		n := rapid.IntRange(3, 6).Draw(g.rt, "rounds")
		for i := 0; i < n; i++ {
			g.advance(g.cfg.idle / 2)
			g.clientTraffic(s)
		}
		g.reply(s)
	case 5:
		name = "parkFeeder-expire-release"
		g.datagram(s)
		g.add(v07Op{kind: v07OpParkFeeder, which: 1})
		g.datagram(s)
		g.expire()
		g.add(v07Op{kind: v07OpReleaseFeeder})
		g.datagram(s)
	case 6:
		name = "sweep-two-logparked-traffic"
		s2 := (s + 1) % g.nSess
		g.add(v07Op{kind: v07OpParkLog, s: s})
		g.datagram(s)
		g.datagram(s2)
		g.expire()
		g.datagram(s2)
		g.reply(s2)
		g.add(v07Op{kind: v07OpReleaseLog})
		g.datagram(s2)
		g.datagram(s)
	case 7:
		name = "fault-then-reuse"
		g.datagram(s)
		switch rapid.IntRange(0, 2).Draw(g.rt, "fault") {
		case 0:
			g.add(v07Op{kind: v07OpReadFail, s: s})
		case 1:
			g.add(v07Op{kind: v07OpSendFail, s: s})
			g.reply(s)
		default:
			g.add(v07Op{kind: v07OpParkSend, s: s})
			g.reply(s)
			g.add(v07Op{kind: v07OpReleaseSend, s: s, fail: true})
		}
		g.datagram(s)
		g.reply(s)
	case 9:
		// the connection ends while datagrams that start NEW sessions are still queued behind a stuck
		// receive loop; the datagram queue hands them out after the loss
		name = "connlost-with-queued-new-sessions"
		g.datagram(s)
		g.add(v07Op{kind: v07OpParkFeeder, which: 1})
		g.datagram(s)
		n := rapid.IntRange(1, 4).Draw(g.rt, "queued")
		for i := 0; i < n; i++ {
			g.datagram(g.sess())
		}
		g.add(v07Op{kind: v07OpConnLost, size: rapid.IntRange(0, n+1).Draw(g.rt, "drain")})
		g.add(v07Op{kind: v07OpReleaseFeeder})
	default:
		name = "dialfail-then-reuse"
		g.expire()
		if rapid.Bool().Draw(g.rt, "hook") {
			g.add(v07Op{kind: v07OpHookFail})
		} else {
			g.add(v07Op{kind: v07OpDialFail})
		}
		g.datagram(s)
		g.datagram(s)
		g.reply(s)
	}
	g.motifs = append(g.motifs, name)
}

func (g *v07Gen) randomOp() {
	s := g.sess()
	switch w := rapid.IntRange(0, 99).Draw(g.rt, "op"); {
	case w < 20:
		g.clientTraffic(s)
	case w < 30:
		g.fragment(s, -1)
	case w < 33:
		g.dup(s)
	case w < 51:
		g.reply(s)
	case w < 66:
		g.advance(g.someDuration())
	case w < 68:
		g.add(v07Op{kind: v07OpDialFail})
	case w < 70:
		g.add(v07Op{kind: v07OpHookFail})
	case w < 72:
		g.add(v07Op{kind: v07OpWriteFail})
	case w < 75:
		g.add(v07Op{kind: v07OpReadFail, s: s})
	case w < 78:
		g.add(v07Op{kind: v07OpSendFail, s: s})
	case w < 82:
		g.add(v07Op{kind: v07OpParkSend, s: s})
	case w < 87:
		g.add(v07Op{kind: v07OpReleaseSend, s: s, fail: rapid.IntRange(0, 3).Draw(g.rt, "fail") == 0})
	case w < 90:
		g.add(v07Op{kind: v07OpParkFeeder, which: rapid.IntRange(1, 3).Draw(g.rt, "where")})
	case w < 94:
		g.add(v07Op{kind: v07OpReleaseFeeder})
	case w < 96:
		g.add(v07Op{kind: v07OpParkLog, s: s})
	case w < 99:
		g.add(v07Op{kind: v07OpReleaseLog})
	default:
		g.add(v07Op{kind: v07OpConnLost, size: rapid.IntRange(0, 3).Draw(g.rt, "drain")})
	}
}

func v07Iota(n int) []int {
	r := make([]int, n)
	for i := range r {
		r[i] = i
	}
	return r
}

var v07SidPool = []uint32{0, 1, 2, 3, 7, 1234, 0x7fffffff, 0x80000000, 0xfffffffe, 0xffffffff}

func v07GenCase(rt *rapid.T) (v07Cfg, []v07Op, []string) {
	g := &v07Gen{rt: rt}
	g.nSess = rapid.IntRange(1, 5).Draw(rt, "sessions")
	g.nDest = rapid.IntRange(1, 3).Draw(rt, "destinations")
	g.cfg.idle = rapid.SampledFrom([]time.Duration{2 * time.Second, 3 * time.Second, 10 * time.Second}).Draw(rt, "idleTimeout")
	g.cfg.limit = rapid.SampledFrom([]int{1200, 200, 64, 40}).Draw(rt, "datagramLimit")
	g.cfg.hookMode = rapid.SampledFrom([]int{0, 0, 1, 2}).Draw(rt, "hookMode")
	g.cfg.sids = rapid.SliceOfNDistinct(rapid.SampledFrom(v07SidPool), g.nSess, g.nSess, rapid.ID[uint32]).Draw(rt, "sessionIDs")
	g.cfg.randSeed = rapid.Int64().Draw(rt, "randSeed")
	g.cfg.phase = rapid.SampledFrom([]time.Duration{0, time.Millisecond, 200 * time.Millisecond, 500 * time.Millisecond, 800 * time.Millisecond, 999 * time.Millisecond}).Draw(rt, "startPhase")
	g.pending = make([]*v07PendingMsg, g.nSess)
	steps := rapid.IntRange(1, 40).Draw(rt, "steps")
	for i := 0; i < steps; i++ {
		if rapid.IntRange(0, 7).Draw(rt, "useMotif") == 0 {
			g.motif()
		} else {
			g.randomOp()
		}
	}
	return g.cfg, g.ops, g.motifs
}

func v07Classes(res *v07Result, motifs []string) (nt bool, cls []string) {
	m := res.m
	if m == nil {
		return false, nil
	}
	if m.nExpired > 0 {
		cls = append(cls, "expiry")
	}
	if m.nFault > 0 {
		cls = append(cls, "fault")
	}
	if m.nReuse > 0 {
		cls = append(cls, "id-reuse")
	}
	if m.nLateRelease > 0 {
		cls = append(cls, "parked-released-after-close")
	}
	if m.nWindow > 0 {
		cls = append(cls, "datagram-while-close-in-progress")
	}
	if m.nFragReplies > 0 {
		cls = append(cls, "fragmented-reply")
	}
	if m.nReplies > 0 {
		cls = append(cls, "reply-delivered")
	}
	if m.nForwarded > 0 {
		cls = append(cls, "datagram-forwarded")
	}
	if len(m.stalls) > 0 {
		cls = append(cls, "logger-parked")
	}
	if len(m.sessionsSeen) >= 2 {
		cls = append(cls, "sessions>=2")
	}
	for _, mo := range motifs {
		cls = append(cls, "motif:"+mo)
	}
	nt = len(m.sessionsSeen) >= 2 && (m.nExpired > 0 || m.nFault > 0) && (m.nReuse > 0 || m.nLateRelease > 0)
	return nt, v07Uniq(cls)
}

func v07Uniq(in []string) []string {
	seen := map[string]bool{}
	var out []string
	for _, s := range in {
		if !seen[s] {
			seen[s] = true
			out = append(out, s)
		}
	}
	return out
}

func v07Fingerprint(cfg v07Cfg, ops []v07Op) string {
	var b strings.Builder
	fmt.Fprintf(&b, "%v/%d/%d/%v|", cfg.idle, cfg.limit, cfg.hookMode, cfg.phase)
	for _, o := range ops {
		fmt.Fprintf(&b, "%d.%d.%d.%d;", o.kind, o.s, o.fragID, o.dur/time.Millisecond)
	}
	return b.String()
}

func TestVerifC07_Sessions(t *testing.T) { v07SessionsTest(t, "TestVerifC07_Sessions") }

// The same property in a binary built with -race (thorough tier): the race detector is a
// monitor for the interleavings the Go scheduler happens to produce between the receive
// loop, the reply loops and the sweeper.
func TestVerifC07_SessionsRace(t *testing.T) { v07SessionsTest(t, "TestVerifC07_SessionsRace") }

func v07SessionsTest(t *testing.T, name string) {
	st := newVStats(name)
	defer st.Flush()
	rapid.Check(t, func(rt *rapid.T) {
		cfg, ops, motifs := v07GenCase(rt)
		res, h := v07RunCase(t, cfg, ops)
		nt, cls := v07Classes(res, motifs)
		st.Case(nt, v07Fingerprint(cfg, ops), cls, func() string {
			var l []string
			for _, o := range ops {
				l = append(l, o.String())
			}
			return fmt.Sprintf("%v: %s", cfg, strings.Join(l, " "))
		})
		if res.violation != "" {
			rt.Fatalf("C07: %s%s", res.violation, res.render(cfg, h))
		}
	})
}

// Scripted histories (plain): each scenario the generator's motifs are built from, alone.
func TestVerifC07_Scripted(t *testing.T) {
	st := newVStats("TestVerifC07_Scripted")
	defer st.Flush()
	dg := func(s, seq int) v07Op {
		return v07Op{kind: v07OpData, s: s, dest: 0, msgSeq: seq, total: 20, lo: 0, hi: 20, fragCount: 1}
	}
	fr := func(s, seq int, i, n uint8) v07Op {
		return v07Op{kind: v07OpData, s: s, dest: 0, msgSeq: seq, total: 10 * int(n), lo: 10 * int(i), hi: 10 * int(i+1), pid: uint16(seq + 1), fragID: i, fragCount: n}
	}
	rp := func(s, size int) v07Op { return v07Op{kind: v07OpReply, s: s, dest: 1, size: size} }
	adv := func(d time.Duration) v07Op { return v07Op{kind: v07OpAdvance, dur: d} }
	for hook := 0; hook <= 1; hook++ {
		for _, limit := range []int{1200, 64, 40} {
			cfg := v07Cfg{idle: 2 * time.Second, limit: limit, hookMode: hook, sids: []uint32{1234, 0, 0xffffffff}, randSeed: 1}
			exp := 3*time.Second + time.Millisecond
			scripts := map[string][]v07Op{
				"two-sessions-expire-reuse":     {dg(0, 0), dg(1, 1), rp(0, 100), rp(1, 3000), adv(exp), dg(0, 2), rp(0, 50), dg(1, 3)},
				"fragments":                     {fr(0, 0, 1, 3), fr(0, 0, 0, 3), fr(1, 1, 0, 2), fr(0, 0, 2, 3), rp(0, 4096), adv(exp), fr(1, 1, 1, 2), fr(1, 2, 0, 2), fr(1, 2, 1, 2)},
				"keepalive-replies":             {dg(0, 0), adv(time.Second), rp(0, 9), adv(time.Second), rp(0, 9), adv(time.Second), rp(0, 9), adv(time.Second), dg(0, 1)},
				"park-send-reuse":               {dg(0, 0), {kind: v07OpParkSend, s: 0}, rp(0, 30), adv(exp), dg(0, 1), rp(0, 31), {kind: v07OpReleaseSend, s: 0}, rp(0, 32)},
				"logger-parked-window":          {{kind: v07OpParkLog, s: 0}, fr(0, 0, 0, 2), adv(exp), fr(0, 0, 1, 2), dg(0, 1), {kind: v07OpReleaseLog}, dg(0, 2)},
				"sweep-two-logger-parked":       {{kind: v07OpParkLog, s: 0}, dg(0, 0), dg(1, 1), {kind: v07OpParkLog, s: 1}, adv(exp), dg(1, 2), dg(0, 3), {kind: v07OpReleaseLog}, {kind: v07OpReleaseLog}, dg(1, 4), dg(0, 5)},
				"faults":                        {dg(0, 0), {kind: v07OpReadFail, s: 0}, dg(0, 1), {kind: v07OpSendFail, s: 0}, rp(0, 10), dg(0, 2), {kind: v07OpDialFail}, dg(1, 3), {kind: v07OpHookFail}, dg(1, 4), dg(1, 5), {kind: v07OpWriteFail}, dg(1, 6), dg(1, 7)},
				"feeder-parked-expire":          {dg(0, 0), {kind: v07OpParkFeeder, which: 1}, dg(0, 1), dg(1, 2), adv(exp), {kind: v07OpReleaseFeeder}, dg(0, 3)},
				"conn-lost-queued-new-sessions": {dg(0, 0), {kind: v07OpParkFeeder, which: 1}, dg(0, 1), dg(1, 2), dg(2, 3), dg(1, 4), {kind: v07OpConnLost, size: 3}, {kind: v07OpReleaseFeeder}},
				"conn-lost-with-parked":         {dg(0, 0), dg(1, 1), {kind: v07OpParkSend, s: 0}, rp(0, 30), {kind: v07OpParkFeeder, which: 1}, dg(1, 2), {kind: v07OpConnLost}},
			}
			for name, ops := range scripts {
				res, h := v07RunCase(t, cfg, ops)
				nt, cls := v07Classes(res, []string{name})
				st.Case(nt, fmt.Sprintf("%s/%d/%d", name, hook, limit), cls, func() string { return fmt.Sprintf("%s hook=%d limit=%d", name, hook, limit) })
				if res.violation != "" {
					t.Fatalf("C07 scripted %q: %s%s", name, res.violation, res.render(cfg, h))
				}
				if res.skipped > 0 && !strings.HasPrefix(name, "conn-lost") {
					t.Logf("note: %q skipped %d operations%s", name, res.skipped, res.render(cfg, h))
				}
			}
		}
	}
}
