P = "core:internal/protocol"
F = "core:internal/frag"
S = "core:server"
C = "core:client"
Q = "extras:sniff/internal/quic"
N = "extras:sniff"
O = "extras:obfs"
R = "extras:realm"
T = "extras:outbounds/speedtest"

PROP = {
    "technique": "property-based testing (rapid, grammar-aware generators) + native coverage-guided fuzzing; every network-facing entry point wrapped in recover(), inputs re-sliced to cap==len, followed by a well-formed probe",
    "level_text": "Generated-input exploration of every anchored decoder and the stateful receivers behind them: "
                  "frame/datagram decoders, fragment splitter and reassembler, server and client UDP session managers (synchronously and with the real "
                  "Run/receiveLoop goroutines), QUIC-Initial/TLS/HTTP sniffer (including correctly protected Initials with hostile plaintext built by the "
                  "harness's own RFC 9001 encoder), Salamander/Gecko packet conns, punch/STUN demultiplexer, Punch and Discover loops, the demultiplexer composed with DiscoverWithDemux and ServerPuncher.Respond (datagram now, discovery later and interleaved), speed-test server and "
                  "client. The oracle is only: no panic, the call returns, and a following well-formed input is still handled. Thorough adds native fuzzing "
                  "of 11 byte-level targets. Exploration only, not a proof.",
    "level_note": "Third-party parsers (utls ClientHello, pion/stun, net/http) are exercised only through hysteria's entry points. Goroutine panics in the "
                  "live variants are detected by process death (driver), with the running case left in c03_lastcase.txt.",
    "rule": "Per target a grammar generator: declared-length vs. available bytes at every length field with boundary values "
            "(0,1,63/64,2047/2048/2049,4096/4097,16383/16384,2^20,2^49,2^62-1) in every legal varint width, truncation at every position, arbitrary bytes; "
            "UDP fragment headers from running templates plus arbitrary id/count; peer datagram limits 0..1500 biased to header+1..+20; "
            "QUIC first byte x version x cid lengths x token x declared/actual length, protected Initials with CRYPTO frame offsets/lengths at the 256 KiB and 2^62 edges, "
            "hostile ClientHello extension bodies; Gecko frame fields incl. pad length past the end and per-source/global reassembly floods; punch packets near-valid, "
            "STUN attributes with lying lengths/families; speed-test request types/sizes vs. bytes really sent. "
            "Completed reassemblies at the legal maxima (UDP: 255 fragments x full datagrams ~300 KB; Gecko: 2-8 chunks x 2035 bytes up to 16 KiB; CRYPTO: a 60 KB hello in 1-6 frames ending at / one past the 256 KiB cap); server session closes (cleanup, idle sweep, socket read error, send error) placed inside parked CheckUDP / WriteTo / SendMessage calls. " 
            "Non-trivial = the input got past the first length check of its target (classified by the outcome path that returned); "
            "distinct = (target, outcome class, size bucket / field tuple / history).",
    "assumptions": [
        "io.Reader / net.Conn / net.PacketConn fakes obey their contracts (never (0,nil) on a non-empty buffer, n <= len(p))",
        "the datagram limit reported by quic-go is in 0..1500 and replies handed to the splitter are at most 65535 bytes",
        "no allocation sizes between 2^20 and 2^49 are requested by the generators (a tree that lost a cap would OOM there instead of panicking)",
    ],
    "tests": [
        # core/internal/protocol
        {"name": "TestVerifC03_StreamFrames", "unit": P, "quick": 12000, "thorough": 150000, "shards_thorough": 4},
        {"name": "TestVerifC03_UDPMessage", "unit": P, "quick": 12000, "thorough": 150000, "shards_thorough": 4},
        {"name": "FuzzVerifC03_ProtocolDecoders", "unit": P, "kind": "fuzz", "fuzz_secs": 60},
        # core/internal/frag
        {"name": "TestVerifC03_Regress_FragCountWrap", "unit": F, "kind": "plain"},
        {"name": "TestVerifC03_FragNoPanic", "unit": F, "quick": 12000, "thorough": 100000, "shards_thorough": 4},
        {"name": "TestVerifC03_DefragNoPanic", "unit": F, "quick": 6000, "thorough": 80000, "shards_thorough": 4},
        {"name": "FuzzVerifC03_Frag", "unit": F, "kind": "fuzz", "fuzz_secs": 45},
        # core/server
        {"name": "TestVerifC03_Regress_ServerReplyFragWrap", "unit": S, "kind": "plain"},
        {"name": "TestVerifC03_ServerUDPSync", "unit": S, "quick": 1500, "shards": 2, "thorough": 12000, "shards_thorough": 8},
        {"name": "TestVerifC03_ServerUDPLive", "unit": S, "quick": 600, "thorough": 6000, "shards_thorough": 8},
        # core/client
        {"name": "TestVerifC03_Regress_ClientSendFragWrap", "unit": C, "kind": "plain"},
        {"name": "TestVerifC03_ClientUDP", "unit": C, "quick": 1000, "shards": 2, "thorough": 12000, "shards_thorough": 8},
        {"name": "TestVerifC03_ClientCloseRace", "unit": C, "quick": 150, "thorough": 1500, "shards_thorough": 4},
        {"name": "TestVerifC03_ClientCloseRaceDetector", "unit": C, "race": True, "quick": 40, "thorough": 400, "shards_thorough": 2},
        # extras/sniff/internal/quic
        {"name": "TestVerifC03_Regress_ShortHeaderSample", "unit": Q, "kind": "plain"},
        {"name": "TestVerifC03_QUICHeaderGrammar", "unit": Q, "quick": 5000, "thorough": 60000, "shards_thorough": 4},
        {"name": "TestVerifC03_QUICProtectedFrames", "unit": Q, "quick": 8000, "thorough": 80000, "shards_thorough": 4},
        {"name": "FuzzVerifC03_QUICInitial", "unit": Q, "kind": "fuzz", "fuzz_secs": 60},
        {"name": "FuzzVerifC03_QUICPlaintext", "unit": Q, "kind": "fuzz", "fuzz_secs": 60},
        # extras/sniff
        {"name": "TestVerifC03_Regress_SnifferUDPShortHeader", "unit": N, "kind": "plain"},
        {"name": "TestVerifC03_SnifferUDP", "unit": N, "quick": 6000, "thorough": 80000, "shards_thorough": 4},
        {"name": "TestVerifC03_SnifferTCP", "unit": N, "quick": 8000, "thorough": 80000, "shards_thorough": 4},
        {"name": "FuzzVerifC03_SnifferUDP", "unit": N, "kind": "fuzz", "fuzz_secs": 45},
        {"name": "FuzzVerifC03_SnifferUDPPlaintext", "unit": N, "kind": "fuzz", "fuzz_secs": 90},
        {"name": "FuzzVerifC03_SnifferTCP", "unit": N, "kind": "fuzz", "fuzz_secs": 90},
        # extras/obfs
        {"name": "TestVerifC03_SalamanderDeobfuscate", "unit": O, "quick": 3000, "thorough": 30000, "shards_thorough": 2},
        {"name": "TestVerifC03_ObfsConnReadFrom", "unit": O, "quick": 5000, "thorough": 40000, "shards_thorough": 2},
        {"name": "TestVerifC03_GeckoFrame", "unit": O, "quick": 15000, "thorough": 100000, "shards_thorough": 2},
        {"name": "TestVerifC03_GeckoReadFrom", "unit": O, "quick": 1500, "thorough": 15000, "shards_thorough": 8},
        {"name": "FuzzVerifC03_ObfsDatagram", "unit": O, "kind": "fuzz", "fuzz_secs": 45},
        {"name": "FuzzVerifC03_GeckoStream", "unit": O, "kind": "fuzz", "fuzz_secs": 60},
        # extras/realm
        {"name": "TestVerifC03_PunchDecode", "unit": R, "quick": 10000, "thorough": 80000, "shards_thorough": 2},
        {"name": "TestVerifC03_STUNParse", "unit": R, "quick": 12000, "thorough": 100000, "shards_thorough": 4},
        {"name": "TestVerifC03_PunchConnReadFrom", "unit": R, "quick": 3000, "thorough": 30000, "shards_thorough": 4},
        {"name": "TestVerifC03_PunchLoop", "unit": R, "quick": 4000, "thorough": 40000, "shards_thorough": 2},
        {"name": "TestVerifC03_STUNDiscover", "unit": R, "quick": 5000, "thorough": 40000, "shards_thorough": 2},
        {"name": "TestVerifC03_RealmDemuxRounds", "unit": R, "quick": 2000, "thorough": 15000, "shards_thorough": 4},
        {"name": "FuzzVerifC03_RealmDatagram", "unit": R, "kind": "fuzz", "fuzz_secs": 90},
        # extras/outbounds/speedtest
        {"name": "TestVerifC03_SpeedtestServer", "unit": T, "quick": 2500, "thorough": 15000, "shards_thorough": 4},
        {"name": "TestVerifC03_SpeedtestClient", "unit": T, "quick": 3000, "thorough": 20000, "shards_thorough": 4},
        {"name": "FuzzVerifC03_Speedtest", "unit": T, "kind": "fuzz", "fuzz_secs": 45},
    ],
}
