PROP = {
 'technique': 'model-based property testing (rapid) of the real udpSessionManager inside a testing/synctest bubble: generated histories '
              'of datagrams, replies, virtual time, faults and parked goroutines against harness-owned fakes; event-log oracle',
 'level_text': 'Generated-history exploration: thousands of rapid-generated histories per run (random operations mixed with scripted '
               'motifs such as expire-and-reuse, parked sender released after its session expired, datagram while a close is in '
               'progress) against the unmodified session manager with virtual time. A model written from the statement replays every '
               'environment call. Not a proof: interleavings are controlled only at environment calls made without an implementation lock.',
 'level_note': 'Trusts the harness model and fakes, rapid and testing/synctest. Interleavings finer than the yield points '
               '(SendMessage, WriteTo, CheckUDP, logger Close) are not enumerated.',
 'rule': 'History = 1..40 steps over 1..5 session IDs (incl. 0 and 0xffffffff): complete datagrams, fragments (permuted, duplicated, '
         'withheld), replies of 8..4096 bytes against datagram limits 1200/200/64/40, time steps around the idle timeout (2/3/10 s) '
         'and timeout + 1 s, dial/hook/write/read/send faults, parking and releasing the reply loop in SendMessage, the receive loop '
         'in WriteTo/CheckUDP and any closer in the event logger, connection loss; every history ends with connection loss. '
         'Non-trivial: >= 2 sessions, >= 1 idle expiry or fault, and an ID reuse or a parked goroutine released after its session '
         'closed. Distinct = distinct (config, operation sequence). DialRacingClose (no synctest, real goroutines): 1..10 datagrams over '
         '1..3 session IDs fed by one goroutine; the fake Hook()/UDP() of chosen datagrams blocks while 1..2 closers (cleanup(false), '
         'cleanup(true) with a negative idle timeout) run concurrently, then 0..2000 scheduler yields, then the dial is released '
         '(success or failure); also release-then-close and close-before-feed orders; non-trivial = a closer ran while a dial was blocked.',
 'assumptions': ['the outbound socket, hook and event logger behave like the fakes: Close() makes a blocked ReadFrom return, UDP()/Hook()/logger.New()/Close() on the socket do not block',
                 'time spent blocked inside the event logger does not count towards "closed within one sweep interval"',
                 'a session that has been idle for the timeout may be closed up to one sweep interval later even if traffic arrives in between'],
 'tests': [
   {'name': 'TestVerifC07_Scripted', 'unit': 'core:server', 'kind': 'plain'},
   {'name': 'TestVerifC07_Sessions', 'unit': 'core:server', 'quick': 5000, 'thorough': 50000, 'shards': 4, 'shards_thorough': 16,
    'timeout_quick': 900, 'timeout_thorough': 3600},
   # real goroutines, no synctest: a slow Hook()/UDP() racing cleanup(false)/cleanup(true); end-state oracle
   {'name': 'TestVerifC07_DialRacingClose', 'unit': 'core:server', 'quick': 4000, 'thorough': 30000, 'shards': 2, 'shards_thorough': 16,
    'timeout_quick': 900, 'timeout_thorough': 3600},
   {'name': 'TestVerifC07_DialRacingCloseRace', 'unit': 'core:server', 'race': True, 'thorough_only': True, 'thorough': 5000, 'shards_thorough': 4,
    'timeout_thorough': 3600},
   # raw HTTP/3 client: 2..4 auth POSTs in flight at once, then datagrams of 1..2 session IDs; at most one live socket per session
   {'name': 'TestVerifC07_E2EDoubleAuth', 'unit': 'core:server', 'kind': 'plain', 'timeout_quick': 600},
   # real client disconnects while first datagrams of new sessions are still queued behind a parked dial
   {'name': 'TestVerifC07_E2EDisconnectBurst', 'unit': 'core:server', 'kind': 'plain', 'timeout_quick': 600},
   {'name': 'TestVerifC07_SessionsRace', 'unit': 'core:server', 'race': True, 'thorough_only': True, 'thorough': 5000, 'shards_thorough': 4,
    'timeout_thorough': 3600},
   # real client + server over loopback, UDPIdleTimeout = 2 s: wiring in server.go, real DatagramTooLargeError path
   {'name': 'TestVerifC07_E2EWiring', 'unit': 'core:server', 'kind': 'plain', 'thorough_only': True, 'timeout_thorough': 600},
 ]}
