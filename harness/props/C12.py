BBR = "core:internal/congestion/bbr"
SEED = "core:internal/congestion"

PROP = {'technique': 'property-based testing (rapid): discrete-event bottleneck simulator with a mini QUIC sent-packet handler driving the real '
              'bbrSender on a virtual clock; invariants after every controller call; loss-free liveness cell with a measured threshold',
 'level_text': 'Generated-input exploration: thousands of simulated connections per run (capacity 100 KB/s..1 GB/s, RTT 1..300 ms, queue '
               '0.25/1/4 BDP, random+burst loss, ack aggregation/loss/reordering, app-limited phases, PN skips, PTO probes, MTU raises, '
               '3 profiles, mid-flight install), up to hundreds of thousands of controller calls each, all invariants evaluated after every '
               'call. Not a proof: absence of violations on the explored traces only; liveness is decided on a simulator against a threshold.',
 'level_note': 'Trusts the harness re-implementation of quic-go ackhandler call discipline (read from the pinned fork) and the bottleneck '
               'model; single-threaded; math/rand pinned per case via rand.Seed (GODEBUG=randseednop=0).',
 'rule': 'rapid-generated path + history parameters (see level_text); per-packet randomness via rapid-drawn gaps. Non-trivial (Traces): the '
         'controller reached PROBE_BW or PROBE_RTT, or entered recovery, or a datagram-size raise happened with packets in flight; '
         '(Liveness): every path (loss-free, backlogged, queue >= 1 BDP, ACK per 1/2 packets or batched per 8/16 packets on a 5/10/25 ms grid, max(11 s, 200 RTT), or >= 60 RTT for capacities whose 10 s exceed the '
         'packet budget). Distinct = distinct configuration.',
 'assumptions': ['QUIC-consistency as derived from quic-go internal/ackhandler/sent_packet_handler.go + connection.go: see header of c12_sim_test.go',
                 'maximum window = 20000 datagrams (NewBbrSender) or the value passed to newBbrSender (customMaxWindow traces make the clamp reachable)',
                 'per-packet bookkeeping bound: connectionStateMap slots <= 2 x (largest sent PN - oldest PN the controller may still hear about + 1) + 8; '
                 'a0Candidates <= 2 x (largest such span seen so far) + 8',
                 'pacer: exact wake-up time is checked while pacing bandwidth x (now - last send) < 2^62 (C11 range); beyond that (long idle on fast paths) progress-only: budget must exist at once or within one datagram time + 1 ms',
                 'seeding (TestVerifC12_Seed*): the controller is built as UseBBR does (seedPacketSize(conn.InitialPacketSize(), GetInitialPacketSize(remote))); '
                 'QUIC then reports only sizes above the size it started at (reported size, or 1280 when it reports 0), following quic-go mtu_discoverer.go',
                 'liveness threshold theta = 0.45, fixed at half of the minimum second-half utilisation measured on the unchanged tree'],
 'tests': [{'name': 'TestVerifC12_SeedGrid', 'unit': SEED, 'kind': 'plain'},
           {'name': 'TestVerifC12_Seed', 'unit': SEED, 'quick': 3000, 'thorough': 20000, 'shards_thorough': 4},
           {'name': 'TestVerifC12_Regress_AckOnlyGap', 'unit': BBR, 'kind': 'plain', 'known_sig': 'ackonly-gap'},
           {'name': 'TestVerifC12_Traces', 'unit': BBR, 'quick': 500, 'shards': 4, 'thorough': 5000, 'shards_thorough': 16,
            'timeout_quick': 900, 'timeout_thorough': 5400},
           {'name': 'TestVerifC12_Liveness', 'unit': BBR, 'quick': 60, 'shards': 4, 'thorough': 400, 'shards_thorough': 16,
            'timeout_quick': 900, 'timeout_thorough': 5400}]}
