PROP = {
 'file_prefixes': ['c07_', 'c08_', 'c09_'],
 'technique': 'model-based property testing (rapid) of the real udpSessionManager in a testing/synctest bubble with a generated '
              'deny-set policy in the fake outbound (UDP()/CheckUDP()), exact accounting of socket writes; plus a differential '
              'aclEngine.CheckUDP vs aclEngine.UDP over generated rule lists',
 'level_text': 'Generated-input exploration: thousands of destination sequences per run in one session (up to 400 distinct '
               'destinations, more than the 256-entry decision cache, repeats after eviction, denied/allowed alternation, first '
               'destination denied, hook rewrite on/off). Every socket write is compared with the policy predicate and every allowed '
               'complete datagram must be written exactly once. Not a proof.',
 'level_note': 'Trusts the harness model/fakes and rapid. The policy is a predicate on destination strings (as in the statement); '
               'real ACL matching is C09. The differential covers only that CheckUDP and UDP select the same outbound.',
 'rule': 'One session; destination pool 2..400 with a generated deny-set (>= 1 denied, >= 1 allowed); sequences: random over a small '
         'pool, allowed/denied alternation, a walk over 257..400 distinct destinations followed by repeats of early and denied ones; '
         'first destination allowed or denied; 5% of datagrams arrive as two fragments; hook off or rewriting the session; optional '
         'expiry and restart. Non-trivial: >= 1 denied destination after >= 1 allowed one, and more than 256 distinct destinations or '
         'a hook rewrite. Distinct = distinct (hook, pool, destination/verdict sequence). Differential: rule lists of 0..8 rules over '
         'exact/suffix/wildcard/CIDR/all matchers with protocol/port filters and 2-4 recording outbounds, 1..12 destinations each.',
 'assumptions': ['the outbound rejects a denied first destination by failing UDP(), as the ACL engine does'],
 'tests': [
   {'name': 'TestVerifC08_Scripted', 'unit': 'core:server', 'kind': 'plain'},
   {'name': 'TestVerifC08_Policy', 'unit': 'core:server', 'quick': 2000, 'thorough': 20000, 'shards': 2, 'shards_thorough': 12,
    'timeout_quick': 900, 'timeout_thorough': 3600},
   {'name': 'TestVerifC08_CheckUDPvsUDP', 'unit': 'extras:outbounds', 'quick': 20000, 'thorough': 100000, 'shards_thorough': 8},
   # the real ACL policy engine must give the SAME verdict for a destination whatever was looked up before
   # (reuses C09's engine-level model-based test; the ops include UDP()/CheckUDP(); caught seeded C08-4: a
   # port-agnostic cache entry answering a later lookup of the same host on a port-specific reject rule)
   {'name': 'TestVerifC09_Engine', 'unit': 'extras:outbounds', 'quick': 4000, 'thorough': 40000, 'shards_thorough': 8, 'timeout_quick': 1800},
   {'name': 'TestVerifC09_EngineEvict', 'unit': 'extras:outbounds', 'quick': 150, 'thorough': 1500, 'shards_thorough': 8, 'timeout_quick': 1800},
 ]}
