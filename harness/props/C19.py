UT = "extras:utils"
HOP = "extras:transport/udphop"

PROP = {
    "technique": "property-based testing (rapid): port expressions valid by construction / mutated strings against an independent reference grammar; "
                 "model-based hop histories in a testing/synctest bubble over recording in-memory sockets (socket census, write routing, delivery, Close), "
                 "plus a concurrent variant under the race detector",
    "level_text": "Generated-input exploration. Expressions: tens of thousands of item lists biased to adjacency, overlap, reversed ranges, 0/65535 and "
                  "leading zeros, compared as 65536-bit sets with the parser's result (Ports, normal form, Contains at every boundary) and with udphop's "
                  "address list; invalid strings judged by a reference grammar. Hop histories: thousands of virtual-time histories (0-20+ hops, failed "
                  "listens, deadline/buffer settings, Close also at the exact instant of a hop) checked against invariants over the log recorded by fake "
                  "sockets. Exploration only, not a proof.",
    "level_note": "Trusts the harness's fake sockets (deadline/close semantics modelled on net.UDPConn), testing/synctest's virtual clock and quiescence "
                  "detection, and rapid. Interleavings finer than 'at the same virtual instant' are only sampled by the Go scheduler.",
    "rule": "expressions: 1-8 items (single, range, reversed, adjacent above/below, overlapping, contained, ends of the port space, leading zeros) or "
            "all/*; strings: 1-5 tokens from {number, range, overflow, empty, dash forms, wildcard item, garbage, blanks, plus, soup}. Non-trivial "
            "expression: an item overlaps or touches an earlier one; non-trivial string: clearly invalid, or valid with >=2 items. Histories: "
            "interval config (default / fixed / min<max, >=5s) x port set x 0-45 ops from {write, inject on current/previous/closed socket, advance "
            "(small, exactly to the next hop +-1ns, several intervals), listenFails(k), Set(Read|Write)Deadline, Set(Read|Write)Buffer, LocalAddr, "
            "read permits, Close}, plus in 1/4 of the histories a directed fragment (hops, a read deadline that expires between two hops, deadline cleared, packets on previous/newest socket, drain), with any op optionally issued at the exact virtual instant of a hop. Non-trivial history: >=3 successful hops "
            "and (a failed listen or a packet injected on the previous socket). Distinct = expression text / op-kind sequence with configuration.",
    "assumptions": ["fewer than 1024 undelivered packets are queued at any time (the receive queue is bounded by design and drops beyond that)",
                    "delivery is not demanded for packets arriving while a read deadline has expired (the conn fills its bounded queue with timeout results); it is demanded again as soon as the deadline was cleared/extended and the harness reader has emptied the queue (recvLoops back in ReadFrom)",
                    "the harness empties the receive queue after Close so that a recvLoop parked in its blocking 'timeout result' send can exit (goroutines left after that are reported)",
                    "packets injected at the exact virtual instant of a hop, or concurrently with hops (race variant), are only required not to be invented or duplicated; delivery is demanded for packets injected at quiescent points",
                    "sockets returned by ListenUDPFunc never block in WriteTo/Close/Set*"],
    "tests": [
        {"name": "TestVerifC19_ExprTable", "unit": UT, "kind": "plain"},
        {"name": "TestVerifC19_ExprValid", "unit": UT, "quick": 20000, "thorough": 200000, "shards_thorough": 8},
        {"name": "TestVerifC19_ExprStrings", "unit": UT, "quick": 20000, "thorough": 200000, "shards_thorough": 8},
        {"name": "TestVerifC19_ReadAfterClose", "unit": HOP, "kind": "plain"},
        {"name": "TestVerifC19_ResolveAddr", "unit": HOP, "quick": 4000, "thorough": 40000, "shards_thorough": 4},
        {"name": "TestVerifC19_Hop", "unit": HOP, "quick": 3000, "thorough": 25000, "shards_thorough": 12, "timeout_quick": 900},
        {"name": "TestVerifC19_HopConcurrent", "unit": HOP, "race": True, "quick": 800, "thorough": 6000, "shards_thorough": 12, "timeout_quick": 900},
    ],
}
