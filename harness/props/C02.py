U = "core:server"

PROP = {
    "technique": "property-based testing (rapid): differential between the HTTP/3 response of the real server and the masquerade handler "
                 "alone on an httptest recorder, over a near-miss grid of requests; log predicates for proxy probes",
    "level_text": "Generated-input exploration: per case a masquerade configuration (server default 404, or a generated deterministic handler "
                  "whose status, 0-3 headers and body are functions of method, host, path, query, two request headers and the request body), a "
                  "token table, 1-6 steps on a connection that never sends an accepted authentication request (requests from the grid method x "
                  ":authority x path x Hysteria-* headers around POST hysteria/auth, including near-misses that carry ACCEPTED credentials, plus raw "
                  "0x401 streams and UDPMessage datagrams) and the same requests on a second, authenticated connection. Every response that is not "
                  "an accepted authentication must equal the handler's own output (status, explicit headers, body), must not be 233 and must not "
                  "carry a header whose name contains 'hysteria'; probes draw no bytes, no datagram, no outbound call. Not a proof.",
    "level_note": "Trusts the quic-go HTTP/3 client to report the response faithfully; transport-added headers (date, content-length, sniffed "
                  "content-type) are tolerated; no body is expected for HEAD and 204.",
    "rule": "masq in {nil, H(status set from {200,204,301,403,404,418,500}, 0-3 of 6 headers)} x 1-6 steps; request = shape {one of "
            "method/host/path wrong, two wrong, all wrong, exact, path equal to /auth only after decoding or with a query} x methods {GET, PUT, DELETE, "
            "HEAD, OPTIONS, PATCH, post, Post, POSTS, POS, PROBE, TRACE} x hosts {Hysteria, HYSTERIA, hysteria:443, hysteria., ...} x paths "
            "{/auth/, /Auth, //auth, /authx, /a/../auth, ...} x credentials {none, rejected, accepted (non-auth shapes only)} x "
            "Hysteria-CC-RX/Padding/X-Probe x body 0-48; 1/4 of the request steps are concurrent pairs: an exact auth request with rejected credentials is held inside the fake authenticator while a second request (exact shape with rejected/no credentials, or any grid request) is sent on the same connection; both are compared. Non-trivial: custom handler and a request with exactly one field wrong or the exact auth "
            "shape with rejected/no credentials. Distinct = (handler shape, per-step method/wrongness/credentials).",
    "assumptions": ["the exact auth shape (or a path that only decodes to /auth) on the already authenticated connection answers 233 by C01's rule and is not asserted here",
                    "a request that does not complete within 20 s makes the run inconclusive (exit 2)"],
    "file_prefixes": ["c01_", "c02_"],
    "tests": [
        {"name": "TestVerifC02_Masquerade", "unit": U, "quick": 200, "thorough": 2500, "shards": 1, "shards_thorough": 16,
         "timeout_quick": 600, "timeout_thorough": 3600, "shrinktime": "40s"},
    ],
}
