S = "app:internal/socks5"
H = "app:internal/http"
M = "app:internal/proxymux"

PROP = {
    "technique": "property-based testing (rapid): grammar+mutation generated client byte streams against the real per-connection handlers over an in-memory chunk-preserving duplex, "
                 "mock outbound with a mutex-protected event log (AuthFunc verdicts, TCP()/UDP() calls) and reference parsers written from RFC 1928/1929/7617; "
                 "harness-scheduled listener/connection histories of the shared-port mux inside testing/synctest bubbles (exact quiescent points, no wall clock)",
    "level_text": "Generated-input and generated-schedule exploration: thousands of SOCKS5 dialogues (method lists, right/wrong/malformed user-pass sub-negotiations, CONNECT/UDP/BIND, all address types, "
                  "byte flips/truncations/insertions, every chunking incl. zero-length writes, lock-step and fire-and-forget clients), HTTP request sequences on keep-alive connections "
                  "(CONNECT / absolute-URI GET / POST, 16 Proxy-Authorization variants, payload behind the CONNECT head in the same write / split / later) and mux histories "
                  "(ListenSOCKS/ListenHTTP/Close/Accept/connection/first byte/rest/abort, settled or racing) are run against the real code; verdicts are log predicates and byte comparisons at exact quiescent points. "
                  "Exploration only, not a proof.",
    "level_note": "Trusts the harness duplex/fakes and the reference parsers; schedules are owned at harness yield points (synctest.Wait) and otherwise sampled by the Go scheduler. "
                  "The mux runs on a fake base listener mirroring manager.go.",
    "rule": "SOCKS5: 1-3 sequential connections per Server x method list (10 presets + random) x 11 sub-negotiation kinds x cmd {1,2,3,other} x atyp {1,3,4,other,empty domain} x one mutation "
            "{none,flip,trunc,ins,del} x chunking {one write, every byte, section boundaries +-1, random} x cut kind {plain, zero-length write, pause until the server is parked}; "
            "HTTP: 1-2 connections x 1-4 requests {get,post,connect,origin-form,garbage} x 17 credential header variants x keep-alive variants x CONNECT framing headers {none, Content-Length 0/1/payload/payload+-1/half/more than sent, duplicate or list Content-Length, Transfer-Encoding chunked (payload random or looking like chunk framing)/identity, Expect: 100-continue, Connection: close} x payload {0..9000} behind the last head x chunking "
            "{one write, around the head end, exactly at it, just behind it, request boundaries, random}; mux: 3-22 steps over {listen,close,accept,conn,first,rest,abort,basefail,zero-length chunk} (0-3 zero-length chunks also right before the first byte, between it and the rest, and before a client EOF) x settle/race, first byte 0x05 or one of 10 others, reads {0,1,2,3,5,64}. "
            "end-to-end: 1-4 clients (SOCKS5 or HTTP CONNECT, right/wrong password, sequential or concurrent) through proxymux.ListenSOCKS+ListenHTTP on one loopback port into the real servers. "
            "Non-trivial: SOCKS5/HTTP with AuthFunc set and an unauthorised or mutated stream, wrong-then-right credentials, or a payload riding in the same write as the head; "
            "mux: a sub-listener closed (or the base listener failed) while a connection of its kind was pending/in flight, or both outcomes (delivered and closed) / both protocols in one history. Distinct = structural fingerprint of the case.",
    "assumptions": [
        "failure of the base listener's Accept is generated as a step of the mux histories although the quantifier does not name it (it shuts the mux down like the last Close does)",
        "a CONNECT head with framing headers (Content-Length, Transfer-Encoding, Expect) need not be served; forwarding of every byte behind its blank line is asserted only when an upstream call for it is observed (if the server parks in Read before dialling, the later bytes and a filler are sent and count as tunnel data too)",
        "HTTP credentials are judged per request (the code's behaviour); an upstream call is attributed to its request by the unique host name each request uses",
        "Read returning (0, nil) for a zero-length chunk (net.Pipe semantics) is part of the chunking domain",
        "the mux histories run on a fake base listener and a mirror of manager.go inside synctest; the real manager + loopback TCP are only used by the small end-to-end composition test",
        "whether an authorised UDP ASSOCIATE gets its session is not asserted (needs a real UDP bind); only 'no UDP() without accepted credentials' is",
    ],
    "tests": [
        {"name": "TestVerifC18_Regress_CloseWhilePending", "unit": M, "kind": "plain"},
        {"name": "TestVerifC18_Regress_AcceptDuringShutdown", "unit": M, "kind": "plain"},
        {"name": "TestVerifC18_Regress_BaseAcceptErrorWhilePending", "unit": M, "kind": "plain"},
        {"name": "TestVerifC18_Regress_ZeroLengthFirstRead", "unit": M, "kind": "plain"},
        {"name": "TestVerifC18_Stress_ListenOnDyingMux", "unit": M, "kind": "plain", "timeout_thorough": 1800},
        {"name": "TestVerifC18_Socks5Regress", "unit": S, "kind": "plain"},
        {"name": "TestVerifC18_HTTPRegress", "unit": H, "kind": "plain"},
        {"name": "TestVerifC18_MuxDispatch", "unit": M, "quick": 20000, "thorough": 150000, "shards_thorough": 8, "timeout_quick": 900},
        {"name": "TestVerifC18_Socks5Gate", "unit": S, "quick": 2500, "thorough": 25000, "shards_thorough": 8, "timeout_quick": 900},
        {"name": "TestVerifC18_HTTPGate", "unit": H, "quick": 2000, "thorough": 20000, "shards_thorough": 8, "timeout_quick": 900},
        {"name": "TestVerifC18_SharedPortE2E", "unit": S, "quick": 400, "thorough": 3000, "shards_thorough": 4, "timeout_quick": 900},
    ],
}
