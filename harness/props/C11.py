BRUTAL = "core:internal/congestion/brutal"
PACER = "core:internal/congestion/common"

PROP = {'technique': 'property-based testing (rapid): virtual-clock simulation of the quic-go send loop against Brutal and the shared pacer; '
              'independent leaky-bucket replay, reference ack-rate window, announced-wake-up sufficiency predicate',
 'level_text': 'Generated-input exploration: tens of thousands of simulated send/ack/loss/idle/MTU histories per run on a virtual monotime '
               'clock (rates 64 KB/s..40 Gbit/s log-uniform, RTT 0..2 s, datagram 1200..1500 with increases), every invariant evaluated '
               'after every step. Not a proof: absence of violations on the explored histories only.',
 'level_note': 'Trusts the harness models (leaky bucket, 5/6-bucket ack-rate reference) written from the statement; single-threaded, '
               'no wall clock (Brutal/pacer take time as an argument; time.Now is only used by debug printing, which is off).',
 'rule': 'rapid-generated event lists (20-400 ops: advance 1us..10s, quic-go send loop following announced wake-ups with jitter, '
         'ack/loss batches incl. second boundaries, idle gaps >5 s, MTU probe + size increase, RTT changes, ACK-only/PTO sends that bypass '
         'pacing), clock advances clipped so rate x gap < 2^62. Non-trivial (BrutalSendLoop): >=50 samples in the reference window with loss '
         'in (0,20%] or >20% (clamp) and >=1 wait on the pacer; (Pacer): >=1 wait and >=10 sends; (SustainedRate): >=200 packets and >=20 '
         'wake-ups after the first wait with the window never binding. Distinct = distinct (rate, start time, op-kind sequence).',
 'assumptions': ['call discipline derived from quic-go internal/ackhandler/sent_packet_handler.go and connection.go (SendMode order CanSend -> '
                 'HasPacingBudget -> TimeUntilSend; one OnCongestionEventEx per ACK with a non-empty list; datagram size only grows after install)',
                 'the clock is monotone and non-zero (monotime.Now() is >= 1 h); rate x (now - last send) < 2^62 as the statement restricts',
                 '"roughly five seconds" = the last 5 or 6 whole-second buckets ending at the second of the latest feedback event',
                 'SustainedRate reads "sends at the configured rate / never stalled" as: a backlogged, window-unlimited sender that sleeps '
                 'exactly until each announced time releases >= 0.97 x the configured rate'],
 'tests': [{'name': 'TestVerifC11_Pacer', 'unit': PACER, 'quick': 12000, 'thorough': 40000, 'shards_thorough': 8},
           {'name': 'TestVerifC11_BrutalSendLoop', 'unit': BRUTAL, 'quick': 12000, 'thorough': 40000, 'shards_thorough': 8},
           {'name': 'TestVerifC11_SustainedRate', 'unit': BRUTAL, 'quick': 400, 'thorough': 1500, 'shards_thorough': 8}]}
