U = "core:internal/protocol"

PROP = {
    "file_prefixes": ["c04_", "c01_"],
    "technique": "property-based testing (rapid) + native fuzzing: differential against an independent reference decoder over a scripted chunked reader; round-trip through the real writers; end-to-end frames on a real QUIC stream (raw client, every varint width incl. the frame type, payload right behind the frame)",
    "level_text": "Generated-input exploration: harness-encoded frames in every legal varint width and boundary length, real-writer frames with every padding value forced, over-limit/empty rejects and arbitrary byte strings are decoded by the real readers through an adversarially chunked non-ByteReader and compared with an independent reference decoder (value, exact bytes consumed, largest single read, allocation). Thorough adds coverage-guided native fuzzing of the same differential. Exploration only, not a proof.",
    "level_note": "Trusts the reference decoder written from PROTOCOL.md/RFC 9000 and that streams never return (0, nil) from Read (io.Reader contract; quic-go streams block instead).",
    "rule": "rapid: (request|response) x body length {1,2,62,63,64,65,255,256,2047,2048} U uniform x padding {0,1,63,64,4095,4096} U uniform x varint width per field in {1,2,4,8} x trailing payload 0..64 x cut sets (none, every byte, around field boundaries, random) x EOF-with-data; rejects: declared {limit+1, 16383, 16384, 2^20, 2^30, 2^62-1, 0 for address} in every width with 0..70000 bytes actually available. Non-trivial: non-minimal varint, boundary length, >=3 chunks, padding 0/4096, any reject, any arbitrary-bytes case longer than 2. Distinct = (kind, lengths, widths, cuts).",
    "assumptions": ["Read never returns (0, nil) for a non-empty buffer", "status bytes other than 0/1 are outside the protocol and not generated for round-trips"],
    "tests": [
        {"name": "TestVerifC04_RoundTripAnyEncoding", "unit": U, "quick": 15000, "thorough": 100000, "shards_thorough": 8},
        {"name": "TestVerifC04_RealWriters", "unit": U, "quick": 5000, "thorough": 40000, "shards_thorough": 4},
        {"name": "TestVerifC04_Reject", "unit": U, "quick": 5000, "thorough": 30000, "shards_thorough": 4},
        {"name": "TestVerifC04_ArbitraryBytes", "unit": U, "quick": 20000, "thorough": 200000, "shards_thorough": 8},
        # end to end on a real QUIC stream: frame type / lengths in any width, payload right behind the frame
        {"name": "TestVerifC04_E2EFrameOnRealStream", "unit": "core:server", "quick": 40, "thorough": 600, "shards_thorough": 8, "timeout_quick": 600},
        {"name": "FuzzVerifC04_Decode", "unit": U, "kind": "fuzz", "fuzz_secs": 90},
    ],
}
