ACL = "extras:outbounds/acl"
ENG = "extras:outbounds"

PROP = {'technique': 'property-based testing (rapid): generated rule files and lookup histories against an independent reference '
              'evaluator, compared on every lookup (cache hits, hits under another spelling, re-evaluation after eviction); '
              'deterministic grid over a small universe; engine level through fake outbounds',
 'level_text': 'Generated-input exploration: tens of thousands of rapid cases per run (rule lists of 0-12 lines from the accepted grammar, '
               'lookup sequences of 5-60 with repeats and one-component neighbours, cache sizes 1/2/4/1024; engine level with more than '
               '1024 distinct requests between two askings of the same probes). Not a proof: absence of violations on the explored cases only.',
 'level_note': 'Trusts the harness reference evaluator (written from the property statement and the ACL semantics the repo documents in '
               'compile.go comments / TestCompile) and rapid.',
 'rule': 'rapid-generated rule files (outbound name case-varied x {exact, suffix:, wildcard with 1-2 * anywhere, IPv4, IPv6, v4/v6 CIDR '
         'any prefix length, all, *} mixed case / trailing dot x protoPort forms x optional hijack IP, whitespace/comments) over a small '
         'universe of names and addresses so rules overlap, mixed with motifs a rule-merging optimiser would exploit: runs of 2-6 '
         'adjacent same-action IP/CIDR rules with nested / overlapping / duplicated / single-address members (v4 and v6, /0 .. /32'
         '|/128, sorted or unsorted) followed by a wider network under another action, runs of adjacent same-action domain rules o'
         'f one family, a port-limited all early in the list, a catch-all last (up to 18 lines); one witness lookup per rule is appended to every sequence; about 1 case in 6 ends with 2-4 lookups whose host names share a 63/64/255/256/300/1000-byte label prefix and differ only in the tail, then the first again; 1 case in 40 has one line longer than 64 KiB (comment / rule padded with blanks / trailing comment); queries aimed at a rule (match / near miss at label, bit and port boundaries; for networks also a random inside address, first/last address, the address before/after) '
         'or from the universe, as fresh / one-component mutation / repeat (possibly respelled). Non-trivial (Match): a repeat after an '
         'eviction-forcing number of distinct lookups AND a query matched by >=2 rules with different results. Non-trivial (Engine): a '
         'cache hit AND such a query; (EngineEvict): a re-asked probe after >=1024 other distinct requests, >1024 distinct requests in '
         'the case AND such a query. Distinct = distinct (rule file, normalised query-key sequence).',
 'assumptions': ['no geoip:/geosite: rules (need databases)',
                 'no port 0 in rules (compiledRule.StartPort==0 doubles as "any port"; 0 is not a usable TCP/UDP port); query ports 1..65535',
                 'host names with a Punycode (xn--, any case) label are not judged by the reference evaluator (it does not IDNA-decode) but by the '
                 'relation the statement fixes: any spelling (case, trailing dot) on the used rule set / engine == the lower-case, dot-less '
                 'spelling of the same lookup on a fresh one; patterns are ASCII and may contain xn-- text',
                 'no IPv4-mapped IPv6 addresses in rules, hijack addresses or queries; the IPv4 field holds an IPv4 address (4- or 16-byte '
                 'form), the IPv6 field a non-mapped IPv6 address',
                 'host names are ASCII (up to ~1 KiB) with at most one trailing dot; an IP-literal host name only occurs together with the same address '
                 'in the resolved-IP field (the server always puts a resolver in front of the ACL engine, app/cmd/server.go)',
                 'keywords all, *, suffix: are written in lower case, domain parts / outbound names / tcp|udp in any case',
                 'engine level: the outbound list is non-empty, names distinct, and "direct" is used in rules only when the list overrides '
                 'it (the built-in direct outbound would dial out)'],
 'tests': [{'name': 'TestVerifC09_Grid', 'unit': ACL, 'kind': 'plain'},
           {'name': 'TestVerifC09_Match', 'unit': ACL, 'quick': 8000, 'shards': 4, 'timeout_quick': 1800, 'thorough': 60000, 'shards_thorough': 12},
           {'name': 'TestVerifC09_Engine', 'unit': ENG, 'quick': 6000, 'shards': 2, 'timeout_quick': 1800, 'thorough': 40000, 'shards_thorough': 8},
           {'name': 'TestVerifC09_EngineEvict', 'unit': ENG, 'quick': 250, 'shards': 2, 'timeout_quick': 1800, 'thorough': 1500, 'shards_thorough': 12}]}
