PROP = {
 'technique': 'model-based property testing (rapid) of a real client + real server over loopback QUIC: generated per-connection '
              'write/sync/close/error histories against a fake outbound (in-memory half-close aware target) and a recording, '
              'scripted TrafficLogger; event-log oracle over bytes received and LogTraffic calls',
 'level_text': 'Generated-history exploration: each case brings up the unmodified server and 1-2 unmodified clients on loopback, runs 1-3 '
               'proxied connections with generated chunkings (1 B .. 256 KiB, 32 KiB +-1 and 64 KiB +-1 boundaries), who-closes-when, '
               'target errors, dial failures, fast open on/off, logger present/absent and a veto on a drawn LogTraffic call. Every byte '
               'received on either side is compared with a position-dependent pattern at the moment of receipt; logger totals are '
               'compared with delivered bytes at every receipt and at every sync barrier. Not a proof: absence of violations on the '
               'explored histories only; packet-level timing inside QUIC is whatever loopback does.',
 'level_note': 'Trusts the harness fakes/model (written from the statement and the TrafficLogger interface documentation), rapid, and '
               'loopback UDP. Liveness waits (sync, teardown, ClosedError) use 30 s deadlines; expiry is reported as inconclusive, never '
               'as a violation - except a WITNESSED stall: when a wait about bytes in transit expires with bytes missing that were written before either side closed, a fresh proxied connection of the same client does a 200-byte round trip in both directions; if that completes and the old bytes are still missing, the relay lost them (violation); if the witness fails, inconclusive. The veto-racing-a-close test decides "the connection is closed" with a 4 s grace period during which the '
               'server demonstrably keeps serving new requests.',
 'rule': 'Case = fastOpen x logger x 1-2 users x 1-3 proxied connections x 1-3 segments; per connection a list of clientWrite / '
         'targetWrite / sync / client-deadline ops (SetReadDeadline or SetDeadline in the past or 3 ms ahead, cleared after a Read timed out), '
         'with small QUIC flow-control windows (stream 16/64 KiB, connection 2x, both sides; a third of the cases default 8 MB) also: target stops taking bytes while the client Writes 5-8 windows under a write deadline 5 ms ahead, counts exactly the returned k as sent, clears the deadline and writes the rest from offset k; client pauses reading while the target writes 3-6 windows; '
         'optionally a server-speaks-first target (a 1..40000-byte banner already readable on the dialled conn when Outbound.TCP returns, ~40 % of the relay connections, fast open on and off), '
         'optionally a slow dial (Outbound.TCP parked; with fast open a Read times out and a write happens before the response exists), '
         'an optional terminal event (client close, target close, target shutdown(WR), target read error after '
         'drain, target reset dropping queued bytes) with 0-2 writes of the other side racing it, or a dial failure with a 0..2048-byte '
         'message; veto cases script LogTraffic call k (1..10, one-shot or sticky) of one user whose connections only write/sync. '
         'Non-trivial: some connection carries >= 2 chunks in both directions and the case contains a terminal event, dial failure or '
         'veto. Distinct = distinct (configuration, per-connection op-kind/size-class sequence, terminal). Two pinned histories with generated '
         'parameters (every case non-trivial): a chunk awaits its LogTraffic verdict while the other direction of its relay ends and the '
         'verdict is a veto (VetoRacingClose); the same with verdict true while the handler is parked in EventLogger.TCPError before it '
         'closes the two ends and 2-8 new relays of the same/another user move their own bytes (TeardownWindow, 1-3 windows per case).',
 'assumptions': ['the target connection behaves like the fake: Write never blocks (except during the scripted target-stall of a write-deadline op), Close unblocks a pending Read, EOF/error may be returned together with the last bytes',
                 'the TrafficLogger and the EventLogger do not block (except at the scripted yield points of the veto-race and teardown-window tests) and is keyed by the id the Authenticator returned',
                 'client-side read deadlines expire either before the response exists (parked dial) or after it was consumed (fast open: after the first payload byte); a deadline expiring in the middle of the response frame is outside the quantifier and not generated',
                 'no RequestHook is configured (the accounting clause of the statement is restricted to un-hooked connections)',
                 '"one chunk in flight" = the relay copy buffer (32 KiB, read from copyBufPool), per direction and per torn-down relay',
                 'client-side rx totals are only a lower bound of "forwarded" once the client closed a connection before reading to its end or the user was vetoed; the upper accounting bound for rx is checked only otherwise'],
 'tests': [
   {'name': 'TestVerifC06_Relay', 'unit': 'core:server', 'quick': 300, 'thorough': 6000, 'shards': 2, 'shards_thorough': 12,
    'timeout_quick': 600, 'timeout_thorough': 2400},
   {'name': 'TestVerifC06_VetoRacingClose', 'unit': 'core:server', 'quick': 40, 'thorough': 400, 'shards': 1, 'shards_thorough': 4,
    'timeout_quick': 600, 'timeout_thorough': 1800},
   {'name': 'TestVerifC06_TeardownWindow', 'unit': 'core:server', 'quick': 150, 'thorough': 1500, 'shards': 1, 'shards_thorough': 4,
    'timeout_quick': 600, 'timeout_thorough': 2400},
 ]}
