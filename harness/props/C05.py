FRAG = "core:internal/frag"

PROP = {'technique': 'property-based testing (rapid): validity predicate on the splitter, model-based reassembly histories with a hold-to-the-end aliasing oracle, split/permute/reassemble round-trip, send paths against a fake datagram link whose limit may change mid-send with a receiver-side Defragger oracle, and an end-to-end content test over loopback QUIC',
 'level_text': 'Generated-input exploration: tens of thousands of rapid cases per run against an independent size/ceil-division model and '
               'an all-or-nothing reassembly oracle; boundary-biased so the 255/256, budget<=0 and budget=1 corners are hit in every run. '
               'Not a proof: absence of violations on the explored cases only.',
 'level_note': 'Trusts the harness oracle (written from PROTOCOL.md) and rapid. Send paths use a fake udpIO/link plus a small real client+server loopback test; packet IDs of concurrently outstanding messages are distinct (precondition of the statement).',
 'rule': 'rapid-generated (payload 1..65535, address 1..2048, limit 0..2000) triples biased to multiples of the budget +-1, limit within '
         '+-3 of the header size and fragment counts 250..262; reassembly histories of 1-4 messages with distinct packet IDs, per-message '
         'permutation with duplicates and drops, merged with bursts and ill-formed fragments. Non-trivial: split into >=2 fragments / more '
         'than 255 needed / budget within +-2 of 0; reassembly: a multi-fragment message arriving in non-identity order. Distinct = '
         'distinct (sizes) or arrival trace.',
 'assumptions': ['fragments are passed through Serialize/ParseUDPMessage (cap==len) before reassembly',
                 'packet IDs of concurrently outstanding messages are distinct (precondition in the statement)'],
 'tests': [{'name': 'TestVerifC05_Regress_FragCountWrap', 'unit': 'core:internal/frag', 'kind': 'plain'},
           {'name': 'TestVerifC05_Split', 'unit': 'core:internal/frag', 'quick': 30000, 'thorough': 150000, 'shards_thorough': 8},
           {'name': 'TestVerifC05_Reassembly', 'unit': 'core:internal/frag', 'quick': 20000, 'thorough': 150000, 'shards_thorough': 8},
           {'name': 'TestVerifC05_RoundTrip', 'unit': 'core:internal/frag', 'quick': 3000, 'thorough': 20000, 'shards_thorough': 8},
           # send paths: fragmentation only after DatagramTooLargeError{n}, against a fake datagram link with limit n
           {'name': 'TestVerifC05_Regress_ServerSendPath', 'unit': 'core:server', 'kind': 'plain'},
           {'name': 'TestVerifC05_ServerSendPath', 'unit': 'core:server', 'quick': 10000, 'thorough': 60000, 'shards_thorough': 8},
           {'name': 'TestVerifC05_Regress_ClientSendPath', 'unit': 'core:client', 'kind': 'plain'},
           {'name': 'TestVerifC05_ClientSendPath', 'unit': 'core:client', 'quick': 10000, 'thorough': 60000, 'shards_thorough': 8},
           # real client + real server over loopback QUIC (real udpIOImpl on both sides): content of 1..4 fragment messages in both directions
           {'name': 'TestVerifC05_E2EContent', 'unit': 'core:server', 'quick': 40, 'thorough': 300, 'shards_thorough': 4, 'timeout_quick': 600}]}
