SRV = "core:server"
PROTO = "core:internal/protocol"

PROP = {'technique': 'property-based testing (rapid) of the rate negotiation lattice end-to-end over loopback QUIC: real client x real '
              'server (own accept loop), raw HTTP/3 client x real server, real client x fake HTTP/3 server; the installed congestion '
              'controller of both quic.Conns is read by reflection and compared with a reference function written from PROTOCOL.md; '
              'pure header-codec layer against an independent decimal scanner',
 'level_text': 'Generated-input exploration: a few hundred (quick) to ~50 000 (thorough) real handshakes sampled from the '
               '12x12x10x10 limit lattice x ignore-client-bandwidth x congestion type/profile x loss-compensation flags, plus malformed / '
               'overflowing / "auto" header cells in both directions and 50 000+ pure codec cases. Every observable the statement names '
               '(installed controller kind and rate on both sides, HandshakeInfo.Tx, Connect(tx), Authenticate(tx), response header) is '
               'compared with the reference. Not a proof: absence of violations on the explored cases only.',
 'level_note': 'Trusts the reference function (v10RefServer/v10RefClient), rapid, and the reflection adapter v10ReadCC (a renamed '
               'internal field makes the check inconclusive, never a violation). "Enforced on the wire" is observed at the controller '
               'the connection holds, not by measuring throughput (C11 covers controller -> pacing).',
 'rule': 'client MaxTx/MaxRx in {0,1 (MaxTx only),65535,65536,65537,1e6,1e9,2^62-1,2^62,2^63-1,2^63,2^64-1}, server MaxTx/MaxRx in the same set without the two '
         'sub-floor values (only configurations fill()/verifyAndFill() accept are generated), ignore-client-bandwidth 1/4, congestion '
         'type in {"",bbr,BBR,reno,Reno} x BBR profile in {"",standard,conservative,aggressive + case variants} on each side, '
         'DisableLossCompensation on/off on each side, UDP on/off. Header cells: Hysteria-CC-RX missing, "", abc, -1, 1e9, 2^64, " 5", '
         '+70000, 0x10000, 65536.0, 26-digit overflow, auto/AUTO/Auto/"auto ", lattice decimals with/without leading zeros. '
         'Raw-client cells are followed by 0-2 further auth POSTs on the same connection (new Hysteria-CC-RX from the same cells, good or '
         'wrong credentials): the installed controller must not change and no second Connect may be reported. '
         'Non-trivial: on at least one side both limits non-zero and different, or a special value (0 / auto / ignore) against a non-zero '
         'opposite limit; header cells also when the header is not a plain decimal. Distinct = distinct full configuration.',
 'assumptions': ['loopback UDP, self-signed certificate generated in the harness, client InsecureSkipVerify',
                 'the server runs Serve()\'s loop body (listener.Accept + go handleClient) from the harness so that the server-side quic.Conn is held',
                 'installed controller read by reflection: Conn.sentPacketHandler.congestion[.CC] -> brutal.BrutalSender{bps,disableLossCompensation} / bbr.bbrSender{profile} / quic-go cubicSender{reno}',
                 'an overflowing decimal may be read as 0 or 2^64-1; a value that is a decimal only after trimming blanks (or "auto" in another case) may be read either way',
                 'server configurations with 0 < MaxTx/MaxRx < 65536 are rejected by fill() and are not generated; nothing is asserted about them'],
 'tests': [{'name': 'TestVerifC10_HeaderCodec', 'unit': PROTO, 'quick': 50000, 'thorough': 400000, 'shards_thorough': 4},
           {'name': 'TestVerifC10_Regress_RateAbove2p63', 'unit': SRV, 'kind': 'plain',
            'timeout_quick': 300, 'timeout_thorough': 300},
           {'name': 'TestVerifC10_Negotiate', 'unit': SRV, 'quick': 150, 'shards': 2, 'thorough': 4000, 'shards_thorough': 16,
            'timeout_quick': 600, 'timeout_thorough': 1500},
           {'name': 'TestVerifC10_RawClientHeader', 'unit': SRV, 'quick': 120, 'shards': 1, 'thorough': 1000, 'shards_thorough': 4,
            'timeout_quick': 600, 'timeout_thorough': 1500},
           {'name': 'TestVerifC10_FakeServerHeader', 'unit': SRV, 'quick': 120, 'shards': 1, 'thorough': 1000, 'shards_thorough': 4,
            'timeout_quick': 600, 'timeout_thorough': 1500}]}
