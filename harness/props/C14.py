OBFS = "extras:obfs"

PROP = {
    'technique': 'property-based testing (rapid) with testing/synctest virtual time: model-based state machine over the Gecko receive path '
                 '(harness frame encoder, reference reassembly-table model, inspection of reassembly/perSource after every step), '
                 'validity predicate over the send path with the harness\'s own Salamander + frame decoder, and sender->any order->receiver round trips',
    'level_text': 'Generated-input exploration: thousands of histories of chunk deliveries in any order with duplicates, cross-source and '
                  'cross-message interleaving, ill-formed frames, per-source floods, 8-bit id reuse and time advances around the 8 s TTL / 4 s '
                  'sweep (virtual time), plus whole-table floods (> 4096 pending from > 512 sources) with the eviction victim checked; the '
                  'send path is sampled >= 64 writes per configuration because chunk count, padding and padding bytes come from crypto/rand. '
                  'Not a proof: absence of violations on the explored cases only.',
    'level_note': 'Trusts the harness frame codec and reference model, rapid and testing/synctest. crypto/rand draws of the sender cannot be '
                  'pinned; observed chunk counts are recorded (all of 2..8 occur in every run). The reference model follows the '
                  'implementation\'s table where the statement leaves the policy open (which message loses at a cap, expiry inside the sweep window).',
    'rule': 'receive: 1-6 sources (pairs share an IP), id pool of 1-10 ids, 1-60 operations {new message (2-8 chunks, 1-1500 bytes, any cut '
            'points), deliver a missing chunk, deliver any chunk again, complete in a drawn permutation, ill-formed frame (count<2, count>8, '
            'index>=count, padLen past end, truncated, empty, reserved bits), short-header packet, advance 1 ms..20 s, flood of 1-12 first '
            'chunks, frame for a pending (source, id) announcing another chunk count (larger/smaller, index inside/outside either count)}; '
            'the wrappers sit over a plain or a UDP-like inner socket (the package\'s obfsPacketConnUDP variant); global-cap cases: 513-640 sources, 4000-4096 pending in 1-4 age classes, 0-700 overflow first-chunks, 1-4 tracked '
            'messages. Non-trivial: a message of >= 3 chunks completed in non-identity order with a foreign frame in between, or a '
            'per-source cap / TTL expiry / global eviction event. Send: every option combination (both / only min / only max / neither; values below, at and above the defaults '
            '512/1200 and the bounds 1/2048, illegal ones included): either the constructor rejects, or every datagram that can fit lies in '
            '[min or 512, max or 1200]; non-trivial when a long-header write had at least one datagram that could fit the range. Distinct = distinct step trace / configuration.',
    'assumptions': ['two concurrently pending messages of one source never share the 8-bit message id (indistinguishable by design; excluded by construction, counted)',
                    'frames handed to the receiver are at most 2048 bytes (the read buffer) and chunk counts are 2..8 as the sender draws them',
                    'when the global cap forces an eviction the victim must be among the oldest pending messages (the mechanism named in the anchors); '
                    'which message loses at the per-source cap is left to the implementation',
                    'an entry may outlive its TTL by at most one sweep period (4 s); inside that window either outcome is accepted'],
    'tests': [
        {'name': 'TestVerifC14_Send', 'unit': OBFS, 'quick': 1000, 'thorough': 4000, 'shards_thorough': 8},
        {'name': 'TestVerifC14_Receive', 'unit': OBFS, 'quick': 12000, 'thorough': 40000, 'shards_thorough': 12},
        {'name': 'TestVerifC14_GlobalCap', 'unit': OBFS, 'quick': 60, 'thorough': 300, 'shards_thorough': 8},
        {'name': 'TestVerifC14_RoundTrip', 'unit': OBFS, 'quick': 4000, 'thorough': 15000, 'shards_thorough': 8},
        {'name': 'TestVerifC14_ConcurrentWriters', 'unit': OBFS, 'race': True, 'quick': 150, 'thorough': 1000, 'shards_thorough': 8,
         'timeout_quick': 900},
        {'name': 'TestVerifC14_IDWrap', 'unit': OBFS, 'quick': 60, 'thorough': 300, 'shards_thorough': 8},
    ],
}
