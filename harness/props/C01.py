U = "core:server"

PROP = {
    "technique": "property-based testing (rapid): generated concurrent histories of raw QUIC/HTTP-3 clients against one real server; "
                 "happens-before predicates over an event log written by fake Authenticator/Outbound/EventLogger",
    "level_text": "Generated-input exploration: each case starts a real server (server.NewServer on loopback) with harness fakes, opens 1-6 raw "
                  "quic-go connections (with lifetimes: connections end and fresh ones start later in the same server's life) and runs 2-6 rounds of concurrently issued operations (accepted / rejected auth requests, near-miss HTTP "
                  "requests carrying accepted credentials, raw 0x401 streams in four framings written by the harness's own encoder, complete and "
                  "fragmented UDPMessage datagrams); the fake authenticator can hold a call open while the rest of the round is delivered. The "
                  "verdict is a set of predicates over one sequence-numbered log (outbound/event-logger entries of connection c only after "
                  "Authenticate(c)=ok; never for a connection without an accepted auth request; no authenticator call after the accept) plus "
                  "positive checks after the accept (TCPResponse, echo, exactly one outbound call, 233 on repeated/rejected attempts). Not a proof.",
    "level_note": "Interleavings inside ServeHTTP are sampled by the Go scheduler, steered only at the authenticator call; attribution relies on "
                  "labels embedded in request addresses and tokens; the HTTP/3 layer is the real quic-go fork.",
    "rule": "history = connection lifetimes (40% all connections live throughout; 60% 2-4 consecutive generations of 1-2 connections, each generation closed - client close, server-side Disconnect awaited - before the next is opened against the same server, optional spanning connection, up to 6 connections; 40% of those cases under GOMAXPROCS(1)) x roles (which connections ever send an accepted auth request) x 2-6 rounds x 1-4 concurrent ops from {AuthGood, AuthBad "
            "(empty/near-miss/absent token), OtherHTTP near-miss (optionally with a GOOD token), TCPReq (framings block/hdr/ascii/data0, varint "
            "widths, payload 0-1500, dial failure), Datagram (complete / first fragment / both fragments, session ids 1-3)}, token table 1-3, "
            "with/without TrafficLogger; any auth op may be held inside the fake authenticator (until the round's proxy ops were written / until another auth op's verdict was returned = generated completion order of concurrent attempts on one connection / across the close of its own connection, optionally until the next round's connections are open), all waits capped. The authenticator's verdict is dynamic: tokens 2..n may be revoked at a round boundary, an extra token is granted at a round boundary, and the authenticator may reject everything from a given connection's address; credential strings of earlier accepted ops are re-presented VERBATIM by other connections (accepted again / rejected for that connection / rejected after the revoke); twin shape: the same string with the same CC-RX in flight on two connections at once, accepted for one and refused for the other connection's address, either one parked in the authenticator while the other arrives. TestVerifC01_LongAuthHistory: one connection, 6-20 auth requests (0-7 rejected, the accepted one, then repeated accepted / repeated wrong / near-miss with garbage headers) with TCP requests and datagrams interleaved and at the end; non-trivial there: >= 5 non-accepted auth attempts on a connection that is or becomes authenticated. Non-trivial: an accepted and a never-accepted connection both issuing proxy "
            "ops, or a reject/repeat after the accept followed by a proxy op, or a proxy op before/concurrent with the accept, or a proxy op "
            "racing a held authenticator call on a never-accepted connection, or a connection opened after an accepted connection was closed that proxies / sends rejected credentials without (or before) its own accept. Distinct = per-connection (round, op kind, framing/fragment mode, "
            "held) sequence.",
    "assumptions": ["the fake authenticator judges a request against the verdict table of the round in which the request was issued (even if the server asks later)",
                    "loopback UDP delivers; a handshake or request that does not complete within 20 s makes the run inconclusive (exit 2), never a violation",
                    "after a barrier HTTP round trip on the same connection plus 30 ms nothing older is still in flight (silence check; expiry = pass)",
                    "streams/datagrams sent before or concurrently with the accept may legitimately be served after it (only the log order is asserted for them)"],
    "tests": [
        {"name": "TestVerifC01_AuthGate", "unit": U, "quick": 150, "thorough": 2500, "shards": 1, "shards_thorough": 16,
         "timeout_quick": 600, "timeout_thorough": 3600, "shrinktime": "40s"},
        {"name": "TestVerifC01_LongAuthHistory", "unit": U, "quick": 60, "thorough": 400, "shards": 1, "shards_thorough": 8,
         "timeout_quick": 600, "timeout_thorough": 3600, "shrinktime": "40s"},
    ],
}
