UNIT = "core:client"

PROP = {'technique': 'property-based testing (rapid): model-based fault histories and concurrent callers against a real in-process '
              'server, with a socket census taken by a counting ConnFactory wrapper',
 'level_text': 'Generated-input exploration: rapid-generated histories of TCP()/UDP() calls, connection kills (client socket closed, '
               'server closes the connection, server down/up on the same or a new port, silent black hole), scripted failing '
               'reconnect attempts (config error, factory error, authentication rejected, server unreachable / handshake timeout), '
               'stream exhaustion, lazy/eager start and Close at any point, judged by a model written from the statement plus a '
               'census of every socket the ConnFactory handed out; a second check runs 2-4 concurrent callers while kills and Close '
               'happen and checks invariants only. Not a proof: absence of violations on the explored histories and the '
               'schedules the Go scheduler produced.',
 'level_note': 'End-to-end over loopback QUIC with the smallest legal idle timeout (4 s); interleavings inside one call are sampled '
               'by the scheduler, not enumerated. Trusts the harness model and the in-process server of the same tree.',
 'rule': 'History = start (lazy|eager, fast-open or not) + 4..18 ops drawn state-dependently from {tcp(hold), udp, kill(sock|kick|'
         'blackhole), serverDown(fast|real timeout), serverUp(same|new port), failNext(config|factory|auth, k), exhaustStreams(freeIfBlockedFor), idleWait (silence past the idle timeout after a silent loss), closeWhileConfigParked, '
         'release, Close} + Close + two calls after Close. Non-trivial: >=2 kills with a successful call between them, or a failing '
         'reconnect attempt, or Close after a kill. Distinct = distinct op sequence (with arguments). Concurrent check: non-trivial '
         '= at least one kill took effect and at least two connects happened; distinct = (workers, lazy, per-phase action@point).',
 'assumptions': ['loss of a connection is noticed within the QUIC idle timeout (4 s configured); calls are given 120 s before the run '
                 'is declared inconclusive',
                 'a ClosedError on a connection the harness did not kill is a violation when the server saw that connection end only '
                 'by the client\'s own CONNECTION_CLOSE(0x100) (EventLogger.Disconnect err == nil: the connection was healthy and the '
                 'client tore it down, e.g. a stream limit treated as loss); otherwise it is an environment-caused loss (class '
                 'spurious-loss), not a violation',
                 'at the stream limit a call may fail with the limit error as such or block until the harness frees a slot '
                 '(after a drawn 0.3-6 s) and then succeed on the same connection',
                 'closing a superseded socket may be asynchronous: the census waits up to 3 s after the call returned'],
 'tests': [{'name': 'TestVerifC16_Regress_DeadClientSocketClosed', 'unit': UNIT, 'kind': 'plain', 'timeout_quick': 300, 'timeout_thorough': 300},
           {'name': 'TestVerifC16_Regress_StreamLimitRecoverable', 'unit': UNIT, 'kind': 'plain', 'timeout_quick': 300, 'timeout_thorough': 300},
           {'name': 'TestVerifC16_Regress_SilentIdleLoss', 'unit': UNIT, 'kind': 'plain', 'timeout_quick': 300, 'timeout_thorough': 300},
           {'name': 'TestVerifC16_Regress_CloseDuringConfig', 'unit': UNIT, 'kind': 'plain', 'timeout_quick': 300, 'timeout_thorough': 300},
           {'name': 'TestVerifC16_Histories', 'unit': UNIT, 'quick': 14, 'shards': 4, 'thorough': 150, 'shards_thorough': 12,
            'timeout_quick': 600, 'timeout_thorough': 3600, 'shrinktime': '60s'},
           {'name': 'TestVerifC16_Concurrent', 'unit': UNIT, 'quick': 25, 'shards': 2, 'thorough': 400, 'shards_thorough': 8,
            'timeout_quick': 600, 'timeout_thorough': 3600, 'shrinktime': '60s'}]}
