OBFS = "extras:obfs"

PROP = {
    'technique': 'property-based testing (rapid) over an in-memory net.PacketConn pair that records wire bytes; independent Salamander '
                 'encoder/decoder written from PROTOCOL.md; every run re-computes its vectors with python3 hashlib.blake2b; '
                 'concurrent readers/writers on one wrapped socket under the race detector',
    'level_text': 'Generated-input exploration: tens of thousands of (key, payload, salt, junk) histories per run through the exported '
                  'WrapPacketConnSalamander, each wire datagram compared with salt(8) || payload XOR BLAKE2b-256(key||salt)[i mod 32] '
                  'computed by the harness and cross-checked by an independent BLAKE2b (Python); a second wrapper with the same key and a '
                  'foreign (harness) encoder with chosen salts check transparency, byte counts and source address; junk of 1..8 bytes is '
                  'interleaved and must never surface; hundreds of concurrent cases (2-8 writers, 2-4 readers on one socket) run with '
                  '-race and a multiset oracle. Not a proof: absence of violations on the explored cases only.',
    'level_note': 'Trusts the harness oracle (PROTOCOL.md composition), x/crypto BLAKE2b as confirmed by python3 hashlib on the run\'s '
                  'vectors, rapid and the Go race detector. The writer-side salt is whatever the wrapper draws (any salt satisfies the '
                  'oracle); chosen salts are exercised on the reading side through the harness encoder.',
    'rule': 'rapid-generated histories of 1-12 operations on two sockets (plain or UDP-like inner socket, i.e. both wrapper variants) wrapped with the same key ('
            'key 4..300 bytes, biased to 4, 31-33, '
            '64, 119-121; payload 1..2040 bytes biased to 1, 2, 31-33, 63-65, 1200, 1500, 2039, 2040; all-zero / all-ones / random '
            'content): write through the wrapper, inject a harness-encoded packet with a chosen salt, inject junk of 1..8 bytes, inject '
            'a 0-byte datagram, read, write while the inner socket refuses the datagram (ENOBUFS/EAGAIN bare and wrapped, temporary, '
            'hard) once or twice; concurrent cases plan such refusals per writer (a WriteTo that reported success has exactly its own '
            'packet on the wire, one that reported the inner error at most once, nothing else). Non-trivial: at least one valid packet and (a payload of >= 33 bytes, so the keystream wraps, or '
            'junk interleaved); every concurrent case is non-trivial. Distinct = distinct (key length, operation trace) resp. distinct '
            'concurrent configuration.',
    'assumptions': ['payload lengths are 1..2040: the wrapper\'s buffers are 2048 bytes (conn.go udpBufferSize) and the statement quantifies over 1..2040',
                    'the reader passes a buffer at least as large as the packet (as quic-go does)',
                    'a 0-byte datagram may surface as a 0-byte read with nil error (quic-go discards it); 1..8-byte datagrams may never surface',
                    'python3 cross-check is skipped (recorded in evidence extra) if python3 is not installed'],
    'tests': [
        {'name': 'TestVerifC13_KeyLength', 'unit': OBFS, 'kind': 'plain'},
        {'name': 'TestVerifC13_WireRoundTripJunk', 'unit': OBFS, 'quick': 20000, 'thorough': 400000, 'shards_thorough': 12},
        {'name': 'TestVerifC13_Concurrent', 'unit': OBFS, 'race': True, 'quick': 200, 'thorough': 4000, 'shards_thorough': 12,
         'timeout_quick': 900},
    ],
}
