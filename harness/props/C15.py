TL = "extras:trafficlogger"

PROP = {'technique': 'property-based testing (rapid): sequential model-based state machine over the stats HTTP API; concurrent generated '
              'programs checked for linearizability (porcupine) and byte conservation under -race; end-to-end online census with a real '
              'server and real clients over loopback',
 'level_text': 'Generated-input exploration: thousands of sequential API histories compared step by step with a reference model, hundreds '
               'of concurrent histories (4-16 goroutines) whose per-user projections must be linearizable and conserve bytes, race detector '
               'on, and tens of real client/server lifecycles (connect, rejected auth, close, kick by refused report, server shutdown) whose '
               '/online listing must equal the number of live authenticated connections at every quiescent point. Not a proof: schedules '
               'are sampled by the Go scheduler, not enumerated.',
 'level_note': 'Trusts the harness model (written from the statement and the TrafficLogger interface docs), porcupine, rapid and the race '
               'detector. Quiescent points in the e2e part are the server\'s own EventLogger Connect/Disconnect notifications.',
 'rule': 'Sequential: rapid state machine (30 steps) over log/GET traffic[clear]/POST kick/online +-/GET online with good, wrong and '
         'missing secret on 1-4 user ids. Non-trivial: a kick between two reports of one user, or a clear after accepted reports. '
         'Concurrent: 4-16 goroutines x 3-24 ops on 1-3 users; non-trivial: a clearing request whose [call,return] interval overlaps a '
         'report, or a kick between two reports of one user. E2E: 1-6 connections on 1-3 user ids, 0-2 of them raw HTTP/3 clients that repeat the auth request (good, bad, other '
         'user\'s credentials) on an already counted connection or only ever send rejected credentials; non-trivial: at least one disconnect '
         '(close, kick, or shutdown) of an authenticated connection while another connection stays, a kick consumed by a real report, '
         'a repeated auth request on an authenticated connection, or a slow-logger op (LogOnlineState / Connect / Disconnect parked by the '
         'harness while a client hangs up right after its auth answer, or while another connection of the user arrives). '
         'Distinct = distinct op-kind sequences.',
 'assumptions': ['offline notifications are paired with online notifications (the server guarantees it; stray ones are only checked for non-negativity)',
                 'per-user linearizability is checked; atomicity of one snapshot across different users is not part of the statement',
                 'e2e quiescent points rely on the server calling EventLogger.Connect/Disconnect next to LogOnlineState (5 s grace otherwise)',
                 'a missing end-of-connection report becomes a violation only after a witnessed stall: 10 s without it, client side closed, then two fresh '
                 'connections with fresh ids go through their full reported lifecycle on the same server while it is still missing; a failing witness = inconclusive',
                 'parked logger calls are held at most 120 ms (5x that once the client has hung up); the holds shape the schedule only, no verdict depends on them'],
 'tests': [{'name': 'TestVerifC15_Sequential', 'unit': TL, 'quick': 3000, 'thorough': 20000, 'shards_thorough': 8},
           {'name': 'TestVerifC15_Concurrent', 'unit': TL, 'race': True, 'quick': 300, 'thorough': 1500, 'shards_thorough': 8,
            'timeout_quick': 600, 'timeout_thorough': 3600},
           {'name': 'TestVerifC15_OnlineE2E', 'unit': TL, 'quick': 60, 'thorough': 400, 'shards_thorough': 12,
            'timeout_quick': 600, 'timeout_thorough': 3600}]}
