REALM = "extras:realm"

PROP = {'technique': 'property-based testing (rapid) with an independent punch codec and an RFC 5389 STUN classifier as reference: codec '
              'round trips and near-misses, model-based add/remove/inject/drain histories over a fake inner PacketConn, concurrent '
              'add/remove while reading under the race detector, ServerPuncher histories in a synctest bubble, native fuzzing of '
              '(packet, registered metadata)',
 'level_text': 'Generated-input exploration: tens of thousands of codec cases (every padding length and every single-bit flip '
               'exhaustively for fixed metadata), thousands of demux histories judged packet by packet against a reference classifier '
               'that shares no code with extras/realm; coverage-guided fuzzing in the thorough tier. Not a proof.',
 'level_note': 'Trusts the harness codec/classifier (written from the wire format in punch.go and from RFC 5389) and rapid; pion/stun is '
               'used only to build messages. Interleavings finer than the harness steps are sampled by the Go scheduler with -race.',
 'rule': 'Codec: metadata pairs equal / one nibble of nonce or key different / upper-case spelling / unrelated; type Hello, Ack or invalid; '
         'padding 0..1024 biased to corners; harness or implementation encoder; damage = 1-bit flip in salt/magic/type/nonce/padding, '
         'truncation, extension beyond 1057 bytes. Demux: histories of add(id,meta) / add with invalid metadata / remove(id) / inject '
         'burst / drain over 4 ids and 5 related metadata values; packets = QUIC-like long/short header, random, random inside the '
         '33..1057 window, punch (registered, removed, never registered, damaged), replay of earlier bytes, 17 STUN kinds (pion- and '
         'own-built binding success XOR/MAPPED v4/v6, no address, port 0, error, request, indication, other method, truncated, trailing '
         'bytes, cookie-only, reserved top bits, header bit flips); event buffers of capacity 1..16 modelled exactly. Non-trivial: a case '
         'containing a near miss (damaged punch, punch of a removed/never-registered attempt, racing punch, STUN look-alike that is not a '
         'canonical binding success) or a verdict change between two byte-identical packets. Distinct = op-kind sequence + packet classes.',
 'assumptions': ['source addresses are *net.UDPAddr with port 1..65535 (a packet from a non-UDP or port-0 address is never diverted by the code; allowed by the statement, not generated)',
                 'one reader goroutine (as quic-go uses the socket)',
                 'a mask collision of SHA-256(key||salt) on the 8 magic bytes (2^-64) is treated as impossible',
                 'binding responses that are not canonical success responses with a usable mapped address (error responses, no address, port 0, trailing bytes, malformed attributes) may go either way'],
 'tests': [{'name': 'TestVerifC20_Regress_StunReservedBits', 'unit': REALM, 'kind': 'plain'},
           {'name': 'TestVerifC20_CodecExhaustive', 'unit': REALM, 'kind': 'plain'},
           {'name': 'TestVerifC20_Codec', 'unit': REALM, 'quick': 60000, 'thorough': 200000, 'shards_thorough': 8},
           {'name': 'TestVerifC20_Demux', 'unit': REALM, 'quick': 12000, 'thorough': 40000, 'shards_thorough': 8},
           {'name': 'TestVerifC20_Concurrent', 'unit': REALM, 'race': True, 'timeout_quick': 1200, 'quick': 4000, 'thorough': 12000, 'shards_thorough': 8},
           {'name': 'TestVerifC20_ServerPuncher', 'unit': REALM, 'race': True, 'timeout_quick': 1200, 'quick': 2000, 'thorough': 8000, 'shards_thorough': 8},
           {'name': 'TestVerifC20_Writers', 'unit': REALM, 'timeout_quick': 1200, 'quick': 1500, 'thorough': 6000, 'shards_thorough': 8},
           {'name': 'TestVerifC20_DiscoverSharesSocket', 'unit': REALM, 'race': True, 'timeout_quick': 1200, 'quick': 1500, 'thorough': 6000, 'shards_thorough': 8},
           {'name': 'FuzzVerifC20_Classify', 'unit': REALM, 'kind': 'fuzz', 'fuzz_secs': 240}]}
