S = "extras:sniff"
C = "core:server"

PROP = {
    "technique": "property-based testing (rapid) + native fuzzing: scripted HyStream (chunks, read-deadline stalls, FIN) "
                 "against a byte-conservation oracle; harness-built HTTP requests, TLS ClientHellos and QUIC v1/v2 Initial "
                 "packets (own RFC 9001/9369 packet protection) against a copy-before/compare-after oracle and a "
                 "'rewritten only to a name the generator put there, port kept' oracle",
    "level_text": "Generated-input exploration: every case draws a byte stream (valid HTTP/1.x with generated Host / absolute-URI / "
                  "CONNECT authority and 0-60 headers incl. header blocks beyond the 4096-byte buffered reader and beyond the 256 KiB "
                  "sniff budget, HTTP cut anywhere, TLS records with declared length equal/below/above what arrives carrying a "
                  "harness-built ClientHello with/without SNI, garbage, 0-2 bytes), a split into reads, the offsets at which the read "
                  "deadline fires, FIN or open stream, a port filter and RewriteDomain; Sniffer.TCP must hand back bytes such that "
                  "replay + rest of the stream == sent, and may rewrite the host only to a generated Host/SNI with the original port. "
                  "Sniffer.UDP gets harness-protected QUIC Initials (1-3 CRYPTO frames in any order, PADDING/PING, pn length 1-4, "
                  "non-minimal varints, coalesced trailing bytes) plus truncations, bit flips, look-alikes and garbage with cap==len: "
                  "the slice must be unchanged afterwards. The server half (udpSessionManager with a stub hook) checks that the bytes "
                  "handed to the hook are the bytes forwarded, unfragmented or reassembled. Thorough adds coverage-guided native "
                  "fuzzing of both entry points. Exploration only, not a proof.",
    "level_note": "Trusts the harness's own ClientHello/QUIC builders (validated against RFC 9001 A.1 / RFC 9369 A.1 key vectors and "
                  "the repo's captured QUIC sample) and the scripted-stream model of a QUIC receive stream (a fired read deadline is "
                  "sticky until it is set again; afterwards the remaining bytes are readable). When Sniffer.TCP returns an error the "
                  "server closes the stream, so no transparency claim is made for that case (counted in evidence).",
    "rule": "Each rapid case hooks 2-4 TCP streams (resp. 1-3 UDP first datagrams) of mixed protocols with ONE Sniffer, sequentially or (25%) from concurrent goroutines; every returned putback slice / data slice is held uncopied and all oracles are evaluated only after the last Sniffer call of the case returned (the server holds the putback while it dials). Evaluations are counted per stream/datagram. TCP: family {http 40%, tls 40%, other 20%} x cut mode {one chunk, bytewise head, around field ends (+-1), random, fixed "
            "size 1..4097, inside the 5-byte prefix} x 0-2 stalls {head 0..5, around field ends, anywhere, at end} x FIN/open x "
            "EOF-with-data x port filter/RewriteDomain. Non-trivial: a chunk boundary or stall strictly inside the 3-byte probe, inside "
            "the TLS length bytes, or inside the header block / TLS record; a stall before the end; or an HTTP header block > 4096 bytes. "
            "UDP: non-trivial = a datagram that contains an authentic harness-protected Initial (valid class, incl. gap/prefix/dup/"
            "shifted CRYPTO layouts). Distinct = (kind, lengths, cut offsets, stall offsets, fin, rewritten, putback length) resp. "
            "(class, version, cid/token/len widths, pn length, frame layout, sizes).",
    "assumptions": [
        "a putback returned by Sniffer.TCP belongs to the caller from the moment TCP returns (the server holds it across Outbound.TCP)",
        "Sniffer.TCP/UDP are called only for addresses for which Check returned true (as the server does)",
        "a stream Read returns data together with an error only for io.EOF (FIN); a fired deadline returns (0, timeout)",
        "rewriting is checked in the safety direction only: 'rewritten only to a name present, port kept'; how often it happened is in the class histogram",
    ],
    "tests": [
        {"name": "TestVerifC17_BuilderSelfCheck", "unit": S, "kind": "plain"},
        {"name": "TestVerifC17_Regress_QUICSampleUnchanged", "unit": S, "kind": "plain"},
        {"name": "TestVerifC17_TCP", "unit": S, "quick": 4000, "thorough": 25000, "shards_thorough": 12},
        {"name": "TestVerifC17_UDP", "unit": S, "quick": 3000, "thorough": 20000, "shards_thorough": 12},
        {"name": "TestVerifC17_ServerForwardsFirstPacket", "unit": C, "quick": 3000, "thorough": 20000, "shards_thorough": 4},
        {"name": "FuzzVerifC17_TCP", "unit": S, "kind": "fuzz", "fuzz_secs": 120},
        {"name": "FuzzVerifC17_UDP", "unit": S, "kind": "fuzz", "fuzz_secs": 90},
    ],
}
