package http

// C18 — HTTP inbound: no upstream TCP() for a request that did not carry
// accepted credentials; bytes pipelined behind a CONNECT head (in the same
// write or later) reach the upstream unmodified and in order; the bytes the
// upstream writes reach the client behind the 200 response.
//
// (*Server).dispatch is driven over the in-memory duplex of c18_conn_test.go.
// Every request of a case names its own host, so a recorded HyClient.TCP(addr)
// identifies the request that caused it, also when several requests are
// pipelined in one write. Oracles:
//   (1) TCP(addr of request i) implies: request i carried the configured
//       credentials (decided by construction of the header variant, permissive
//       towards RFC 7617 leniencies) and an AuthFunc(...)==true verdict is in
//       the log before it;
//   (2) for a connection whose requests are all plain well-formed and
//       authorised up to a CONNECT: upstream receives exactly the pipelined
//       payload; the client receives every earlier response, the CONNECT 200
//       and then exactly what the upstream wrote;
//   (3) plain requests of such a prefix reach the origin once each, POST body intact.

import (
	"bufio"
	"bytes"
	"encoding/base64"
	"fmt"
	"io"
	"net"
	nethttp "net/http"
	"strings"
	"sync"
	"testing"
	"time"

	"github.com/apernet/hysteria/core/v2/client"
	"pgregory.net/rapid"
)

// ---------------------------------------------------------------- mock outbound + origin

type v18OriginReq struct {
	host, method, uri string
	body              []byte
	proxyAuth         string
}

type v18Up struct {
	addr   string
	host   string
	origin *v18Conn
	raw    bool
}

type v18Hy struct {
	log     *v18Log
	mu      sync.Mutex
	rawHost map[string]bool // CONNECT targets: the harness plays the upstream by hand
	ups     []*v18Up
	reqs    []v18OriginReq
}

func v18HostOf(addr string) string {
	h, _, err := net.SplitHostPort(addr)
	if err != nil {
		return addr
	}
	return h
}

func v18OriginBody(host string) string { return "body-of-" + host + "-\x00\xff\r\n\r\nHTTP/1.1 end" }

func (h *v18Hy) TCP(addr string) (net.Conn, error) {
	h.log.add("tcp", addr, "", false)
	host := v18HostOf(addr)
	org, srv := v18NewPair("up:"+addr, "192.0.2.1:7", "10.255.0.1:50000")
	h.mu.Lock()
	raw := h.rawHost[host]
	h.ups = append(h.ups, &v18Up{addr: addr, host: host, origin: org, raw: raw})
	h.mu.Unlock()
	if !raw {
		go func() { // a tiny origin server
			br := bufio.NewReader(org)
			for {
				req, err := nethttp.ReadRequest(br)
				if err != nil {
					return
				}
				body, _ := io.ReadAll(req.Body)
				h.mu.Lock()
				h.reqs = append(h.reqs, v18OriginReq{host: host, method: req.Method, uri: req.RequestURI, body: body, proxyAuth: req.Header.Get("Proxy-Authorization")})
				h.mu.Unlock()
				rb := v18OriginBody(host)
				_, _ = org.Write([]byte(fmt.Sprintf("HTTP/1.1 200 OK\r\nContent-Length: %d\r\nX-Origin: %s\r\n\r\n%s", len(rb), host, rb)))
			}
		}()
	}
	return srv, nil
}

func (h *v18Hy) UDP() (client.HyUDPConn, error) {
	h.log.add("udp", "", "", false)
	return nil, fmt.Errorf("not used")
}
func (h *v18Hy) Close() error { return nil }

func (h *v18Hy) upForHost(host string) *v18Up {
	h.mu.Lock()
	defer h.mu.Unlock()
	for _, u := range h.ups {
		if u.host == host {
			return u
		}
	}
	return nil
}

// ---------------------------------------------------------------- case description

const (
	v18AuthValid = iota
	v18AuthNone
	v18AuthWrongPass
	v18AuthWrongUser
	v18AuthBadB64
	v18AuthNoColon
	v18AuthBearer
	v18AuthSchemeOnly
	v18AuthWrongHeader
	v18AuthExtraColon
	v18AuthEmpty
	v18AuthCaseFlip
	// lenient forms: RFC-wise the credentials are there; whether a proxy takes them is its business
	v18AuthLowerScheme
	v18AuthDupInvalidFirst
	v18AuthUnpadded
	v18AuthSpaces
	v18AuthTwoSpaces
	v18AuthN
)

var v18AuthNames = []string{"valid", "none", "wrongpass", "wronguser", "badb64", "nocolon", "bearer", "schemeonly", "wrongheader", "extracolon", "empty", "caseflip", "lowerscheme", "dup-invalid-first", "unpadded", "spaces", "twospaces"}

func v18AuthLoose(a int) bool { return a == v18AuthValid || a >= v18AuthLowerScheme }

type v18HReq struct {
	kind  string // get post connect originform garbage
	host  string
	port  int // 0: no port given
	auth  int
	keep  int // 0 none 1 Proxy-Connection 2 Connection 3 both, odd casing
	proto string
	body  []byte
	raw   []byte
	// CONNECT only: extra headers that change how net/http frames the request ("" = none).
	// Whatever they say, every byte behind the blank line belongs to the tunnel.
	frame     string // kind, for classes / fingerprint
	frameHdrs string
}

type v18Cut struct {
	pos  int
	kind int // 0 plain, 1 zero-length write, 2 pause until the server is parked in Read
}

type v18HConn struct {
	reqs     []*v18HReq
	payload  []byte
	later    []byte
	down     []byte
	downCuts []int
	cuts     []v18Cut
	endClose bool
	stream   []byte
	headLen  int // length of everything before the payload
}

type v18HCase struct {
	authOn     bool
	user, pass string
	conns      []*v18HConn
}

func v18Bytes(n int, seed uint32) []byte {
	b := make([]byte, n)
	x := seed*2654435761 + 97
	for i := range b {
		x = x*1664525 + 1013904223
		b[i] = byte(x >> 24)
	}
	if n >= 20 && seed%3 == 0 {
		copy(b, "GET / HTTP/1.1\r\n\r\n")
	}
	if n >= 4 && seed%3 == 1 {
		copy(b, "\r\n\r\n")
	}
	return b
}

func v18AuthHeader(c *v18HCase, a int) string {
	b64 := func(s string) string { return base64.StdEncoding.EncodeToString([]byte(s)) }
	good := b64(c.user + ":" + c.pass)
	pa := "Proxy-Authorization: "
	switch a {
	case v18AuthValid:
		return pa + "Basic " + good + "\r\n"
	case v18AuthNone:
		return ""
	case v18AuthWrongPass:
		return pa + "Basic " + b64(c.user+":"+c.pass+"x") + "\r\n"
	case v18AuthWrongUser:
		return pa + "Basic " + b64("x"+c.user+":"+c.pass) + "\r\n"
	case v18AuthBadB64:
		return pa + "Basic !!" + good + "\r\n"
	case v18AuthNoColon:
		return pa + "Basic " + b64(c.user+c.pass) + "\r\n"
	case v18AuthBearer:
		return pa + "Bearer " + good + "\r\n"
	case v18AuthSchemeOnly:
		return pa + "Basic\r\n"
	case v18AuthWrongHeader:
		return "Authorization: Basic " + good + "\r\nX-Proxy-Authorization: Basic " + good + "\r\n"
	case v18AuthExtraColon:
		return pa + "Basic " + b64(c.user+":"+c.pass+":") + "\r\n"
	case v18AuthEmpty:
		return pa + "\r\n"
	case v18AuthCaseFlip:
		flip := func(x string) string {
			if y := strings.ToUpper(x); y != x {
				return y
			}
			if y := strings.ToLower(x); y != x {
				return y
			}
			return x + "q" // no letters at all: just make it differ
		}
		if len(c.user)%2 == 0 {
			return pa + "Basic " + b64(flip(c.user)+":"+c.pass) + "\r\n"
		}
		return pa + "Basic " + b64(c.user+":"+flip(c.pass)) + "\r\n"
	case v18AuthLowerScheme:
		return pa + "bAsIc " + good + "\r\n"
	case v18AuthDupInvalidFirst:
		return pa + "Basic " + b64(c.user+":nope") + "\r\n" + pa + "Basic " + good + "\r\n"
	case v18AuthUnpadded:
		return pa + "Basic " + strings.TrimRight(good, "=") + "\r\n"
	case v18AuthSpaces:
		return "proxy-authorization:   Basic " + good + "  \r\n"
	case v18AuthTwoSpaces:
		return pa + "Basic  " + good + "\r\n"
	}
	return ""
}

func v18KeepHeader(k int) string {
	switch k {
	case 1:
		return "Proxy-Connection: keep-alive\r\n"
	case 2:
		return "Connection: Keep-Alive\r\n"
	case 3:
		return "Proxy-Connection: Keep-Alive\r\nConnection: keep-alive\r\n"
	}
	return ""
}

func (r *v18HReq) build(c *v18HCase) {
	hp := r.host
	if r.port != 0 {
		hp = fmt.Sprintf("%s:%d", r.host, r.port)
	}
	ah := v18AuthHeader(c, r.auth)
	kh := v18KeepHeader(r.keep)
	switch r.kind {
	case "get":
		r.raw = []byte(fmt.Sprintf("GET http://%s/p?q=1 %s\r\nHost: %s\r\n%s%sAccept: */*\r\n\r\n", hp, r.proto, hp, ah, kh))
	case "post":
		r.raw = append([]byte(fmt.Sprintf("POST http://%s/submit %s\r\nHost: %s\r\n%sContent-Length: %d\r\n%s\r\n", hp, r.proto, hp, kh, len(r.body), ah)), r.body...)
	case "connect":
		r.raw = []byte(fmt.Sprintf("CONNECT %s %s\r\nHost: %s\r\n%s%s%s\r\n", hp, r.proto, hp, ah, r.frameHdrs, kh))
	case "originform":
		r.raw = []byte(fmt.Sprintf("GET /p %s\r\nHost: %s\r\n%s%s\r\n", r.proto, hp, ah, kh))
	case "garbage":
		r.raw = append([]byte("\x16\x03\x01\x02\x00\x01\x00\x01\xfc\x03\x03"), []byte(fmt.Sprintf(" %s\r\n%s\r\n", hp, ah))...)
	}
}

var v18FrameKinds = []string{"cl0", "cl1", "cl=payload", "cl=payload", "cl=payload-1", "cl=payload+1", "cl>sent", "cl-half", "chunked", "chunked", "chunked-looks-framed",
	"chunked+cl", "expect100", "expect100-nocl", "dup-cl-same", "dup-cl-differ", "cl-list", "conn-close+cl", "te-identity"}

func (hc *v18HConn) framedConnect() bool {
	r := hc.reqs[len(hc.reqs)-1]
	return r.kind == "connect" && r.frame != ""
}

func v18GenHConn(rt *rapid.T, c *v18HCase, ci int) *v18HConn {
	hc := &v18HConn{}
	n := rapid.SampledFrom([]int{1, 1, 2, 2, 3, 4}).Draw(rt, "nreqs")
	forceGood := rapid.IntRange(0, 2).Draw(rt, "goodPrefix") > 0 // bias: valid keep-alive prefix, so later requests are reached
	for i := 0; i < n; i++ {
		r := &v18HReq{host: fmt.Sprintf("c%dr%d.http.test", ci, i), proto: "HTTP/1.1"}
		last := i == n-1
		kw := rapid.IntRange(0, 19).Draw(rt, "reqKind")
		switch {
		case last && kw < 11, !last && kw < 1:
			r.kind = "connect"
		case kw < 15:
			r.kind = "get"
		case kw < 18:
			r.kind = "post"
			r.body = v18Bytes(rapid.SampledFrom([]int{0, 1, 10, 300, 5000}).Draw(rt, "bodyLen"), uint32(i+3))
		case kw < 19:
			r.kind = "originform"
		default:
			r.kind = "garbage"
		}
		r.port = rapid.SampledFrom([]int{0, 80, 80, 443, 8080, 65535}).Draw(rt, "port")
		if r.kind == "connect" && r.port == 0 && rapid.Bool().Draw(rt, "connectPort") {
			r.port = 443
		}
		aw := rapid.IntRange(0, 99).Draw(rt, "authKind")
		switch {
		case !last && forceGood:
			r.auth = v18AuthValid
		case aw < 45:
			r.auth = v18AuthValid
		case aw < 58:
			r.auth = v18AuthNone
		default:
			r.auth = rapid.IntRange(v18AuthWrongPass, v18AuthN-1).Draw(rt, "authVariant")
		}
		if !last && forceGood {
			r.keep = rapid.IntRange(1, 3).Draw(rt, "keep")
		} else {
			r.keep = rapid.IntRange(0, 3).Draw(rt, "keep")
			if rapid.IntRange(0, 9).Draw(rt, "http10") == 0 {
				r.proto = "HTTP/1.0"
			}
		}
		if r.kind == "connect" && rapid.IntRange(0, 9).Draw(rt, "framed") < 4 {
			r.frame = rapid.SampledFrom(v18FrameKinds).Draw(rt, "frame")
		}
		hc.reqs = append(hc.reqs, r)
		if r.kind == "connect" {
			break
		}
	}
	lastReq := hc.reqs[len(hc.reqs)-1]
	hasConnect := lastReq.kind == "connect"
	if hasConnect || rapid.IntRange(0, 4).Draw(rt, "trailingJunk") == 0 {
		pl := rapid.SampledFrom([]int{0, 1, 2, 19, 64, 300, 5000, 9000}).Draw(rt, "payloadLen")
		hc.payload = v18Bytes(pl, uint32(rapid.IntRange(0, 1<<20).Draw(rt, "payloadSeed")))
	}
	hc.later = v18Bytes(rapid.SampledFrom([]int{0, 1, 33, 700}).Draw(rt, "laterLen"), uint32(ci+77))
	if hasConnect && lastReq.frame != "" {
		pl, ll := len(hc.payload), len(hc.later)
		cl := func(n int) string { return fmt.Sprintf("Content-Length: %d\r\n", max(n, 0)) }
		switch lastReq.frame {
		case "cl0":
			lastReq.frameHdrs = cl(0)
		case "cl1":
			lastReq.frameHdrs = cl(1)
		case "cl=payload":
			lastReq.frameHdrs = cl(pl)
		case "cl=payload-1":
			lastReq.frameHdrs = cl(pl - 1)
		case "cl=payload+1":
			lastReq.frameHdrs = cl(pl + 1)
		case "cl>sent": // more than payload + later: a server that waits for a "body" needs the filler
			lastReq.frameHdrs = cl(pl + ll + 10)
		case "cl-half":
			lastReq.frameHdrs = cl((pl + 1) / 2)
		case "chunked":
			lastReq.frameHdrs = "Transfer-Encoding: chunked\r\n"
		case "chunked-looks-framed":
			lastReq.frameHdrs = "Transfer-Encoding: chunked\r\n"
			pre := []byte("5\r\nhello\r\n1a\r\nabcdefghijklmnopqrstuvwxyz\r\n0\r\n\r\n")
			hc.payload = append(pre, hc.payload...)
		case "chunked+cl":
			lastReq.frameHdrs = "Transfer-Encoding: chunked\r\n" + cl(pl)
		case "expect100":
			lastReq.frameHdrs = "Expect: 100-continue\r\n" + cl(pl)
		case "expect100-nocl":
			lastReq.frameHdrs = "Expect: 100-continue\r\n"
		case "dup-cl-same":
			lastReq.frameHdrs = cl(pl) + cl(pl)
		case "dup-cl-differ":
			lastReq.frameHdrs = cl(pl) + cl(pl+3)
		case "cl-list":
			lastReq.frameHdrs = fmt.Sprintf("Content-Length: %d, %d\r\n", pl, pl)
		case "conn-close+cl":
			lastReq.frameHdrs = "Connection: close\r\n" + cl(pl)
		case "te-identity":
			lastReq.frameHdrs = "Transfer-Encoding: identity\r\n" + cl(pl)
		}
	}
	for _, r := range hc.reqs {
		r.build(c)
		hc.stream = append(hc.stream, r.raw...)
	}
	hc.headLen = len(hc.stream)
	hc.stream = append(hc.stream, hc.payload...)
	dl := rapid.SampledFrom([]int{0, 1, 5, 100, 40000}).Draw(rt, "downLen")
	hc.down = v18Bytes(dl, uint32(rapid.IntRange(0, 1<<20).Draw(rt, "downSeed")))
	if dl > 1 {
		hc.downCuts = rapid.SliceOfN(rapid.IntRange(1, dl-1), 0, 3).Draw(rt, "downCuts")
	}
	hc.endClose = rapid.Bool().Draw(rt, "endClose")

	// chunking
	total := len(hc.stream)
	ck := rapid.IntRange(0, 6).Draw(rt, "chunking")
	var pts []int
	switch {
	case total < 2 || ck == 0: // one write: payload is buffered behind the head
	case ck == 1: // every byte of the last head's tail and the payload start
		for p := max(1, hc.headLen-6); p < total && p < hc.headLen+4; p++ {
			pts = append(pts, p)
		}
	case ck == 2: // exactly at the head boundary: payload arrives "later"
		if hc.headLen > 0 && hc.headLen < total {
			pts = append(pts, hc.headLen)
		}
	case ck == 3: // just behind the boundary: first payload bytes ride with the head
		for _, d := range []int{1, 2} {
			if p := hc.headLen + d; p < total {
				pts = append(pts, p)
			}
		}
	case ck == 4: // request boundaries
		p := 0
		for _, r := range hc.reqs {
			p += len(r.raw)
			if p < total {
				pts = append(pts, p)
			}
		}
	default:
		pts = rapid.SliceOfN(rapid.IntRange(1, total-1), 1, 6).Draw(rt, "cutPts")
	}
	for _, p := range v18SortedUnique(pts) {
		k := rapid.SampledFrom([]int{0, 0, 0, 1, 2, 2}).Draw(rt, "cutKind")
		hc.cuts = append(hc.cuts, v18Cut{p, k})
	}
	return hc
}

func v18SortedUnique(a []int) []int {
	m := map[int]bool{}
	var out []int
	for _, x := range a {
		if !m[x] {
			m[x] = true
			out = append(out, x)
		}
	}
	for i := 1; i < len(out); i++ {
		for j := i; j > 0 && out[j] < out[j-1]; j-- {
			out[j], out[j-1] = out[j-1], out[j]
		}
	}
	return out
}

func v18GenHCase(rt *rapid.T) *v18HCase {
	c := &v18HCase{}
	c.authOn = rapid.IntRange(0, 9).Draw(rt, "authOn") < 8
	const ual = "abcXYZ019_ @"
	const pal = "abcXYZ019_ :@"
	gen := func(al, label string) string {
		n := rapid.IntRange(1, 8).Draw(rt, label+"Len")
		b := make([]byte, n)
		for i := range b {
			b[i] = al[rapid.IntRange(0, len(al)-1).Draw(rt, label)]
		}
		return string(b)
	}
	c.user = gen(ual, "cfgUser")
	c.pass = gen(pal, "cfgPass")
	switch rapid.IntRange(0, 7).Draw(rt, "cfgCase") {
	case 0:
		c.user, c.pass = strings.ToLower(c.user), strings.ToLower(c.pass)
	case 1:
		c.user, c.pass = strings.ToUpper(c.user), strings.ToUpper(c.pass)
	}
	n := rapid.SampledFrom([]int{1, 1, 2}).Draw(rt, "nconns")
	for i := 0; i < n; i++ {
		c.conns = append(c.conns, v18GenHConn(rt, c, i))
	}
	return c
}

func (r *v18HReq) String() string {
	return fmt.Sprintf("%s %s:%d %s auth=%s keep=%d body=%d frame=%q", r.kind, r.host, r.port, r.proto, v18AuthNames[r.auth], r.keep, len(r.body), r.frameHdrs)
}

func (hc *v18HConn) String() string {
	var rs, cuts []string
	for _, r := range hc.reqs {
		rs = append(rs, r.String())
	}
	for _, ct := range hc.cuts {
		cuts = append(cuts, fmt.Sprintf("%d%s", ct.pos, []string{"", "z", "p"}[ct.kind]))
	}
	return fmt.Sprintf("{reqs=[%s] head=%d payload=%d later=%d down=%d cuts=[%s] endClose=%v}", strings.Join(rs, " ; "), hc.headLen, len(hc.payload), len(hc.later), len(hc.down), strings.Join(cuts, ","), hc.endClose)
}

func (c *v18HCase) String() string {
	var sb strings.Builder
	fmt.Fprintf(&sb, "auth=%v user=%q pass=%q", c.authOn, c.user, c.pass)
	for i, hc := range c.conns {
		fmt.Fprintf(&sb, "\n  conn%d %s", i, hc)
	}
	return sb.String()
}

// cleanPrefix returns how many leading requests the server has to serve by
// any reading (plain well-formed, standard credentials), and whether the
// connection stays open behind them.
func (hc *v18HConn) cleanPrefix(c *v18HCase) (n int, connectIdx int) {
	connectIdx = -1
	for i, r := range hc.reqs {
		if c.authOn && r.auth != v18AuthValid {
			return i, -1
		}
		switch r.kind { // without AuthFunc the header is irrelevant
		case "get", "post":
			if r.keep == 0 || r.proto != "HTTP/1.1" {
				return i + 1, -1
			}
		case "connect":
			return i + 1, i
		default:
			return i, -1
		}
	}
	return len(hc.reqs), -1
}

// ---------------------------------------------------------------- execution

func v18Done(ch chan struct{}) bool {
	select {
	case <-ch:
		return true
	default:
		return false
	}
}

func v18RunHConn(c *v18HCase, hc *v18HConn, ci int, srv *Server, hy *v18Hy, log *v18Log, class func(string)) string {
	log.setPhase(ci)
	started := time.Now()
	cli, sc := v18NewPair(fmt.Sprintf("c%d", ci), fmt.Sprintf("127.0.0.1:%d", 40000+ci), "127.0.0.1:8080")
	done := make(chan struct{})
	go func() {
		defer close(done)
		srv.dispatch(sc)
	}()
	parked := func() bool { return cli.PeerIdle() || v18Done(done) }

	prev := 0
	for _, ct := range append(append([]v18Cut(nil), hc.cuts...), v18Cut{len(hc.stream), 0}) {
		if ct.pos > prev {
			_, _ = cli.Write(hc.stream[prev:ct.pos])
			prev = ct.pos
		}
		if ct.pos == len(hc.stream) {
			break
		}
		switch ct.kind {
		case 1:
			_, _ = cli.Write(nil)
		case 2:
			if !v18WaitUntil(v18Patience, parked) {
				vInconclusive("C18 http: server neither parked in Read nor finished after a partial stream")
			}
		}
	}

	nClean, connectIdx := hc.cleanPrefix(c)
	var back []byte
	finish := func() {
		if hc.endClose {
			back = append(back, cli.Drain()...)
			_ = cli.Close()
		} else {
			_ = cli.CloseWrite()
		}
		if !v18WaitUntil(v18Patience, func() bool { return v18Done(done) }) {
			vInconclusive("C18 http: handler did not return after the client closed")
		}
		back = append(back, cli.Drain()...)
		_ = cli.Close()
	}

	var viol string
	if connectIdx >= 0 {
		host := hc.reqs[connectIdx].host
		framed := hc.framedConnect()
		// Everything behind the blank line of the CONNECT head belongs to the tunnel, whatever
		// Content-Length / Transfer-Encoding / Expect say. Whether the server serves such a head at
		// all is its business: forwarding is asserted only if an upstream call is observed.
		want := append([]byte(nil), hc.payload...)
		sentLater := false
		var up *v18Up
		settled := func() bool {
			up = hy.upForHost(host)
			return up != nil || v18Done(done) || (framed && cli.PeerIdle())
		}
		if !v18WaitUntil(v18Patience, settled) {
			vInconclusive("C18 http: neither upstream call nor handler return")
		}
		if up == nil {
			up = hy.upForHost(host)
		}
		if up == nil && framed && !v18Done(done) {
			// parked in Read without having dialled: it waits for more client bytes (a "body"?).
			// Give it the later bytes and a filler; if it dials then, all of it was tunnel data.
			class("framed:parked-before-dial")
			extra := append(append([]byte(nil), hc.later...), v18Bytes(64, 4242)...)
			_, _ = cli.Write(extra)
			want = append(want, extra...)
			sentLater = true
			if !v18WaitUntil(v18Patience, settled) {
				vInconclusive("C18 http: neither upstream call nor handler return")
			}
			if up == nil {
				up = hy.upForHost(host)
			}
		}
		if up == nil {
			if framed {
				class("framed:" + hc.reqs[connectIdx].frame + ":not-dialled")
				finish()
				goto gating
			}
			viol = fmt.Sprintf("well-formed authorised CONNECT %s was not relayed (handler returned without HyClient.TCP); client received %q", host, v18Clip(cli.Drain()))
		} else if framed {
			class("framed:" + hc.reqs[connectIdx].frame + ":dialled")
		}
		var got []byte
		check := func(want []byte, what string) string {
			if !v18WaitUntil(v18Patience, parked) {
				vInconclusive("C18 http: client->upstream copy loop never parked")
			}
			got = append(got, up.origin.Drain()...)
			if !bytes.Equal(got, want) {
				return fmt.Sprintf("%s: upstream received %d bytes %s, client pipelined %d bytes %s (first difference at %d)", what, len(got), v18Hex(got), len(want), v18Hex(want), v18FirstDiff(got, want))
			}
			return ""
		}
		if viol == "" {
			viol = check(want, "bytes pipelined behind the CONNECT head")
		}
		if viol == "" {
			pcuts := append(append([]int(nil), hc.downCuts...), len(hc.down))
			p := 0
			for _, q := range v18SortedUnique(pcuts) {
				if q > p {
					_, _ = up.origin.Write(hc.down[p:q])
					p = q
				}
			}
			if !v18WaitUntil(v18Patience, func() bool { return up.origin.PeerIdle() || v18Done(done) }) {
				vInconclusive("C18 http: upstream->client copy loop never parked")
			}
			back = append(back, cli.Drain()...)
			rest, err := v18SkipResponses(back, hc.reqs[:connectIdx+1], nil)
			if err != nil {
				viol = "successful CONNECT: " + err.Error()
			} else if !bytes.Equal(rest, hc.down) {
				viol = fmt.Sprintf("client received %d bytes %s behind the 200, upstream wrote %d bytes %s", len(rest), v18Hex(rest), len(hc.down), v18Hex(hc.down))
			}
		}
		if viol == "" && len(hc.later) > 0 && !sentLater {
			_, _ = cli.Write(hc.later)
			viol = check(append(want, hc.later...), "bytes sent after the tunnel was up")
		}
		if viol == "" && v18Done(done) {
			viol = "tunnel ended although neither side closed"
		}
	} else {
		if !v18WaitUntil(v18Patience, parked) {
			vInconclusive("C18 http: server neither parked nor finished after the full stream")
		}
	}
	finish()

gating:
	// ---- gating: final log for this connection (handler returned; dials are synchronous with their request)
	byHost := map[string]*v18HReq{}
	for _, r := range hc.reqs {
		byHost[r.host] = r
	}
	authTrue := false
	for _, e := range log.snapshot() {
		if e.phase != ci {
			continue
		}
		switch e.kind {
		case "auth":
			if e.ok {
				authTrue = true
			}
			if e.ok != (e.a == c.user && e.b == c.pass) {
				return "harness: AuthFunc verdict inconsistent"
			}
		case "udp":
			return "HTTP inbound opened a UDP session"
		case "tcp":
			r := byHost[v18HostOf(e.a)]
			if r == nil {
				return fmt.Sprintf("upstream %s opened for an address no request of this connection named", e)
			}
			if !c.authOn {
				continue
			}
			if !authTrue {
				return fmt.Sprintf("upstream %s opened before any accepted credentials on this connection", e)
			}
			if !v18AuthLoose(r.auth) {
				return fmt.Sprintf("upstream %s opened for request {%s} which did not carry accepted credentials", e, r)
			}
		}
	}
	if viol != "" {
		return viol
	}
	if time.Since(started) > 8*time.Second {
		// the server's http.Client gives up after 10 s and answers 502: a stalled machine, not a relay defect
		vInconclusive("C18 http: a connection took more than 8 s (httpClientTimeout is 10 s)")
	}

	// ---- plain requests of the clean prefix: served once each, body intact, response relayed
	var wantPlain []*v18HReq
	for _, r := range hc.reqs[:nClean] {
		if r.kind == "get" || r.kind == "post" {
			wantPlain = append(wantPlain, r)
		}
	}
	hy.mu.Lock()
	reqs := append([]v18OriginReq(nil), hy.reqs...)
	hy.mu.Unlock()
	for _, r := range wantPlain {
		n := 0
		for _, o := range reqs {
			if o.host != r.host {
				continue
			}
			n++
			if r.kind == "post" && !bytes.Equal(o.body, r.body) {
				return fmt.Sprintf("POST body for %s reached the origin as %s, client sent %s", r.host, v18Hex(o.body), v18Hex(r.body))
			}
		}
		if n != 1 {
			return fmt.Sprintf("authorised plain request {%s} reached its origin %d times", r, n)
		}
	}
	if connectIdx < 0 && len(wantPlain) > 0 {
		if _, err := v18SkipResponses(back, hc.reqs[:nClean], nil); err != nil {
			return "responses to the authorised plain requests: " + err.Error() + fmt.Sprintf(" (client received %q)", v18Clip(back))
		}
	}
	return ""
}

func v18Clip(b []byte) string {
	if len(b) > 300 {
		return string(b[:300]) + "…"
	}
	return string(b)
}

func v18FirstDiff(a, b []byte) int {
	for i := 0; i < len(a) && i < len(b); i++ {
		if a[i] != b[i] {
			return i
		}
	}
	return min(len(a), len(b))
}

// v18SkipResponses reads one response per request from what the client
// received (plain requests: 200 from the origin with the origin's body;
// CONNECT: a bodiless 200) and returns the bytes behind them.
func v18SkipResponses(b []byte, reqs []*v18HReq, _ []byte) ([]byte, error) {
	br := bufio.NewReaderSize(bytes.NewReader(b), len(b)+16)
	for i, r := range reqs {
		method := "GET"
		switch r.kind {
		case "post":
			method = "POST"
		case "connect":
			method = "CONNECT"
		}
		resp, err := nethttp.ReadResponse(br, &nethttp.Request{Method: method})
		if err != nil {
			return nil, fmt.Errorf("response %d (%s): %v", i, r.kind, err)
		}
		if resp.StatusCode != 200 {
			return nil, fmt.Errorf("response %d (%s): status %d", i, r.kind, resp.StatusCode)
		}
		if r.kind == "connect" {
			if resp.ContentLength > 0 || len(resp.TransferEncoding) > 0 {
				return nil, fmt.Errorf("CONNECT 200 announces a body")
			}
			continue
		}
		body, err := io.ReadAll(resp.Body)
		if err != nil {
			return nil, fmt.Errorf("response %d body: %v", i, err)
		}
		if string(body) != v18OriginBody(r.host) {
			return nil, fmt.Errorf("response %d body %q, origin wrote %q", i, v18Clip(body), v18OriginBody(r.host))
		}
	}
	rest, _ := io.ReadAll(br)
	return rest, nil
}

func v18RunHCase(c *v18HCase, class func(string)) (string, *v18Log) {
	if class == nil {
		class = func(string) {}
	}
	log := &v18Log{}
	hy := &v18Hy{log: log, rawHost: map[string]bool{}}
	for _, hc := range c.conns {
		for _, r := range hc.reqs {
			if r.kind == "connect" {
				hy.rawHost[r.host] = true
			}
		}
	}
	srv := &Server{HyClient: hy, AuthRealm: "verif"}
	if c.authOn {
		srv.AuthFunc = func(u, p string) bool {
			ok := u == c.user && p == c.pass
			log.add("auth", u, p, ok)
			return ok
		}
	}
	defer func() {
		hy.mu.Lock()
		for _, u := range hy.ups {
			_ = u.origin.Close()
		}
		hy.mu.Unlock()
		if srv.httpClient != nil {
			srv.httpClient.CloseIdleConnections()
		}
	}()
	for i, hc := range c.conns {
		if v := v18RunHConn(c, hc, i, srv, hy, log, class); v != "" {
			return fmt.Sprintf("conn%d: %s", i, v), log
		}
	}
	return "", log
}

func v18ClassifyH(c *v18HCase) (nt bool, fp string, classes []string) {
	var sb strings.Builder
	fmt.Fprintf(&sb, "a%v", c.authOn)
	sawWrong := false
	for _, hc := range c.conns {
		nClean, connectIdx := hc.cleanPrefix(c)
		sb.WriteString("|")
		for _, r := range hc.reqs {
			fmt.Fprintf(&sb, "%s/%d/%d/%d/%s/%s,", r.kind, r.auth, r.keep, r.port, r.proto, r.frame)
			classes = append(classes, "req:"+r.kind, "auth:"+v18AuthNames[r.auth])
			if r.frame != "" {
				classes = append(classes, "connect-framing-headers")
			}
		}
		fmt.Fprintf(&sb, "p%d/l%d/d%d/", len(hc.payload), len(hc.later), len(hc.down))
		for _, ct := range hc.cuts {
			fmt.Fprintf(&sb, "%d.%d,", ct.pos-hc.headLen, ct.kind)
		}
		if connectIdx >= 0 {
			classes = append(classes, "clean-connect")
			if connectIdx > 0 {
				classes = append(classes, "connect-after-keepalive")
			}
			if len(hc.payload) > 0 {
				split := true // payload bytes ride in the same write as the end of the head
				straddle := false
				for _, ct := range hc.cuts {
					if ct.pos == hc.headLen {
						split = false
					}
					if ct.pos > hc.headLen {
						straddle = true
					}
				}
				if split {
					classes = append(classes, "payload-buffered-behind-head")
					nt = true
					if straddle {
						classes = append(classes, "payload-split-across-writes")
					}
				} else {
					classes = append(classes, "payload-later")
				}
			}
			if sawWrong && c.authOn {
				classes = append(classes, "wrong-then-right")
				nt = true
			}
		}
		if c.authOn && nClean < len(hc.reqs) {
			sawWrong = true
			nt = true
			if nClean > 0 {
				classes = append(classes, "unauthorised-after-authorised-keepalive")
			}
		}
		for _, ct := range hc.cuts {
			if ct.kind == 1 {
				classes = append(classes, "zero-write")
				break
			}
		}
	}
	if !c.authOn {
		classes = append(classes, "auth-off")
	}
	return nt, sb.String(), classes
}

func TestVerifC18_HTTPGate(t *testing.T) {
	st := newVStats("TestVerifC18_HTTPGate")
	defer st.Flush()
	rapid.Check(t, func(rt *rapid.T) {
		c := v18GenHCase(rt)
		nt, fp, classes := v18ClassifyH(c)
		st.Case(nt, fp, classes, c.String)
		viol, log := v18RunHCase(c, st.Class)
		if viol != "" {
			rt.Fatalf("C18: HTTP: %s\ncase: %s\nlog: %s", viol, c, log)
		}
	})
}

// TestVerifC18_HTTPRegress: hand-written sequences (plain, deterministic).
func TestVerifC18_HTTPRegress(t *testing.T) {
	st := newVStats("TestVerifC18_HTTPRegress")
	defer st.Flush()
	type rq struct {
		kind string
		auth int
		keep int
	}
	seqs := [][]rq{
		{{"connect", v18AuthNone, 0}},
		{{"connect", v18AuthWrongPass, 1}},
		{{"connect", v18AuthValid, 0}},
		{{"get", v18AuthValid, 1}, {"connect", v18AuthNone, 0}},
		{{"get", v18AuthValid, 1}, {"get", v18AuthNone, 1}, {"connect", v18AuthValid, 0}},
		{{"get", v18AuthValid, 2}, {"post", v18AuthValid, 1}, {"connect", v18AuthValid, 0}},
		{{"get", v18AuthNone, 1}, {"connect", v18AuthValid, 0}},
		{{"post", v18AuthBearer, 1}},
		{{"get", v18AuthValid, 1}, {"get", v18AuthWrongHeader, 1}},
	}
	for si, seq := range seqs {
		for mode := 0; mode < 4; mode++ {
			c := &v18HCase{authOn: true, user: "user", pass: "p:w"}
			hc := &v18HConn{}
			for i, q := range seq {
				r := &v18HReq{kind: q.kind, auth: q.auth, keep: q.keep, host: fmt.Sprintf("s%dr%d.http.test", si, i), port: 443, proto: "HTTP/1.1"}
				if q.kind == "post" {
					r.body = []byte("a=b&c=d")
				}
				r.build(c)
				hc.reqs = append(hc.reqs, r)
				hc.stream = append(hc.stream, r.raw...)
			}
			hc.headLen = len(hc.stream)
			hc.payload = []byte("\x16\x03\x01 client hello \r\n\r\n and more")
			hc.stream = append(hc.stream, hc.payload...)
			hc.down = []byte("server hello")
			hc.later = []byte("finished")
			switch mode {
			case 1:
				hc.cuts = []v18Cut{{hc.headLen, 2}}
			case 2:
				hc.cuts = []v18Cut{{hc.headLen + 3, 0}}
			case 3:
				for p := 1; p < len(hc.stream); p++ {
					hc.cuts = append(hc.cuts, v18Cut{p, p % 3})
				}
			}
			c.conns = []*v18HConn{hc}
			st.Case(true, fmt.Sprintf("%d/%d", si, mode), []string{"regress"}, c.String)
			if viol, log := v18RunHCase(c, nil); viol != "" {
				t.Fatalf("C18: HTTP: %s\ncase: %s\nlog: %s", viol, c, log)
			}
		}
	}
	// CONNECT heads with framing headers: whatever they announce, the bytes behind the blank line are tunnel data
	payload := []byte("5\r\nhello\r\n0\r\n\r\n\x16\x03\x01 client hello, 40 bytes or so....")
	for fi, hdrs := range []string{
		fmt.Sprintf("Content-Length: %d\r\n", len(payload)),
		"Content-Length: 1\r\n",
		fmt.Sprintf("Content-Length: %d\r\n", len(payload)+20),
		"Transfer-Encoding: chunked\r\n",
		fmt.Sprintf("Expect: 100-continue\r\nContent-Length: %d\r\n", len(payload)),
		"Content-Length: 0\r\n",
	} {
		for mode := 0; mode < 3; mode++ {
			c := &v18HCase{authOn: true, user: "user", pass: "p:w"}
			r := &v18HReq{kind: "connect", auth: v18AuthValid, host: fmt.Sprintf("f%d.http.test", fi), port: 443, proto: "HTTP/1.1", frame: fmt.Sprintf("regress%d", fi), frameHdrs: hdrs}
			r.build(c)
			hc := &v18HConn{reqs: []*v18HReq{r}, payload: payload, later: []byte("later bytes, twenty+ of them"), down: []byte("server hello")}
			hc.stream = append(append([]byte(nil), r.raw...), payload...)
			hc.headLen = len(r.raw)
			switch mode {
			case 1:
				hc.cuts = []v18Cut{{hc.headLen, 2}}
			case 2:
				hc.cuts = []v18Cut{{hc.headLen + 3, 0}}
			}
			c.conns = []*v18HConn{hc}
			st.Case(true, fmt.Sprintf("framed/%d/%d", fi, mode), []string{"regress-framed"}, c.String)
			if viol, log := v18RunHCase(c, nil); viol != "" {
				t.Fatalf("C18: HTTP: %s\ncase: %s\nlog: %s", viol, c, log)
			}
		}
	}
}
