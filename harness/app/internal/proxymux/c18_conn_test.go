package proxymux

// C18 — shared in-memory plumbing (the same file exists, with another package
// clause, in app/internal/{socks5,http,proxymux}).
//
// v18Conn is one endpoint of a buffered, chunk-preserving duplex:
//   * Write never blocks; every Write becomes one chunk; a zero-length Write
//     becomes a zero-length chunk that the peer observes as a (0, nil) Read
//     (this is what net.Pipe does as well);
//   * Read returns at most one chunk (or the part of it that fits);
//   * CloseWrite = half close (peer sees EOF after draining), Close = full close
//     (peer sees EOF after draining, peer writes fail);
//   * the harness can ask whether the peer is parked in Read with nothing left
//     to read (PeerIdle): a copy loop that is parked there has already written
//     everything it read before, which gives exact quiescent points without
//     wall-clock guesses;
//   * all waiting is sync.Cond based, so it is "durably blocked" for testing/synctest.

import (
	"fmt"
	"io"
	"net"
	"os"
	"strings"
	"sync"
	"time"
)

type v18Pair struct {
	mu   sync.Mutex
	cond *sync.Cond
	end  [2]*v18Conn
}

type v18Conn struct {
	p    *v18Pair
	idx  int
	name string

	// all fields below are protected by p.mu
	in        [][]byte // chunks written by the peer, not yet read
	inEOF     bool     // the peer will not write any more
	closed    bool     // Close() was called on this endpoint
	wclosed   bool     // CloseWrite() was called on this endpoint
	waiting   int      // goroutines parked in Read on this endpoint
	readCalls int      // number of Read calls that returned
	nread     int      // bytes handed out by Read
	closeN    int      // number of Close calls
	rdl       time.Time
	laddr     net.Addr
	raddr     net.Addr
	onClose   func()
}

type v18Addr struct{ s string }

func (a v18Addr) Network() string { return "tcp" }
func (a v18Addr) String() string  { return a.s }

// v18NewPair returns (a, b); what a writes b reads and vice versa.
func v18NewPair(name string, aLocal, bLocal string) (*v18Conn, *v18Conn) {
	p := &v18Pair{}
	p.cond = sync.NewCond(&p.mu)
	a := &v18Conn{p: p, idx: 0, name: name + "/a", laddr: v18Addr{aLocal}, raddr: v18Addr{bLocal}}
	b := &v18Conn{p: p, idx: 1, name: name + "/b", laddr: v18Addr{bLocal}, raddr: v18Addr{aLocal}}
	p.end[0], p.end[1] = a, b
	return a, b
}

func (c *v18Conn) peer() *v18Conn { return c.p.end[1-c.idx] }

func (c *v18Conn) Read(b []byte) (int, error) {
	p := c.p
	p.mu.Lock()
	defer p.mu.Unlock()
	var timer *time.Timer
	defer func() {
		if timer != nil {
			timer.Stop()
		}
	}()
	for {
		if c.closed {
			return 0, io.ErrClosedPipe
		}
		if len(b) == 0 {
			c.readCalls++
			return 0, nil
		}
		if len(c.in) > 0 {
			ch := c.in[0]
			n := copy(b, ch)
			if n < len(ch) {
				c.in[0] = ch[n:]
			} else {
				c.in = c.in[1:]
			}
			c.readCalls++
			c.nread += n
			p.cond.Broadcast()
			return n, nil
		}
		if c.inEOF {
			return 0, io.EOF
		}
		if !c.rdl.IsZero() {
			d := time.Until(c.rdl)
			if d <= 0 {
				return 0, os.ErrDeadlineExceeded
			}
			if timer == nil {
				timer = time.AfterFunc(d, func() {
					p.mu.Lock()
					p.cond.Broadcast()
					p.mu.Unlock()
				})
			}
		}
		c.waiting++ // observers poll PeerIdle; no broadcast here (two parked readers would wake each other forever)
		p.cond.Wait()
		c.waiting--
	}
}

func (c *v18Conn) Write(b []byte) (int, error) {
	p := c.p
	p.mu.Lock()
	defer p.mu.Unlock()
	if c.closed || c.wclosed {
		return 0, io.ErrClosedPipe
	}
	pe := c.peer()
	if pe.closed {
		return 0, io.ErrClosedPipe
	}
	pe.in = append(pe.in, append([]byte(nil), b...))
	p.cond.Broadcast()
	return len(b), nil
}

// CloseWrite half-closes: the peer reads EOF after draining.
func (c *v18Conn) CloseWrite() error {
	p := c.p
	p.mu.Lock()
	defer p.mu.Unlock()
	c.wclosed = true
	c.peer().inEOF = true
	p.cond.Broadcast()
	return nil
}

func (c *v18Conn) Close() error {
	p := c.p
	p.mu.Lock()
	first := !c.closed
	c.closed = true
	c.closeN++
	c.peer().inEOF = true
	f := c.onClose
	p.cond.Broadcast()
	p.mu.Unlock()
	if first && f != nil {
		f()
	}
	return nil
}

func (c *v18Conn) LocalAddr() net.Addr  { return c.laddr }
func (c *v18Conn) RemoteAddr() net.Addr { return c.raddr }
func (c *v18Conn) SetDeadline(t time.Time) error {
	return c.SetReadDeadline(t)
}

func (c *v18Conn) SetReadDeadline(t time.Time) error {
	c.p.mu.Lock()
	c.rdl = t
	c.p.cond.Broadcast()
	c.p.mu.Unlock()
	return nil
}
func (c *v18Conn) SetWriteDeadline(time.Time) error { return nil }

// ---- harness-side observation (never used by the code under test) ----

// Drain pops everything currently readable without blocking.
func (c *v18Conn) Drain() []byte {
	c.p.mu.Lock()
	defer c.p.mu.Unlock()
	var out []byte
	for _, ch := range c.in {
		out = append(out, ch...)
	}
	c.in = nil
	return out
}

// IsClosed reports whether Close() was called on this endpoint.
func (c *v18Conn) IsClosed() bool {
	c.p.mu.Lock()
	defer c.p.mu.Unlock()
	return c.closed
}

// PeerClosed reports whether the other endpoint was closed.
func (c *v18Conn) PeerClosed() bool {
	c.p.mu.Lock()
	defer c.p.mu.Unlock()
	return c.peer().closed
}

// PeerIdle: the other endpoint has a goroutine parked in Read and nothing to read.
func (c *v18Conn) PeerIdle() bool {
	c.p.mu.Lock()
	defer c.p.mu.Unlock()
	pe := c.peer()
	return pe.waiting > 0 && len(pe.in) == 0 && !pe.inEOF && !pe.closed
}

// PeerConsumedAll: the other endpoint has nothing left to read (it may be busy).
func (c *v18Conn) PeerPending() int {
	c.p.mu.Lock()
	defer c.p.mu.Unlock()
	n := 0
	for _, ch := range c.peer().in {
		n += len(ch)
	}
	return n
}

// v18WaitUntil polls cond (which must be cheap) until it holds or the generous
// deadline expires. It is only ever used for liveness waits; expiry is
// reported to the caller, who maps it to vInconclusive.
func v18WaitUntil(d time.Duration, cond func() bool) bool {
	deadline := time.Now().Add(d)
	sleep := 20 * time.Microsecond
	for {
		if cond() {
			return true
		}
		if time.Now().After(deadline) {
			return cond()
		}
		time.Sleep(sleep)
		if sleep < 2*time.Millisecond {
			sleep *= 2
		}
	}
}

const v18Patience = 60 * time.Second

// ---- event log ----

type v18Ev struct {
	kind  string // auth, tcp, udp, phase
	a, b  string
	ok    bool
	phase int
}

func (e v18Ev) String() string {
	switch e.kind {
	case "auth":
		return fmt.Sprintf("[%d]auth(%q,%q)=%v", e.phase, e.a, e.b, e.ok)
	case "tcp":
		return fmt.Sprintf("[%d]TCP(%q)", e.phase, e.a)
	case "udp":
		return fmt.Sprintf("[%d]UDP()", e.phase)
	}
	return fmt.Sprintf("[%d]%s(%s)", e.phase, e.kind, e.a)
}

type v18Log struct {
	mu    sync.Mutex
	evs   []v18Ev
	phase int
}

func (l *v18Log) add(kind, a, b string, ok bool) {
	l.mu.Lock()
	l.evs = append(l.evs, v18Ev{kind: kind, a: a, b: b, ok: ok, phase: l.phase})
	l.mu.Unlock()
}

func (l *v18Log) setPhase(p int) {
	l.mu.Lock()
	l.phase = p
	l.mu.Unlock()
}

func (l *v18Log) snapshot() []v18Ev {
	l.mu.Lock()
	defer l.mu.Unlock()
	return append([]v18Ev(nil), l.evs...)
}

func (l *v18Log) String() string {
	var sb strings.Builder
	for i, e := range l.snapshot() {
		if i > 0 {
			sb.WriteString(" ")
		}
		sb.WriteString(e.String())
	}
	return sb.String()
}

func v18Hex(b []byte) string {
	if len(b) > 96 {
		return fmt.Sprintf("%x…(%d bytes)", b[:96], len(b))
	}
	return fmt.Sprintf("%x", b)
}
