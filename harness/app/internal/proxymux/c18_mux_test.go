package proxymux

// C18 — shared SOCKS5/HTTP port: every connection the mux accepted is handed
// to exactly one sub-listener, the one its first byte selects (0x05 -> SOCKS5,
// anything else -> HTTP), with its bytes intact (first byte re-prefixed, also
// under 0/1-byte reads), or it is closed. Never both, never neither.
//
// The mux runs on a fake base listener inside a testing/synctest bubble; the
// harness owns the order of ListenSOCKS / ListenHTTP / sub-listener Close /
// Accept / connection arrival / first byte / rest / client abort, and either
// settles (synctest.Wait) between two steps or lets them race. Verdicts are
// taken only at exact quiescent points: no wall clock is involved, "neither
// delivered nor closed" is decided when every goroutine of the mux has
// finished or is durably parked after all sub-listeners were closed.
//
// The harness mirrors manager.go: a mux whose deleteFunc ran is replaced by a
// fresh one on the next Listen.

import (
	"bytes"
	"errors"
	"fmt"
	"io"
	"net"
	"os"
	"strings"
	"sync"
	"testing"
	"testing/synctest"

	"pgregory.net/rapid"
)

// ---------------------------------------------------------------- fake base listener

type v18Base struct {
	mu       sync.Mutex
	cond     *sync.Cond
	q        []*v18Conn
	closed   bool
	err      error
	accepted int
	// probe only: a connection whose accept completes at the very moment Close() is called
	raceConn *v18Conn
}

func v18NewBase() *v18Base {
	b := &v18Base{}
	b.cond = sync.NewCond(&b.mu)
	return b
}

func (b *v18Base) Accept() (net.Conn, error) {
	b.mu.Lock()
	defer b.mu.Unlock()
	for {
		if len(b.q) > 0 {
			c := b.q[0]
			b.q = b.q[1:]
			b.accepted++
			return c, nil
		}
		if b.err != nil {
			return nil, b.err
		}
		if b.closed {
			return nil, net.ErrClosed
		}
		b.cond.Wait()
	}
}

func (b *v18Base) Close() error {
	b.mu.Lock()
	if b.raceConn != nil {
		// the kernel completed this accept just before close(): Accept returns it
		b.q = append(b.q, b.raceConn)
		b.raceConn = nil
		b.closed = true
		b.cond.Broadcast()
		b.mu.Unlock()
		return nil
	}
	b.closed = true
	q := b.q
	b.q = nil
	b.cond.Broadcast()
	b.mu.Unlock()
	for _, c := range q { // still in the backlog: reset by the kernel
		_ = c.Close()
	}
	return nil
}

func (b *v18Base) Addr() net.Addr { return v18Addr{"127.0.0.1:1080"} }

func (b *v18Base) inject(c *v18Conn) bool {
	b.mu.Lock()
	defer b.mu.Unlock()
	if b.closed {
		return false
	}
	b.q = append(b.q, c)
	b.cond.Broadcast()
	return true
}

func (b *v18Base) fail(err error) {
	b.mu.Lock()
	b.err = err
	b.cond.Broadcast()
	b.mu.Unlock()
}

// ---------------------------------------------------------------- manager mirror

type v18Gen struct {
	id      int
	mux     *muxListener
	base    *v18Base
	deleted bool
}

type v18Mgr struct {
	mu   sync.Mutex
	cur  *v18Gen
	gens []*v18Gen
}

func (m *v18Mgr) getOrCreate() *v18Gen {
	m.mu.Lock()
	defer m.mu.Unlock()
	if m.cur != nil {
		return m.cur
	}
	g := &v18Gen{id: len(m.gens), base: v18NewBase()}
	g.mux = newMuxListener(g.base, func() {
		m.mu.Lock()
		defer m.mu.Unlock()
		g.deleted = true
		if m.cur == g {
			m.cur = nil
		}
	})
	m.cur = g
	m.gens = append(m.gens, g)
	return g
}

func (m *v18Mgr) live() *v18Gen {
	m.mu.Lock()
	defer m.mu.Unlock()
	return m.cur
}

// ---------------------------------------------------------------- case description

const (
	v18KSocks = 0
	v18KHTTP  = 1
)

var v18KName = []string{"socks", "http"}

type v18MOp struct {
	kind   string // listen close accept conn first rest abort basefail zero
	k      int    // protocol for listen/close/accept
	i      int    // connection index
	with   bool   // listen: start an accepter right away; first: send the whole stream in one write
	settle bool   // synctest.Wait() after the step
}

func (o v18MOp) String() string {
	s := o.kind
	switch o.kind {
	case "listen", "close", "accept":
		s += ":" + v18KName[o.k]
	case "basefail":
	default:
		s += fmt.Sprintf(":%d", o.i)
	}
	if o.with {
		s += "+"
	}
	if !o.settle {
		s += "~" // races with the next step
	}
	return s
}

type v18MConnSpec struct {
	fb      byte
	body    []byte
	pattern []int // read sizes used by whoever accepts it
	late    bool  // if the history ends before the first byte was sent: send everything then (else: close without sending)
	zpre    int   // zero-length chunks delivered right before the first byte: dispatch's own Read sees (0, nil) first
	zmid    int   // zero-length chunks between the first byte and the rest
}

type v18MCase struct {
	ops   []v18MOp
	conns []v18MConnSpec
}

func (c *v18MCase) String() string {
	var sb strings.Builder
	for i, o := range c.ops {
		if i > 0 {
			sb.WriteString(" ")
		}
		sb.WriteString(o.String())
	}
	for i, s := range c.conns {
		fmt.Fprintf(&sb, "\n  conn%d first=%02x body=%x reads=%v late=%v zero-chunks(before first byte=%d, behind it=%d)", i, s.fb, s.body, s.pattern, s.late, s.zpre, s.zmid)
	}
	return sb.String()
}

var v18Patterns = [][]int{{1}, {1}, {0, 1}, {1, 0, 0, 2}, {2}, {64}, {0, 0, 3}, {1, 1, 5}, {0, 64}}

func v18GenMCase(rt *rapid.T) *v18MCase {
	c := &v18MCase{}
	n := rapid.IntRange(3, 22).Draw(rt, "nops")
	allowBaseFail := rapid.IntRange(0, 3).Draw(rt, "allowBaseFail") == 0
	var open, acc [2]bool
	stage := []int{} // per conn: 0 injected, 1 first byte sent, 2 everything sent, 3 aborted
	for len(c.ops) < n {
		type cand struct {
			op v18MOp
			w  int
		}
		var cs []cand
		for k := 0; k < 2; k++ {
			if !open[k] {
				cs = append(cs, cand{v18MOp{kind: "listen", k: k}, 5})
			} else {
				cs = append(cs, cand{v18MOp{kind: "listen", k: k}, 1}, cand{v18MOp{kind: "close", k: k}, 3})
				if !acc[k] {
					cs = append(cs, cand{v18MOp{kind: "accept", k: k}, 3})
				}
			}
		}
		if len(stage) < 5 && (open[0] || open[1]) {
			cs = append(cs, cand{v18MOp{kind: "conn", i: len(stage)}, 5})
		}
		if allowBaseFail && (open[0] || open[1]) {
			cs = append(cs, cand{v18MOp{kind: "basefail"}, 1})
		}
		for i, s := range stage {
			switch s {
			case 0:
				cs = append(cs, cand{v18MOp{kind: "first", i: i}, 10}, cand{v18MOp{kind: "abort", i: i}, 1}, cand{v18MOp{kind: "zero", i: i}, 3})
			case 1:
				cs = append(cs, cand{v18MOp{kind: "rest", i: i}, 3}, cand{v18MOp{kind: "abort", i: i}, 1}, cand{v18MOp{kind: "zero", i: i}, 1})
			}
		}
		tot := 0
		for _, x := range cs {
			tot += x.w
		}
		r := rapid.IntRange(0, tot-1).Draw(rt, "op")
		var op v18MOp
		for _, x := range cs {
			if r < x.w {
				op = x.op
				break
			}
			r -= x.w
		}
		op.settle = rapid.IntRange(0, 2).Draw(rt, "settle") > 0
		switch op.kind {
		case "listen":
			op.with = rapid.Bool().Draw(rt, "withAccept")
			if !open[op.k] {
				open[op.k], acc[op.k] = true, op.with
			}
		case "close":
			open[op.k], acc[op.k] = false, false
		case "basefail":
			open, acc = [2]bool{}, [2]bool{}
			allowBaseFail = rapid.Bool().Draw(rt, "againBaseFail")
		case "accept":
			acc[op.k] = true
		case "conn":
			stage = append(stage, 0)
			var sp v18MConnSpec
			if rapid.Bool().Draw(rt, "fbSocks") {
				sp.fb = 5
			} else {
				sp.fb = rapid.SampledFrom([]byte{'G', 'C', 'P', 0x16, 0x04, 0x06, 0x00, 0xff, 0x85, 0x50}).Draw(rt, "fb")
			}
			bl := rapid.SampledFrom([]int{0, 1, 2, 3, 9, 40}).Draw(rt, "bodyLen")
			sp.body = make([]byte, bl)
			seed := uint32(rapid.IntRange(0, 1<<16).Draw(rt, "bodySeed"))
			for j := range sp.body {
				seed = seed*1664525 + 1013904223
				sp.body[j] = byte(seed >> 24)
				if seed%5 == 0 {
					sp.body[j] = 5
				}
				if seed%7 == 0 {
					sp.body[j] = sp.fb
				}
			}
			sp.pattern = rapid.SampledFrom(v18Patterns).Draw(rt, "reads")
			sp.late = rapid.IntRange(0, 3).Draw(rt, "late") > 0
			sp.zpre = rapid.SampledFrom([]int{0, 0, 0, 1, 1, 2, 3}).Draw(rt, "zeroBeforeFirst")
			sp.zmid = rapid.SampledFrom([]int{0, 0, 0, 1, 2}).Draw(rt, "zeroBehindFirst")
			c.conns = append(c.conns, sp)
		case "first":
			op.with = rapid.Bool().Draw(rt, "wholeStream")
			if op.with {
				stage[op.i] = 2
			} else {
				stage[op.i] = 1
			}
		case "rest":
			stage[op.i] = 2
		case "abort":
			stage[op.i] = 3
		}
		c.ops = append(c.ops, op)
	}
	return c
}

// ---------------------------------------------------------------- execution

type v18Delivery struct {
	subID int
	kind  int
	conn  int
	got   []byte
	err   error
	done  bool
	over  bool // Read returned more than the buffer size
}

type v18Sub struct {
	id       int
	kind     int
	gen      *v18Gen
	l        net.Listener
	closed   bool  // closed by the harness
	accepter bool  // an accepter goroutine was started
	accErr   error // accepter saw an error and left (protected by run.mu)
}

type v18MConn struct {
	spec     v18MConnSpec
	cli, srv *v18Conn
	gen      *v18Gen
	injected bool
	sent     []byte
	sentFB   bool
	finished bool // client half-closed or closed
}

type v18MRun struct {
	mu    sync.Mutex
	dels  []*v18Delivery
	subs  []*v18Sub
	conns []*v18MConn
	mgr   v18Mgr
	trace []string
	fail  string
	cls   map[string]bool
	// the previous step ended in a quiescent state (synctest.Wait)
	prevSettled bool
	// a sub-listener was closed since the last quiescent point
	closeSinceWait bool
}

func (r *v18MRun) failf(format string, a ...any) {
	if r.fail == "" {
		r.fail = fmt.Sprintf(format, a...)
	}
}

func (r *v18MRun) held(k int) *v18Sub { // the sub-listener of kind k the harness holds open
	r.mu.Lock()
	defer r.mu.Unlock()
	for i := len(r.subs) - 1; i >= 0; i-- {
		s := r.subs[i]
		if s.kind == k && !s.closed && s.accErr == nil {
			return s
		}
	}
	return nil
}

func (r *v18MRun) deliveries(conn int) []*v18Delivery {
	r.mu.Lock()
	defer r.mu.Unlock()
	var out []*v18Delivery
	for _, d := range r.dels {
		if d.conn == conn {
			out = append(out, d)
		}
	}
	return out
}

func v18ConnIndex(c net.Conn) int {
	var port int
	s := c.RemoteAddr().String()
	if i := strings.LastIndexByte(s, ':'); i >= 0 {
		fmt.Sscanf(s[i+1:], "%d", &port)
	}
	return port - 40000
}

func (r *v18MRun) startAccepter(s *v18Sub) {
	s.accepter = true
	go func() {
		for {
			c, err := s.l.Accept()
			if err != nil {
				r.mu.Lock()
				s.accErr = err
				r.mu.Unlock()
				return
			}
			idx := v18ConnIndex(c)
			d := &v18Delivery{subID: s.id, kind: s.kind, conn: idx}
			pattern := []int{1}
			r.mu.Lock()
			r.dels = append(r.dels, d)
			if idx >= 0 && idx < len(r.conns) {
				pattern = r.conns[idx].spec.pattern
			}
			r.mu.Unlock()
			go func() { // the protocol handler: reads the stream with short reads, then closes
				var got []byte
				var rerr error
				over := false
				for i := 0; ; i++ {
					n := pattern[i%len(pattern)]
					buf := make([]byte, n)
					k, err := c.Read(buf)
					if k > n {
						over = true
						k = n
					}
					got = append(got, buf[:k]...)
					if err != nil {
						rerr = err
						break
					}
				}
				_ = c.Close()
				r.mu.Lock()
				d.got, d.err, d.over, d.done = got, rerr, over, true
				r.mu.Unlock()
			}()
		}
	}()
}

func v18WantKind(fb byte) int {
	if fb == 5 {
		return v18KSocks
	}
	return v18KHTTP
}

// Connection arrival races freely with everything else (the accept hand-off
// included: fix 9e4f2b6). VERIF_C18_ACCEPT_RACE=0 settles every arrival.
var v18RaceInject = os.Getenv("VERIF_C18_ACCEPT_RACE") != "0"

// Listen* races freely with sub-listener Close (a Listen that lands on a mux
// which is just going idle: fix 0eaeeb7). VERIF_C18_LISTEN_RACE=0 forces a
// quiescent point between a Close and the next Listen.
var v18RaceListen = os.Getenv("VERIF_C18_LISTEN_RACE") != "0"

func (r *v18MRun) step(op v18MOp) {
	defer func() { // also runs for the early returns below
		if op.settle {
			synctest.Wait()
			r.closeSinceWait = false
		}
		r.prevSettled = op.settle
	}()
	r.trace = append(r.trace, op.String())
	note := func(s string) { r.trace[len(r.trace)-1] += "(" + s + ")" }
	switch op.kind {
	case "listen":
		if r.closeSinceWait && !v18RaceListen {
			synctest.Wait()
			r.closeSinceWait = false
			note("settled-first")
		}
		g := r.mgr.getOrCreate()
		var l net.Listener
		var err error
		if op.k == v18KSocks {
			l, err = g.mux.ListenSOCKS()
		} else {
			l, err = g.mux.ListenHTTP()
		}
		if err != nil {
			note("err")
			if h := r.held(op.k); h != nil && h.gen == g {
				if !errors.Is(err, ErrProtocolInUse) {
					note(err.Error())
				}
			}
			return
		}
		if h := r.held(op.k); h != nil && h.gen == g && !v18SubDead(h) {
			r.cls["double-listen-succeeded"] = true
		}
		s := &v18Sub{id: len(r.subs), kind: op.k, gen: g, l: l}
		r.mu.Lock()
		r.subs = append(r.subs, s)
		r.mu.Unlock()
		note(fmt.Sprintf("sub%d@gen%d", s.id, g.id))
		if op.with {
			r.startAccepter(s)
		}
	case "close":
		if s := r.held(op.k); s != nil {
			for ci, c := range r.conns {
				if c.injected && c.sentFB && v18WantKind(c.spec.fb) == op.k && c.gen == s.gen && !c.srv.IsClosed() && len(r.deliveries(ci)) == 0 {
					r.cls["closed-while-conn-pending-or-in-flight"] = true
				}
			}
			r.mu.Lock()
			s.closed = true
			r.mu.Unlock()
			_ = s.l.Close()
			r.closeSinceWait = true
			note(fmt.Sprintf("sub%d", s.id))
		} else {
			note("none")
		}
	case "basefail":
		// the base listener's Accept fails (EMFILE and the like): the mux shuts down; every
		// connection it had accepted must still end up delivered or closed, and nothing may panic
		if g := r.mgr.live(); g != nil {
			g.base.fail(errors.New("accept tcp 127.0.0.1:1080: accept4: too many open files"))
			r.closeSinceWait = true
			r.cls["base-accept-error"] = true
			for ci, c := range r.conns {
				if c.injected && c.gen == g && c.sentFB && !c.srv.IsClosed() && len(r.deliveries(ci)) == 0 {
					r.cls["base-accept-error-with-conn-pending"] = true
				}
			}
			note(fmt.Sprintf("gen%d", g.id))
		} else {
			note("none")
		}
	case "accept":
		if s := r.held(op.k); s != nil && !s.accepter {
			r.startAccepter(s)
			note(fmt.Sprintf("sub%d", s.id))
		} else {
			note("skip")
		}
	case "conn":
		if !v18RaceInject {
			synctest.Wait()
			r.closeSinceWait = false
		}
		sp := r.conns[op.i]
		g := r.mgr.live()
		if g == nil {
			note("refused:no-mux")
			r.cls["conn-refused"] = true
			return
		}
		if !g.base.inject(sp.srv) {
			note("refused:closed")
			r.cls["conn-refused"] = true
			return
		}
		sp.injected, sp.gen = true, g
		if !v18RaceInject {
			op.settle = true
		}
	case "first":
		c := r.conns[op.i]
		if !c.injected || c.sentFB || c.finished {
			note("skip")
			return
		}
		strict := op.settle && r.prevSettled
		var expect string
		if strict {
			k := v18WantKind(c.spec.fb)
			h := r.held(k)
			switch {
			case h != nil && h.gen == c.gen && h.accepter:
				expect = "delivered"
			case h == nil || h.gen != c.gen:
				expect = "closed"
			}
		}
		for z := 0; z < c.spec.zpre; z++ {
			_, _ = c.cli.Write(nil) // dispatch's Read returns (0, nil): not a byte, not an end
			r.cls["zero-chunk-before-first-byte"] = true
		}
		if op.with && c.spec.zmid == 0 {
			b := append([]byte{c.spec.fb}, c.spec.body...)
			_, _ = c.cli.Write(b)
			c.sent = append(c.sent, b...)
		} else {
			_, _ = c.cli.Write([]byte{c.spec.fb})
			c.sent = append(c.sent, c.spec.fb)
			if op.with {
				r.sendRest(c)
			}
		}
		c.sentFB = true
		if op.with {
			_ = c.cli.CloseWrite()
			c.finished = true
		}
		if strict {
			synctest.Wait()
			r.closeSinceWait = false
			ds := r.deliveries(op.i)
			switch expect {
			case "delivered":
				r.cls["strict:deliver"] = true
				if len(ds) != 1 {
					r.failf("conn%d (first byte %02x): a %s sub-listener with an outstanding Accept was registered, yet the connection was delivered %d times (closed by mux: %v)", op.i, c.spec.fb, v18KName[v18WantKind(c.spec.fb)], len(ds), c.srv.IsClosed())
				}
			case "closed":
				r.cls["strict:close"] = true
				if len(ds) != 0 || !c.srv.IsClosed() {
					r.failf("conn%d (first byte %02x): no %s sub-listener was registered, yet delivered=%d closed=%v", op.i, c.spec.fb, v18KName[v18WantKind(c.spec.fb)], len(ds), c.srv.IsClosed())
				}
			default:
				r.cls["strict:pending"] = true
			}
		}
	case "rest":
		c := r.conns[op.i]
		if !c.injected || !c.sentFB || c.finished {
			note("skip")
			return
		}
		r.sendRest(c)
		_ = c.cli.CloseWrite()
		c.finished = true
	case "zero":
		// a zero-length chunk: whoever reads the connection next sees (0, nil). Before the first
		// byte that reader is dispatch itself; it has to keep waiting for a real byte.
		c := r.conns[op.i]
		if !c.injected || c.finished {
			note("skip")
			return
		}
		strict := op.settle && r.prevSettled && !c.sentFB
		var before int
		if strict {
			before = len(r.deliveries(op.i))
		}
		_, _ = c.cli.Write(nil)
		if !c.sentFB {
			r.cls["zero-chunk-before-first-byte"] = true
		} else {
			r.cls["zero-chunk-behind-first-byte"] = true
		}
		if strict && before == 0 && !c.srv.IsClosed() {
			synctest.Wait()
			r.closeSinceWait = false
			r.cls["strict:zero-chunk-keeps-waiting"] = true
			if n := len(r.deliveries(op.i)); n != 0 || c.srv.IsClosed() {
				r.failf("conn%d has not sent a byte yet (only a zero-length chunk), yet delivered=%d closed=%v", op.i, n, c.srv.IsClosed())
			}
		}
	case "abort":
		c := r.conns[op.i]
		if !c.injected || c.finished {
			note("skip")
			return
		}
		if !c.sentFB && c.spec.zpre > 0 {
			_, _ = c.cli.Write(nil)
			r.cls["zero-chunk-then-eof"] = true
		}
		_ = c.cli.Close()
		c.finished = true
		if !c.sentFB {
			r.cls["closed-before-first-byte"] = true
		}
	}
}

// sendRest writes the bytes behind the first byte, with the connection's zero-length chunks in front.
func (r *v18MRun) sendRest(c *v18MConn) {
	for z := 0; z < c.spec.zmid; z++ {
		_, _ = c.cli.Write(nil)
		r.cls["zero-chunk-behind-first-byte"] = true
	}
	if len(c.spec.body) > 0 {
		_, _ = c.cli.Write(c.spec.body)
		c.sent = append(c.sent, c.spec.body...)
	}
}

func v18SubDead(s *v18Sub) bool { return s.closed || s.accErr != nil }


func v18RunMCase(c *v18MCase) *v18MRun {
	r := &v18MRun{cls: map[string]bool{}, prevSettled: true}
	for i, sp := range c.conns {
		cli, srv := v18NewPair(fmt.Sprintf("m%d", i), fmt.Sprintf("127.0.0.1:%d", 40000+i), "127.0.0.1:1080")
		r.conns = append(r.conns, &v18MConn{spec: sp, cli: cli, srv: srv})
	}
	for _, op := range c.ops {
		if r.fail != "" {
			break
		}
		r.step(op)
	}
	// ---- resolve everything
	synctest.Wait()
	for _, mc := range r.conns {
		if mc.injected && !mc.finished {
			if mc.sentFB {
				_ = mc.cli.CloseWrite()
			} else if mc.spec.late {
				for z := 0; z < mc.spec.zpre; z++ {
					_, _ = mc.cli.Write(nil)
					r.cls["zero-chunk-before-first-byte"] = true
				}
				_, _ = mc.cli.Write([]byte{mc.spec.fb})
				mc.sent, mc.sentFB = append(mc.sent, mc.spec.fb), true
				r.sendRest(mc)
				_ = mc.cli.CloseWrite()
				r.cls["first-byte-at-the-end"] = true
			} else {
				_ = mc.cli.Close()
				r.cls["closed-before-first-byte"] = true
			}
			mc.finished = true
		}
	}
	synctest.Wait()
	r.trace = append(r.trace, "close-all")
	r.mu.Lock()
	subs := append([]*v18Sub(nil), r.subs...)
	r.mu.Unlock()
	for _, s := range subs {
		if !s.closed {
			r.mu.Lock()
			s.closed = true
			r.mu.Unlock()
			_ = s.l.Close()
		}
	}
	synctest.Wait()

	// ---- the property, at quiescence: exactly one of {delivered once to the right handler, intact} / {closed}
	if r.fail == "" {
		for i, mc := range r.conns {
			if !mc.injected {
				continue
			}
			ds := r.deliveries(i)
			want := v18WantKind(mc.spec.fb)
			switch {
			case len(ds) > 1:
				r.failf("conn%d was handed to %d Accept calls", i, len(ds))
			case len(ds) == 1:
				d := ds[0]
				r.cls["delivered:"+v18KName[d.kind]] = true
				r.mu.Lock()
				done, got, err, over := d.done, d.got, d.err, d.over
				r.mu.Unlock()
				switch {
				case !mc.sentFB:
					r.failf("conn%d never sent a byte but was handed to the %s sub-listener", i, v18KName[d.kind])
				case d.kind != want:
					r.failf("conn%d with first byte %02x was handed to the %s sub-listener", i, mc.spec.fb, v18KName[d.kind])
				case !done:
					r.failf("conn%d was delivered but its handler never saw the end of the stream (read so far %x, client sent %x and half-closed)", i, got, mc.sent)
				case over:
					r.failf("conn%d: Read returned more bytes than the buffer holds", i)
				case !bytes.Equal(got, mc.sent):
					r.failf("conn%d: handler read %x (reads %v), client sent %x", i, got, mc.spec.pattern, mc.sent)
				case err != io.EOF:
					r.failf("conn%d: delivered connection ended with %v instead of EOF (closed under the handler?)", i, err)
				}
			default:
				if !mc.srv.IsClosed() {
					r.failf("conn%d (first byte sent=%v %02x) was accepted by the shared port but neither handed to a sub-listener nor closed", i, mc.sentFB, mc.spec.fb)
				} else {
					r.cls["closed-by-mux"] = true
				}
			}
			if r.fail != "" {
				break
			}
		}
	}
	// ---- let everything end (the bubble must not leave goroutines behind)
	for _, mc := range r.conns {
		_ = mc.cli.Close()
		if !mc.injected {
			_ = mc.srv.Close()
		}
	}
	for _, g := range r.mgr.gens {
		_ = g.base.Close()
	}
	synctest.Wait()
	return r
}

func TestVerifC18_MuxDispatch(t *testing.T) {
	st := newVStats("TestVerifC18_MuxDispatch")
	defer st.Flush()
	rapid.Check(t, func(rt *rapid.T) {
		c := v18GenMCase(rt)
		var r *v18MRun
		synctest.Test(t, func(t *testing.T) {
			r = v18RunMCase(c)
		})
		var fp strings.Builder
		for _, o := range c.ops {
			fp.WriteString(o.String())
			fp.WriteByte(' ')
		}
		for _, sp := range c.conns {
			fmt.Fprintf(&fp, "%d/%d/%v/%d/%d,", v18WantKind(sp.fb), len(sp.body), sp.pattern, sp.zpre, sp.zmid)
		}
		var classes []string
		for k := range r.cls {
			classes = append(classes, k)
		}
		for _, sp := range c.conns {
			if len(sp.pattern) > 0 && (sp.pattern[0] == 0 || sp.pattern[0] == 1) {
				classes = append(classes, "short-reads")
				break
			}
		}
		nt := r.cls["closed-while-conn-pending-or-in-flight"] || r.cls["base-accept-error-with-conn-pending"] || (r.cls["closed-by-mux"] && (r.cls["delivered:socks"] || r.cls["delivered:http"])) || (r.cls["delivered:socks"] && r.cls["delivered:http"])
		st.Case(nt, fp.String(), classes, func() string { return c.String() + "\n  trace: " + strings.Join(r.trace, " ") })
		if r.fail != "" {
			rt.Fatalf("C18: shared port: %s\ncase: %s\ntrace: %s", r.fail, c, strings.Join(r.trace, " "))
		}
	})
}

// ---------------------------------------------------------------- deterministic regression (fix 30b2145)

// A connection whose first byte selected a sub-listener that has no Accept
// outstanding, followed by Close of that sub-listener: it must be closed.
func TestVerifC18_Regress_CloseWhilePending(t *testing.T) {
	st := newVStats("TestVerifC18_Regress_CloseWhilePending")
	defer st.Flush()
	for _, fb := range []byte{5, 'G'} {
		for _, other := range []bool{false, true} {
			var fail string
			synctest.Test(t, func(t *testing.T) {
				base := v18NewBase()
				mux := newMuxListener(base, func() {})
				var l, o net.Listener
				var err error
				if fb == 5 {
					l, err = mux.ListenSOCKS()
					if other {
						o, _ = mux.ListenHTTP()
					}
				} else {
					l, err = mux.ListenHTTP()
					if other {
						o, _ = mux.ListenSOCKS()
					}
				}
				if err != nil {
					fail = "listen: " + err.Error()
					return
				}
				cli, srv := v18NewPair("r", "127.0.0.1:40000", "127.0.0.1:1080")
				base.inject(srv)
				synctest.Wait()
				_, _ = cli.Write([]byte{fb, 1, 2, 3})
				synctest.Wait() // dispatch has read the first byte and waits for an Accept that never comes
				if srv.IsClosed() {
					fail = "connection closed although its sub-listener is registered"
				}
				_ = l.Close()
				synctest.Wait()
				if !srv.IsClosed() && fail == "" {
					fail = fmt.Sprintf("first byte %02x, sub-listener closed while the connection waited for Accept: neither delivered nor closed", fb)
				}
				if o != nil {
					_ = o.Close()
				}
				_ = cli.Close()
				_ = base.Close()
				synctest.Wait()
			})
			st.Case(true, fmt.Sprintf("%02x/%v", fb, other), []string{"regress"}, func() string {
				return fmt.Sprintf("listen(first=%02x other=%v) conn first close", fb, other)
			})
			if fail != "" {
				t.Fatalf("C18: shared port: %s", fail)
			}
		}
	}
}

// "All chunkings including zero-length reads": the connection's first delivery
// is a zero-length chunk, so dispatch's own Read returns (0, nil). That is
// neither a byte nor an end: the connection has to stay pending until a real
// byte arrives and then go to the handler that byte selects, without a
// spurious byte in front; a zero-length chunk followed by EOF must be closed.
func TestVerifC18_Regress_ZeroLengthFirstRead(t *testing.T) {
	st := newVStats("TestVerifC18_Regress_ZeroLengthFirstRead")
	defer st.Flush()
	for _, fb := range []byte{5, 'G'} {
		for zeros := 1; zeros <= 3; zeros++ {
			for _, eof := range []bool{false, true} {
				var fail string
				synctest.Test(t, func(t *testing.T) {
					c := &v18MCase{conns: []v18MConnSpec{{fb: fb, body: []byte{1, 0, 5, 'x'}, pattern: []int{1}}}}
					r := &v18MRun{cls: map[string]bool{}, prevSettled: true}
					cli, srv := v18NewPair("m0", "127.0.0.1:40000", "127.0.0.1:1080")
					r.conns = append(r.conns, &v18MConn{spec: c.conns[0], cli: cli, srv: srv})
					r.step(v18MOp{kind: "listen", k: v18KSocks, with: true, settle: true})
					r.step(v18MOp{kind: "listen", k: v18KHTTP, with: true, settle: true})
					r.step(v18MOp{kind: "conn", i: 0, settle: true})
					for z := 0; z < zeros; z++ {
						r.step(v18MOp{kind: "zero", i: 0, settle: true})
					}
					if eof {
						_ = cli.CloseWrite()
						synctest.Wait()
						if n := len(r.deliveries(0)); n != 0 || !srv.IsClosed() {
							r.failf("zero-length chunk(s) then EOF, no byte ever sent: delivered=%d closed=%v", n, srv.IsClosed())
						}
					} else {
						r.step(v18MOp{kind: "first", i: 0, with: true, settle: true})
						synctest.Wait()
						ds := r.deliveries(0)
						if len(ds) != 1 {
							r.failf("delivered %d times", len(ds))
						} else {
							r.mu.Lock()
							got, kind := ds[0].got, ds[0].kind
							r.mu.Unlock()
							if kind != v18WantKind(fb) || !bytes.Equal(got, r.conns[0].sent) {
								r.failf("first byte %02x behind %d zero-length chunk(s): handed to the %s sub-listener, which read %x; client sent %x", fb, zeros, v18KName[kind], got, r.conns[0].sent)
							}
						}
					}
					fail = r.fail
					for _, s := range r.subs {
						_ = s.l.Close()
					}
					_ = cli.Close()
					for _, g := range r.mgr.gens {
						_ = g.base.Close()
					}
					synctest.Wait()
				})
				st.Case(true, fmt.Sprintf("%02x/%d/%v", fb, zeros, eof), []string{"regress"}, func() string {
					return fmt.Sprintf("listen both ; conn ; %d zero-length chunk(s) ; eof=%v / first byte %02x", zeros, eof, fb)
				})
				if fail != "" {
					t.Fatalf("C18: shared port: %s", fail)
				}
			}
		}
	}
}

// Fix 0eaeeb7. The base listener's Accept fails while a connection waits in
// dispatch for its sub-listener's Accept: the mux used to close the
// sub-listener's acceptChan in its cleanup, and the parked dispatch goroutine
// panicked with "send on closed channel" (process exit). Now the connection
// has to be closed (or delivered) and the sub-listener's Accept has to return.
func TestVerifC18_Regress_BaseAcceptErrorWhilePending(t *testing.T) {
	st := newVStats("TestVerifC18_Regress_BaseAcceptErrorWhilePending")
	defer st.Flush()
	for _, fb := range []byte{5, 'G'} {
		var fail string
		synctest.Test(t, func(t *testing.T) {
			base := v18NewBase()
			mux := newMuxListener(base, func() {})
			var l net.Listener
			if fb == 5 {
				l, _ = mux.ListenSOCKS()
			} else {
				l, _ = mux.ListenHTTP()
			}
			cli, srv := v18NewPair("p", "127.0.0.1:40000", "127.0.0.1:1080")
			base.inject(srv)
			synctest.Wait()
			_, _ = cli.Write([]byte{fb})
			synctest.Wait()
			base.fail(errors.New("accept tcp 127.0.0.1:1080: accept4: too many open files"))
			synctest.Wait() // pre-fix: panic: send on closed channel (muxListener.dispatch)
			if !srv.IsClosed() {
				fail = fmt.Sprintf("history: Listen (no Accept outstanding) ; conn sends %02x ; base Accept error: the pending connection was neither delivered nor closed", fb)
			}
			accDone := make(chan error, 1)
			go func() { _, err := l.Accept(); accDone <- err }()
			synctest.Wait()
			select {
			case err := <-accDone:
				if err == nil && fail == "" {
					fail = "Accept on the sub-listener of a failed mux returned a connection that was already closed"
				}
			default:
				if fail == "" {
					fail = "Accept on the sub-listener of a failed mux blocks forever"
				}
				_ = l.Close()
			}
			_ = cli.Close()
			_ = base.Close()
			synctest.Wait()
		})
		st.Case(true, fmt.Sprintf("%02x", fb), []string{"regress"}, func() string { return fmt.Sprintf("listen conn(%02x) basefail", fb) })
		if fail != "" {
			t.Fatalf("C18: shared port: %s", fail)
		}
	}
}

// Fix 9e4f2b6. A connection whose accept completes while the mux shuts down
// (last sub-listener closed): acceptLoop must close it (it used to take the
// closeChan branch and drop the connection). Deterministic: the fake base
// listener hands the connection to the pending Accept at the moment Close() is
// called, which is what the kernel does when the two coincide.
func TestVerifC18_Regress_AcceptDuringShutdown(t *testing.T) {
	st := newVStats("TestVerifC18_Regress_AcceptDuringShutdown")
	defer st.Flush()
	for _, fb := range []byte{5, 'G'} {
		var fail string
		synctest.Test(t, func(t *testing.T) {
			base := v18NewBase()
			mux := newMuxListener(base, func() {})
			var l net.Listener
			if fb == 5 {
				l, _ = mux.ListenSOCKS()
			} else {
				l, _ = mux.ListenHTTP()
			}
			synctest.Wait()
			// mainLoop only starts watching a sub-listener's closeChan on its next iteration: if it
			// entered its select before the Listen call above, Close would go unnoticed until the
			// next connection. Make it iterate once with a throw-away connection.
			nudge, nsrv := v18NewPair("n", "127.0.0.1:39999", "127.0.0.1:1080")
			_ = nudge.Close()
			base.inject(nsrv)
			synctest.Wait()
			cli, srv := v18NewPair("p", "127.0.0.1:40000", "127.0.0.1:1080")
			_, _ = cli.Write([]byte{fb, 1, 2, 3})
			base.mu.Lock()
			base.raceConn = srv
			base.mu.Unlock()
			_ = l.Close() // mux goes idle: mainLoop calls base.Close(), the pending Accept returns the connection
			synctest.Wait()
			if !srv.IsClosed() {
				fail = fmt.Sprintf("history: Listen ; last sub-listener Close coinciding with an incoming connection (first byte %02x): base.Accept returned it (accepted=%d) but it was neither delivered nor closed", fb, base.accepted)
			}
			_ = cli.Close()
			_ = base.Close()
			synctest.Wait()
		})
		st.Case(true, fmt.Sprintf("%02x", fb), []string{"regress"}, func() string { return fmt.Sprintf("listen close||conn(%02x)", fb) })
		if fail != "" {
			t.Fatalf("C18: shared port: %s", fail)
		}
	}
}

// Fix 0eaeeb7, schedule dependent form. ListenHTTP registering on a mux that is
// just going idle (between checkIdle() and the deferred cleanup) while a
// connection for it is in flight: the cleanup used to close the new
// sub-listener's acceptChan under the parked dispatch goroutine ("send on
// closed channel", about once per 1e5 tries). Many tries with different
// delays; after every try the connection must have been closed (nobody accepts).
func TestVerifC18_Stress_ListenOnDyingMux(t *testing.T) {
	st := newVStats("TestVerifC18_Stress_ListenOnDyingMux")
	defer st.Flush()
	n := 30000
	if os.Getenv("VERIF_TIER") == "thorough" {
		n = 400000
	}
	if v := os.Getenv("VERIF_C18_PROBE_N"); v != "" {
		fmt.Sscanf(v, "%d", &n)
	}
	old, fresh := 0, 0
	for it := 0; it < n; it++ {
		var fail string
		synctest.Test(t, func(t *testing.T) {
			var mgr v18Mgr
			g := mgr.getOrCreate()
			sl, _ := g.mux.ListenSOCKS()
			cli, srv := v18NewPair("p", "127.0.0.1:40000", "127.0.0.1:1080")
			g.base.inject(srv)
			synctest.Wait()
			_ = sl.Close()
			x := 0
			for i := 0; i < (it%64)*8; i++ {
				x += i
			}
			_ = x
			g2 := mgr.getOrCreate()
			hl, err := g2.mux.ListenHTTP()
			_, _ = cli.Write([]byte("G"))
			synctest.Wait()
			if err == nil && g2 == g {
				old++
			} else {
				fresh++
			}
			if hl != nil {
				_ = hl.Close()
			}
			synctest.Wait()
			if !srv.IsClosed() {
				fail = fmt.Sprintf("history (try %d): ListenSOCKS ; conn accepted ; Close racing with ListenHTTP (on old mux: %v, err=%v) ; conn sends 'G' ; ListenHTTP's listener closed: connection neither delivered nor closed", it, g2 == g, err)
			}
			_ = cli.Close()
			for _, gg := range mgr.gens {
				_ = gg.base.Close()
			}
			synctest.Wait()
		})
		if fail != "" {
			t.Fatalf("C18: shared port: %s", fail)
		}
	}
	st.Case(true, "stress", []string{"stress"}, func() string {
		return fmt.Sprintf("%d tries: ListenHTTP landed on the old mux %d times, on a fresh one %d times", n, old, fresh)
	})
	st.Extra("tries", n)
	st.Extra("listen_on_old_mux", old)
}
