package socks5

// C18 — composition over the real shared port: proxymux.ListenSOCKS +
// proxymux.ListenHTTP on one loopback port, the real SOCKS5 and HTTP servers
// behind them, a mock outbound. Each client connection names its own target
// host, so every HyClient.TCP(addr) is attributable. Checked:
//   * a connection is served by the handler its first byte selects (a SOCKS5
//     client gets SOCKS5 replies, an HTTP client an HTTP status line) — implied
//     by a successful relay;
//   * the bytes behind the detection byte (rest of the negotiation + pipelined
//     payload) reach the upstream unmodified and in order: compared when the
//     upstream connection has been closed by the server after the client's
//     half-close, i.e. when the set of delivered bytes is final;
//   * unauthorised connections never cause TCP() for their host (log predicate
//     at the end of the case, after every connection was closed by the server).
// Real sockets: every wait is a liveness wait with a generous deadline and
// ends in vInconclusive on expiry.

import (
	"bytes"
	"encoding/base64"
	"fmt"
	"io"
	"net"
	"strings"
	"sync"
	"sync/atomic"
	"testing"
	"time"

	apphttp "github.com/apernet/hysteria/app/v2/internal/http"
	"github.com/apernet/hysteria/app/v2/internal/proxymux"
	"github.com/apernet/hysteria/core/v2/client"
	"pgregory.net/rapid"
)

var v18ECase atomic.Int64

type v18EUp struct {
	addr   string
	origin *v18Conn
}

type v18EHy struct {
	mu  sync.Mutex
	ups []*v18EUp
}

func (h *v18EHy) TCP(addr string) (net.Conn, error) {
	org, srv := v18NewPair("e2e:"+addr, "192.0.2.1:7", "10.255.0.1:50000")
	h.mu.Lock()
	h.ups = append(h.ups, &v18EUp{addr: addr, origin: org})
	h.mu.Unlock()
	return srv, nil
}
func (h *v18EHy) UDP() (client.HyUDPConn, error) { return nil, fmt.Errorf("not used") }
func (h *v18EHy) Close() error                    { return nil }

func (h *v18EHy) forHost(host string) []*v18EUp {
	h.mu.Lock()
	defer h.mu.Unlock()
	var out []*v18EUp
	for _, u := range h.ups {
		if strings.HasPrefix(u.addr, host+":") {
			out = append(out, u)
		}
	}
	return out
}

type v18EConn struct {
	proto   string // socks http
	right   bool
	payload []byte
	cuts    []int
	host    string
	stream  []byte
	frame   string // HTTP CONNECT only: extra framing headers; the bytes behind the head are tunnel data regardless
}

func (e *v18EConn) String() string {
	return fmt.Sprintf("{%s right=%v host=%s stream=%d bytes payload=%d cuts=%v frame=%q}", e.proto, e.right, e.host, len(e.stream), len(e.payload), e.cuts, e.frame)
}

func TestVerifC18_SharedPortE2E(t *testing.T) {
	st := newVStats("TestVerifC18_SharedPortE2E")
	defer st.Flush()
	rapid.Check(t, func(rt *rapid.T) {
		const user, pass = "e2e-user", "e2e:pass"
		n := rapid.IntRange(1, 4).Draw(rt, "nconns")
		var conns []*v18EConn
		var fp strings.Builder
		classes := []string{}
		for i := 0; i < n; i++ {
			e := &v18EConn{host: fmt.Sprintf("e%d.shared.test", i)}
			e.proto = rapid.SampledFrom([]string{"socks", "http"}).Draw(rt, "proto")
			e.right = rapid.IntRange(0, 2).Draw(rt, "right") > 0
			e.payload = v18Bytes(rapid.SampledFrom([]int{0, 1, 5, 300, 6000}).Draw(rt, "payloadLen"), uint32(rapid.IntRange(0, 1000).Draw(rt, "seed")))
			p := pass
			if !e.right {
				p = pass + "x"
			}
			if e.proto == "socks" {
				b := []byte{5, 2, 0, 2, 1, byte(len(user))}
				b = append(b, user...)
				b = append(b, byte(len(p)))
				b = append(b, p...)
				b = append(b, 5, 1, 0, 3, byte(len(e.host)))
				b = append(b, e.host...)
				b = append(b, 0x01, 0xbb)
				e.stream = append(b, e.payload...)
			} else {
				switch rapid.IntRange(0, 5).Draw(rt, "frame") {
				case 0:
					e.frame = fmt.Sprintf("Content-Length: %d\r\n", len(e.payload))
				case 1:
					e.frame = fmt.Sprintf("Content-Length: %d\r\n", (len(e.payload)+1)/2)
				case 2:
					e.frame = "Transfer-Encoding: chunked\r\n"
					e.payload = append([]byte("3\r\nabc\r\n0\r\n\r\n"), e.payload...) // looks like a chunked body; it is tunnel data
				}
				h := fmt.Sprintf("CONNECT %s:443 HTTP/1.1\r\nHost: %s:443\r\n%sProxy-Authorization: Basic %s\r\n\r\n", e.host, e.host, e.frame, base64.StdEncoding.EncodeToString([]byte(user+":"+p)))
				e.stream = append([]byte(h), e.payload...)
			}
			switch rapid.IntRange(0, 3).Draw(rt, "chunking") {
			case 1:
				e.cuts = []int{1} // the detection byte alone
			case 2:
				e.cuts = []int{1, 2, 3}
			case 3:
				e.cuts = rapid.SliceOfN(rapid.IntRange(1, len(e.stream)-1), 1, 4).Draw(rt, "cuts")
			}
			conns = append(conns, e)
			fmt.Fprintf(&fp, "%s/%v/%d/%v/%s|", e.proto, e.right, len(e.payload), e.cuts, e.frame)
			classes = append(classes, e.proto, fmt.Sprintf("right:%v", e.right))
			if e.frame != "" {
				classes = append(classes, "connect-framing-headers")
			}
		}
		concurrent := rapid.Bool().Draw(rt, "concurrent")
		st.Case(true, fp.String(), classes, func() string { return fmt.Sprint(conns) })

		// a fresh manager key per case: the previous case's mux may still be shutting down
		k := v18ECase.Add(1)
		key := fmt.Sprintf("127.18.%d.%d:0", (k/250)%250, k%250+1)
		sl, err := proxymux.ListenSOCKS(key)
		if err != nil {
			vInconclusive("C18 e2e: ListenSOCKS: " + err.Error())
		}
		hl, err := proxymux.ListenHTTP(key)
		if err != nil {
			vInconclusive("C18 e2e: ListenHTTP: " + err.Error())
		}
		addr := sl.Addr().String()
		hy := &v18EHy{}
		auth := func(u, p string) bool { return u == user && p == pass }
		ss := &Server{HyClient: hy, AuthFunc: auth, DisableUDP: true}
		hs := &apphttp.Server{HyClient: hy, AuthFunc: auth}
		var wg sync.WaitGroup
		wg.Add(2)
		go func() { defer wg.Done(); _ = ss.Serve(sl) }()
		go func() { defer wg.Done(); _ = hs.Serve(hl) }()

		var mu sync.Mutex
		var viol string
		fail := func(f string, a ...any) {
			mu.Lock()
			if viol == "" {
				viol = fmt.Sprintf(f, a...)
			}
			mu.Unlock()
		}
		run := func(i int, e *v18EConn) {
			c, err := net.DialTimeout("tcp", addr, 20*time.Second)
			if err != nil {
				vInconclusive("C18 e2e: dial: " + err.Error())
			}
			defer c.Close()
			tc := c.(*net.TCPConn)
			_ = tc.SetNoDelay(true)
			var back bytes.Buffer
			rdDone := make(chan struct{})
			go func() {
				defer close(rdDone)
				_, _ = io.Copy(&back, c)
			}()
			prev := 0
			for _, q := range append(v18SortedUnique(e.cuts), len(e.stream)) {
				if q > prev {
					if _, err := c.Write(e.stream[prev:q]); err != nil {
						break // the server may legitimately have closed on us (wrong credentials)
					}
					prev = q
				}
			}
			if e.right {
				var ups []*v18EUp
				closedByServer := func() bool {
					select {
					case <-rdDone:
						return true
					default:
						return false
					}
				}
				if !v18WaitUntil(v18Patience, func() bool { ups = hy.forHost(e.host); return len(ups) > 0 || closedByServer() }) {
					vInconclusive("C18 e2e: no upstream for an authorised connection")
				}
				if ups = hy.forHost(e.host); len(ups) == 0 {
					select {
					case <-rdDone:
						if e.frame != "" {
							return // refused before dialling: nothing to assert about forwarding
						}
						fail("conn%d %s: authorised CONNECT through the shared port was closed without an upstream; client received %q", i, e, back.String())
						return
					default:
						vInconclusive("C18 e2e: no upstream for an authorised connection")
					}
				}
				up := ups[0]
				_ = tc.CloseWrite()
				var got []byte
				// the server closes the upstream once the client->upstream copy saw EOF
				if !v18WaitUntil(v18Patience, func() bool { got = append(got, up.origin.Drain()...); return up.origin.PeerClosed() }) {
					vInconclusive("C18 e2e: upstream not closed after the client's half-close")
				}
				got = append(got, up.origin.Drain()...)
				if !bytes.Equal(got, e.payload) {
					fail("conn%d %s: upstream received %s, client pipelined %s behind the negotiation", i, e, v18Hex(got), v18Hex(e.payload))
				}
			}
			_ = c.SetReadDeadline(time.Now().Add(v18Patience))
			select {
			case <-rdDone:
			case <-time.After(v18Patience):
				vInconclusive("C18 e2e: server never closed the connection")
			}
			if e.right {
				b := back.Bytes()
				if e.proto == "socks" {
					if len(b) < 2 || b[0] != 5 || b[1] != 2 {
						fail("conn%d %s: SOCKS5 client on the shared port received %s", i, e, v18Hex(b))
					}
				} else if !bytes.HasPrefix(b, []byte("HTTP/1.1 200")) {
					fail("conn%d %s: HTTP client on the shared port received %q", i, e, string(b))
				}
			}
		}
		if concurrent {
			var cw sync.WaitGroup
			for i, e := range conns {
				cw.Add(1)
				go func() { defer cw.Done(); run(i, e) }()
			}
			cw.Wait()
		} else {
			for i, e := range conns {
				run(i, e)
			}
		}
		_ = sl.Close()
		_ = hl.Close()
		wg.Wait()
		hy.mu.Lock()
		for _, u := range hy.ups {
			_ = u.origin.Close()
		}
		hy.mu.Unlock()
		// every connection has been closed by its server: the log is final
		for i, e := range conns {
			ups := hy.forHost(e.host)
			if !e.right && len(ups) > 0 {
				fail("conn%d %s: upstream TCP(%q) opened for a client that presented wrong credentials", i, e, ups[0].addr)
			}
			if len(ups) > 1 {
				fail("conn%d %s: %d upstream connections for one CONNECT", i, e, len(ups))
			}
		}
		if viol != "" {
			rt.Fatalf("C18: shared port e2e: %s\ncase: %v concurrent=%v", viol, conns, concurrent)
		}
	})
}
