package socks5

// C18 — SOCKS5 inbound: no upstream TCP()/UDP() before accepted credentials,
// and a relayed CONNECT carries the pipelined bytes intact in both directions.
//
// The per-connection handler (*Server).dispatch is driven over an in-memory
// duplex (c18_conn_test.go) with arbitrary chunking, zero-length writes and
// lock-step or fire-and-forget clients. Oracles:
//   (1) event-log predicate: every TCP()/UDP() of a connection is preceded by an
//       AuthFunc(...)==true verdict of that same connection;
//   (2) reference parse of the client's byte stream (RFC 1928/1929, written
//       here, permissive): an upstream call implies that the stream carried the
//       configured credentials in the sub-negotiation and that AuthFunc was
//       called with exactly those;
//   (3) for well-formed authorised CONNECTs: upstream receives exactly the
//       pipelined bytes; the client receives the RFC replies followed by
//       exactly the bytes the upstream wrote.
// All verdicts are taken at exact quiescent points (handler returned / copy
// loop parked in Read); wall-clock expiry is only ever "inconclusive".

import (
	"bytes"
	"fmt"
	"io"
	"net"
	"strings"
	"sync"
	"testing"

	"github.com/apernet/hysteria/core/v2/client"
	"pgregory.net/rapid"
)

// ---------------------------------------------------------------- mock outbound

type v18Up struct {
	addr   string
	phase  int
	origin *v18Conn // harness side of the upstream connection
}

type v18UDPSess struct {
	once   sync.Once
	closed chan struct{}
}

func (u *v18UDPSess) Receive() ([]byte, string, error) {
	<-u.closed
	return nil, "", io.EOF
}
func (u *v18UDPSess) Send([]byte, string) error { return nil }
func (u *v18UDPSess) Close() error {
	u.once.Do(func() { close(u.closed) })
	return nil
}

type v18Hy struct {
	log  *v18Log
	mu   sync.Mutex
	ups  []*v18Up
	udps []*v18UDPSess
}

func (h *v18Hy) TCP(addr string) (net.Conn, error) {
	h.log.add("tcp", addr, "", false)
	org, srv := v18NewPair("up:"+addr, "192.0.2.1:7", "10.255.0.1:50000")
	h.log.mu.Lock()
	ph := h.log.phase
	h.log.mu.Unlock()
	h.mu.Lock()
	h.ups = append(h.ups, &v18Up{addr: addr, phase: ph, origin: org})
	h.mu.Unlock()
	return srv, nil
}

func (h *v18Hy) UDP() (client.HyUDPConn, error) {
	h.log.add("udp", "", "", false)
	u := &v18UDPSess{closed: make(chan struct{})}
	h.mu.Lock()
	h.udps = append(h.udps, u)
	h.mu.Unlock()
	return u, nil
}

func (h *v18Hy) Close() error { return nil }

func (h *v18Hy) upFor(phase int) *v18Up {
	h.mu.Lock()
	defer h.mu.Unlock()
	for _, u := range h.ups {
		if u.phase == phase {
			return u
		}
	}
	return nil
}

// ---------------------------------------------------------------- case description

const (
	v18SubNone = iota
	v18SubRight
	v18SubWrongPass
	v18SubWrongUser
	v18SubSwapped
	v18SubEmptyUser
	v18SubEmptyPass
	v18SubPassPrefix
	v18SubPassExtended
	v18SubCaseFlip
	v18SubBadVer // right credentials, sub-negotiation version byte != 1
)

var v18SubNames = []string{"none", "right", "wrongpass", "wronguser", "swapped", "emptyuser", "emptypass", "passprefix", "passext", "caseflip", "badver"}

type v18Mut struct {
	kind string // none flip trunc ins del
	pos  int
	val  byte
}

type v18Cut struct {
	pos  int
	kind int // 0 plain, 1 zero-length write first, 2 pause until the server is parked in Read
}

type v18SConn struct {
	greetVer   byte
	methods    []byte
	nmOverride int // -1: len(methods)
	sub        int
	subVer     byte
	user, pass string // as presented
	cmd        byte
	rsv        byte
	atyp       byte
	addr       []byte // raw DST.ADDR field (with length octet for domains)
	port       uint16
	payload    []byte // pipelined behind the request, same stream
	later      []byte // sent after the relay is up
	down       []byte // written by the upstream
	downCuts   []int
	mut        v18Mut
	cuts       []v18Cut
	endClose   bool // end with Close instead of CloseWrite

	// derived
	greet, subneg, req []byte
	stream             []byte // final client byte stream (negotiation + payload), after mutation
	negLen             int    // length of the negotiation part inside stream
}

type v18SCase struct {
	authOn     bool
	disableUDP bool
	user, pass string // configured
	conns      []*v18SConn
}

func v18Bytes(n int, seed uint32) []byte {
	b := make([]byte, n)
	x := seed*2654435761 + 97
	for i := range b {
		x = x*1664525 + 1013904223
		b[i] = byte(x >> 24)
	}
	// make the stream look like protocol bytes now and then
	if n >= 4 && seed%3 == 0 {
		copy(b, []byte{5, 1, 0, 1})
	}
	return b
}

func v18Word(rt *rapid.T, label string) string {
	k := rapid.IntRange(0, 11).Draw(rt, label+"Kind")
	switch {
	case k == 0:
		return strings.Repeat("L", 255)
	case k == 1:
		return "a"
	case k == 2:
		return "pa:ss word\x00\xff"
	case k == 3, k == 4:
		return "lowercase"
	case k == 5, k == 6:
		return "UPPER"
	}
	n := rapid.IntRange(1, 8).Draw(rt, label+"Len")
	const al = "abcXYZ019:_ "
	b := make([]byte, n)
	for i := range b {
		b[i] = al[rapid.IntRange(0, len(al)-1).Draw(rt, label)]
	}
	return string(b)
}

var v18MethodPresets = [][]byte{{2}, {0}, {0, 2}, {2, 0}, {1, 2}, {0, 1, 0x80}, {0xff}, {}, {2, 2, 2}, {0, 0}}

func v18GenSConn(rt *rapid.T, c *v18SCase, idx int) *v18SConn {
	s := &v18SConn{greetVer: 5, nmOverride: -1, subVer: 1}
	// greeting
	if rapid.IntRange(0, 19).Draw(rt, "greetVerMut") == 0 {
		s.greetVer = rapid.Byte().Draw(rt, "greetVer")
	}
	mk := rapid.IntRange(0, len(v18MethodPresets)+1).Draw(rt, "methodsKind")
	if mk < len(v18MethodPresets) {
		s.methods = append([]byte(nil), v18MethodPresets[mk]...)
	} else {
		s.methods = rapid.SliceOfN(rapid.SampledFrom([]byte{0, 1, 2, 3, 0x80, 0xff}), 1, 6).Draw(rt, "methods")
	}
	if rapid.IntRange(0, 24).Draw(rt, "nmMut") == 0 {
		s.nmOverride = rapid.IntRange(0, 8).Draw(rt, "nmethods")
	}
	// sub-negotiation
	if c.authOn {
		w := rapid.IntRange(0, 99).Draw(rt, "subKind")
		switch {
		case w < 35:
			s.sub = v18SubRight
		case w < 48:
			s.sub = v18SubNone
		case w < 56:
			s.sub = v18SubWrongPass
		case w < 61:
			s.sub = v18SubWrongUser
		case w < 65:
			s.sub = v18SubSwapped
		case w < 68:
			s.sub = v18SubEmptyUser
		case w < 71:
			s.sub = v18SubEmptyPass
		case w < 76:
			s.sub = v18SubPassPrefix
		case w < 80:
			s.sub = v18SubPassExtended
		case w < 92:
			s.sub = v18SubCaseFlip
		default:
			s.sub = v18SubBadVer
		}
	} else {
		if rapid.IntRange(0, 9).Draw(rt, "subAnyway") == 0 {
			s.sub = v18SubRight
		}
	}
	s.user, s.pass = c.user, c.pass
	switch s.sub {
	case v18SubWrongPass:
		s.pass = c.pass + "!"
		if len(s.pass) > 255 {
			s.pass = "!"
		}
	case v18SubWrongUser:
		s.user = "x" + c.user
		if len(s.user) > 255 {
			s.user = "x"
		}
	case v18SubSwapped:
		s.user, s.pass = c.pass, c.user
	case v18SubEmptyUser:
		s.user = ""
	case v18SubEmptyPass:
		s.pass = ""
	case v18SubPassPrefix:
		s.pass = c.pass[:len(c.pass)-1]
	case v18SubPassExtended:
		if len(c.pass) < 255 {
			s.pass = c.pass + c.pass[len(c.pass)-1:]
		} else {
			s.pass = c.pass[1:]
		}
	case v18SubCaseFlip:
		flip := func(x string) string {
			if y := strings.ToUpper(x); y != x {
				return y
			}
			return strings.ToLower(x)
		}
		if rapid.Bool().Draw(rt, "flipUser") {
			s.user = flip(c.user)
		} else {
			s.pass = flip(c.pass)
		}
	case v18SubBadVer:
		s.subVer = rapid.SampledFrom([]byte{0, 2, 5, 0xff}).Draw(rt, "subVer")
	}
	// request
	cw := rapid.IntRange(0, 9).Draw(rt, "cmdKind")
	switch {
	case cw < 6:
		s.cmd = 1
	case cw < 8:
		s.cmd = 3
	case cw < 9:
		s.cmd = 2
	default:
		s.cmd = rapid.Byte().Draw(rt, "cmd")
	}
	if rapid.IntRange(0, 9).Draw(rt, "rsvMut") == 0 {
		s.rsv = rapid.Byte().Draw(rt, "rsv")
	}
	aw := rapid.IntRange(0, 19).Draw(rt, "atypKind")
	switch {
	case aw < 6:
		s.atyp = 1
		s.addr = []byte{10, byte(idx), 3, byte(rapid.IntRange(0, 255).Draw(rt, "ip4"))}
	case aw < 10:
		s.atyp = 4
		s.addr = v18Bytes(16, uint32(rapid.IntRange(0, 1000).Draw(rt, "ip6")))
	case aw < 18:
		s.atyp = 3
		dk := rapid.IntRange(0, 9).Draw(rt, "domKind")
		dom := fmt.Sprintf("c%d.socks.test", idx)
		if dk == 0 {
			dom = "x"
		} else if dk == 1 {
			dom = strings.Repeat("d", 255)
		}
		s.addr = append([]byte{byte(len(dom))}, dom...)
	case aw < 19:
		s.atyp = 3
		s.addr = []byte{0} // zero-length domain (RFC: 1..255)
	default:
		s.atyp = rapid.SampledFrom([]byte{0, 2, 5, 0x7f, 0xff}).Draw(rt, "atyp")
		s.addr = v18Bytes(rapid.IntRange(0, 6).Draw(rt, "junkAddrLen"), 5)
	}
	s.port = uint16(rapid.IntRange(0, 65535).Draw(rt, "port"))
	// payloads
	pl := rapid.SampledFrom([]int{0, 0, 1, 2, 7, 64, 300, 5000}).Draw(rt, "payloadLen")
	s.payload = v18Bytes(pl, uint32(rapid.IntRange(0, 1<<20).Draw(rt, "payloadSeed")))
	s.later = v18Bytes(rapid.SampledFrom([]int{0, 1, 33, 700}).Draw(rt, "laterLen"), uint32(idx+77))
	dl := rapid.SampledFrom([]int{0, 1, 5, 100, 40000}).Draw(rt, "downLen")
	s.down = v18Bytes(dl, uint32(rapid.IntRange(0, 1<<20).Draw(rt, "downSeed")))
	if dl > 1 {
		s.downCuts = rapid.SliceOfN(rapid.IntRange(1, dl-1), 0, 3).Draw(rt, "downCuts")
	}
	s.endClose = rapid.Bool().Draw(rt, "endClose")

	// assemble
	nm := len(s.methods)
	if s.nmOverride >= 0 {
		nm = s.nmOverride
	}
	s.greet = append([]byte{s.greetVer, byte(nm)}, s.methods...)
	if s.sub != v18SubNone {
		s.subneg = append([]byte{s.subVer, byte(len(s.user))}, s.user...)
		s.subneg = append(s.subneg, byte(len(s.pass)))
		s.subneg = append(s.subneg, s.pass...)
	}
	s.req = append([]byte{5, s.cmd, s.rsv, s.atyp}, s.addr...)
	s.req = append(s.req, byte(s.port>>8), byte(s.port))
	neg := append(append(append([]byte(nil), s.greet...), s.subneg...), s.req...)

	// mutation of the negotiation bytes
	mw := rapid.IntRange(0, 99).Draw(rt, "mutKind")
	s.mut.kind = "none"
	if len(neg) > 0 {
		pos := rapid.IntRange(0, len(neg)-1).Draw(rt, "mutPos")
		val := rapid.Byte().Draw(rt, "mutVal")
		switch {
		case mw < 58:
		case mw < 75:
			if neg[pos] != val {
				s.mut = v18Mut{"flip", pos, val}
				neg[pos] = val
			}
		case mw < 88:
			s.mut = v18Mut{"trunc", pos, 0}
			neg = neg[:pos]
		case mw < 94:
			s.mut = v18Mut{"ins", pos, val}
			neg = append(neg[:pos:pos], append([]byte{val}, neg[pos:]...)...)
		default:
			s.mut = v18Mut{"del", pos, 0}
			neg = append(neg[:pos:pos], neg[pos+1:]...)
		}
	}
	s.negLen = len(neg)
	s.stream = neg
	if s.mut.kind != "trunc" {
		s.stream = append(append([]byte(nil), neg...), s.payload...)
	}

	// chunking of the stream
	n := len(s.stream)
	ck := rapid.IntRange(0, 5).Draw(rt, "chunking")
	var pts []int
	switch {
	case n < 2 || ck == 0:
	case ck == 1: // every byte of the negotiation, payload in one piece
		for i := 1; i < n && i <= s.negLen; i++ {
			pts = append(pts, i)
		}
	case ck == 2: // around the section boundaries
		for _, b := range []int{len(s.greet), len(s.greet) + len(s.subneg), s.negLen} {
			for d := -1; d <= 1; d++ {
				if p := b + d; p > 0 && p < n {
					pts = append(pts, p)
				}
			}
		}
	default:
		pts = rapid.SliceOfN(rapid.IntRange(1, n-1), 1, 6).Draw(rt, "cutPts")
	}
	seen := map[int]bool{}
	for _, p := range pts {
		if !seen[p] {
			seen[p] = true
		}
	}
	for p := 1; p < n; p++ {
		if seen[p] {
			k := 0
			if len(pts) <= 12 || p%7 == 0 {
				k = rapid.SampledFrom([]int{0, 0, 0, 1, 2, 2}).Draw(rt, "cutKind")
			}
			s.cuts = append(s.cuts, v18Cut{p, k})
		}
	}
	return s
}

func v18GenSCase(rt *rapid.T) *v18SCase {
	c := &v18SCase{}
	c.authOn = rapid.IntRange(0, 9).Draw(rt, "authOn") < 8
	c.disableUDP = rapid.IntRange(0, 3).Draw(rt, "disableUDP") == 0
	c.user = v18Word(rt, "cfgUser")
	c.pass = v18Word(rt, "cfgPass")
	if c.user == c.pass {
		c.pass += "2"
		if len(c.pass) > 255 {
			c.pass = "2"
		}
	}
	n := rapid.SampledFrom([]int{1, 1, 2, 2, 3}).Draw(rt, "nconns")
	for i := 0; i < n; i++ {
		c.conns = append(c.conns, v18GenSConn(rt, c, i))
	}
	return c
}

// clean: by construction a well-formed RFC 1928/1929 dialogue that the
// configured server has to serve.
func (s *v18SConn) clean(c *v18SCase) bool {
	if s.mut.kind != "none" || s.greetVer != 5 || s.nmOverride >= 0 || len(s.methods) == 0 || s.rsv != 0 {
		return false
	}
	if c.authOn {
		if bytes.IndexByte(s.methods, 2) < 0 || s.sub != v18SubRight {
			return false
		}
	} else {
		if bytes.IndexByte(s.methods, 0) < 0 || s.sub != v18SubNone {
			return false
		}
	}
	switch s.atyp {
	case 1, 4:
	case 3:
		if s.addr[0] == 0 {
			return false
		}
	default:
		return false
	}
	return true
}

func (s *v18SConn) String() string {
	var cuts []string
	for _, ct := range s.cuts {
		cuts = append(cuts, fmt.Sprintf("%d%s", ct.pos, []string{"", "z", "p"}[ct.kind]))
	}
	return fmt.Sprintf("{greet=%x sub=%s subneg=%s req=%x mut=%s@%d:%02x stream=%s neg=%d payload=%d later=%d down=%d cuts=[%s] endClose=%v}",
		s.greet, v18SubNames[s.sub], v18Hex(s.subneg), s.req, s.mut.kind, s.mut.pos, s.mut.val, v18Hex(s.stream), s.negLen, len(s.payload), len(s.later), len(s.down), strings.Join(cuts, ","), s.endClose)
}

func (c *v18SCase) String() string {
	var sb strings.Builder
	fmt.Fprintf(&sb, "auth=%v user=%q pass=%q disableUDP=%v", c.authOn, c.user, c.pass, c.disableUDP)
	for i, s := range c.conns {
		fmt.Fprintf(&sb, "\n  conn%d %s", i, s)
	}
	return sb.String()
}

// ---------------------------------------------------------------- reference parse (RFC 1928 / 1929)

type v18Ref struct {
	presented  bool // a username/password sub-negotiation can be read behind the greeting
	user, pass string
}

// v18RefParse reads the method list and, right behind it, a username/password
// sub-negotiation. It deliberately ignores version octets: the only use is
// "an upstream call implies the client really sent these credentials".
func v18RefParse(b []byte) v18Ref {
	var r v18Ref
	if len(b) < 2 {
		return r
	}
	off := 2 + int(b[1])
	if len(b) < off+2 {
		return r
	}
	ul := int(b[off+1])
	if len(b) < off+2+ul+1 {
		return r
	}
	u := b[off+2 : off+2+ul]
	pl := int(b[off+2+ul])
	if len(b) < off+2+ul+1+pl {
		return r
	}
	p := b[off+3+ul : off+3+ul+pl]
	r.presented, r.user, r.pass = true, string(u), string(p)
	return r
}

// ---------------------------------------------------------------- execution

func v18Done(ch chan struct{}) bool {
	select {
	case <-ch:
		return true
	default:
		return false
	}
}

// v18ParseReplies strips the RFC replies of a successful CONNECT from the
// bytes the client received and returns the rest.
func v18ParseReplies(b []byte, authOn bool) (rest []byte, err error) {
	want := byte(0)
	if authOn {
		want = 2
	}
	if len(b) < 2 || b[0] != 5 || b[1] != want {
		return nil, fmt.Errorf("method selection reply %s, want 05%02x", v18Hex(b[:min(len(b), 2)]), want)
	}
	b = b[2:]
	if authOn {
		if len(b) < 2 || b[0] != 1 || b[1] != 0 {
			return nil, fmt.Errorf("sub-negotiation reply %s, want 0100", v18Hex(b[:min(len(b), 2)]))
		}
		b = b[2:]
	}
	if len(b) < 4 || b[0] != 5 || b[1] != 0 {
		return nil, fmt.Errorf("CONNECT reply %s, want 0500...", v18Hex(b[:min(len(b), 4)]))
	}
	n := 0
	switch b[3] {
	case 1:
		n = 4
	case 4:
		n = 16
	case 3:
		if len(b) < 5 {
			return nil, fmt.Errorf("CONNECT reply truncated")
		}
		n = 1 + int(b[4])
	default:
		return nil, fmt.Errorf("CONNECT reply has address type %d", b[3])
	}
	if len(b) < 4+n+2 {
		return nil, fmt.Errorf("CONNECT reply truncated: %s", v18Hex(b))
	}
	return b[4+n+2:], nil
}

// v18RunSConn drives one connection; returns a violation text or "".
func v18RunSConn(c *v18SCase, s *v18SConn, idx int, srv *Server, hy *v18Hy, log *v18Log) string {
	log.setPhase(idx)
	cli, sc := v18NewPair(fmt.Sprintf("c%d", idx), fmt.Sprintf("127.0.0.1:%d", 40000+idx), "127.0.0.1:1080")
	done := make(chan struct{})
	go func() {
		defer close(done)
		srv.dispatch(sc)
	}()
	parked := func() bool { return cli.PeerIdle() || v18Done(done) }

	// send the stream in the drawn chunks
	prev := 0
	for _, ct := range append(append([]v18Cut(nil), s.cuts...), v18Cut{len(s.stream), 0}) {
		if ct.pos > prev {
			_, _ = cli.Write(s.stream[prev:ct.pos])
			prev = ct.pos
		}
		if ct.pos == len(s.stream) {
			break
		}
		switch ct.kind {
		case 1:
			_, _ = cli.Write(nil)
		case 2:
			if !v18WaitUntil(v18Patience, parked) {
				vInconclusive("C18 socks: server neither parked in Read nor finished after a partial stream")
			}
		}
	}

	clean := s.clean(c)
	expectRelay := clean && s.cmd == 1
	finish := func() {
		if s.endClose {
			_ = cli.Close()
		} else {
			_ = cli.CloseWrite()
		}
		if !v18WaitUntil(v18Patience, func() bool { return v18Done(done) }) {
			vInconclusive("C18 socks: handler did not return after the client closed")
		}
		_ = cli.Close()
	}

	var viol string
	if expectRelay {
		var up *v18Up
		if !v18WaitUntil(v18Patience, func() bool { up = hy.upFor(idx); return up != nil || v18Done(done) }) {
			vInconclusive("C18 socks: neither upstream call nor handler return")
		}
		if up == nil {
			up = hy.upFor(idx)
		}
		if up == nil {
			viol = fmt.Sprintf("well-formed authorised CONNECT was not relayed (handler returned without HyClient.TCP); client received %s", v18Hex(cli.Drain()))
		}
		var got, back []byte
		check := func(want []byte, what string) string {
			if !v18WaitUntil(v18Patience, parked) {
				vInconclusive("C18 socks: client->upstream copy loop never parked")
			}
			got = append(got, up.origin.Drain()...)
			if !bytes.Equal(got, want) {
				return fmt.Sprintf("%s: upstream received %s, client pipelined %s", what, v18Hex(got), v18Hex(want))
			}
			return ""
		}
		if viol == "" {
			viol = check(s.payload, "bytes pipelined behind the SOCKS5 request")
		}
		if viol == "" {
			// upstream -> client
			pcuts := append(append([]int(nil), s.downCuts...), len(s.down))
			p := 0
			for _, q := range v18SortedUnique(pcuts) {
				if q > p {
					_, _ = up.origin.Write(s.down[p:q])
					p = q
				}
			}
			if !v18WaitUntil(v18Patience, func() bool { return up.origin.PeerIdle() || v18Done(done) }) {
				vInconclusive("C18 socks: upstream->client copy loop never parked")
			}
			back = append(back, cli.Drain()...)
			rest, err := v18ParseReplies(back, c.authOn)
			if err != nil {
				viol = "successful CONNECT: " + err.Error()
			} else if !bytes.Equal(rest, s.down) {
				viol = fmt.Sprintf("client received %s behind the replies, upstream wrote %s", v18Hex(rest), v18Hex(s.down))
			}
		}
		if viol == "" && len(s.later) > 0 {
			_, _ = cli.Write(s.later)
			viol = check(append(append([]byte(nil), s.payload...), s.later...), "bytes sent after the relay was up")
		}
		if viol == "" && v18Done(done) {
			viol = "relay ended although neither side closed"
		}
	}
	if clean || !s.endClose {
		// let the server consume the whole stream first (a full Close before that makes its
		// replies fail, which legitimately aborts the dialogue)
		if !v18WaitUntil(v18Patience, parked) {
			vInconclusive("C18 socks: server neither parked in Read nor finished after the full stream")
		}
	}
	finish()

	// gating, evaluated after the handler returned: the log is final for this connection
	ref := v18RefParse(s.stream)
	evs := log.snapshot()
	authTrue := false
	var authArgsOK bool
	for _, e := range evs {
		if e.phase != idx {
			continue
		}
		switch e.kind {
		case "auth":
			if e.ok {
				authTrue = true
				authArgsOK = ref.presented && e.a == ref.user && e.b == ref.pass
			}
		case "tcp", "udp":
			if !c.authOn {
				continue
			}
			if !authTrue {
				return fmt.Sprintf("upstream %s opened before any accepted credentials on this connection", e)
			}
			if !ref.presented || ref.user != c.user || ref.pass != c.pass {
				return fmt.Sprintf("upstream %s opened although the client stream does not carry the configured credentials (reference parse: presented=%v %q/%q)", e, ref.presented, ref.user, ref.pass)
			}
			if !authArgsOK {
				return fmt.Sprintf("upstream %s opened after AuthFunc accepted credentials that are not the ones in the client stream", e)
			}
		}
	}
	if viol != "" {
		return viol
	}
	// (whether an authorised UDP ASSOCIATE actually gets its session depends on binding a real
	// UDP socket; only the gating direction is asserted for UDP)
	return ""
}

func v18SortedUnique(a []int) []int {
	m := map[int]bool{}
	var out []int
	for _, x := range a {
		if !m[x] {
			m[x] = true
			out = append(out, x)
		}
	}
	for i := 1; i < len(out); i++ {
		for j := i; j > 0 && out[j] < out[j-1]; j-- {
			out[j], out[j-1] = out[j-1], out[j]
		}
	}
	return out
}

func v18RunSCase(c *v18SCase) (string, *v18Log) {
	log := &v18Log{}
	hy := &v18Hy{log: log}
	srv := &Server{HyClient: hy, DisableUDP: c.disableUDP}
	if c.authOn {
		srv.AuthFunc = func(u, p string) bool {
			ok := u == c.user && p == c.pass
			log.add("auth", u, p, ok)
			return ok
		}
	}
	defer func() {
		hy.mu.Lock()
		for _, u := range hy.ups {
			_ = u.origin.Close()
		}
		hy.mu.Unlock()
	}()
	for i, s := range c.conns {
		if v := v18RunSConn(c, s, i, srv, hy, log); v != "" {
			return fmt.Sprintf("conn%d: %s", i, v), log
		}
	}
	return "", log
}

func TestVerifC18_Socks5Gate(t *testing.T) {
	st := newVStats("TestVerifC18_Socks5Gate")
	defer st.Flush()
	rapid.Check(t, func(rt *rapid.T) {
		c := v18GenSCase(rt)
		var fp strings.Builder
		classes := []string{}
		nt := false
		sawWrong := false
		fmt.Fprintf(&fp, "a%v/u%v", c.authOn, c.disableUDP)
		for _, s := range c.conns {
			clean := s.clean(c)
			fmt.Fprintf(&fp, "|m%x/s%d/v%d/c%d/t%d/%s%d/p%d/l%d/d%d/k%d", s.methods, s.sub, s.subVer, s.cmd, s.atyp, s.mut.kind, s.mut.pos, len(s.payload), len(s.later), len(s.down), len(s.cuts))
			cmdc := "other"
			if s.cmd >= 1 && s.cmd <= 3 {
				cmdc = []string{"", "connect", "bind", "udp"}[s.cmd]
			}
			classes = append(classes, "sub:"+v18SubNames[s.sub], "mut:"+s.mut.kind, "cmd:"+cmdc)
			if clean {
				classes = append(classes, "clean")
				if s.cmd == 1 {
					classes = append(classes, "clean-connect")
				}
				if sawWrong && c.authOn {
					classes = append(classes, "wrong-then-right")
					nt = true
				}
			} else if c.authOn {
				sawWrong = true
				nt = true
				if s.sub == v18SubNone && bytes.IndexByte(s.methods, 0) >= 0 {
					classes = append(classes, "attack:noauth-offered")
				}
			}
			if len(s.cuts) >= 2 {
				classes = append(classes, "chunks>=3")
				if clean && len(s.payload) > 0 {
					nt = true
				}
			}
			for _, ct := range s.cuts {
				if ct.kind == 1 {
					classes = append(classes, "zero-write")
					break
				}
			}
			for _, ct := range s.cuts {
				if ct.pos > s.negLen-4 && ct.pos < s.negLen && len(s.payload) > 0 {
					classes = append(classes, "payload-same-write-as-request-tail")
					break
				}
			}
		}
		if !c.authOn {
			classes = append(classes, "auth-off")
		}
		st.Case(nt, fp.String(), classes, c.String)
		viol, log := v18RunSCase(c)
		if viol != "" {
			rt.Fatalf("C18: SOCKS5: %s\ncase: %s\nlog: %s", viol, c, log)
		}
	})
}

// TestVerifC18_Socks5Regress pins a few hand-written attack streams (plain).
func TestVerifC18_Socks5Regress(t *testing.T) {
	st := newVStats("TestVerifC18_Socks5Regress")
	defer st.Flush()
	mk := func(methods []byte, subneg []byte, cmd byte) *v18SConn {
		s := &v18SConn{greetVer: 5, nmOverride: -1, subVer: 1, methods: methods, cmd: cmd, atyp: 1, mut: v18Mut{kind: "none"}}
		s.greet = append([]byte{5, byte(len(methods))}, methods...)
		s.subneg = subneg
		s.req = []byte{5, cmd, 0, 1, 10, 0, 0, 1, 0, 80}
		s.payload = []byte("GET / HTTP/1.0\r\n\r\n")
		s.stream = append(append(append(append([]byte(nil), s.greet...), subneg...), s.req...), s.payload...)
		s.negLen = len(s.stream) - len(s.payload)
		return s
	}
	sub := func(u, p string) []byte {
		b := append([]byte{1, byte(len(u))}, u...)
		b = append(b, byte(len(p)))
		return append(b, p...)
	}
	cases := []*v18SConn{
		mk([]byte{0}, nil, 1),                // offers only "no auth", then asks anyway
		mk([]byte{0, 2}, nil, 1),             // skips the sub-negotiation
		mk([]byte{2}, sub("u", "wrong"), 1),  // wrong password, request pipelined anyway
		mk([]byte{2}, sub("u", "wrong"), 3),  // same with UDP ASSOCIATE
		mk([]byte{2}, sub("u", "pw"), 1),     // right credentials
		mk([]byte{0, 2}, sub("u", "pw"), 3),  // right credentials, UDP
		mk([]byte{2}, sub("U", "pw"), 1),     // user differs in case
		mk([]byte{2}, sub("u", "pw\x00"), 1), // trailing NUL
	}
	for i, s := range cases {
		for _, every := range []bool{false, true} {
			s2 := *s
			s2.cuts = nil
			if every {
				for p := 1; p < len(s2.stream); p++ {
					s2.cuts = append(s2.cuts, v18Cut{p, p % 3})
				}
			}
			c := &v18SCase{authOn: true, user: "u", pass: "pw", conns: []*v18SConn{&s2}}
			s2.sub = v18SubNone
			if len(s2.subneg) > 0 {
				s2.sub = v18SubWrongPass
				if bytes.Equal(s2.subneg, sub("u", "pw")) {
					s2.sub = v18SubRight
				}
			}
			st.Case(true, fmt.Sprintf("%d/%v", i, every), []string{"regress"}, c.String)
			if viol, log := v18RunSCase(c); viol != "" {
				t.Fatalf("C18: SOCKS5: %s\ncase: %s\nlog: %s", viol, c, log)
			}
		}
	}
}
