package utils

// C19 (expression half) — a port expression denotes exactly the union of its
// listed ports and ranges.
//
// Oracles are independent of portunion.go: the expected set of a generated
// expression is known by construction (the generator fills a 65536-bit table
// while it renders the text), and arbitrary strings are classified by a
// reference grammar written from the documentation of the config field
// ("port", "a-b", comma separated, "all"/"*"):
//
//	union := "all" | "*" | item ("," item)*
//	item  := num | num "-" num          (either order)
//	num   := [0-9]+ with value <= 65535 (leading zeros allowed)
//
// Strings the grammar accepts must parse to exactly the denoted set; strings it
// clearly rejects (empty item, dangling/multiple dashes, value > 65535,
// letters/garbage) must be rejected; strings a lenient parser might reasonably
// accept (surrounding blanks, "+5", a wildcard inside a list) are "unknown":
// either rejected or — for blanks/plus — equal to the stripped reading.

import (
	"fmt"
	"regexp"
	"strings"
	"testing"

	"pgregory.net/rapid"
)

type v19Set [65536]bool

// Scratch tables reused across cases (rapid runs cases sequentially); fresh 64 KiB
// allocations per case made the run allocation-bound.
var v19Scratch [6]v19Set

func v19Fresh(i int) *v19Set {
	v19Scratch[i] = v19Set{}
	return &v19Scratch[i]
}

func (s *v19Set) addRange(lo, hi int) {
	if lo > hi {
		lo, hi = hi, lo
	}
	for p := lo; p <= hi; p++ {
		s[p] = true
	}
}

func (s *v19Set) count() int {
	n := 0
	for _, b := range s {
		if b {
			n++
		}
	}
	return n
}

// v19Ranges renders the set as maximal runs (for messages and boundary probes).
func (s *v19Set) ranges() [][2]int {
	var out [][2]int
	for p := 0; p < 65536; {
		if !s[p] {
			p++
			continue
		}
		q := p
		for q+1 < 65536 && s[q+1] {
			q++
		}
		out = append(out, [2]int{p, q})
		p = q + 1
	}
	return out
}

func v19RangesString(r [][2]int) string {
	var sb strings.Builder
	for i, x := range r {
		if i > 0 {
			sb.WriteByte(' ')
		}
		if i >= 12 {
			fmt.Fprintf(&sb, "…(%d runs)", len(r))
			break
		}
		fmt.Fprintf(&sb, "[%d,%d]", x[0], x[1])
	}
	return sb.String()
}

// ---------------------------------------------------------------- reference grammar

const (
	v19Valid = iota
	v19Invalid
	v19Unknown
)

var (
	v19ReNum   = regexp.MustCompile(`^[0-9]+$`)
	v19ReRange = regexp.MustCompile(`^([0-9]+)-([0-9]+)$`)
)

func v19RefNum(s string) (int, bool) {
	s = strings.TrimLeft(s, "0")
	if s == "" {
		return 0, true // all zeros
	}
	if len(s) > 5 {
		return 0, false
	}
	v := 0
	for _, c := range s {
		v = v*10 + int(c-'0')
	}
	return v, v <= 65535
}

// v19Ref classifies s and, when valid, returns the denoted set.
func v19Ref(s string) (int, *v19Set) { return v19RefInto(s, 1) }

func v19RefInto(s string, slot int) (int, *v19Set) {
	set := v19Fresh(slot)
	if s == "all" || s == "*" {
		set.addRange(0, 65535)
		return v19Valid, set
	}
	if strings.ContainsAny(s, " \t\n\r\v\f+") {
		return v19Unknown, nil
	}
	toks := strings.Split(s, ",")
	status := v19Valid
	for _, tok := range toks {
		switch {
		case tok == "all" || tok == "*":
			if status == v19Valid {
				status = v19Unknown // wildcard as a list item: a parser may or may not take it
			}
		case v19ReNum.MatchString(tok):
			v, ok := v19RefNum(tok)
			if !ok {
				status = v19Invalid
			} else {
				set.addRange(v, v)
			}
		case v19ReRange.MatchString(tok):
			m := v19ReRange.FindStringSubmatch(tok)
			a, ok1 := v19RefNum(m[1])
			b, ok2 := v19RefNum(m[2])
			if !ok1 || !ok2 {
				status = v19Invalid
			} else {
				set.addRange(a, b)
			}
		default:
			status = v19Invalid
		}
	}
	if status != v19Valid {
		return status, nil
	}
	return v19Valid, set
}

// ---------------------------------------------------------------- oracle on a parsed union

func v19SafeParse(s string) (u PortUnion, perr error) {
	defer func() {
		if r := recover(); r != nil {
			perr = fmt.Errorf("panic: %v", r)
		}
	}()
	return ParsePortUnion(s), nil
}

// v19CheckUnion: u must denote exactly want, be normalised, and Contains/Ports must agree with it.
func v19CheckUnion(u PortUnion, want *v19Set, fullContains bool, probes []int) error {
	if u == nil {
		return fmt.Errorf("rejected (nil), want %s", v19RangesString(want.ranges()))
	}
	// normal form: sorted, Start<=End, disjoint, not adjacent
	for i, r := range u {
		if r.Start > r.End {
			return fmt.Errorf("range %d is [%d,%d]: Start > End", i, r.Start, r.End)
		}
		if i > 0 {
			prev := u[i-1]
			if int(r.Start) <= int(prev.End) {
				return fmt.Errorf("ranges %d [%d,%d] and %d [%d,%d] overlap or are out of order", i-1, prev.Start, prev.End, i, r.Start, r.End)
			}
			if int(r.Start) == int(prev.End)+1 {
				return fmt.Errorf("ranges %d [%d,%d] and %d [%d,%d] are adjacent (not merged)", i-1, prev.Start, prev.End, i, r.Start, r.End)
			}
		}
	}
	// the ranges themselves as a set
	wr := want.ranges()
	if len(wr) != len(u) {
		return fmt.Errorf("union %v has %d ranges, the denoted set is %s", u, len(u), v19RangesString(wr))
	}
	for i := range wr {
		if int(u[i].Start) != wr[i][0] || int(u[i].End) != wr[i][1] {
			return fmt.Errorf("range %d is [%d,%d], the denoted set has [%d,%d] there (%s)", i, u[i].Start, u[i].End, wr[i][0], wr[i][1], v19RangesString(wr))
		}
	}
	// Ports(): every port of the set exactly once, ascending
	ports := u.Ports()
	got := v19Fresh(2)
	for i, p := range ports {
		if got[p] {
			return fmt.Errorf("Ports() lists %d twice", p)
		}
		got[p] = true
		if i > 0 && ports[i-1] >= p {
			return fmt.Errorf("Ports() not ascending at index %d (%d then %d)", i, ports[i-1], p)
		}
	}
	if *got != *want {
		for p := 0; p < 65536; p++ {
			if got[p] != want[p] {
				return fmt.Errorf("Ports() membership of %d is %v, want %v (|Ports|=%d, |set|=%d)", p, got[p], want[p], len(ports), want.count())
			}
		}
	}
	// Contains at all boundaries (+-1), the global ends, and extra probes
	chk := func(p int) error {
		if p < 0 || p > 65535 {
			return nil
		}
		if u.Contains(uint16(p)) != want[p] {
			return fmt.Errorf("Contains(%d)=%v, want %v", p, !want[p], want[p])
		}
		return nil
	}
	for _, r := range wr {
		for _, p := range []int{r[0] - 1, r[0], r[0] + 1, r[1] - 1, r[1], r[1] + 1} {
			if err := chk(p); err != nil {
				return err
			}
		}
	}
	for _, p := range append([]int{0, 1, 65534, 65535}, probes...) {
		if err := chk(p); err != nil {
			return err
		}
	}
	if fullContains {
		for p := 0; p < 65536; p++ {
			if err := chk(p); err != nil {
				return err
			}
		}
	}
	return nil
}

// ---------------------------------------------------------------- generator: valid by construction

type v19Item struct {
	lo, hi   int // lo <= hi
	reversed bool
	zl, zh   int // leading zeros on each number
	single   bool
}

func (it v19Item) text() string {
	num := func(v, z int) string { return strings.Repeat("0", z) + fmt.Sprint(v) }
	if it.single {
		return num(it.lo, it.zl)
	}
	if it.reversed {
		return num(it.hi, it.zh) + "-" + num(it.lo, it.zl)
	}
	return num(it.lo, it.zl) + "-" + num(it.hi, it.zh)
}

var v19Corners = []int{0, 1, 2, 79, 80, 81, 443, 1023, 1024, 9999, 10000, 32767, 32768, 65533, 65534, 65535}

func v19GenPort(t *rapid.T, label string) int {
	if rapid.IntRange(0, 2).Draw(t, label+"Corner") == 0 {
		return rapid.SampledFrom(v19Corners).Draw(t, label)
	}
	return rapid.IntRange(0, 65535).Draw(t, label)
}

func v19Clamp(v int) int {
	if v < 0 {
		return 0
	}
	if v > 65535 {
		return 65535
	}
	return v
}

// v19GenItems draws 1..max items; later items are biased to touch, overlap or
// sit inside earlier ones. Returns the items, the denoted set and class labels.
func v19GenItems(t *rapid.T, max int) ([]v19Item, *v19Set, map[string]bool) {
	n := rapid.IntRange(1, max).Draw(t, "nItems")
	items := make([]v19Item, 0, n)
	set := v19Fresh(0)
	cls := map[string]bool{}
	for i := 0; i < n; i++ {
		var it v19Item
		kind := rapid.IntRange(0, 9).Draw(t, "kind")
		if i == 0 && kind >= 4 && kind <= 7 {
			kind = rapid.IntRange(0, 3).Draw(t, "kind0")
		}
		width := func() int {
			if rapid.IntRange(0, 5).Draw(t, "wide") == 0 {
				return rapid.IntRange(0, 65535).Draw(t, "widthL")
			}
			return rapid.IntRange(0, 24).Draw(t, "width")
		}
		switch kind {
		case 0, 1: // single port
			p := v19GenPort(t, "p")
			it = v19Item{lo: p, hi: p, single: true}
		case 2, 3: // range (kind 3: written reversed)
			lo := v19GenPort(t, "lo")
			hi := v19Clamp(lo + width())
			it = v19Item{lo: lo, hi: hi, reversed: kind == 3}
		case 4: // adjacent above an earlier item
			ref := items[rapid.IntRange(0, len(items)-1).Draw(t, "ref")]
			if ref.hi == 65535 {
				it = v19Item{lo: 65535, hi: 65535, single: true}
			} else {
				lo := ref.hi + 1
				it = v19Item{lo: lo, hi: v19Clamp(lo + width())}
			}
		case 5: // adjacent below an earlier item
			ref := items[rapid.IntRange(0, len(items)-1).Draw(t, "ref")]
			if ref.lo == 0 {
				it = v19Item{lo: 0, hi: 0, single: true}
			} else {
				hi := ref.lo - 1
				it = v19Item{lo: v19Clamp(hi - width()), hi: hi}
			}
		case 6: // overlapping an earlier item (starts inside, may end beyond)
			ref := items[rapid.IntRange(0, len(items)-1).Draw(t, "ref")]
			lo := rapid.IntRange(ref.lo, ref.hi).Draw(t, "inside")
			it = v19Item{lo: lo, hi: v19Clamp(lo + width())}
		case 7: // starts below an earlier item and ends inside / exactly at its start or end
			ref := items[rapid.IntRange(0, len(items)-1).Draw(t, "ref")]
			hi := rapid.SampledFrom([]int{ref.lo, ref.hi, (ref.lo + ref.hi) / 2}).Draw(t, "endAt")
			it = v19Item{lo: v19Clamp(hi - width()), hi: hi}
		case 8: // the ends of the port space
			c := rapid.SampledFrom([][2]int{{0, 0}, {65535, 65535}, {65534, 65535}, {0, 1}, {65535, 65535}, {0, 65535}, {1, 65534}, {65533, 65534}}).Draw(t, "end")
			it = v19Item{lo: c[0], hi: c[1]}
		default: // degenerate range a-a
			p := v19GenPort(t, "p")
			it = v19Item{lo: p, hi: p}
		}
		if !it.single && rapid.IntRange(0, 3).Draw(t, "rev") == 0 {
			it.reversed = true
		}
		if rapid.IntRange(0, 4).Draw(t, "lz") == 0 {
			it.zl = rapid.IntRange(1, 4).Draw(t, "zl")
			it.zh = rapid.IntRange(0, 20).Draw(t, "zh")
			cls["leading-zeros"] = true
		}
		// classify against what is already in the set
		touch, overlap := false, false
		for p := it.lo; p <= it.hi; p++ {
			if set[p] {
				overlap = true
				break
			}
		}
		if (it.lo > 0 && set[it.lo-1]) || (it.hi < 65535 && set[it.hi+1]) {
			touch = true
		}
		if overlap {
			cls["overlap"] = true
		}
		if touch {
			cls["adjacent"] = true
		}
		if it.reversed && it.lo != it.hi {
			cls["reversed"] = true
		}
		if it.lo == 0 {
			cls["has-0"] = true
		}
		if it.hi == 65535 {
			cls["has-65535"] = true
		}
		set.addRange(it.lo, it.hi)
		items = append(items, it)
	}
	return items, set, cls
}

func v19Join(items []v19Item) string {
	parts := make([]string, len(items))
	for i, it := range items {
		parts[i] = it.text()
	}
	return strings.Join(parts, ",")
}

func v19ClassList(m map[string]bool) []string {
	var out []string
	for _, k := range []string{"overlap", "adjacent", "reversed", "has-0", "has-65535", "leading-zeros", "wildcard"} {
		if m[k] {
			out = append(out, k)
		}
	}
	return out
}

// TestVerifC19_ExprValid: expressions valid by construction denote exactly the constructed set.
func TestVerifC19_ExprValid(t *testing.T) {
	st := newVStats("TestVerifC19_ExprValid")
	defer st.Flush()
	rapid.Check(t, func(rt *rapid.T) {
		var expr string
		var want *v19Set
		var cls map[string]bool
		if rapid.IntRange(0, 49).Draw(rt, "wild") == 25 {
			expr = rapid.SampledFrom([]string{"all", "*"}).Draw(rt, "wildcard")
			want = v19Fresh(0)
			want.addRange(0, 65535)
			cls = map[string]bool{"wildcard": true, "has-0": true, "has-65535": true}
		} else {
			var items []v19Item
			items, want, cls = v19GenItems(rt, 8)
			expr = v19Join(items)
		}
		probes := rapid.SliceOfN(rapid.IntRange(0, 65535), 0, 16).Draw(rt, "probes")
		full := rapid.IntRange(0, 15).Draw(rt, "fullScan") == 7
		// the generator and the reference grammar must agree (two independent derivations of the expectation)
		if stt, ref := v19Ref(expr); stt != v19Valid || *ref != *want {
			rt.Fatalf("C19 harness self-check: reference grammar disagrees with the generator on %q", expr)
		}
		nt := cls["overlap"] || cls["adjacent"]
		st.Case(nt, expr, v19ClassList(cls), func() string {
			return fmt.Sprintf("%q -> %s", expr, v19RangesString(want.ranges()))
		})
		u, err := v19SafeParse(expr)
		if err != nil {
			rt.Fatalf("C19 expression %q: %v", expr, err)
		}
		if err := v19CheckUnion(u, want, full, probes); err != nil {
			rt.Fatalf("C19 expression %q (denotes %s): parsed to %v: %v", expr, v19RangesString(want.ranges()), u, err)
		}
	})
}

// ---------------------------------------------------------------- generator: mutated / arbitrary strings

func v19GenToken(t *rapid.T) (string, string) {
	num := func(label string) string {
		v := v19GenPort(t, label)
		return strings.Repeat("0", rapid.SampledFrom([]int{0, 0, 0, 1, 3}).Draw(t, label+"Z")) + fmt.Sprint(v)
	}
	over := func() string {
		return rapid.SampledFrom([]string{"65536", "65537", "65540", "70000", "99999", "100000", "131152", "655350", "4294967376", "4294967296", "18446744073709551696", "18446744073709551616", "000065536", "99999999999999999999999"}).Draw(t, "over")
	}
	switch rapid.IntRange(0, 21).Draw(t, "tok") {
	case 0, 1, 2, 3:
		return num("n"), "num"
	case 4, 5, 6:
		return num("a") + "-" + num("b"), "range"
	case 7:
		return over(), "overflow"
	case 8:
		if rapid.Bool().Draw(t, "side") {
			return over() + "-" + num("b"), "overflow"
		}
		return num("a") + "-" + over(), "overflow"
	case 9:
		return "", "empty-item"
	case 10:
		return rapid.SampledFrom([]string{"-", "--", "---"}).Draw(t, "dashes"), "dash-only"
	case 11:
		return num("a") + "-", "dangling-dash"
	case 12:
		return "-" + num("a"), "leading-dash"
	case 13:
		return num("a") + "-" + num("b") + "-" + num("c"), "triple-range"
	case 14:
		return num("a") + "--" + num("b"), "double-dash"
	case 15:
		return rapid.SampledFrom([]string{"all", "*"}).Draw(t, "w"), "wildcard-item"
	case 16: // garbage character spliced into a number
		s := num("a")
		g := rapid.SampledFrom([]string{"x", "a", "l", "O", "#", "!", "?", "@", "$", "%", "=", "~", "_", "e", "٣", "８"}).Draw(t, "g")
		i := rapid.IntRange(0, len(s)).Draw(t, "at")
		return s[:i] + g + s[i:], "garbage"
	case 17:
		return rapid.SampledFrom([]string{"http", "al", "alll", "all-5", "ALL", "**", "*-5", "any", "0x50", "1e3", "1.5", "８０"}).Draw(t, "word"), "garbage"
	case 18: // blanks (lenient class)
		s := num("a")
		b := rapid.SampledFrom([]string{" ", "\t", "  "}).Draw(t, "blank")
		switch rapid.IntRange(0, 2).Draw(t, "where") {
		case 0:
			return b + s, "blank"
		case 1:
			return s + b, "blank"
		default:
			return num("a") + b + "-" + b + num("b"), "blank"
		}
	case 19:
		return "+" + num("a"), "plus"
	case 20:
		return rapid.StringOfN(rapid.SampledFrom([]rune("0123456789,-*al x+")), 0, 8, -1).Draw(t, "soup"), "soup"
	default:
		return num("a") + "-" + num("a2"), "range"
	}
}

// TestVerifC19_ExprStrings: token-level mutations and arbitrary short strings, judged by the reference grammar.
func TestVerifC19_ExprStrings(t *testing.T) {
	st := newVStats("TestVerifC19_ExprStrings")
	defer st.Flush()
	rapid.Check(t, func(rt *rapid.T) {
		n := rapid.IntRange(1, 5).Draw(rt, "nTok")
		toks := make([]string, n)
		kinds := map[string]bool{}
		for i := range toks {
			var k string
			toks[i], k = v19GenToken(rt)
			kinds[k] = true
		}
		expr := strings.Join(toks, ",")
		status, want := v19Ref(expr)
		var cls []string
		switch status {
		case v19Valid:
			cls = append(cls, "ref-valid")
		case v19Invalid:
			cls = append(cls, "ref-invalid")
		default:
			cls = append(cls, "ref-unknown")
		}
		for _, k := range []string{"overflow", "empty-item", "dash-only", "dangling-dash", "leading-dash", "triple-range", "double-dash", "wildcard-item", "garbage", "blank", "plus", "soup"} {
			if kinds[k] {
				cls = append(cls, "tok:"+k)
			}
		}
		nt := status == v19Invalid || (status == v19Valid && n >= 2)
		st.Case(nt, expr, cls, func() string {
			if status == v19Valid {
				return fmt.Sprintf("%q valid -> %s", expr, v19RangesString(want.ranges()))
			}
			return fmt.Sprintf("%q %s", expr, cls[0])
		})
		u, err := v19SafeParse(expr)
		if err != nil {
			rt.Fatalf("C19 expression %q: %v", expr, err)
		}
		switch status {
		case v19Valid:
			if err := v19CheckUnion(u, want, false, nil); err != nil {
				rt.Fatalf("C19 expression %q (denotes %s): parsed to %v: %v", expr, v19RangesString(want.ranges()), u, err)
			}
		case v19Invalid:
			if len(u) != 0 {
				rt.Fatalf("C19 expression %q is not a port expression (%v) but was accepted as %v", expr, cls, u)
			}
		default:
			if len(u) == 0 {
				return // rejected: fine
			}
			// accepted by a lenient reading: the only reading we can name is "blanks and plus signs dropped"
			stripped := strings.NewReplacer(" ", "", "\t", "", "\n", "", "\r", "", "\v", "", "\f", "", "+", "").Replace(expr)
			if s2, w2 := v19RefInto(stripped, 3); s2 == v19Valid {
				if err := v19CheckUnion(u, w2, false, nil); err != nil {
					rt.Fatalf("C19 expression %q accepted as %v, which is not the set of its stripped reading %q: %v", expr, u, stripped, err)
				}
				return
			}
			// otherwise only the normal form can be demanded
			for i, r := range u {
				if r.Start > r.End || (i > 0 && int(r.Start) <= int(u[i-1].End)+1) {
					rt.Fatalf("C19 expression %q accepted as %v, which is not normalised", expr, u)
				}
			}
		}
	})
}

// TestVerifC19_ExprTable: fixed corner expressions (plain, library-free replay of the corners).
func TestVerifC19_ExprTable(t *testing.T) {
	st := newVStats("TestVerifC19_ExprTable")
	defer st.Flush()
	valid := []string{
		"0", "65535", "0-65535", "65535-0", "0,65535", "65534,65535", "65535,65534", "65534-65535,65533", "0-1,2-3,4-5",
		"1,2,3,4,5", "5,4,3,2,1", "10-20,21-30", "21-30,10-20", "10-20,20-30", "10-30,15-20", "15-20,10-30", "10-20,22-30",
		"65530-65535,65535", "65535,65530-65535", "0-0", "00080", "000000000000000000000080-0081", "1-65535,0", "0-65534,65535",
		"32767,32768", "32768-32767", "all", "*", "443,443,443", "1000-2000,1500-2500,2501,2503",
	}
	for _, e := range valid {
		stt, want := v19Ref(e)
		if stt != v19Valid {
			t.Fatalf("C19 harness self-check: %q should be valid in the reference grammar", e)
		}
		st.Case(true, e, []string{"table-valid"}, func() string { return e })
		u, err := v19SafeParse(e)
		if err != nil {
			t.Fatalf("C19 expression %q: %v", e, err)
		}
		if err := v19CheckUnion(u, want, true, nil); err != nil {
			t.Fatalf("C19 expression %q (denotes %s): parsed to %v: %v", e, v19RangesString(want.ranges()), u, err)
		}
	}
	invalid := []string{
		"", ",", ",,", "1,", ",1", "1,,2", "-", "1-", "-1", "1-2-3", "1--2", "65536", "65536-65537", "1-65536", "70000", "99999",
		"4294967376", "18446744073709551696", "http", "80a", "a80", "8x0", "1-2,x", "1;2", "-,,", "1234-ggez",
	}
	for _, e := range invalid {
		if stt, _ := v19Ref(e); stt != v19Invalid {
			t.Fatalf("C19 harness self-check: %q should be invalid in the reference grammar", e)
		}
		st.Case(true, e, []string{"table-invalid"}, func() string { return e })
		u, err := v19SafeParse(e)
		if err != nil {
			t.Fatalf("C19 expression %q: %v", e, err)
		}
		if len(u) != 0 {
			t.Fatalf("C19 expression %q is not a port expression but was accepted as %v", e, u)
		}
	}
}
