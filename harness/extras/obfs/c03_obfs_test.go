package obfs

// C03 — peer-controlled bytes never crash the process (Salamander / Gecko transports).
//
// Anybody on the Internet can send UDP datagrams to the listening socket; they go
// socket -> obfsPacketConn.ReadFrom (Salamander, 2048-byte read buffer) ->
// geckoPacketConn.ReadFrom (frame decode + per-source reassembly) -> quic-go.
// The harness plays the socket (scripted datagrams from many source addresses,
// including zero-length and over-long ones) and the reader (quic-go style loop
// with a 1452-byte or a 2048-byte buffer).
//
// Oracle: no panic; ReadFrom keeps returning; a well-formed packet / a well-formed
// fragmented message from a fresh source sent after the junk is delivered intact
// (service continues). Encoders are the harness's own (BLAKE2b keystream and
// Gecko frame layout from the format comments / PROTOCOL notes).

import (
	"bytes"
	"encoding/hex"
	"fmt"
	"net"
	"runtime/debug"
	"strings"
	"testing"
	"time"

	"golang.org/x/crypto/blake2b"
	"pgregory.net/rapid"
)

func v03Guard(fn func()) (pv any, stack string) {
	defer func() {
		if r := recover(); r != nil {
			pv, stack = r, string(debug.Stack())
		}
	}()
	fn()
	return nil, ""
}

func v03Tight(b []byte) []byte {
	c := make([]byte, len(b))
	copy(c, b)
	return c[:len(c):len(c)]
}

func v03Hex(b []byte) string {
	if len(b) > 200 {
		return fmt.Sprintf("%s…(%d bytes)", hex.EncodeToString(b[:200]), len(b))
	}
	return hex.EncodeToString(b)
}

func v03Fill(n int, salt byte) []byte {
	b := make([]byte, n)
	for i := range b {
		b[i] = byte(i)*17 + salt
	}
	return b
}

var v03PSK = []byte("c03 shared secret")

// own Salamander encoder: salt(8) || payload XOR BLAKE2b-256(psk || salt)[i mod 32]
func v03Salamander(psk []byte, salt [8]byte, payload []byte) []byte {
	key := blake2b.Sum256(append(append([]byte(nil), psk...), salt[:]...))
	out := append([]byte(nil), salt[:]...)
	for i, c := range payload {
		out = append(out, c^key[i%32])
	}
	return out
}

// own Gecko frame encoder (no validation at all: hostile fields allowed)
func v03GeckoFrame(flag, msgID, idx, total byte, padLen uint16, padActual int, payload []byte) []byte {
	b := []byte{flag, msgID, idx<<4 | total&0x0f, byte(padLen >> 8), byte(padLen)}
	b = append(b, v03Fill(padActual, 0xee)...)
	return append(b, payload...)
}

// ---- scripted socket ----

type v03Pkt struct {
	src  *net.UDPAddr
	data []byte
}

type v03Raw struct {
	script []v03Pkt
	pos    int
	endErr error
}

func (r *v03Raw) ReadFrom(p []byte) (int, net.Addr, error) {
	if r.pos >= len(r.script) {
		return 0, nil, r.endErr
	}
	k := r.script[r.pos]
	r.pos++
	return copy(p, k.data), k.src, nil // a UDP socket truncates to the buffer
}
func (r *v03Raw) WriteTo(p []byte, _ net.Addr) (int, error) { return len(p), nil }
func (r *v03Raw) Close() error                              { return nil }
func (r *v03Raw) LocalAddr() net.Addr                       { return &net.UDPAddr{IP: net.IPv4(127, 0, 0, 1), Port: 443} }
func (r *v03Raw) SetDeadline(time.Time) error               { return nil }
func (r *v03Raw) SetReadDeadline(time.Time) error           { return nil }
func (r *v03Raw) SetWriteDeadline(time.Time) error          { return nil }

func v03Src(i int) *net.UDPAddr {
	return &net.UDPAddr{IP: net.IPv4(10, byte(i>>16), byte(i>>8), byte(i)), Port: 1000 + i%60000}
}

type v03Got struct {
	data []byte
	from string
}

// v03ReadAll is the reader loop quic-go runs: until the socket reports an error.
func v03ReadAll(conn net.PacketConn, bufSize int, maxReads int) (got []v03Got, endErr error) {
	p := make([]byte, bufSize)
	for i := 0; i < maxReads; i++ {
		n, addr, err := conn.ReadFrom(p)
		if err != nil {
			return got, err
		}
		if n < 0 || n > len(p) {
			panic(fmt.Sprintf("ReadFrom returned n=%d for a %d-byte buffer", n, len(p)))
		}
		a := "<nil>"
		if addr != nil {
			a = addr.String()
		}
		got = append(got, v03Got{append([]byte(nil), p[:n]...), a})
	}
	return got, fmt.Errorf("v03: reader did not see the socket error after %d reads", maxReads)
}

func v03Has(got []v03Got, data []byte, from net.Addr) bool {
	for _, g := range got {
		if g.from == from.String() && bytes.Equal(g.data, data) {
			return true
		}
	}
	return false
}

// ---- Salamander ----

func v03RunDeobfuscate(in []byte, outLen int) (string, error) {
	ob, err := newSalamanderObfuscator(v03PSK)
	if err != nil {
		return "", err
	}
	tight := v03Tight(in)
	out := make([]byte, outLen)
	var n int
	pv, stack := v03Guard(func() { n = ob.Deobfuscate(tight, out) })
	if pv != nil {
		return "PANIC", fmt.Errorf("Salamander Deobfuscate panicked: %v\ninput (hex, %d bytes, cap==len), out buffer %d: %s\n%s", pv, len(in), outLen, v03Hex(in), stack)
	}
	if n < 0 || n > outLen {
		return "bad-n", fmt.Errorf("Deobfuscate returned n=%d for a %d-byte output buffer (input %d bytes)", n, outLen, len(in))
	}
	// service continues
	want := []byte("still-alive")
	m := ob.Deobfuscate(v03Salamander(v03PSK, [8]byte{1, 2, 3, 4, 5, 6, 7, 8}, want), out[:cap(out)])
	if outLen >= len(want) && (m != len(want) || !bytes.Equal(out[:m], want)) {
		return "", fmt.Errorf("service did not continue: a well-formed Salamander packet after input %s decoded to %q", v03Hex(in), out[:max(m, 0)])
	}
	if n == 0 {
		return "dropped", nil
	}
	return "decoded", nil
}

func TestVerifC03_SalamanderDeobfuscate(t *testing.T) {
	st := newVStats("TestVerifC03_SalamanderDeobfuscate")
	defer st.Flush()
	rapid.Check(t, func(rt *rapid.T) {
		l := rapid.SampledFrom([]int{9, 8, 7, 0, 1, 10, 40, 1200, 1459, 1460, 1461, 2039, 2040, 2041, 2047, 2048, 4096}).Draw(rt, "len")
		if rapid.Bool().Draw(rt, "uniform") {
			l = rapid.IntRange(0, 2048).Draw(rt, "ulen")
		}
		in := v03Fill(l, rapid.Byte().Draw(rt, "salt"))
		outLen := rapid.SampledFrom([]int{1452, 2048, 1500, 65536}).Draw(rt, "outLen")
		cls, err := v03RunDeobfuscate(in, outLen)
		st.Case(l > 8, fmt.Sprintf("%s|%d|%d", cls, l, outLen), []string{cls}, func() string { return fmt.Sprintf("in=%d out=%d -> %s", l, outLen, cls) })
		if err != nil {
			rt.Fatalf("C03: %v", err)
		}
	})
}

// ---- obfsPacketConn.ReadFrom ----

func v03RenderScript(script []v03Pkt) string {
	var sb strings.Builder
	for i, k := range script {
		if i >= 60 {
			fmt.Fprintf(&sb, "  … %d more datagrams\n", len(script)-i)
			break
		}
		fmt.Fprintf(&sb, "  #%d from %s (%d bytes): %s\n", i, k.src, len(k.data), v03Hex(k.data[:min(len(k.data), 48)]))
	}
	return sb.String()
}

func v03RunObfsConn(script []v03Pkt, bufSize int) (classes []string, err error) {
	good := []byte("good-quic-packet")
	goodSrc := v03Src(999999)
	full := append(append([]v03Pkt(nil), script...), v03Pkt{goodSrc, v03Salamander(v03PSK, [8]byte{9, 9, 9, 9, 9, 9, 9, 9}, good)})
	raw := &v03Raw{script: full, endErr: net.ErrClosed}
	conn, werr := WrapPacketConnSalamander(raw, v03PSK)
	if werr != nil {
		return nil, werr
	}
	var got []v03Got
	var endErr error
	pv, stack := v03Guard(func() { got, endErr = v03ReadAll(conn, bufSize, len(full)+5) })
	if pv != nil {
		return nil, fmt.Errorf("obfsPacketConn.ReadFrom panicked: %v\nreader buffer %d, datagrams:\n%s%s", pv, bufSize, v03RenderScript(script), stack)
	}
	if endErr != net.ErrClosed {
		return nil, fmt.Errorf("reader loop ended with %v, not with the socket's error\n%s", endErr, v03RenderScript(script))
	}
	if !v03Has(got, good, goodSrc) {
		return nil, fmt.Errorf("service did not continue: the well-formed packet after the junk was not delivered (reader got %d packets)\n%s", len(got), v03RenderScript(script))
	}
	if len(got) > 1 {
		classes = append(classes, "junk-decoded")
	}
	if len(got)-1 < len(script) {
		classes = append(classes, "junk-dropped")
	}
	return classes, nil
}

func v03GenJunkDatagram(rt *rapid.T) []byte {
	l := rapid.SampledFrom([]int{0, 1, 7, 8, 9, 13, 14, 100, 1200, 1460, 1461, 2040, 2041, 2048, 2049, 3000}).Draw(rt, "jlen")
	return v03Fill(l, rapid.Byte().Draw(rt, "jsalt"))
}

func TestVerifC03_ObfsConnReadFrom(t *testing.T) {
	st := newVStats("TestVerifC03_ObfsConnReadFrom")
	defer st.Flush()
	rapid.Check(t, func(rt *rapid.T) {
		var script []v03Pkt
		for k := rapid.IntRange(1, 12).Draw(rt, "n"); k > 0; k-- {
			script = append(script, v03Pkt{v03Src(rapid.IntRange(0, 3).Draw(rt, "src")), v03GenJunkDatagram(rt)})
		}
		bufSize := rapid.SampledFrom([]int{1452, 2048}).Draw(rt, "bufSize")
		classes, err := v03RunObfsConn(script, bufSize)
		fp := ""
		for _, k := range script {
			fp += fmt.Sprintf("%d,", len(k.data))
		}
		st.Case(true, fp+fmt.Sprint(bufSize), classes, func() string { return fmt.Sprintf("buf=%d\n%s", bufSize, v03RenderScript(script)) })
		if err != nil {
			rt.Fatalf("C03: %v", err)
		}
	})
}

// ---- Gecko frame decoder ----

func v03RunDecodeFrame(in []byte) (string, error) {
	tight := v03Tight(in)
	var cls string
	pv, stack := v03Guard(func() {
		h, payload, err := decodeFrame(tight)
		switch {
		case err == errFrameTruncated:
			cls = "err:truncated"
		case err == errFrameInvalid:
			cls = "err:invalid"
		case err != nil:
			cls = "err:other"
		default:
			cls = "ok"
			if len(payload) > 0 {
				_ = payload[len(payload)-1]
			}
			_ = h
		}
	})
	if pv != nil {
		return "PANIC", fmt.Errorf("gecko decodeFrame panicked: %v\ninput (hex, %d bytes, cap==len): %s\n%s", pv, len(in), v03Hex(in), stack)
	}
	h, payload, err := decodeFrame(v03GeckoFrame(0x80, 7, 1, 3, 4, 4, []byte("abc")))
	if err != nil || h.msgID != 7 || h.chunkIdx != 1 || h.totalChunks != 3 || h.padLen != 4 || string(payload) != "abc" {
		return cls, fmt.Errorf("service did not continue: a well-formed frame after %s decoded to %+v %q %v", v03Hex(in), h, payload, err)
	}
	return cls, nil
}

func v03GenFrame(rt *rapid.T) (frame []byte, desc string) {
	flag := v03Mostly(rt, "flag", []byte{0x80, 0x81, 0xff, 0xc0, 0x00, 0x7f})
	msgID := byte(rapid.SampledFrom([]int{1, 1, 2, 3, 0, 255}).Draw(rt, "msgID"))
	total := byte(v03Mostly(rt, "total", []int{3, 2, 2, 4, 8, 0, 1, 9, 15}))
	var idx byte
	switch rapid.IntRange(0, 5).Draw(rt, "idxMode") {
	case 0:
		idx = total // one past the end
	case 1:
		idx = byte(rapid.IntRange(0, 15).Draw(rt, "idxAny"))
	default:
		if total > 0 {
			idx = byte(rapid.IntRange(0, int(total)-1).Draw(rt, "idxIn"))
		}
	}
	plen := rapid.SampledFrom([]int{0, 1, 3, 20, 300, 1100}).Draw(rt, "plen")
	padActual := rapid.SampledFrom([]int{0, 0, 1, 5, 100, 700}).Draw(rt, "pad")
	padLen := uint16(padActual)
	switch rapid.IntRange(0, 7).Draw(rt, "padLie") {
	case 0:
		padLen = uint16(padActual + plen) // exactly up to the end: empty payload
	case 1:
		padLen = uint16(padActual + plen + 1) // one past the end
	case 2:
		padLen = rapid.SampledFrom([]uint16{0xffff, 0x8000, 2043, 2044, 2048}).Draw(rt, "padBig")
	}
	frame = v03GeckoFrame(flag, msgID, idx&0x0f, total, padLen, padActual, v03Fill(plen, msgID+idx))
	if rapid.IntRange(0, 11).Draw(rt, "fcut") == 0 {
		frame = frame[:rapid.IntRange(0, min(len(frame), 6)).Draw(rt, "fcutAt")]
	}
	return frame, fmt.Sprintf("flag=%#x id=%d idx=%d/%d pad=%d(actual %d) payload=%d len=%d", flag, msgID, idx, total, padLen, padActual, plen, len(frame))
}

// v03Mostly returns choices[0] (the well-formed one) most of the time.
func v03Mostly[T any](rt *rapid.T, label string, choices []T) T {
	if rapid.IntRange(0, 9).Draw(rt, label+"_std") < 6 {
		return choices[0]
	}
	return rapid.SampledFrom(choices).Draw(rt, label)
}

func TestVerifC03_GeckoFrame(t *testing.T) {
	st := newVStats("TestVerifC03_GeckoFrame")
	defer st.Flush()
	rapid.Check(t, func(rt *rapid.T) {
		var frame []byte
		var desc string
		if rapid.IntRange(0, 9).Draw(rt, "arbitrary") == 9 {
			frame, desc = rapid.SliceOfN(rapid.Byte(), 0, 12).Draw(rt, "bytes"), "arbitrary"
		} else {
			frame, desc = v03GenFrame(rt)
		}
		cls, err := v03RunDecodeFrame(frame)
		nt := len(frame) >= geckoHeaderSize && frame[0]&0x80 != 0 // header fields are looked at
		st.Case(nt, fmt.Sprintf("%s|%s", cls, v03Hex(frame[:min(len(frame), 5)])), []string{cls}, func() string { return desc + " -> " + cls })
		if err != nil {
			rt.Fatalf("C03: %v", err)
		}
	})
}

// ---- full Gecko stack ----

type v03GeckoCase struct {
	script  []v03Pkt // already Salamander-encoded datagrams
	plain   []string // description per datagram
	bufSize int
	minPkt  int
	maxPkt  int
	shape   string
	bigSrc  []int // sources of complete well-formed messages with large totals
	bigLen  []int // their reassembled sizes
}

func (c *v03GeckoCase) render() string {
	var sb strings.Builder
	fmt.Fprintf(&sb, "shape=%s reader buffer=%d\n", c.shape, c.bufSize)
	for i, d := range c.plain {
		if i >= 60 {
			fmt.Fprintf(&sb, "  … %d more datagrams\n", len(c.plain)-i)
			break
		}
		fmt.Fprintf(&sb, "  #%d from %s: %s\n", i, c.script[i].src, d)
	}
	return sb.String()
}

func v03RunGecko(c *v03GeckoCase) (classes []string, err error) {
	goodSrc := v03Src(888888)
	msg := append([]byte{0xc3}, v03Fill(299, 0x42)...) // a long-header packet in three chunks, out of order
	short := append([]byte{0x41}, v03Fill(40, 0x24)...)
	full := append([]v03Pkt(nil), c.script...)
	for _, i := range []int{2, 0, 1} {
		fr := v03GeckoFrame(0x80, 200, byte(i), 3, uint16(10*i), 10*i, msg[i*100:i*100+100])
		full = append(full, v03Pkt{goodSrc, v03Salamander(v03PSK, [8]byte{byte(i), 1, 1, 1, 1, 1, 1, 1}, fr)})
	}
	full = append(full, v03Pkt{goodSrc, v03Salamander(v03PSK, [8]byte{7, 7, 7, 7, 7, 7, 7, 7}, short)})
	raw := &v03Raw{script: full, endErr: net.ErrClosed}
	conn, werr := WrapPacketConnGecko(raw, GeckoOptions{Password: v03PSK})
	if werr != nil {
		return nil, werr
	}
	defer conn.Close()
	var got []v03Got
	var endErr error
	pv, stack := v03Guard(func() { got, endErr = v03ReadAll(conn, c.bufSize, len(full)+5) })
	if pv != nil {
		return nil, fmt.Errorf("geckoPacketConn.ReadFrom panicked: %v\n%s%s", pv, c.render(), stack)
	}
	if endErr != net.ErrClosed {
		return nil, fmt.Errorf("reader loop ended with %v, not with the socket's error\n%s", endErr, c.render())
	}
	if !v03Has(got, msg, goodSrc) {
		return nil, fmt.Errorf("service did not continue: a well-formed 3-chunk message from a fresh source after the hostile traffic was not reassembled (reader got %d packets)\n%s", len(got), c.render())
	}
	if !v03Has(got, short, goodSrc) {
		return nil, fmt.Errorf("service did not continue: a short-header packet after the hostile traffic was not passed through\n%s", c.render())
	}
	g := conn.(*geckoPacketConn)
	g.mu.Lock()
	pending := len(g.reassembly)
	g.mu.Unlock()
	if pending > 0 {
		classes = append(classes, "left-pending")
	}
	if len(got) > 2 {
		classes = append(classes, "hostile-delivered")
	}
	for i, src := range c.bigSrc {
		want := min(c.bigLen[i], c.bufSize)
		cl := "complete:not-delivered"
		for _, g := range got {
			if g.from == v03Src(src).String() && len(g.data) == want {
				cl = "complete:delivered<=2048"
				if c.bigLen[i] > 2048 {
					cl = "complete:delivered>2048"
				}
				if c.bigLen[i] > 8192 {
					cl = "complete:delivered>8192"
				}
			}
		}
		classes = append(classes, cl)
	}
	classes = append(classes, "shape:"+c.shape)
	return classes, nil
}

func v03GenGeckoCase(rt *rapid.T) *v03GeckoCase {
	c := &v03GeckoCase{bufSize: rapid.SampledFrom([]int{1452, 2048}).Draw(rt, "bufSize"), shape: "mixed"}
	add := func(src int, plainFrame []byte, desc string, saltSeed int) {
		var salt [8]byte
		for i := range salt {
			salt[i] = byte(saltSeed >> (i % 4 * 8))
		}
		c.script = append(c.script, v03Pkt{v03Src(src), v03Salamander(v03PSK, salt, plainFrame)})
		c.plain = append(c.plain, desc)
	}
	switch rapid.IntRange(0, 29).Draw(rt, "shape") {
	case 17: // more pending reassemblies than the global cap: eviction path
		c.shape = "global-flood"
		for i := 0; i < 4200; i++ {
			add(i/8, v03GeckoFrame(0x80, byte(i%8), 0, 2, 0, 0, []byte{byte(i)}), "first chunk of 2", i)
		}
		return c
	case 23: // one source opening more messages than the per-source cap
		c.shape = "source-flood"
		for i := 0; i < 40; i++ {
			add(1, v03GeckoFrame(0x80, byte(i), 0, 2, 0, 0, []byte{byte(i)}), fmt.Sprintf("first chunk of 2, msg %d", i), i)
		}
	}
	addComplete := func(k int) {
		// a complete, well-formed message: 2..8 chunks, each as big as a datagram can carry
		// (2048-byte read buffers: 2048 - 8 salt - 5 header = 2035 payload bytes), any arrival order
		chunks := rapid.IntRange(2, 8).Draw(rt, "bigChunks")
		src := 500 + k
		total := 0
		type ch struct {
			idx, size, pad int
		}
		var cs []ch
		for i := 0; i < chunks; i++ {
			size := rapid.SampledFrom([]int{2035, 2035, 1100, 1100, 1195, 700, 683, 256, 1, 0}).Draw(rt, "bigSize")
			pad := 0
			if size < 2000 && rapid.Bool().Draw(rt, "bigPadded") {
				pad = rapid.IntRange(0, min(2035-size, 600)).Draw(rt, "bigPad")
			}
			cs = append(cs, ch{i, size, pad})
			total += size
		}
		cs = rapid.Permutation(cs).Draw(rt, "bigOrder")
		for _, x := range cs {
			add(src, v03GeckoFrame(0x80, byte(90+k), byte(x.idx), byte(chunks), uint16(x.pad), x.pad, v03Fill(x.size, byte(x.idx))),
				fmt.Sprintf("complete msg %d: chunk %d/%d payload=%d pad=%d (total %d)", k, x.idx, chunks, x.size, x.pad, total), 7000+k*16+x.idx)
		}
		c.bigSrc = append(c.bigSrc, src)
		c.bigLen = append(c.bigLen, total)
	}
	nBig := rapid.SampledFrom([]int{0, 1, 1, 2}).Draw(rt, "nBig")
	if nBig > 0 && rapid.Bool().Draw(rt, "bigFirst") {
		for k := 0; k < nBig; k++ {
			addComplete(k)
		}
		nBig = 0
	}
	defer func() {
		for k := 0; k < nBig; k++ {
			addComplete(10 + k)
		}
	}()
	n := rapid.IntRange(1, 40).Draw(rt, "n")
	for i := 0; i < n; i++ {
		src := rapid.IntRange(0, 3).Draw(rt, "src")
		switch rapid.IntRange(0, 9).Draw(rt, "kind") {
		case 9: // not Salamander at all
			j := v03GenJunkDatagram(rt)
			c.script = append(c.script, v03Pkt{v03Src(src), j})
			c.plain = append(c.plain, fmt.Sprintf("raw junk %d bytes", len(j)))
		case 8: // decodes to arbitrary plaintext
			b := rapid.SliceOfN(rapid.Byte(), 0, 16).Draw(rt, "plainBytes")
			add(src, b, "plaintext "+v03Hex(b), i)
		case 7: // short-header look-alike
			b := append([]byte{rapid.SampledFrom([]byte{0x40, 0x00, 0x7f}).Draw(rt, "shortFirst")}, v03Fill(rapid.SampledFrom([]int{0, 20, 1300, 2035}).Draw(rt, "shortLen"), 1)...)
			add(src, b, fmt.Sprintf("short-header %d bytes", len(b)), i)
		default:
			f, d := v03GenFrame(rt)
			add(src, f, d, i)
		}
	}
	return c
}

func TestVerifC03_GeckoReadFrom(t *testing.T) {
	st := newVStats("TestVerifC03_GeckoReadFrom")
	defer st.Flush()
	rapid.Check(t, func(rt *rapid.T) {
		c := v03GenGeckoCase(rt)
		classes, err := v03RunGecko(c)
		var fp strings.Builder
		fp.WriteString(c.shape)
		for i, d := range c.plain {
			if i >= 64 {
				break
			}
			fp.WriteString("|" + d)
		}
		st.Case(len(c.script) >= 2, fp.String(), classes, c.render)
		if err != nil {
			rt.Fatalf("C03: %v", err)
		}
	})
}

// FuzzVerifC03_ObfsDatagram: one raw datagram through Deobfuscate, the Salamander conn, and (as plaintext) decodeFrame.
func FuzzVerifC03_ObfsDatagram(f *testing.F) {
	f.Add([]byte{})
	f.Add(v03Fill(8, 1))
	f.Add(v03Fill(9, 1))
	f.Add(v03Fill(2048, 3))
	f.Add(v03GeckoFrame(0x80, 1, 0, 2, 0, 0, []byte("x")))
	f.Add(v03GeckoFrame(0x80, 1, 0, 2, 0xffff, 0, []byte("x")))
	f.Add(v03GeckoFrame(0x80, 1, 2, 2, 0, 0, nil))
	f.Add(v03GeckoFrame(0x80, 1, 0, 9, 0, 0, nil))
	f.Add([]byte{0x80, 0, 0x02, 0, 1})
	f.Add([]byte{0x80, 0, 0x02, 0})
	f.Fuzz(func(t *testing.T, data []byte) {
		if _, err := v03RunDeobfuscate(data, 2048); err != nil {
			t.Fatalf("C03: %v", err)
		}
		if _, err := v03RunDecodeFrame(data); err != nil {
			t.Fatalf("C03: %v", err)
		}
		if _, err := v03RunObfsConn([]v03Pkt{{v03Src(1), data}}, 1452); err != nil {
			t.Fatalf("C03: %v", err)
		}
	})
}

// FuzzVerifC03_GeckoStream: a sequence of plaintext frames (1-byte length prefix, 1-byte source) that the
// harness Salamander-encodes, so coverage guidance reaches the reassembler.
func FuzzVerifC03_GeckoStream(f *testing.F) {
	fr := func(src byte, frame []byte) []byte { return append([]byte{byte(len(frame)), src}, frame...) }
	f.Add(append(fr(1, v03GeckoFrame(0x80, 1, 0, 2, 0, 0, []byte("ab"))), fr(1, v03GeckoFrame(0x80, 1, 1, 2, 0, 0, []byte("cd")))...))
	f.Add(append(fr(1, v03GeckoFrame(0x80, 1, 0, 2, 0, 0, []byte("ab"))), fr(1, v03GeckoFrame(0x80, 1, 1, 3, 0, 0, []byte("cd")))...))
	f.Add(append(fr(1, v03GeckoFrame(0x80, 1, 1, 2, 3, 3, nil)), fr(2, v03GeckoFrame(0x80, 1, 1, 2, 0, 0, []byte("cd")))...))
	f.Add(fr(0, []byte{0x40, 1, 2, 3}))
	f.Add(fr(0, v03GeckoFrame(0x80, 9, 7, 8, 0xffff, 2, nil)))
	big := func(idx, total byte) []byte { return fr(0xf1, v03GeckoFrame(0x80, 5, idx, total, 0, 0, []byte("x"))) } // source 1, +2040 filler
	f.Add(append(append(big(0, 3), big(2, 3)...), big(1, 3)...))
	f.Add(append(append(append(big(0, 8), big(1, 8)...), big(2, 8)...), big(3, 8)...))
	f.Fuzz(func(t *testing.T, data []byte) {
		c := &v03GeckoCase{bufSize: 1452, shape: "fuzz"}
		for i := 0; len(data) >= 2 && i < 64; i++ {
			n, src := int(data[0]), int(data[1])%6
			stretch := int(data[1]) >> 4 // the frame is extended by stretch*136 filler bytes (up to a full datagram)
			data = data[2:]
			if n > len(data) {
				n = len(data)
			}
			frame := append(append([]byte(nil), data[:n]...), v03Fill(stretch*136, byte(i))...)
			if len(frame) > 2040 {
				frame = frame[:2040]
			}
			c.script = append(c.script, v03Pkt{v03Src(src), v03Salamander(v03PSK, [8]byte{byte(i)}, frame)})
			c.plain = append(c.plain, fmt.Sprintf("plaintext %s (+%d filler)", v03Hex(data[:n]), len(frame)-n))
			data = data[n:]
		}
		if _, err := v03RunGecko(c); err != nil {
			t.Fatalf("C03: %v", err)
		}
	})
}
